#!/bin/bash
# Wrapper for every registered check: fixes the Go environment (offline), makes
# sure the checker binary exists and is current, and runs it against /repo's
# working tree. Usage: run.sh <Cxx> [--tier quick|thorough] | --replay <file>
set -u
HERE="$(cd "$(dirname "$0")" && pwd)"
export GOFLAGS=-mod=mod GOPROXY=off GOSUMDB=off GOTOOLCHAIN=local GOWORK=off CGO_ENABLED=0
unset GOARCH GOOS
export VERIF_DIR="$HERE"
BIN="$HERE/bin/verifcheck"
if [ ! -x "$BIN" ] || [ -n "$(find "$HERE/checker" -name '*.go' -newer "$BIN" -print -quit 2>/dev/null)" ]; then
  (cd "$HERE/checker" && go build -o "$BIN" ./cmd/verifcheck) || { echo "INFRA-FAILURE: cannot build verifcheck"; exit 2; }
fi
exec "$BIN" "$@"
