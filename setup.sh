#!/bin/bash
# MANIFEST.setup_cmd: build the checker from files on disk only (offline).
set -eu
HERE="$(cd "$(dirname "$0")" && pwd)"
export GOFLAGS=-mod=mod GOPROXY=off GOSUMDB=off GOTOOLCHAIN=local GOWORK=off CGO_ENABLED=0
mkdir -p "$HERE/bin" "$HERE/out" "$HERE/evidence"
cd "$HERE/checker"
go build -o "$HERE/bin/verifcheck" ./cmd/verifcheck
echo "built $HERE/bin/verifcheck"
