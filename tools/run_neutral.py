#!/usr/bin/env python3
"""Runs every claimed property's quick check against every behaviour-preserving control
(/verif/controls/neutral/*.diff) on scratch copies of /repo. Any finding or infra failure is a
false alarm of the machinery. usage: run_neutral.py [names...]"""
import os, sys, json
sys.path.insert(0, os.path.dirname(os.path.abspath(__file__)))
import run_seeded as rs
import concurrent.futures as cf

def main():
    props = rs.served()
    nd = os.path.join(rs.HERE, "controls", "neutral")
    items = [(f[:-5], os.path.join(nd, f)) for f in sorted(os.listdir(nd)) if f.endswith(".diff")]
    if len(sys.argv) > 1:
        items = [it for it in items if any(it[0].startswith(a) for a in sys.argv[1:])]
    bad = 0
    with cf.ThreadPoolExecutor(max_workers=8) as ex:
        for name, res in ex.map(lambda it: rs.run_one(it[0], it[1], props), items):
            if "error" in res:
                print("%-40s ERROR %s" % (name, res["error"])); bad += 1; continue
            al = {pid: (r["rules"] or r["infra"]) for pid, r in res.items() if r["exit"] != 0}
            print("%-40s %s" % (name, "silent" if not al else "FALSE-ALARM " + json.dumps(al)))
            for pid, r in res.items():
                if r["exit"] != 0:
                    for f in r["findings"][:2]: print("      ", f[:260])
            bad += 1 if al else 0
    print("false alarms:", bad)
    sys.exit(1 if bad else 0)

if __name__ == "__main__":
    main()
