#!/usr/bin/env python3
"""Builds /verif/controls/controls.json:
 - breaking controls: every seeded change and defect reverse-patch, with the rules that
   were observed to fire per property (from seeded/RESULTS.json, written by run_seeded.py);
 - neutral controls: behaviour-preserving edits under controls/neutral/ — no rule may fire."""
import json, os
HERE = os.path.dirname(os.path.dirname(os.path.abspath(__file__)))
res = json.load(open(os.path.join(HERE, "seeded", "RESULTS.json")))
out = []
for name in sorted(res):
    r = res[name]
    if "error" in r: continue
    expect = {pid: v["rules"] for pid, v in r.items() if v["exit"] == 1 and v["rules"]}
    if not expect: continue
    if name.startswith("defect-"):
        patch = "controls/defects/%s.diff" % name[len("defect-"):]
    else:
        patch = "seeded/%s/patch.diff" % name
    out.append({"name": name, "patch": patch, "kind": "breaking", "expect": expect})
nd = os.path.join(HERE, "controls", "neutral")
for f in sorted(os.listdir(nd)):
    if f.endswith(".diff"):
        out.append({"name": "neutral-" + f[:-5], "patch": "controls/neutral/" + f, "kind": "neutral", "expect": {},
                    "note": "behaviour-preserving edit; the unedited suite passes with it; no rule of any property may report"})
dd = os.path.join(HERE, "controls", "drift")
for f in sorted(os.listdir(dd)) if os.path.isdir(dd) else []:
    if f.endswith(".diff"):
        out.append({"name": "drift-" + f[:-5], "patch": "controls/drift/" + f, "kind": "drift", "expect": {"C17": ["TV-ACTIONS"]},
                    "note": "behaviour-preserving edit of the generated parser WITHOUT the grammar source: the translation validation reports the drift between jsonpath.peg and jsonpath.peg.go (that is its job); no other rule may report"})
json.dump(out, open(os.path.join(HERE, "controls", "controls.json"), "w"), indent=1)
print(len(out), "controls")
