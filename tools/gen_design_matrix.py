#!/usr/bin/env python3
"""Rewrites the seeded-change matrix (§10) of DESIGN.md from seeded/RESULTS.json and seeded/*/meta.json."""
import json, os, re
HERE = os.path.dirname(os.path.dirname(os.path.abspath(__file__)))
res = json.load(open(os.path.join(HERE, "seeded", "RESULTS.json")))
rows = []
for name in sorted(res):
    r = res[name]
    if "error" in r: continue
    caught = {pid: v["rules"] for pid, v in r.items() if v["exit"] == 1 and v["rules"]}
    if name.startswith("defect-"):
        what = "reverse patch of fix " + name[len("defect-"):] + " (re-introduces the defect)"
        own = ""
    else:
        m = json.load(open(os.path.join(HERE, "seeded", name, "meta.json")))
        what = re.sub(r"\s+", " ", m.get("summary", ""))[:230]
        own = m.get("breaks_property", "")
        m["detected_by"] = caught if caught else "not detected (see DESIGN.md §10)"
        json.dump(m, open(os.path.join(HERE, "seeded", name, "meta.json"), "w"), indent=1)
    by = "; ".join("%s: %s" % (p, ", ".join(rs)) for p, rs in sorted(caught.items())) or "**not detected**"
    mark = ""
    if own:
        mark = "yes" if own in caught else ("other property" if caught else "no")
    rows.append("| %s | %s | %s | %s |" % (name, what.replace("|", "/"), by, mark))
table = "| change | what it does | reported by (property: rules) | own property caught |\n|---|---|---|---|\n" + "\n".join(rows)
p = os.path.join(HERE, "DESIGN.md")
s = open(p).read()
begin, end = "<!-- SEED-MATRIX-BEGIN -->", "<!-- SEED-MATRIX-END -->"
if begin not in s:
    s += "\n" + begin + "\n" + end + "\n"
s = s[:s.index(begin) + len(begin)] + "\n" + table + "\n" + s[s.index(end):]
open(p, "w").write(s)
print(len(rows), "rows")


# ---- per-property "as built" table in §4 (from MANIFEST.json, which gen_manifest.py derives from the binary) ----
def prop_table():
    import json, os, re
    here = os.path.dirname(os.path.dirname(os.path.abspath(__file__)))
    m = json.load(open(os.path.join(here, "MANIFEST.json")))
    rows = ["| property | level | rules run (quick and thorough) | what is decided / what is not |", "|---|---|---|---|"]
    for c in m["checks"]:
        note = c.get("level_note", "")
        rules = ""
        mm = re.search(r"Rules run: ([^.]*)\.", note)
        if mm:
            rules = mm.group(1).strip()
            note = note[:mm.start()].strip()
        txt = (c["level_claimed"]["text"] + " " + note).replace("|", "\\|").replace("\n", " ")
        rows.append("| %s | %s | %s | %s |" % (c["property_id"], c["level_claimed"]["category"], rules, txt))
    for na in m.get("not_applicable", []):
        rows.append("| %s | not applicable | — | %s |" % (na.get("property_id", "?"), na.get("reason", "").replace("|", "\\|")))
    dp = os.path.join(here, "DESIGN.md")
    d = open(dp).read()
    b, e = "<!-- PROP-TABLE-BEGIN -->", "<!-- PROP-TABLE-END -->"
    if b in d and e in d:
        d = d[:d.index(b) + len(b)] + "\n" + "\n".join(rows) + "\n" + d[d.index(e):]
        open(dp, "w").write(d)
        print(len(rows) - 2, "property rows")

prop_table()
