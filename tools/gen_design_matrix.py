#!/usr/bin/env python3
"""Rewrites the seeded-change matrix (§10) of DESIGN.md from seeded/RESULTS.json and seeded/*/meta.json."""
import json, os, re
HERE = os.path.dirname(os.path.dirname(os.path.abspath(__file__)))
res = json.load(open(os.path.join(HERE, "seeded", "RESULTS.json")))
rows = []
for name in sorted(res):
    r = res[name]
    if "error" in r: continue
    caught = {pid: v["rules"] for pid, v in r.items() if v["exit"] == 1 and v["rules"]}
    if name.startswith("defect-"):
        what = "reverse patch of fix " + name[len("defect-"):] + " (re-introduces the defect)"
        own = ""
    else:
        m = json.load(open(os.path.join(HERE, "seeded", name, "meta.json")))
        what = re.sub(r"\s+", " ", m.get("summary", ""))[:230]
        own = m.get("breaks_property", "")
        m["detected_by"] = caught if caught else "not detected (see DESIGN.md §10)"
        json.dump(m, open(os.path.join(HERE, "seeded", name, "meta.json"), "w"), indent=1)
    by = "; ".join("%s: %s" % (p, ", ".join(rs)) for p, rs in sorted(caught.items())) or "**not detected**"
    mark = ""
    if own:
        mark = "yes" if own in caught else ("other property" if caught else "no")
    rows.append("| %s | %s | %s | %s |" % (name, what.replace("|", "/"), by, mark))
table = "| change | what it does | reported by (property: rules) | own property caught |\n|---|---|---|---|\n" + "\n".join(rows)
p = os.path.join(HERE, "DESIGN.md")
s = open(p).read()
begin, end = "<!-- SEED-MATRIX-BEGIN -->", "<!-- SEED-MATRIX-END -->"
if begin not in s:
    s += "\n" + begin + "\n" + end + "\n"
s = s[:s.index(begin) + len(begin)] + "\n" + table + "\n" + s[s.index(end):]
open(p, "w").write(s)
print(len(rows), "rows")
