#!/bin/bash
# usage: with_patch.sh <patch.diff> -- <command...>
# Copies /repo's working tree (without .git) to a scratch directory, applies the
# patch there, runs the command with VERIF_REPO pointing at the copy, removes it.
set -u
PATCH=$(readlink -f "$1"); shift; [ "$1" = "--" ] && shift
SRC=${VERIF_REPO_SRC:-/repo}
TMP=$(mktemp -d "${TMPDIR:-/tmp}/verif-ctl.XXXXXX")
trap 'rm -rf "$TMP"' EXIT
rsync -a --exclude .git "$SRC"/ "$TMP"/
if ! (cd "$TMP" && patch -p1 -s --no-backup-if-mismatch < "$PATCH"); then
  echo "PATCH-DOES-NOT-APPLY $PATCH"; exit 3
fi
VERIF_REPO="$TMP" "$@"
