#!/usr/bin/env python3
"""Regression of a FEW properties over the WHOLE control corpus after a rule / engine change
(scratch copies, like run_seeded.py): every neutral control must stay silent for them, and every
seeded / defect control must give the exit code and rule set recorded in seeded/RESULTS.json.
usage: regress_props.py Cxx [Cyy ...]      (about 6.5 min per two properties with 14 workers)
Prints ALARM / CHANGED lines and a count; writes nothing."""
import sys, os, json, concurrent.futures as cf
sys.path.insert(0,'/verif/tools')
import run_seeded as rs
props=sys.argv[1:] or ['C03','C11']
items=[]
for d in sorted(os.listdir('/verif/seeded')):
    p='/verif/seeded/%s/patch.diff'%d
    if os.path.isfile(p): items.append((d,p))
for f in sorted(os.listdir('/verif/controls/defects')):
    if f.endswith('.diff'): items.append(('defect-'+f[:-5],'/verif/controls/defects/'+f))
for f in sorted(os.listdir('/verif/controls/neutral')):
    if f.endswith('.diff'): items.append(('N:'+f[:-5],'/verif/controls/neutral/'+f))
old=json.load(open('/verif/seeded/RESULTS.json'))
bad=0
with cf.ThreadPoolExecutor(max_workers=14) as ex:
    for name,res in ex.map(lambda it: rs.run_one(it[0],it[1],props), items):
        if 'error' in res: print(name,'ERROR',res['error']); bad+=1; continue
        for pid in props:
            e=res[pid]['exit']
            if name.startswith('N:'):
                if e!=0: print('ALARM',name,pid,res[pid]['rules'],res[pid]['infra']); bad+=1
            else:
                o=old.get(name,{}).get(pid,{})
                if o and (o['exit']!=e or o['rules']!=res[pid]['rules']): print('CHANGED',name,pid,o['exit'],o['rules'],'->',e,res[pid]['rules']); bad+=1
print('items',len(items),'differences',bad)
