#!/usr/bin/env python3
"""Regenerates /verif/MANIFEST.json from the list of properties the checker
binary actually serves (`verifcheck list`) plus the texts below. A property the
binary does not serve is listed under not_applicable with the reason given
here, so the manifest can never claim an engine that is not built."""
import json, subprocess, sys, os

HERE = os.path.dirname(os.path.dirname(os.path.abspath(__file__)))

CLAIMS = {
 "C01": dict(cat="other", tech="static analysis: the structural necessary conditions of the step-by-step selection semantics, clause by clause (forwarding and linking rules, order / worklist shape, zone abstract interpretation of subscripts against Python's table, truth-table and selection check of the filter, function-node call shape), on go/ssa + points-to + the decompiled grammar",
   text="Necessary conditions only, one group per clause of the statement: names reach the lookup unchanged and null members are members; every step hands the next one the same root, the same sink and exactly the selected child, and every step (member nodes of multi-name selectors included) is linked behind the previous one; wildcard / multi-name / union loops are complete and in written resp. sorted-key order over stable lists; recursive descent is pre-order and skips no container; index and slice subscripts produce exactly Python's indices; the filter hands on exactly the members whose verdict is true, verdict lists have length 1 or the member count, AND / OR / NOT are computed member by member over operands that see the same members; function nodes are called once with the selected value(s); success means at least one value was emitted.",
   note="Does NOT decide the property itself — the equality of the returned sequence with the step-by-step definition for all paths x documents needs an executable reference and comparison of values, which is another technique family. Claimed at level 'other' because each condition is genuinely necessary (breaking it breaks C01; all four C01-targeted seeded changes are reported under C01) and none is a proxy that fires on behaviour-preserving edits (21 neutral controls silent).", ref="§0b, §4 C01"),
 "C02": dict(cat="other", tech="static analysis: panic-value typing + recover shape (go/ssa), abstract interpretation of the PEG grammar over the action value stack (stack typing), size-change termination on the call graph, PEG well-formedness",
   text="Structural: every panic raised by parser code carries one of the four documented error types and is converted by an unconditional deferred recover registered right after the lock; no grammar derivation can make an action mis-pop or mis-assert the untyped value stack; the grammar is well-formed (no left recursion, no nullable repetition) and its start rule is total; hand-written recursion descends on the tree; conversion errors are never dropped. Holds for every input string because the abstract stack covers every derivation of the grammar, which translation validation ties to the generated code.",
   note="Decides the crash/typing/termination clauses, not 'bounded time' quantitatively nor panics inside the generated matcher's buffer indexing (relies on the end-symbol sentinel, compared as boilerplate), out-of-memory or stack depth for pathological nesting. Trusted: go/ssa, the PEG reader and the abstract stack interpreter in /verif/checker.", ref="§3.D, §3.E, §4 C02"),
 "C03": dict(cat="other", tech="static analysis: inductive postcondition over the retrieve family (go/ssa dominators), type-assertion / nil-guard / interface-equality inventories, size-change termination, zone abstract interpretation of subscripts",
   text="Structural: a retrieve-family function that returns a nil error has made its sink non-empty (so success is never empty and result[0] reads are in range); the only types ever converted to the runtime-error interface are the three documented ones and ErrorFunctionFailed is built only on the failure branch of a user-function call; no explicit panic, no unguarded reflect.TypeOf(nil).String(), no unchecked assertion on caller data outside validated comparator operands; recursion descends, loops are bounded; subscript arithmetic cannot overflow or leave [0,len).",
   note="Partly decided since: left[index]/right[index] in AND/OR/NOT are only reached on paths where both lists are known not to be one-element lists, and X[0] only under len(X)==1 (V-BOOL); rightValues[0] is read after validation of its list succeeded (V-VALIDATED); a comparison of two per-member operands cannot be built (V-TWO-CURRENT). Every verdict list has length 1 or the member count (L-CLASS, inductive over the query family) and the filter reads result[0] only where the length differs from the member count. Time bounds beyond termination are not decided.", ref="§3.E, §3.F, §3.G, §4 C03"),
 "C04": dict(cat="proof", tech="static analysis: whole-package Andersen points-to + write-effect analysis over go/ssa",
   text="Absence of an effect: every instruction reachable from the evaluation closure that can write memory (store, map update, append, copy, delete, clear, writing library call) is an obligation; it is discharged when the points-to set of the written cells contains no object of the caller's document (or of a value returned by a user function). All obligations are discharged on every run; plus: library calls that receive document memory are tabled read-only, and the accessor Set closures are unreachable from any library entry point. This covers every path, document and call history, which is why it can be claimed as a proof rather than a sampled check.",
   note="Trusted base: go/types+go/ssa (x/tools v0.29.0), the ~1.3 kLOC regions engine, the library-call effect table, absence of unsafe/cgo/linkname/reflect mutation (checked each run). User functions and explicit Accessor.Set calls are outside the claim by the property's own wording.", ref="§3.A, §4 C04"),
 "C05": dict(cat="other", tech="static analysis: points-to/write-effect analysis (shared-memory writes, result freshness, tree closure) + pool typestate on the CFG",
   text="Necessary core, structural: evaluation writes only memory it allocated in that call or a pooled scratch object (so nothing in the parsed tree, no global, no Config memory can change between calls); the returned slice is a fresh allocation that no library state points to; pooled objects are released only after their last use, never escape, and are truncated on release; a later Parse cannot reach an earlier tree.",
   note="Not decided: that two calls on equal documents compute equal values (the computation's determinism is C07's clause) and equality with a fresh Retrieve as such. The two one-element sentinel lists are exempt from the shared-write rule under premises the check re-verifies each run (DESIGN §3.A).", ref="§3.A, §3.B, §4 C05"),
 "C06": dict(cat="other", tech="static analysis: lockset/dominance rule for the global parser, global-variable inventory, shared-write effects (points-to), pool typestate",
   text="Necessary core, structural (effect/lockset argument, no schedule exploration): the only package-level mutable state is the parser (every function that touches it runs inside Parse between Lock and the deferred Unlock, which is registered before anything can panic), two sync.Pools and the mutex; every other global is never written after init; evaluation writes no memory shared between calls; pooled objects are private between Get and Put.",
   note="Not decided: anything that needs interleavings as such; races inside user functions or on documents the caller mutates concurrently.", ref="§3.A, §3.B, §4 C06"),
 "C07": dict(cat="other", tech="static analysis: map-iteration order-neutrality, sort dominance, pool typestate and worklist (LIFO + reverse push) shape on go/ssa + dominators",
   text="Structural and nearly the whole property: no map iteration can influence output except through a byte-wise sort applied to the collected keys on every path (or len<=1); the sorted slice is the one iterated, in order, for the whole loop and is released to the pool only after its last use; array / union / multi-name loops are complete ascending loops without early exit; recursive descent pops from the end of an explicit worklist and pushes children in descending order after visiting the parent (pre-order).",
   note="Assumes sort.StringSlice.Sort sorts byte-wise (stdlib). Order is structural in this code base, which is why a static rule decides it for all maps and insertion orders, where tests only sample Go's randomised iteration.", ref="§3.B, §4 C07"),
 "C08": dict(cat="other", tech="static analysis: sibling cross-check of node retrieve methods (argument forwarding to next, fan-out loops) on go/ssa",
   text="Partial, structural: every node hands `next` the same root, the same sink and exactly the child it selected (map[key] for the key tested, list[index], the function result, or current/root), for every selected child, and a failing branch never leaves the fan-out loop (errors are only accumulated and consulted after the loop when the sink is empty).",
   note="Also decided (added later): every per-node setting the parser applies to a node that may be a multi-name selector (next link, texts, accessor flag) reaches the member nodes the selector evaluates (tree-walker agreement, rule N-WALK — this found and fixed the `$..['a','b'].c` defect); presence of a member is decided by comma-ok lookups only (null member = member); no loop walks a list its callees can reach and overwrite. Does NOT decide the relational equality of the three retrievals as such.", ref="§3.F, §4 C08"),
 "C09": dict(cat="other", tech="static analysis: end-to-end wiring check operator token -> action -> builder -> comparator type -> machine comparison (grammar + go/ssa), mirror table, precedence shape of the grammar",
   text="Partial, structural: for the six comparison tokens the composition grammar alternative -> action -> builder (pop order) -> comparator constructed -> floating-point operator in its method is the identity on operator meaning; the swapped path of each ordering builder constructs the mirror comparator with both operands exchanged; `!=` is NOT(==); `||` binds looser than `&&`, looser than comparison/parentheses/`!`, with (left,right) built in pop order.",
   note="Also decided (added later): the per-node half of the Boolean-algebra clause — a symbolic execution of the AND / OR / NOT nodes checks, for every path and every path through the merge loop, the returned list's truth value at a member against the operator's truth table, with the length-1 whole-match convention as path facts (V-BOOL); no query writes into or returns the member list it was given, so sibling operands see the same members (V-INPUT-PURE, which found and fixed `$[?(@.x != $.y || @.c)]`); two per-member operands are rejected for every comparator (V-TWO-CURRENT). Does NOT decide the composition over whole filter expressions as a relation between query results.", ref="§3.F, §4 C09"),
 "C10": dict(cat="other", tech="static analysis: accept-map extraction from validator type switches, literal-kind -> validator agreement, validated-before-asserted dominance (go/ssa + go/types)",
   text="Partial, structural: each literal kind selects a validator that keeps exactly that JSON type (numbers: float64, and json.Number normalised to float64 on every path); ordering operators and regex embed the numeric / string validator and assert exactly the kept type after skipping the absence marker; path-vs-path uses reflect.DeepEqual with the permissive validator; a mistyped or missing operand is blanked, never asserted; the comparator call is dominated by successful validation of both operand lists.",
   note="Does NOT decide: which operand ends up on the right when both are non-member operands (the live `$.a == 1` vs `1 == $.a` json.Number discrepancy), nor DeepEqual's numeric semantics across decodings.", ref="§3.F, §4 C10"),
 "C11": dict(cat="other", tech="static analysis: zone (difference-bound matrix) abstract interpretation with trace partitioning over the subscript functions (go/ssa), 64- and 32-bit int",
   text="Totality and exactness: for every start/end/step/length no arithmetic operation on subscript values overflows, every index stored into the returned slice lies in [0,len-1], buffer writes of ascending loops are in range, and every loop's induction variable moves by a non-zero amount towards its bound (termination).",
   note="Exactness w.r.t. Python slicing, added later (I-EXACT): on every zone partition the first value, the bound and the step of the enumeration loop have exact linear forms over the operands and the length; they are compared with the table of Python's slice.indices (omitted bounds, value, value+len, the limits of [0,len] resp. [-1,len-1]), each alternative only under side conditions the partition entails; the loop stores its induction value at consecutive positions; a single index is value or value+len in range, else nothing; which subscript is built does not depend on the operands' numbers beyond a sign. The buffer bound of the descending loop is proved by an iteration-count lemma (DESIGN §0a). Not decided: behaviour for lengths above maxInt/16 (input model), and the union of several subscripts beyond 'each in written order' (O-SEQ).", ref="§3.G, §4 C11"),
 "C12": dict(cat="other", tech="static analysis: emission-site pairing (plain vs accessor branch) and flag-clearing coverage of retrieve edges (go/ssa + call graph)",
   text="Partial, structural: results are wrapped at the same three emission sites, under the node's own flag, around the very value the plain branch emits; the pass that clears the accessor flag for function arguments and filter operands reaches every node that can emit through any retrieve edge (next, inner identifiers of a multi-name selector, its union twin), and every place that attaches a parameter chain runs that pass.",
   note="Also: every node construction takes the parser's accessor flag (N-CTOR), tree walkers agree on the member edges (N-WALK), null members are members (N-PRESENCE). Does NOT decide equality of the two result sequences as such (follows only together with C01-style correctness).", ref="§3.F, §4 C12"),
 "C13": dict(cat="other", tech="static analysis: shape check of every Accessor{Get,Set} closure pair against the plain emission (go/ssa free-variable and effect analysis)",
   text="Large part, structural: at the map and list emission sites Get re-reads container[key] and Set is exactly one store of its argument into that same container[key], both capturing the very container/key the plain branch reads (not the value); at the any-value site Get returns the captured value and Set is nil; only root / current-root / function nodes use the any-value emitter.",
   note="Does NOT decide that the accessor at result index i belongs to the location a specification predicts (needs C01).", ref="§3.F, §4 C13"),
 "C14": dict(cat="other", tech="static analysis: call-shape rules for function nodes (once per invocation, argument provenance, guarded array unwrapping), lookup order, error provenance (go/ssa)",
   text="Partial, structural: the filter-function node calls the user function exactly once per invocation with its `current` and forwards the result; the aggregate node evaluates its parameter into a private pooled sink, calls the function exactly once with that sink's list, or with element 0 as an array only under the parameter's not-value-group test and a successful checked assertion; filter functions are looked up before aggregates; ErrorFunctionFailed is built only on the failure branch of that call.",
   note="Also: the root / current-root classification of an operand is applied below all function wrappers (N-HEAD); the step after a multi-name selector is linked to its members (N-WALK). Does NOT decide that the value-group flag consulted is correct for the chain (the live `$.a.*.f()` defect) nor left-to-right application of chained functions (builder logic).", ref="§3.F, §3.E, §4 C14"),
 "C15": dict(cat="other", tech="static analysis: per-node agreement of navigated container kinds, expected-kind constant, found-type source with nil guard, miss => MemberNotExist (go/ssa + go/types)",
   text="Partial, structural: for every node type the set of dynamic types it navigates into agrees with the expected-kind string of the ErrorTypeUnmatched it builds; the found string is \"null\" for nil and reflect.TypeOf(current).String() of the same value otherwise (nil-guarded); a key/index miss on a value of the right container type yields ErrorMemberNotExist; each error embeds the raising node's own descriptor.",
   note="Also: every branch error of a fan-out loop reaches the ranking helper unless results exist (N-DEEPEST), and the texts the ranking and the message use are set on every node that can fail, member nodes of a multi-name selector included (N-WALK — found and fixed `path=*`). Does NOT decide which of several ranked errors wins for a given document (depends on text lengths and traversal order).", ref="§3.F, §4 C15"),
 "C16": dict(cat="other", tech="static analysis: value-flow slice from parser constructor to map lookup (go/ssa) + translation-validated character classes of the identifier rules",
   text="Partial, structural: the key string handed to the single-identifier constructor reaches the map lookup through stores/loads/parameter passing only (no conversion, case mapping, trimming or slicing on the way); the character classes and escape alternatives the running parser accepts for identifiers are those of the published grammar (translation validation).",
   note="Also: both quote helpers return only what the one JSON string decoder returned, and that decoder returns only what encoding/json filled (U-DECODE). Does NOT decide that the quote-conversion loop of the single-quote helper is a correct transducer for every string.", ref="§3.F, §3.C, §4 C16"),
 "C17": dict(cat="translation_validation", tech="static analysis: decompilation of the generated goto-template parser back to PEG and rule-by-rule equivalence with jsonpath.peg; action ASTs compared; unit (rune vs byte) discipline; presence/dominance of semantic restrictions",
   text="Translation validation of jsonpath.peg.go against jsonpath.peg: every one of the grammar's rules is decompiled from the generated matcher and shown equivalent to its source rule (including -switch rewriting side conditions), every action body in Execute equals the grammar's action as Go AST, the engine boilerplate has the recorded shape; every documented semantic restriction guards construction; the reported position is a rune index and `near` is sliced in the same unit; the catch-all alternative is total and starts where the longest jsonpath prefix ends.",
   note="Not decided: that strconv/regexp accept what the prose calls 'valid for Go' (they are the definition). The boilerplate comparison is the one deliberate structural-shape check (file is generated, DO NOT EDIT).", ref="§3.C, §3.H, §4 C17"),
 "C18": dict(cat="other", tech="static analysis: whitespace policy table evaluated on the translation-validated grammar; no-space-in-semantic-capture rule; base-10 conversion flow (go/ssa)",
   text="Partial, structural: the `space` rule is adjacent on the stated side(s) of every token the property lists, in every alternative containing it (policy table checked on the grammar that translation validation ties to the running code); no capture whose text becomes a semantic value can contain `space`; index and number texts reach strconv.Atoi / ParseFloat(…,64) unmodified.",
   note="Also: the closing lookahead of every separated list is the list's own separator, blanks included; both quote styles go through the same decoder on every path (U-DECODE). Does NOT decide `.x` vs `['x']` beyond 'same constructor', nor `$`-omission behaviour.", ref="§3.C, §3.F, §4 C18"),
 "C19": dict(cat="other", tech="static analysis: total-reset on every exit of Parse (go/ssa dominance), PEG reset coverage of rule-written variables, configuration provenance, tree closure (points-to)",
   text="Necessary core, structural: the action-state struct of the global parser is overwritten as a whole (or field-complete) in the deferred closure on every exit, also on panic; the PEG matcher's reset re-initialises every variable its rule closures write; configuration-derived fields are assigned only from the current call's argument under a length guard; nothing reachable from the returned function points at the Config's maps or at parser-owned memory, and no persistent parser state points into an earlier tree.",
   note="Not decided: equality of outcomes across histories as such (behavioural).", ref="§3.A, §4 C19"),
 "C20": dict(cat="other", tech="static analysis: sentinel-type rule, interface-equality panic-safety inventory, assertion and nil-guard inventories, navigated-kind sets, validator accept maps (go/ssa + go/types)",
   text="Large part, structural: the absence marker has a package-private named type, so no caller value equals it; every interface ==/!= during evaluation has an operand that is nil, a value of a comparable concrete type, or validated operands; navigation only enters the two JSON container types and reports any other value by reflect type under a nil guard; ordering/regex/literal comparisons blank foreign types before asserting.",
   note="Not decided: behaviour of reflect.DeepEqual on exotic values (stdlib), and what user functions do with opaque values.", ref="§3.E, §3.F, §4 C20"),
}

NA = {
}

def main():
    served = {}
    out = subprocess.run([os.path.join(HERE, "run.sh"), "list"], capture_output=True, text=True)
    if out.returncode != 0:
        print(out.stdout, out.stderr); sys.exit("cannot list served properties")
    for line in out.stdout.splitlines():
        parts = line.split()
        if parts and parts[0].startswith("C") and parts[0][1:].isdigit():
            served[parts[0]] = parts[1:]
    props = [json.loads(l) for l in open(os.path.join(HERE, "properties.jsonl"))]
    checks, na = [], []
    for p in props:
        pid = p["id"]
        if pid in served and pid in CLAIMS:
            c = CLAIMS[pid]
            checks.append({
                "property_id": pid,
                "quick_cmd": "./run.sh %s --tier quick" % pid,
                "thorough_cmd": "./run.sh %s --tier thorough" % pid,
                "evidence_file": "/verif/evidence/%s.json" % pid,
                "replay_cmd_template": "./run.sh --replay {path}",
                "engine": "verifcheck",
                "level_claimed": {"category": c["cat"], "text": c["text"], "design_ref": "DESIGN.md " + c["ref"]},
                "level_note": c["note"] + " Rules run: " + " ".join(served[pid]) + ".",
                "technique": c["tech"],
            })
        elif pid in NA:
            na.append({"property_id": pid, "reason": NA[pid]})
        else:
            na.append({"property_id": pid, "reason": "not claimed yet: the static-analysis engine for this property (DESIGN.md §3) is not finished; no weaker textual proxy is registered in its place"})
    m = {
        "version": 1,
        "setup_cmd": "./setup.sh",
        "hooks": {
            "guard": "verif",
            "enable": "none needed: static analysis uses no instrumentation; checks load /repo's working tree with the default build configuration (the thorough tier additionally loads it with -tags verif and GOARCH=386)",
            "baseline_off_cmd": "cd /repo && go test -mod=mod -json -vet=off -count=1 -timeout 25m ./...",
            "source_commits": [],
            "add_only": True,
        },
        "engines": [{
            "name": "verifcheck",
            "path": "/verif/checker",
            "serves_properties": sorted(served.keys()),
            "kind_free_text": "purpose-built static analyser for AsaiYusuke/jsonpath on go/packages + go/ssa (x/tools v0.29.0): points-to/effect engine, order & pool typestate, PEG translation validation, action-stack typing, panic/termination discipline, sibling cross-checks, zone abstract interpretation, unit discipline",
        }],
        "checks": checks,
        "notes": "All checks are static: they load /repo's current working tree on every run and never execute the library. Exit 0 = held (KNOWN-FINDING lines possible), 1 = VIOLATION line(s), 2 = infrastructure failure (load/type-check failure, unresolved anchor, rule instance floor not met). Genuine defects found and repaired are recorded in known_findings.json (fixed entries suppress nothing). Seeded breaking changes and which rule catches each: seeded/ and DESIGN.md §10.",
        "not_applicable": na,
    }
    json.dump(m, open(os.path.join(HERE, "MANIFEST.json"), "w"), indent=1)
    print("claimed:", [c["property_id"] for c in checks])
    print("not_applicable:", [n["property_id"] for n in na])

if __name__ == "__main__":
    main()
