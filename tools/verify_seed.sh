#!/bin/bash
# usage: verify_seed.sh <Cxx> <variant> [src_dir]
# Confirms a seeded change independently in a fresh scratch worktree of /repo:
#   (1) patch applies, library builds, whole suite passes with the change,
#   (2) the demonstration FAILS with the change, (3) PASSES without it.
# On success stores it as /verif/seeded/<Cxx><variant>/.
set -u
export GOFLAGS=-mod=mod GOPROXY=off GOSUMDB=off GOTOOLCHAIN=local; unset GOWORK
ID=$1; V=$2; SRC=${3:-/tmp/seed/out/$ID/$V}
WT=$(mktemp -d /tmp/seedverify.XXXXXX); rmdir "$WT"
git -C /repo worktree add -q --detach "$WT" HEAD || exit 9
cleanup(){ git -C /repo worktree remove --force "$WT" >/dev/null 2>&1; rm -rf "$WT"; }
trap cleanup EXIT
RACE=""
if grep -qi '"-race\|-race ' "$SRC/meta.json" 2>/dev/null && python3 - "$SRC/meta.json" <<'PY'
import json,sys
m=json.load(open(sys.argv[1]))
s=json.dumps(m).lower()
sys.exit(0 if ('-race' in m.get('demo_cmd','')) else 1)
PY
then RACE="-race"; fi
cd "$WT"
git apply "$SRC/patch.diff" || { echo "RESULT $ID$V: patch does not apply"; exit 1; }
go build ./... || { echo "RESULT $ID$V: does not build"; exit 1; }
SUITE=$(/verif/tools/suite.sh "$WT" 2>&1 | tail -1)
echo "suite with change: $SUITE"
case "$SUITE" in *"failed=0"*"missing_from_pass=0"*) ;; *) echo "RESULT $ID$V: suite fails with change"; exit 1;; esac
cp "$SRC/demo_test.go" "$WT/zz_seeded_demo_test.go"
if CGO_ENABLED=$([ -n "$RACE" ] && echo 1 || echo 0) go test $RACE -vet=off -count=1 -run TestSeededDemo ./... >/tmp/seedverify.$$.log 2>&1; then
  echo "RESULT $ID$V: demo PASSES with the change (not a valid seed)"; tail -5 /tmp/seedverify.$$.log; rm -f /tmp/seedverify.$$.log; exit 1
fi
echo "demo with change: FAIL (as required): $(grep -m1 -E -- '--- FAIL|panic|DATA RACE' /tmp/seedverify.$$.log)"
git checkout -q -- . 
if ! CGO_ENABLED=$([ -n "$RACE" ] && echo 1 || echo 0) go test $RACE -vet=off -count=1 -run TestSeededDemo ./... >/tmp/seedverify.$$.log 2>&1; then
  echo "RESULT $ID$V: demo FAILS on the clean tree (not a valid seed)"; tail -15 /tmp/seedverify.$$.log; rm -f /tmp/seedverify.$$.log; exit 1
fi
rm -f /tmp/seedverify.$$.log
echo "demo on clean tree: PASS"
DST=/verif/seeded/$ID$V
mkdir -p "$DST"
cp "$SRC/patch.diff" "$DST/patch.diff"
cp "$SRC/demo_test.go" "$DST/demo_test.go"
python3 - "$SRC/meta.json" "$DST/meta.json" "$ID" "$V" "$RACE" <<'PY'
import json,sys
src,dst,pid,v,race=sys.argv[1:6]
try: m=json.load(open(src))
except Exception as e: m={"note":"agent meta.json unreadable: %s"%e}
out={"id":pid+v,"breaks_property":pid,"variant":v,
 "summary":m.get("summary",""),"needs_to_manifest":m.get("needs_to_manifest",""),
 "files_changed":m.get("files_changed",[]),
 "origin":"written by an independent sub-agent that saw only the property text and a scratch worktree of /repo (nothing from /verif)",
 "confirmed_by_me":{"base_commit":"see git -C /repo log (HEAD at confirmation)","ran":[
   "git worktree add (fresh scratch under /tmp), git apply patch.diff, go build ./...",
   "/verif/tools/suite.sh <worktree>  -> 1274 passed, 0 failed, none missing vs BASELINE.json",
   "copied demo_test.go in; go test %s -vet=off -count=1 -run TestSeededDemo ./...  -> FAIL with the change"%race,
   "git checkout -- . ; same demo command -> PASS on the clean tree",
   "worktree removed"],
  "suite_passes_with_change":True,"demo_fails_with_change":True,"demo_passes_on_clean_tree":True,"needs_race_detector":bool(race)},
 "detected_by":"(filled in by tools/run_seeded.py)"}
json.dump(out,open(dst,"w"),indent=1)
PY
echo "RESULT $ID$V: CONFIRMED -> $DST"
