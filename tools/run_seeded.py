#!/usr/bin/env python3
"""Runs every claimed property's quick check against every seeded change
(/verif/seeded/*/patch.diff) and every defect control
(/verif/controls/defects/*.diff), each applied to a scratch COPY of /repo
(never to /repo itself), with a scratch VERIF_DIR so that /verif/evidence is
not touched. Writes /verif/seeded/RESULTS.json and prints a matrix.

usage: run_seeded.py [ids...]   (default: all)
"""
import json, os, subprocess, sys, tempfile, shutil, concurrent.futures as cf

HERE = os.path.dirname(os.path.dirname(os.path.abspath(__file__)))
BIN = os.path.join(HERE, "bin", "verifcheck")
ENV = dict(os.environ, GOFLAGS="-mod=mod", GOPROXY="off", GOSUMDB="off", GOTOOLCHAIN="local", GOWORK="off", CGO_ENABLED="0")

def served():
    out = subprocess.run([os.path.join(HERE, "run.sh"), "list"], capture_output=True, text=True, env=ENV).stdout
    return [l.split()[0] for l in out.splitlines() if l.startswith("C")]

def run_one(name, patch, props):
    tmp = tempfile.mkdtemp(prefix="verif-seed-")
    try:
        repo = os.path.join(tmp, "repo"); vd = os.path.join(tmp, "vd")
        subprocess.run(["rsync", "-a", "--exclude", ".git", "/repo/", repo + "/"], check=True)
        os.makedirs(vd)
        shutil.copy(os.path.join(HERE, "known_findings.json"), vd)
        r = subprocess.run(["patch", "-p1", "-s", "--no-backup-if-mismatch", "-i", patch], cwd=repo, capture_output=True, text=True)
        if r.returncode != 0:
            return name, {"error": "patch does not apply: " + r.stdout[-300:]}
        res = {}
        for pid in props:
            e = dict(ENV, VERIF_REPO=repo, VERIF_DIR=vd)
            p = subprocess.run([BIN, pid, "--tier", "quick"], capture_output=True, text=True, env=e)
            fired = sorted({l.split("rule=")[1].split()[0] for l in p.stdout.splitlines() if l.startswith("FINDING rule=")})
            infra = [l for l in p.stdout.splitlines() if l.startswith("INFRA-FAILURE")]
            res[pid] = {"exit": p.returncode, "rules": fired, "infra": infra[:3],
                        "findings": [l[:300] for l in p.stdout.splitlines() if l.startswith("FINDING rule=")][:6]}
        return name, res
    finally:
        shutil.rmtree(tmp, ignore_errors=True)

def main():
    props = served()
    items = []
    sd = os.path.join(HERE, "seeded")
    for d in sorted(os.listdir(sd)):
        p = os.path.join(sd, d, "patch.diff")
        if os.path.isfile(p):
            items.append((d, p))
    cd = os.path.join(HERE, "controls", "defects")
    for f in sorted(os.listdir(cd)):
        if f.endswith(".diff"):
            items.append(("defect-" + f[:-5], os.path.join(cd, f)))
    if len(sys.argv) > 1:
        items = [it for it in items if it[0] in sys.argv[1:]]
    results = {}
    with cf.ThreadPoolExecutor(max_workers=8) as ex:
        for name, res in ex.map(lambda it: run_one(it[0], it[1], props), items):
            results[name] = res
    path = os.path.join(sd, "RESULTS.json")
    old = {}
    if os.path.exists(path) and len(sys.argv) > 1:
        old = json.load(open(path))
    old.update(results)
    json.dump(old, open(path, "w"), indent=1, sort_keys=True)
    for name in sorted(results):
        res = results[name]
        if "error" in res:
            print("%-12s ERROR %s" % (name, res["error"])); continue
        caught = {pid: r["rules"] for pid, r in res.items() if r["exit"] == 1}
        infra = {pid: r["infra"] for pid, r in res.items() if r["exit"] == 2}
        own = name[:3] if name.startswith("C") else ""
        tag = "CAUGHT" if caught else ("INFRA" if infra else "missed")
        ownhit = "own-property" if own in caught else ""
        print("%-12s %-7s %-12s %s %s" % (name, tag, ownhit, json.dumps(caught), json.dumps(infra) if infra else ""))

if __name__ == "__main__":
    main()
