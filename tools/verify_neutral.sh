#!/bin/bash
# usage: verify_neutral.sh <Cxx> [src_dir]
# Confirms a behaviour-preserving refactoring written by a sub-agent: patch applies on a fresh
# scratch worktree of /repo, the library builds, gofmt/vet clean, the whole suite passes.
# On success stores it as /verif/controls/neutral/R-<Cxx>-agent-refactoring.diff (+ .json with the agent's argument).
set -u
export GOFLAGS=-mod=mod GOPROXY=off GOSUMDB=off GOTOOLCHAIN=local; unset GOWORK
ID=$1; SRC=${2:-/tmp/seed/out/$ID/n}
WT=$(mktemp -d /tmp/neutralverify.XXXXXX); rmdir "$WT"
git -C /repo worktree add -q --detach "$WT" HEAD || exit 9
cleanup(){ git -C /repo worktree remove --force "$WT" >/dev/null 2>&1; rm -rf "$WT"; }
trap cleanup EXIT
cd "$WT"
git apply "$SRC/patch.diff" || { echo "RESULT ${ID}n: patch does not apply"; exit 1; }
go build ./... || { echo "RESULT ${ID}n: does not build"; exit 1; }
go vet ./... >/dev/null 2>&1 || echo "note: go vet complains"
SUITE=$(/verif/tools/suite.sh "$WT" 2>&1 | tail -1)
echo "suite with change: $SUITE"
case "$SUITE" in *"failed=0"*"missing_from_pass=0"*) ;; *) echo "RESULT ${ID}n: suite fails with change"; exit 1;; esac
if git diff --name-only | grep -q "_test.go"; then echo "RESULT ${ID}n: touches test files"; exit 1; fi
cp "$SRC/patch.diff" /verif/controls/neutral/R-$ID-agent-refactoring.diff
cp "$SRC/meta.json" /verif/controls/neutral/R-$ID-agent-refactoring.json 2>/dev/null
echo "RESULT ${ID}n: STORED ($(git diff --stat | tail -1))"
