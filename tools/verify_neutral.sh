#!/bin/bash
# usage: verify_neutral.sh <Cxx> [variant (default n)] [src_dir]
# Confirms a behaviour-preserving refactoring written by a sub-agent: patch applies on a fresh
# scratch worktree of /repo, the library builds, gofmt/vet clean, the whole suite passes.
# On success stores it as /verif/controls/neutral/R-<Cxx>-agent-refactoring.diff (+ .json with the agent's argument).
set -u
export GOFLAGS=-mod=mod GOPROXY=off GOSUMDB=off GOTOOLCHAIN=local; unset GOWORK
ID=$1; V=${2:-n}; SRC=${3:-/tmp/seed/out/$ID/$V}
TAG=$ID; [ "$V" != "n" ] && TAG=$ID-$V
WT=$(mktemp -d /tmp/neutralverify.XXXXXX); rmdir "$WT"
git -C /repo worktree add -q --detach "$WT" HEAD || exit 9
cleanup(){ git -C /repo worktree remove --force "$WT" >/dev/null 2>&1; rm -rf "$WT"; }
trap cleanup EXIT
cd "$WT"
git apply "$SRC/patch.diff" || { echo "RESULT ${TAG}: patch does not apply"; exit 1; }
go build ./... || { echo "RESULT ${TAG}: does not build"; exit 1; }
go vet ./... >/dev/null 2>&1 || echo "note: go vet complains"
SUITE=$(/verif/tools/suite.sh "$WT" 2>&1 | tail -1)
echo "suite with change: $SUITE"
case "$SUITE" in *"failed=0"*"missing_from_pass=0"*) ;; *) echo "RESULT ${TAG}: suite fails with change"; exit 1;; esac
if git diff --name-only | grep -q "_test.go"; then echo "RESULT ${TAG}: touches test files"; exit 1; fi
cp "$SRC/patch.diff" /verif/controls/neutral/R-$TAG-agent-refactoring.diff
cp "$SRC/meta.json" /verif/controls/neutral/R-$TAG-agent-refactoring.json 2>/dev/null
echo "RESULT ${TAG}: STORED ($(git diff --stat | tail -1))"
