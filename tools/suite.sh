#!/bin/bash
# Runs the repository's pinned test suite (guard OFF) on a tree (default /repo) and
# compares passing test names with BASELINE.json's stable_pass list.
# usage: suite.sh [dir]
export GOFLAGS=-mod=mod GOPROXY=off GOSUMDB=off GOTOOLCHAIN=local
unset GOWORK
DIR=${1:-/repo}
OUT=$(mktemp)
(cd "$DIR" && go test -mod=mod -json -vet=off -count=1 -timeout 25m ./... ) > "$OUT" 2>/dev/null
python3 - "$OUT" <<'PY'
import json,sys
base=json.load(open('/root/.vp/BASELINE.json'))
want=set(base['stable_pass'])
passed=set();failed=set()
for l in open(sys.argv[1]):
    try: e=json.loads(l)
    except Exception: continue
    t=e.get('Test')
    if not t: continue
    name=e['Package']+'::'+t.replace('/','::',1) if False else None
    if e.get('Action')=='pass': passed.add((e['Package'],t))
    if e.get('Action')=='fail': failed.add((e['Package'],t))
def canon(s): return s.replace('::','/')
got={canon(p+'::'+t) for p,t in passed}
missing={w for w in want if canon(w) not in got}
print("passed=%d failed=%d baseline=%d missing_from_pass=%d"%(len(passed),len(failed),len(want),len(missing)))
for m in sorted(missing)[:20]: print("MISSING",m)
for f in sorted(failed)[:20]: print("FAILED",f)
sys.exit(1 if (missing or failed) else 0)
PY
rc=$?
rm -f "$OUT"
exit $rc
