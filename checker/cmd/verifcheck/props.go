package main

import (
	"fmt"
	"sort"

	"verif/checker/internal/load"
	"verif/checker/internal/report"
)

// Property describes one claimed property: which rules decide it and what the
// evidence says about coverage.
type Property struct {
	Level       string   // evidence level
	Rules       []string // rule ids (DESIGN.md §3/§4)
	Explanation string   // clause decided / clause not decided
	Assumptions []string
	TrustedBase []string // proof level only
}

var commonAssumptions = []string{
	"G-7: the package uses no unsafe, cgo, go:linkname or reflect mutation (checked on every run by rule G-IMPORTS; a hit is reported)",
	"user-supplied filter/aggregate functions are outside the library: opaque, possibly failing, read-only consumers",
	"the syntax tree built by the parser is acyclic (needed for termination arguments only)",
	"go/types, go/ssa (golang.org/x/tools v0.29.0) and the Go toolchain model the program faithfully",
}

var properties = map[string]Property{
	"C04": {
		Level: "proof",
		Rules: []string{"R-EVAL-WRITE", "R-DOC-EXT", "R-SET-USERONLY", "R-ENGINE", "G-IMPORTS"},
		Explanation: "Decided (whole property): no instruction the library can execute during evaluation writes memory reachable from the source document (or from a value a user function returned), except inside the Set closures it hands out and never calls. Obligations = effect instructions (Store, MapUpdate, append, copy, delete, clear, writing library calls) in every function reachable from the evaluation closure in the points-to engine's call graph; an obligation is discharged when the points-to set of its written cells contains no DOC/caller-data object. Also: every external callee that receives document memory is tabled read-only (R-DOC-EXT), accessor closures are unreachable from library entry points (R-SET-USERONLY), the engine's evaluation call graph agrees with VTA (R-ENGINE). Not decided: nothing of the statement; what is assumed is listed under assumptions.",
		Assumptions: []string{
			"Andersen-style inclusion analysis (context-insensitive, field-sensitive, type-filtered) over go/ssa is a sound over-approximation for type-safe Go without unsafe/reflect mutation",
			"library-call table: reflect.TypeOf, reflect.DeepEqual, (*Regexp).MatchString, json.Number.Float64 only read their arguments",
		},
		TrustedBase: []string{"go/types + go/ssa (x/tools v0.29.0)", "the regions engine (/verif/checker/internal/regions, about 1.3 kLOC)", "the library-call table in regions/call.go", "Go memory safety (no unsafe/cgo in the package: rule G-IMPORTS)"},
	},
	"C05": {
		Level: "other",
		Rules: []string{"R-EVAL-WRITE", "R-RESULT-FRESH", "R-TREE-CLOSED", "R-GLOBALS", "O-POOL", "R-ENGINE", "G-IMPORTS"},
		Explanation: "Decided (necessary core): evaluation has no memory between calls. Every effect instruction reachable from the evaluation closure writes only objects allocated during that evaluation or pooled scratch objects (never the parsed tree, a global, Config memory); the returned slice is an allocation of the call that no instruction stores into longer-lived memory; the returned function reaches no parser-owned, Config or pooled memory and no persistent parser state reaches an earlier tree; every package-level variable is a sync primitive, the lock-protected parser or never written after init; pooled objects are released on every path, never used after a direct release, never stored outside local variables, and result sinks are truncated before Put. Not decided: that two calls on equal documents compute equal results and equality with a fresh Retrieve (behavioural).",
		Assumptions: []string{"sentinel exemption: the two package-level one-element lists may reach list parameters of validators/comparators/logical operators; premises (assigned only in init, never sliced/appended) are re-verified each run; that no comparator runs with a sentinel as left list on a feasible path is argued in DESIGN.md §3.A, not checked"},
	},
	"C06": {
		Level: "other",
		Rules: []string{"R-LOCK", "R-GLOBALS", "R-EVAL-WRITE", "R-TREE-CLOSED", "O-POOL", "R-ENGINE", "G-IMPORTS"},
		Explanation: "Decided (necessary core; an effect/lockset argument, not a schedule exploration): the parser mutex is locked exactly once, in Parse's entry block, the deferred closure that unlocks it is registered immediately afterwards, Unlock dominates every return of that closure and nothing that can panic precedes it; every function that can hold parser-owned memory is reachable from user-callable entry points only through Parse; every other package-level variable is a sync primitive or never written after init; evaluation writes no memory shared between calls; pooled objects are private between acquire and release. Not decided: interleavings as such; races inside user functions or on documents the caller mutates.",
		Assumptions: []string{"sync.Mutex and sync.Pool are correct; a sync.Pool object obtained by Get is private until Put"},
	},
	"C07": {
		Level: "other",
		Rules: []string{"O-MAPRANGE", "O-KEYSOURCE", "O-POOL", "O-LIFO", "O-SEQ", "R-EVAL-WRITE", "G-IMPORTS"},
		Explanation: "Decided (nearly the whole property, because order is structural in this code): every map range reachable during evaluation only stores the keys at consecutive indices of a slice resliced to len(map), and every path from the end of that loop to the function's return applies an ascending byte-wise string sort to that slice or passes the false edge of len(map) > 1; callers of the key accessor only read the slice, index the same map with its elements and release it after the loop (no use after release); every loop in the evaluation steps is a complete ascending loop (or the worklist's complete descending push loop) whose only exit is the loop condition; recursive descent takes W[len-1], shrinks W[:len-1], pushes children from len-1 down to 0 and never applies the next step after pushing. reflect.MapKeys/MapRange are outside the modelled reflect subset (G-IMPORTS). Not decided: nothing of substance; assumes sort.StringSlice.Sort sorts byte-wise.",
	},
	"C19": {
		Level: "other",
		Rules: []string{"R-RESET", "R-PEGRESET", "R-CONFIG", "R-TREE-CLOSED", "R-LOCK", "R-GLOBALS", "R-ENGINE", "G-IMPORTS"},
		Explanation: "Decided (necessary core): every field of the global parser's action state that any Parse-phase function writes is zeroed by the deferred closure on every exit of Parse (whole-struct store of the zero value, or field-complete), also on panic; every matcher variable captured by rule closures and written during matching is assigned by the generated reset closure on every path (token tree: overwritten from index 0 and trimmed on success); pointers to the caller's Config are stored only into that action state; the returned function reaches no Config maps and no parser-owned memory, and persistent parser memory reaches no tree; no package-level variable other than the lock-protected parser is written after init (so no cache keyed by path can exist). Not decided: equality of outcomes across histories as such.",
	},
}

func propIDs() []string {
	var ids []string
	for id := range properties {
		ids = append(ids, id)
	}
	sort.Strings(ids)
	return ids
}

func buildEvidence(id string, prop Property, tier string, seed int, p *load.Program, rules []*report.Rule,
	violations, knownHits []report.Finding, extra map[string]interface{}) *report.Evidence {

	cov := map[string]interface{}{}
	var obligations, discharged, assumed, instances, nontrivial int
	var samples []interface{}
	perRule := []map[string]interface{}{}
	for _, r := range rules {
		obligations += r.Obligations
		discharged += r.Discharged
		assumed += r.Assumed
		instances += r.Instances
		nontrivial += r.Nontrivial
		perRule = append(perRule, map[string]interface{}{
			"rule": r.ID, "doc": r.Doc, "instances": r.Instances, "obligations": r.Obligations,
			"discharged": r.Discharged, "assumed": r.Assumed, "floor": r.Floor,
			"nontrivial": r.Nontrivial, "findings": len(r.Findings), "notes": r.Notes,
		})
		for i, s := range r.Samples {
			if i < 4 {
				samples = append(samples, fmt.Sprintf("[%s] %s", r.ID, s))
			}
		}
	}
	if len(samples) == 0 {
		samples = append(samples, "no obligations sampled")
	}
	cov["explanation"] = prop.Explanation
	cov["rules"] = perRule
	cov["samples"] = samples
	cov["obligations"] = obligations
	cov["discharged"] = discharged
	cov["assumed_obligations"] = assumed
	cov["rule_instances"] = instances
	cov["evaluations"] = obligations
	cov["distinct_nontrivial"] = nontrivial
	cov["rule"] = "one evaluation = one static obligation generated from /repo's current source (an effect instruction, call site, loop, grammar rule, action, type-switch arm ...) and examined by its rule; non-trivial = obligations whose discharge needed more than a local syntactic fact (counted per rule, see rules[].nontrivial)"
	cov["exhaustive"] = true
	cov["analysed"] = map[string]interface{}{
		"repo": p.Dir, "packages": 1, "files": p.NFiles, "ssa_functions": len(p.Funcs),
		"eval_functions": len(p.Eval), "parse_functions": len(p.ParsePhase), "callgraph_edges_from_package": p.CG.Edges,
		"goarch": p.Opts.GOARCH, "tags": p.Opts.Tags,
	}
	if prop.Level == "proof" {
		cov["checker_cmd"] = fmt.Sprintf("/verif/run.sh %s --tier %s", id, tier)
		cov["trusted_base"] = prop.TrustedBase
	}
	if prop.Level == "translation_validation" {
		// filled by the pegtv rules through extra-less notes: programs = rules+actions compared
		progs, dis := 0, 0
		for _, r := range rules {
			if r.ID == "TV-RULES" || r.ID == "TV-ACTIONS" {
				progs += r.Instances
				dis += len(r.Findings)
			}
		}
		cov["programs"] = progs
		cov["disagreements_checked"] = dis
	}
	var kf []string
	for _, f := range knownHits {
		kf = append(kf, f.Key())
	}
	cov["known_findings_reported"] = kf
	var vf []string
	for _, f := range violations {
		vf = append(vf, f.Key()+": "+f.Message)
	}
	cov["violations"] = vf
	for k, v := range extra {
		cov[k] = v
	}
	return &report.Evidence{
		PropertyID:  id,
		Tier:        tier,
		Seed:        seed,
		Level:       prop.Level,
		Coverage:    cov,
		Assumptions: append(append([]string{}, commonAssumptions...), prop.Assumptions...),
		Violations:  len(violations),
	}
}
