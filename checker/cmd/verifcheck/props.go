package main

import (
	"fmt"
	"sort"

	"verif/checker/internal/load"
	"verif/checker/internal/report"
)

// Property describes one claimed property: which rules decide it and what the
// evidence says about coverage.
type Property struct {
	Level       string   // evidence level
	Rules       []string // rule ids (DESIGN.md §3/§4)
	Explanation string   // clause decided / clause not decided
	Assumptions []string
	TrustedBase []string // proof level only
}

var commonAssumptions = []string{
	"G-7: the package uses no unsafe, cgo, go:linkname or reflect mutation (checked on every run by rule G-IMPORTS; a hit is reported)",
	"user-supplied filter/aggregate functions are outside the library: opaque, possibly failing, read-only consumers",
	"the syntax tree built by the parser is acyclic (needed for termination arguments only)",
	"go/types, go/ssa (golang.org/x/tools v0.29.0) and the Go toolchain model the program faithfully",
}

var properties = map[string]Property{
	"C04": {
		Level:       "proof",
		Rules:       []string{"R-EVAL-WRITE", "R-DOC-EXT", "R-SET-USERONLY", "R-ENGINE", "N-ENTRY", "G-IMPORTS"},
		Explanation: "Decided (whole property): no instruction the library can execute during evaluation writes memory reachable from the source document (or from a value a user function returned), except inside the Set closures it hands out and never calls. Obligations = effect instructions (Store, MapUpdate, append, copy, delete, clear, writing library calls) in every function reachable from the evaluation closure in the points-to engine's call graph; an obligation is discharged when the points-to set of its written cells contains no DOC/caller-data object. Also: every external callee that receives document memory is tabled read-only (R-DOC-EXT), accessor closures are unreachable from library entry points (R-SET-USERONLY), the engine's evaluation call graph agrees with VTA (R-ENGINE). Not decided: nothing of the statement; what is assumed is listed under assumptions.",
		Assumptions: []string{
			"Andersen-style inclusion analysis (context-insensitive, field-sensitive, type-filtered) over go/ssa is a sound over-approximation for type-safe Go without unsafe/reflect mutation",
			"library-call table: reflect.TypeOf, reflect.DeepEqual, (*Regexp).MatchString, json.Number.Float64 only read their arguments",
		},
		TrustedBase: []string{"go/types + go/ssa (x/tools v0.29.0)", "the regions engine (/verif/checker/internal/regions, about 1.3 kLOC)", "the library-call table in regions/call.go", "Go memory safety (no unsafe/cgo in the package: rule G-IMPORTS)"},
	},
	"C05": {
		Level:       "other",
		Rules:       []string{"R-EVAL-WRITE", "R-RESULT-FRESH", "R-TREE-CLOSED", "R-GLOBALS", "O-POOL", "R-ENGINE", "R-ERR-PURE", "G-IMPORTS", "R-PEGFIELD", "O-PUTCLEAN"},
		Explanation: "Decided (necessary core): evaluation has no memory between calls. Every effect instruction reachable from the evaluation closure writes only objects allocated during that evaluation or pooled scratch objects (never the parsed tree, a global, Config memory); the returned slice is an allocation of the call that no instruction stores into longer-lived memory; the returned function reaches no parser-owned, Config or pooled memory and no persistent parser state reaches an earlier tree; every package-level variable is a sync primitive, the lock-protected parser or never written after init; pooled objects are released on every path, never used after a direct release, never stored outside local variables, and result sinks are truncated before Put. Not decided: that two calls on equal documents compute equal results and equality with a fresh Retrieve (behavioural).",
		Assumptions: []string{"sentinel exemption: the two package-level one-element lists may reach list parameters of validators/comparators/logical operators; premises (assigned only in init, never sliced/appended) are re-verified each run; that no comparator runs with a sentinel as left list on a feasible path is argued in DESIGN.md §3.A, not checked"},
	},
	"C06": {
		Level:       "other",
		Rules:       []string{"R-LOCK", "R-GLOBALS", "R-EVAL-WRITE", "R-TREE-CLOSED", "O-POOL", "R-ENGINE", "R-ERR-PURE", "G-IMPORTS", "L-PROGRESS"},
		Explanation: "Decided (necessary core; an effect/lockset argument, not a schedule exploration): the parser mutex is locked exactly once, in Parse's entry block, the deferred closure that unlocks it is registered immediately afterwards, Unlock dominates every return of that closure and nothing that can panic precedes it; every function that can hold parser-owned memory is reachable from user-callable entry points only through Parse; every other package-level variable is a sync primitive or never written after init; evaluation writes no memory shared between calls; pooled objects are private between acquire and release. Not decided: interleavings as such; races inside user functions or on documents the caller mutates.",
		Assumptions: []string{"sync.Mutex and sync.Pool are correct; a sync.Pool object obtained by Get is private until Put"},
	},
	"C07": {
		Level:       "other",
		Rules:       []string{"O-MAPRANGE", "O-KEYSOURCE", "O-POOL", "O-LIFO", "O-SEQ", "R-EVAL-WRITE", "R-ITER-STABLE", "G-IMPORTS"},
		Explanation: "Decided (nearly the whole property, because order is structural in this code): every map range reachable during evaluation only stores the keys at consecutive indices of a slice resliced to len(map), and every path from the end of that loop to the function's return applies an ascending byte-wise string sort to that slice or passes the false edge of len(map) > 1; callers of the key accessor only read the slice, index the same map with its elements and release it after the loop (no use after release); every loop in the evaluation steps is a complete ascending loop (or the worklist's complete descending push loop) whose only exit is the loop condition; recursive descent takes W[len-1], shrinks W[:len-1], pushes children from len-1 down to 0 and never applies the next step after pushing. reflect.MapKeys/MapRange are outside the modelled reflect subset (G-IMPORTS). Not decided: nothing of substance; assumes sort.StringSlice.Sort sorts byte-wise.",
	},
	"C01": {
		Level:       "other",
		Rules:       []string{"N-FORWARD", "N-PRESENCE", "N-KEYFLOW", "N-WALK", "N-VGSUM", "N-HEAD", "N-FUNCALL", "B-CHAIN", "O-SEQ", "O-LIFO", "O-MAPRANGE", "O-KEYSOURCE", "I-EXACT", "I-RANGE", "V-SELECT", "V-BOOL", "V-INPUT-PURE", "L-CLASS", "P-POST-NONEMPTY", "R-ITER-STABLE", "N-ENTRY", "N-APPLY", "G-IMPORTS", "O-POOL"},
		Explanation: "Decided: structural NECESSARY conditions of the step-by-step definition, one group per clause of the statement — name: the stored member name reaches the lookup unchanged and presence is decided by comma-ok lookups, so a null member is a member (N-KEYFLOW, N-PRESENCE); every step hands the next step the same root, the caller's sink and exactly the child it selected, and the chain builder links every step behind the previous one, member nodes of a multi-name selector included (N-FORWARD, B-CHAIN, N-WALK); wildcard / multi-name / union loops are complete, in written resp. sorted-key order, over a list nobody overwrites meanwhile — in particular a pooled key or result buffer is not read after it was handed back to its pool (O-SEQ, O-MAPRANGE, O-KEYSOURCE, R-ITER-STABLE, O-POOL); recursive descent is pre-order (last-in-first-out pop, children pushed in reverse, parent before children) and skips no container (O-LIFO); index and slice subscripts produce exactly Python's indices on every zone partition (I-EXACT, I-RANGE); the filter hands member i on exactly when its verdict is true, the verdict lists have length 1 or the member count, and the logical nodes compute AND / OR / NOT member by member over operands that see the same members (V-SELECT, L-CLASS, V-BOOL, V-INPUT-PURE); function nodes are called once with the selected value(s), and the argument chain's value-group flag is summarised before it is consulted (N-FUNCALL, N-VGSUM); a step that reports success has emitted at least one value and a step that emitted nothing reports an error (P-POST-NONEMPTY). NOT decided — and not decidable by this family of technique: that the returned sequence EQUALS the one the definition gives for every path and document; that needs an executable reference and comparison of values. A violation of one of these conditions breaks C01; their conjunction does not imply it (e.g. what a comparison considers equal, the text of error results, anything only a particular document shows).",
		Assumptions: []string{"the conditions listed are necessary, not sufficient, for C01; see the per-clause properties C07–C11, C14 for what each rule covers"},
	},
	"C02": {
		Level:       "other",
		Rules:       []string{"P-RECOVER", "P-PANICTYPE", "P-ERRCHECK", "P-MEMO", "P-SCT", "ST-UNIFORM", "ST-BALANCE", "ST-TYPES", "ST-FRAMES", "TV-WF", "TV-CATCHALL", "TV-ENGINE", "R-LOCK", "R-RESET", "N-WALK", "N-ENTRY", "G-IMPORTS", "P-SLICEBOUND", "L-PROGRESS", "N-STANDIN", "P-ARRAYBOUND"},
		Explanation: "Decided (large structural part): (i) Parse registers, directly after taking the lock, a deferred closure that calls recover() unconditionally, stores a recovered error into the named error result and writes no other result; every explicit panic in parser code carries one of the four documented types; conversion errors (strconv, regexp, json) panic with a documented type or are propagated; (ii) the value stack is typed by abstract interpretation of the grammar that the generated matcher actually runs (reconstructed by the decompiler, so the result does not depend on the published grammar): every action has one stack effect on all non-panicking paths (implicit defaults of exhaustive type switches are discharged from the producer types of the switched slot), every rule has one net effect, no derivation pops an empty stack or fails an unchecked assertion, frame save/load are paired and never index an empty list, and the start rule leaves the stack empty; the stack is empty at the start of every Parse (R-RESET); (iii) the grammar is well-formed (no left recursion / nullable repetition), the start rule is total, the parser is initialised without options (memoisation on), and hand-written recursion descends on the tree. Not decided: bounded time quantitatively, out-of-memory / stack depth for pathological nesting, bounds checks inside the generated matcher (rely on the end-symbol sentinel appended by reset: compared as boilerplate), the few index expressions in hand-written helpers (varBlockSet[1], literal[0], text[0:1]) which are listed as assumed.",
		Assumptions: []string{"assumed obligations: varBlockSet[1] in the regexp callback (the pattern has one group), literal[0] (literals are built as one-element slices), text[0:1] in the negation action (the capture is never empty)"},
	},
	"C16": {
		Level:       "other",
		Rules:       []string{"N-KEYFLOW", "TV-IDENT", "U-BYTES", "R-GLOBALS", "U-DECODE", "W-QUOTES", "G-IMPORTS", "P-SLICEBOUND", "P-ARRAYBOUND"},
		Explanation: "Decided (structural part): the key of every member lookup during evaluation is the stored member name of a single-name step or a key of the object itself (no conversion, concatenation, slicing or call result on the way), and the constructor stores the name it is given verbatim; the identifier rules the running parser implements (character classes, escape alternatives) are those of the published grammar; the hand-written text transducers do not mix byte and character units (no byte-wise copy driven by a rune-wise range); the unescape routines consult no mutable package-level state. Not decided: that the three unescape routines invert JSON-style escaping for every string (a string-transducer equivalence).",
	},
	"C17": {
		Level:       "translation_validation",
		Rules:       []string{"TV-RULES", "TV-ACTIONS", "TV-WF", "TV-CATCHALL", "TV-ENGINE", "P-RESTRICT", "P-ERRCHECK", "P-PANICTYPE", "U-INDEX", "U-RUNELEN", "N-GETSET", "N-VGSUM", "N-ENTRY", "G-IMPORTS", "N-VGFLAG", "N-STANDIN"},
		Explanation: "Translation validation of the generated packrat parser against the published grammar: each of the grammar's rules is decompiled from the goto-template code of its rule function or inlined copies and shown equivalent after normalisation (literals to rune sequences, classes to interval sets, e+ to e e*, `-switch` choices under FIRST-set side conditions); every action body in Execute equals the grammar's action as Go syntax; the grammar-independent engine is the generator's boilerplate; the start rule is total and its catch-all captures the rest after the longest path prefix. Plus: every documented semantic restriction is enforced where the construct is built; the reported position is a character index taken from the token tree and is never used to slice a byte string. Not decided: that strconv / regexp accept what the prose calls 'valid for Go' (they are the definition).",
	},
	"C18": {
		Level:       "other",
		Rules:       []string{"W-SPACE", "W-CAPTURE", "N-NUMCONV", "ST-FRAMES", "ST-BALANCE", "ST-TYPES", "R-GLOBALS", "U-DECODE", "W-QUOTES", "G-IMPORTS", "P-SLICEBOUND", "N-VGSUM", "N-HEAD"},
		Explanation: "Decided (structural part): on the grammar the generated parser actually runs (reconstructed by the decompiler), optional blanks are accepted on the stated side(s) of every occurrence of `[`, `]`, `,`, `:`, the seven comparison tokens, `||`, `&&`, `!`, `?(`, `(`, `)` and around a whole path; no capture whose text becomes a number, name, function name or regular expression can contain optional blanks; integers and numbers are converted in base 10 / as 64-bit floats from the unmodified text (so `+` and leading zeros are harmless); the text conversions consult no mutable package-level state; every spelling the grammar derives — in particular a path starting with a bracket instead of `$` — leaves the action value stack well-typed and balanced, so no spelling fails with an internal error; a path written without its leading `$` gets the same head as the one written with it: the root stand-in is put in front and whoever removes or replaces the head of a chain carries the chain's value-group summary over, so a later aggregate function sees the same grouping under both spellings (N-HEAD, N-VGSUM). Not decided: quote-style equivalence and `.x` vs `['x']` beyond 'same constructor', `$`-omission behaviour.",
	},
	"C03": {
		Level:       "other",
		Rules:       []string{"P-POST-NONEMPTY", "P-RTERR", "P-PANICTYPE", "P-ASSERT", "P-NILGUARD", "P-IFACE-EQ", "V-VALIDATED", "V-ACCEPT", "V-TWO-CURRENT", "V-BOOL", "L-CLASS", "P-SCT", "O-SEQ", "I-OVERFLOW", "I-RANGE", "I-BUF", "I-PROGRESS", "R-ITER-STABLE", "N-ENTRY", "P-NILRET", "G-IMPORTS", "N-ERRWIRE", "L-PROGRESS", "N-STANDIN", "P-ARRAYBOUND"},
		Explanation: "Decided (structural part): (i) every return of a retrieve-family function is a fresh error value, the result of a step on the same sink, a variable proven non-nil, or nil on a path where the sink is known non-empty (must-analysis over appends and len(result)>0 edges), so success is never empty and every result[0] read follows a successful step; (ii) only the three documented runtime error types are converted to the runtime-error interface, each implements error, and ErrorFunctionFailed is built only under a non-nil error of a user-function call; (iii) no explicit panic in evaluation code, reflect.TypeOf(x) dereferenced only under x != nil, every unchecked assertion is a pool element, a runtime error asserted to error, or a validated comparator operand, and every interface comparison has a nil / comparable-concrete operand or validated operands; (iv) recursion cycles descend on the tree and loops are counted/range/worklist loops. Also decided: the logical nodes index a verdict list member by member only on paths where it is known not to be a one-element list and read X[0] only under len(X)==1 (V-BOOL); the right operand is read out of its list after validation succeeded (V-VALIDATED); a comparison between two per-member operands is rejected at parse time for every comparator (V-TWO-CURRENT); no loop walks a list that steps called inside it can reach and overwrite (R-ITER-STABLE). every verdict list a query returns has length 1 or the member count (L-CLASS, inductive over the query family), and the filter reads result[0] only where the length differs from the member count. Not decided: time bounds beyond termination. Also decided (v): subscript arithmetic cannot overflow, produced indices lie in [0, length-1], buffer writes are in range and subscript loops terminate (zone abstract interpretation, see C11).",
		Assumptions: []string{"the sorted key list of an object has as many entries as the object (shown by O-MAPRANGE under C07: resliced to len(map), one key stored per iteration)"},
	},
	"C08": {
		Level:       "other",
		Rules:       []string{"N-FORWARD", "N-DEEPEST", "O-SEQ", "O-LIFO", "B-CHAIN", "N-PRESENCE", "N-WALK", "R-ITER-STABLE", "N-GETSET", "N-ENTRY", "N-APPLY", "G-IMPORTS", "N-DEEPRULE"},
		Explanation: "Decided (structural part): every call of a step (retrieve on the next node, or one of the retrieve-family helpers) passes the caller's own root and the caller's own sink (or a private pooled sink), the emitters hand the next step exactly the value they would emit themselves (container[key] of their parameters); fan-out loops are complete and leave only through their loop condition, branch errors are only accumulated through the deepest-error helper; the chain builder re-assigns its link target from the current step on every iteration. Also decided: every per-node setting the parser applies to a node that may be a multi-name selector — next link, texts, accessor flag — also reaches the member nodes the selector evaluates into the same result list, with the same value and under no flag evaluation does not use for that edge (N-WALK; this is where the `$..['a','b'].c` defect was found, now fixed); presence of a member is decided by comma-ok lookups, so a null member is a member (N-PRESENCE); no step walks a list that the following steps can overwrite (R-ITER-STABLE). Not decided: the relational equality of the three retrievals as such.",
	},
	"C09": {
		Level:       "other",
		Rules:       []string{"V-OPS", "V-WIRE", "V-PREC", "V-SINGLE-RIGHT", "V-LITERAL", "V-VALIDATED", "V-INPUT-PURE", "V-BOOL", "L-CLASS", "V-SELECT", "V-TWO-CURRENT", "N-GETSET", "G-IMPORTS", "N-PRESENCE", "N-HEADORDER"},
		Explanation: "Decided (structural part): each ordering builder realises one operator on every path — straight operands with its own comparator, exchanged operands with the mirror comparator — and the four operators are each realised by exactly one builder; every comparator's loop keeps exactly the elements for which `element OP right` holds and blanks the others; `!=` is NOT(==) over the same operands in order; no comparison is built with a per-member operand on the right of a member-independent one (evaluation reads only right[0]). Also decided (per-node half of the Boolean-algebra clause): a symbolic execution of the AND / OR / NOT nodes compares, for every path and every path through the merge loop, the truth value of the returned list at a member with the truth table of the operator the grammar wires the node to, with the length-1 whole-match convention as path facts (V-BOOL); no query returns or writes the member list it was given, so the operands of one operator see the same members (V-INPUT-PURE); a comparison of two per-member operands cannot be built (V-TWO-CURRENT). Not decided: the composition over whole filter expressions as a relation between query results. Also decided: each comparison / logical token of the grammar the generated parser runs runs the builder of its own operator with (left, right) in source order, and `||` binds looser than `&&`, looser than comparison / parentheses / `!`.",
	},
	"C10": {
		Level:       "other",
		Rules:       []string{"V-ACCEPT", "V-LITERAL", "V-VALIDATED", "V-SINGLE-RIGHT", "G-IMPORTS", "N-PRESENCE", "N-HEADORDER"},
		Explanation: "Decided (structural part): every validator keeps exactly one JSON type on all paths (numeric: float64, with json.Number converted on every path), blanks everything else with the absence marker, reports 'found' exactly for kept elements and visits every element; each literal kind (float64, bool, string, nil) selects the direct-equality comparator with the validator keeping that kind, non-literals use reflect.DeepEqual with the permissive validator; ordering and regex comparators assert exactly the type their embedded validator keeps, after skipping the marker; the comparator call is dominated by successful validation of both operand lists. Not decided: which operand ends up on the right when both are non-member operands (the live `$.a == 1` vs `1 == $.a` json.Number discrepancy) and DeepEqual's numeric semantics across decodings.",
	},
	"C11": {
		Level:       "other",
		Rules:       []string{"I-OVERFLOW", "I-RANGE", "I-BUF", "I-PROGRESS", "I-EXACT", "O-SEQ", "R-ITER-STABLE", "G-IMPORTS"},
		Explanation: "Decided (totality, for every start/end/step/length): zone (difference-bound matrix) abstract interpretation with trace partitioning of every subscript implementation, helpers inlined, with subscript numbers ranging over the whole machine integer range and 0 <= length <= maxInt/16: no addition, subtraction, negation or multiplication on subscript values can leave the machine integer range (exact big-integer interval per operation); every integer stored into a produced index list lies in [0, length-1]; every write into and reslice of the pre-sized buffer is in range (for both loops, using the iteration-count lemma: a counter incremented once per iteration of a loop whose variable moves by at least one towards a fixed bound is bounded by the distance between start and bound); make() lengths are non-negative; every loop variable moves towards its bound by a provably non-zero amount (termination). The consuming loops visit the produced indices completely and in order (O-SEQ). Also decided (exactness half, I-EXACT): at the entry of the enumeration loop, on every feasible zone partition, the first value, the bound and the step have exact linear forms over the operands and the length; each is one of the values Python's slice.indices can give (omitted: 0 / len for a positive step, len-1 / -1 for a negative one; written v: v, v+len, or the limit of [0,len] resp. [-1,len-1]) and the partition entails the side condition of that alternative; the loop stores its induction value at positions 0,1,2,…; a partition that does not enumerate knows the step has the wrong sign; the single index is v or v+len in range, else nothing; the subscript built from `start:end:step` does not depend on the operands' numbers beyond a sign test. Not decided: lengths above maxInt/16 (input model).",
		Assumptions: []string{"a []interface{} cannot have more than maxInt/16 elements (element size 16 bytes)", "the iteration-count lemma (proved in DESIGN.md §3.G) is part of the trusted base"},
	},
	"C12": {
		Level:       "other",
		Rules:       []string{"N-ACCESS", "N-ACCFLAG", "N-PRESENCE", "N-WALK", "N-CTOR", "N-GETSET", "N-APPLY", "G-IMPORTS", "N-STANDIN", "R-SETTER", "N-ACCUSE"},
		Explanation: "Decided (structural part): each of the three emission sites has one plain and one accessor branch selected by the node's own flag, and the accessor's Get re-reads exactly the location (or value) the plain branch emits; the flag-clearing pass sets the flag on every node it walks over and covers every retrieve edge that emits into the parent's sink (inner identifiers of a multi-name selector, its union twin); every place that attaches a chain as function argument or filter operand clears the flag on it. Not decided: equality of the two result sequences as such.",
	},
	"C13": {
		Level:       "other",
		Rules:       []string{"N-ACCESS", "N-FORWARD", "R-SET-USERONLY", "N-PRESENCE", "N-WALK", "N-CTOR", "N-APPLY", "G-IMPORTS", "R-SETTER", "N-ACCUSE"},
		Explanation: "Decided (large structural part): at the map and list emission sites Get is the single expression container[key] and Set is exactly one assignment container[key] = value, both on the very container and key variables (captured once, never re-assigned) that the plain branch reads; at the any-value site Get returns the captured value and Set is nil; the value forwarded to the next step is the emitted one; the library never calls the closures it hands out. Not decided: that the accessor at result index i belongs to the location a specification predicts.",
	},
	"C14": {
		Level:       "other",
		Rules:       []string{"N-FUNCALL", "N-FORWARD", "P-RTERR", "O-POOL", "B-CHAIN", "P-RESTRICT", "N-WALK", "N-GETSET", "N-HEAD", "N-VGSUM", "V-PARAM-ALWAYS", "N-APPLY", "G-IMPORTS", "N-VGFLAG", "N-CTOR", "N-ERRWIRE", "N-HEADORDER", "O-PUTCLEAN"},
		Explanation: "Decided (structural part): a function node calls its user function at exactly one site, outside loops; the filter function receives the node's current value; the aggregate receives the list of its private pooled sink, or element 0 as an array only under the parameter's value-group test being false and a successful checked assertion; the function's result is what is forwarded; ErrorFunctionFailed is built only when that call returned an error; the chain builder keeps its link target on the step just processed (so a step after an aggregate is linked behind the aggregate). Not decided: that the value-group flag is correct for the chain (the live `$.a.*.f()` defect), . Also decided: function names are looked up in the filter table first, then the aggregate table, else ErrorFunctionNotFound.",
	},
	"C15": {
		Level:       "other",
		Rules:       []string{"N-KIND", "P-NILGUARD", "P-RTERR", "N-DEEPEST", "N-WALK", "N-GETSET", "R-ERR-PURE", "N-DELEGATE", "G-IMPORTS", "N-CTOR", "N-ERRWIRE", "N-DEEPRULE"},
		Explanation: "Decided (structural part): every type-mismatch error is built under failed type tests of the node's current value, its expected-kind text is in one-to-one correspondence with the set of container kinds the node navigates, its found text is a constant for nil and reflect.TypeOf(current).String() of that same value under a nil guard, and it references the raising node's own descriptor; inside fan-out loops the surviving error is chosen only by the deepest-error helper. Not decided: which of several branch errors is reported (depends on text lengths / traversal order).",
	},
	"C20": {
		Level:       "other",
		Rules:       []string{"P-SENTINEL", "P-IFACE-EQ", "P-ASSERT", "P-NILGUARD", "N-KIND", "V-ACCEPT", "V-VALIDATED", "N-ENTRY", "N-DELEGATE", "G-IMPORTS"},
		Explanation: "Decided (large structural part): the absence marker has a package-private named comparable type; every interface ==/!= reachable during evaluation has a nil / comparable-concrete operand or operands validated to a JSON scalar type; every unchecked type assertion is justified; navigation only type-tests for the two JSON container types and reports other values by reflect type under a nil guard; validators blank every foreign type. Not decided: reflect.DeepEqual's behaviour on exotic values, what user functions do with opaque values.",
	},
	"C19": {
		Level:       "other",
		Rules:       []string{"R-RESET", "R-PEGRESET", "R-CONFIG", "R-TREE-CLOSED", "R-LOCK", "R-GLOBALS", "R-ENGINE", "N-ENTRY", "G-IMPORTS", "R-SETTER", "R-PEGFIELD"},
		Explanation: "Decided (necessary core): every field of the global parser's action state that any Parse-phase function writes is zeroed by the deferred closure on every exit of Parse (whole-struct store of the zero value, or field-complete), also on panic; every matcher variable captured by rule closures and written during matching is assigned by the generated reset closure on every path (token tree: overwritten from index 0 and trimmed on success); pointers to the caller's Config are stored only into that action state; the returned function reaches no Config maps and no parser-owned memory, and persistent parser memory reaches no tree; no package-level variable other than the lock-protected parser is written after init (so no cache keyed by path can exist). Not decided: equality of outcomes across histories as such.",
	},
}

func propIDs() []string {
	var ids []string
	for id := range properties {
		ids = append(ids, id)
	}
	sort.Strings(ids)
	return ids
}

func buildEvidence(id string, prop Property, tier string, seed int, p *load.Program, rules []*report.Rule,
	violations, knownHits []report.Finding, extra map[string]interface{}) *report.Evidence {

	cov := map[string]interface{}{}
	var obligations, discharged, assumed, instances, nontrivial int
	var samples []interface{}
	perRule := []map[string]interface{}{}
	for _, r := range rules {
		obligations += r.Obligations
		discharged += r.Discharged
		assumed += r.Assumed
		instances += r.Instances
		nt := r.Nontrivial
		if nt == 0 && r.ID != "G-IMPORTS" && r.ID != "R-ENGINE" {
			// rules that did not classify their obligations: every obligation of theirs needed
			// dominator / flow / type reasoning (none is a purely local syntactic fact)
			nt = r.Obligations
		}
		nontrivial += nt
		perRule = append(perRule, map[string]interface{}{
			"rule": r.ID, "doc": r.Doc, "instances": r.Instances, "obligations": r.Obligations,
			"discharged": r.Discharged, "assumed": r.Assumed, "floor": r.Floor,
			"nontrivial": nt, "findings": len(r.Findings), "notes": r.Notes,
		})
		for i, s := range r.Samples {
			if i < 4 {
				samples = append(samples, fmt.Sprintf("[%s] %s", r.ID, s))
			}
		}
	}
	if len(samples) == 0 {
		samples = append(samples, "no obligations sampled")
	}
	cov["explanation"] = prop.Explanation
	cov["rules"] = perRule
	cov["samples"] = samples
	cov["obligations"] = obligations
	cov["discharged"] = discharged
	cov["assumed_obligations"] = assumed
	cov["rule_instances"] = instances
	cov["evaluations"] = obligations
	cov["distinct_nontrivial"] = nontrivial
	cov["rule"] = "one evaluation = one static obligation generated from /repo's current source (an effect instruction, call site, loop, grammar rule, action, type-switch arm ...) and examined by its rule; non-trivial = obligations whose discharge needed more than a local syntactic fact (counted per rule, see rules[].nontrivial)"
	cov["exhaustive"] = true
	cov["analysed"] = map[string]interface{}{
		"repo": p.Dir, "packages": 1, "files": p.NFiles, "ssa_functions": len(p.Funcs),
		"eval_functions": len(p.Eval), "parse_functions": len(p.ParsePhase), "callgraph_edges_from_package": p.CG.Edges,
		"goarch": p.Opts.GOARCH, "tags": p.Opts.Tags,
	}
	if p.Normal != nil {
		cov["analysed"].(map[string]interface{})["normaliser"] = map[string]interface{}{
			"helpers_outside_known_table": p.Normal.Candidates, "expansions": p.Normal.Expanded,
			"removed_after_expansion": p.Normal.Removed, "not_expanded": p.Normal.Skipped, "abandoned": p.Normal.Failed, "renamed_known_functions": p.Normal.Renamed, "struct_variables_split": p.Normal.Split,
		}
	}
	if prop.Level == "proof" {
		cov["checker_cmd"] = fmt.Sprintf("/verif/run.sh %s --tier %s", id, tier)
		cov["trusted_base"] = prop.TrustedBase
	}
	if prop.Level == "translation_validation" {
		// filled by the pegtv rules through extra-less notes: programs = rules+actions compared
		progs, dis := 0, 0
		for _, r := range rules {
			if r.ID == "TV-RULES" || r.ID == "TV-ACTIONS" {
				progs += r.Instances
				dis += len(r.Findings)
			}
		}
		cov["programs"] = progs
		cov["disagreements_checked"] = dis
	}
	var kf []string
	for _, f := range knownHits {
		kf = append(kf, f.Key())
	}
	cov["known_findings_reported"] = kf
	var vf []string
	for _, f := range violations {
		vf = append(vf, f.Key()+": "+f.Message)
	}
	cov["violations"] = vf
	for k, v := range extra {
		cov[k] = v
	}
	return &report.Evidence{
		PropertyID:  id,
		Tier:        tier,
		Seed:        seed,
		Level:       prop.Level,
		Coverage:    cov,
		Assumptions: append(append([]string{}, commonAssumptions...), prop.Assumptions...),
		Violations:  len(violations),
	}
}
