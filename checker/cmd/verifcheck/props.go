package main

import (
	"fmt"
	"sort"

	"verif/checker/internal/load"
	"verif/checker/internal/report"
)

// Property describes one claimed property: which rules decide it and what the
// evidence says about coverage.
type Property struct {
	Level       string   // evidence level
	Rules       []string // rule ids (DESIGN.md §3/§4)
	Explanation string   // clause decided / clause not decided
	Assumptions []string
	TrustedBase []string // proof level only
}

var commonAssumptions = []string{
	"G-7: the package uses no unsafe, cgo, go:linkname or reflect mutation (checked on every run by rule G-IMPORTS; a hit is reported)",
	"user-supplied filter/aggregate functions are outside the library: opaque, possibly failing, read-only consumers",
	"the syntax tree built by the parser is acyclic (needed for termination arguments only)",
	"go/types, go/ssa (golang.org/x/tools v0.29.0) and the Go toolchain model the program faithfully",
}

var properties = map[string]Property{
	"C04": {
		Level: "proof",
		Rules: []string{"R-EVAL-WRITE", "R-DOC-EXT", "R-SET-USERONLY", "R-ENGINE", "G-IMPORTS"},
		Explanation: "Decided (whole property): no instruction the library can execute during evaluation writes memory reachable from the source document (or from a value a user function returned), except inside the Set closures it hands out and never calls. Obligations = effect instructions (Store, MapUpdate, append, copy, delete, clear, writing library calls) in every function reachable from the evaluation closure in the points-to engine's call graph; an obligation is discharged when the points-to set of its written cells contains no DOC/caller-data object. Also: every external callee that receives document memory is tabled read-only (R-DOC-EXT), accessor closures are unreachable from library entry points (R-SET-USERONLY), the engine's evaluation call graph agrees with VTA (R-ENGINE). Not decided: nothing of the statement; what is assumed is listed under assumptions.",
		Assumptions: []string{
			"Andersen-style inclusion analysis (context-insensitive, field-sensitive, type-filtered) over go/ssa is a sound over-approximation for type-safe Go without unsafe/reflect mutation",
			"library-call table: reflect.TypeOf, reflect.DeepEqual, (*Regexp).MatchString, json.Number.Float64 only read their arguments",
		},
		TrustedBase: []string{"go/types + go/ssa (x/tools v0.29.0)", "the regions engine (/verif/checker/internal/regions, about 1.3 kLOC)", "the library-call table in regions/call.go", "Go memory safety (no unsafe/cgo in the package: rule G-IMPORTS)"},
	},
}

func propIDs() []string {
	var ids []string
	for id := range properties {
		ids = append(ids, id)
	}
	sort.Strings(ids)
	return ids
}

func buildEvidence(id string, prop Property, tier string, seed int, p *load.Program, rules []*report.Rule,
	violations, knownHits []report.Finding, extra map[string]interface{}) *report.Evidence {

	cov := map[string]interface{}{}
	var obligations, discharged, assumed, instances, nontrivial int
	var samples []interface{}
	perRule := []map[string]interface{}{}
	for _, r := range rules {
		obligations += r.Obligations
		discharged += r.Discharged
		assumed += r.Assumed
		instances += r.Instances
		nontrivial += r.Nontrivial
		perRule = append(perRule, map[string]interface{}{
			"rule": r.ID, "doc": r.Doc, "instances": r.Instances, "obligations": r.Obligations,
			"discharged": r.Discharged, "assumed": r.Assumed, "floor": r.Floor,
			"nontrivial": r.Nontrivial, "findings": len(r.Findings), "notes": r.Notes,
		})
		for i, s := range r.Samples {
			if i < 4 {
				samples = append(samples, fmt.Sprintf("[%s] %s", r.ID, s))
			}
		}
	}
	if len(samples) == 0 {
		samples = append(samples, "no obligations sampled")
	}
	cov["explanation"] = prop.Explanation
	cov["rules"] = perRule
	cov["samples"] = samples
	cov["obligations"] = obligations
	cov["discharged"] = discharged
	cov["assumed_obligations"] = assumed
	cov["rule_instances"] = instances
	cov["evaluations"] = obligations
	cov["distinct_nontrivial"] = nontrivial
	cov["rule"] = "one evaluation = one static obligation generated from /repo's current source (an effect instruction, call site, loop, grammar rule, action, type-switch arm ...) and examined by its rule; non-trivial = obligations whose discharge needed more than a local syntactic fact (counted per rule, see rules[].nontrivial)"
	cov["exhaustive"] = true
	cov["analysed"] = map[string]interface{}{
		"repo": p.Dir, "packages": 1, "files": p.NFiles, "ssa_functions": len(p.Funcs),
		"eval_functions": len(p.Eval), "parse_functions": len(p.ParsePhase), "callgraph_edges_from_package": p.CG.Edges,
		"goarch": p.Opts.GOARCH, "tags": p.Opts.Tags,
	}
	if prop.Level == "proof" {
		cov["checker_cmd"] = fmt.Sprintf("/verif/run.sh %s --tier %s", id, tier)
		cov["trusted_base"] = prop.TrustedBase
	}
	if prop.Level == "translation_validation" {
		// filled by the pegtv rules through extra-less notes: programs = rules+actions compared
		progs, dis := 0, 0
		for _, r := range rules {
			if r.ID == "TV-RULES" || r.ID == "TV-ACTIONS" {
				progs += r.Instances
				dis += len(r.Findings)
			}
		}
		cov["programs"] = progs
		cov["disagreements_checked"] = dis
	}
	var kf []string
	for _, f := range knownHits {
		kf = append(kf, f.Key())
	}
	cov["known_findings_reported"] = kf
	var vf []string
	for _, f := range violations {
		vf = append(vf, f.Key()+": "+f.Message)
	}
	cov["violations"] = vf
	for k, v := range extra {
		cov[k] = v
	}
	return &report.Evidence{
		PropertyID:  id,
		Tier:        tier,
		Seed:        seed,
		Level:       prop.Level,
		Coverage:    cov,
		Assumptions: append(append([]string{}, commonAssumptions...), prop.Assumptions...),
		Violations:  len(violations),
	}
}
