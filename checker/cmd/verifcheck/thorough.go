package main

import "verif/checker/internal/report"

// thorough runs the additional configurations and the control corpus
// (DESIGN.md G-8). Filled in thorough_impl.go.
func thorough(id string, prop Property, base []*report.Rule) (map[string]interface{}, []string, []report.Finding) {
	return thoroughImpl(id, prop, base)
}
