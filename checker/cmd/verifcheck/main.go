// verifcheck decides the jsonpath properties by static analysis of /repo.
//
//	verifcheck <Cxx> [--tier quick|thorough]   run the rules of one property, write evidence
//	verifcheck --replay <file>                 re-evaluate a recorded finding against the current tree
//	verifcheck rule <RULE-ID> [--json]         run one rule (debugging, controls)
//	verifcheck roles                           print the resolved anchors and phases
//
// Environment: VERIF_REPO (default /repo), VERIF_DIR (default /verif),
// VERIF_TIER, VERIF_SEED, VERIF_GOARCH, VERIF_TAGS.
package main

import (
	"encoding/json"
	"errors"
	"fmt"
	"go/ast"
	"go/printer"
	"go/token"
	"go/types"
	"os"
	"path/filepath"
	"sort"
	"strconv"
	"strings"
	"time"

	"verif/checker/internal/engine"
	"verif/checker/internal/load"
	"verif/checker/internal/normal"
	"verif/checker/internal/peg"
	"verif/checker/internal/regions"
	"verif/checker/internal/report"

	_ "verif/checker/internal/rules"
)

func verifDir() string {
	if d := os.Getenv("VERIF_DIR"); d != "" {
		return d
	}
	return "/verif"
}

func loadOpts() load.Options {
	o := load.Options{Dir: os.Getenv("VERIF_REPO"), GOARCH: os.Getenv("VERIF_GOARCH")}
	if t := os.Getenv("VERIF_TAGS"); t != "" {
		o.Tags = strings.Split(t, ",")
	}
	return o
}

func die2(format string, a ...interface{}) {
	fmt.Fprintf(os.Stderr, "INFRA-FAILURE: "+format+"\n", a...)
	fmt.Printf("INFRA-FAILURE: "+format+"\n", a...)
	os.Exit(2)
}

func main() {
	args := os.Args[1:]
	if len(args) == 0 {
		fmt.Fprintln(os.Stderr, "usage: verifcheck <Cxx> [--tier quick|thorough] | --replay <file> | rule <ID> | roles")
		os.Exit(2)
	}
	switch {
	case args[0] == "roles":
		cmdRoles()
	case args[0] == "rule":
		cmdRule(args[1:])
	case args[0] == "--replay":
		if len(args) < 2 {
			die2("--replay needs a file")
		}
		cmdReplay(args[1])
	case args[0] == "dbg-calls":
		p := mustLoad()
		a := regions.Analyze(p)
		a.DumpCalls(os.Stdout)
	case args[0] == "dbg-func":
		p := mustLoad()
		a := regions.Analyze(p)
		for _, f := range p.Funcs {
			if load.FuncName(f) == args[1] {
				a.DumpFunc(os.Stdout, f)
			}
		}
	case args[0] == "dbg-peg":
		p := mustLoad()
		src, err := os.ReadFile(filepath.Join(p.Dir, "jsonpath.peg"))
		if err != nil {
			die2("%v", err)
		}
		g, err := peg.ParseSource(string(src))
		if err != nil {
			die2("%v", err)
		}
		gen := peg.Decompile(p.GenFile)
		fmt.Printf("source rules=%d actions=%d; generated functions=%d nil slots=%d errors=%v\n", len(g.Rules), len(g.Actions), len(gen.Rules), len(gen.NilSlots), gen.Errors)
		facts := peg.NewFacts(g)
		for _, r := range g.Rules {
			ns := peg.Normalize(r.E)
			fmt.Printf("SRC %-28s %s\n", r.Name, ns)
			if gr := gen.Rules[r.Name]; gr != nil {
				if gr.Err != "" {
					fmt.Printf("GEN %-28s ERROR %s\n", r.Name, gr.Err)
				}
				if gr.E != nil {
					ng := peg.Normalize(gr.E)
					fmt.Printf("GEN %-28s %s\n", r.Name, ng)
					ok, why := facts.Equivalent(ns, ng)
					fmt.Printf("    equivalent=%v %s\n", ok, why)
				}
			} else {
				for _, e := range gen.Inlined[r.Name] {
					ng := peg.Normalize(e)
					ok, why := facts.Equivalent(ns, ng)
					fmt.Printf("INL %-28s %s\n    equivalent=%v %s\n", r.Name, ng, ok, why)
				}
				if len(gen.Inlined[r.Name]) == 0 {
					fmt.Printf("    NOT FOUND in generated code\n")
				}
			}
		}
		fmt.Println("well-formedness:", facts.WellFormed())
	case args[0] == "dump-funcs":
		// the table of known functions for internal/normal (regenerate after a fix: commit in /repo)
		os.Setenv("VERIF_NO_NORMALISE", "1")
		p := mustLoad()
		var keys []string
		for _, f := range p.Files {
			for _, d := range f.Decls {
				if fd, ok := d.(*ast.FuncDecl); ok {
					k := normal.Key(fd)
					if fn, ok := p.Info.Defs[fd.Name].(*types.Func); ok {
						k += "|" + normal.Fingerprint(p.Types, fn)
					}
					keys = append(keys, k)
				}
			}
		}
		sort.Strings(keys)
		fmt.Println("# functions of the tree the rules were confirmed on; anything else is a helper that internal/normal expands")
		last := ""
		plumbing := normal.Plumbing()
		for _, k := range keys {
			if k != last {
				if plumbing[strings.SplitN(k, "|", 2)[0]] {
					fmt.Println("~" + k) // plumbing helper: always expanded at hand-written call sites
				} else {
					fmt.Println(k)
				}
			}
			last = k
		}
	case args[0] == "normal":
		// show what the normaliser does on the current tree; with a function name, print its normalised source
		p := mustLoad()
		if p.Normal == nil {
			fmt.Println("normaliser disabled")
			return
		}
		fmt.Printf("candidates=%v\nexpanded=%v\nremoved=%v\nrounds=%d\nrenamed=%v\ntypes=%v\nsplit=%v\nfailed=%q\n", p.Normal.Candidates, p.Normal.Expanded, p.Normal.Removed, p.Normal.Rounds, p.Normal.Renamed, p.Normal.Types, p.Normal.Split, p.Normal.Failed)
		for _, s := range p.Normal.Skipped {
			fmt.Println("skipped:", s)
		}
		if len(args) > 1 {
			for _, f := range p.Files {
				for _, d := range f.Decls {
					if fd, ok := d.(*ast.FuncDecl); ok && normal.Key(fd) == args[1] {
						printer.Fprint(os.Stdout, token.NewFileSet(), fd)
						fmt.Println()
					}
				}
			}
		}
	case args[0] == "list":
		for _, id := range propIDs() {
			fmt.Println(id, strings.Join(properties[id].Rules, " "))
		}
	default:
		cmdProperty(args)
	}
}

func mustLoad() *load.Program {
	p, err := load.Load(loadOpts())
	if err != nil {
		var ie *load.InfraError
		if errors.As(err, &ie) {
			die2("%s", ie.Msg)
		}
		die2("%v", err)
	}
	return p
}

func cmdRoles() {
	p := mustLoad()
	r := p.Roles
	fmt.Printf("dir=%s files=%d generated=%s funcs=%d\n", p.Dir, p.NFiles, p.FileOf(p.GenFile.Pos()), len(p.Funcs))
	fmt.Printf("Parse=%s Retrieve=%s evalClosure=%s\n", load.FuncName(r.Parse), load.FuncName(r.Retrieve), load.FuncName(p.EvalClosure))
	fmt.Printf("parserGlobal=%s parserType=%s actionState=%s mutex=%s\n", r.ParserGlobal.Name(), r.ParserType.Obj().Name(), r.ActionState.Obj().Name(), r.Mutex.Name())
	for _, g := range r.Pools {
		fmt.Printf("pool=%s\n", g.Name())
	}
	fmt.Printf("nodeIface=%s.%s sink=%s.%s rtErr=%s\n", r.NodeIface.Obj().Name(), r.RetrieveName, r.SinkType.Obj().Name(), r.SinkField.Name(), r.RuntimeErrIface.Obj().Name())
	fmt.Printf("query=%s.%s comparator=%s.%s/%s validator=%s subscript=%s.%s basicNode=%s\n", r.QueryIface.Obj().Name(), r.QueryMethod,
		r.ComparatorIface.Obj().Name(), r.CompareMethod, r.ValidateMethod, r.ValidatorIface.Obj().Name(), r.SubscriptIface.Obj().Name(), r.IndexesMethod, r.BasicNode.Obj().Name())
	names := func(ts interface{}) string {
		var s []string
		switch ts := ts.(type) {
		case []string:
			s = ts
		}
		return strings.Join(s, ",")
	}
	_ = names
	pr := func(label string, l int, f func(i int) string) {
		var s []string
		for i := 0; i < l; i++ {
			s = append(s, f(i))
		}
		fmt.Printf("%s(%d)=%s\n", label, l, strings.Join(s, ","))
	}
	pr("nodeTypes", len(r.NodeTypes), func(i int) string { return r.NodeTypes[i].Obj().Name() })
	pr("queryTypes", len(r.QueryTypes), func(i int) string { return r.QueryTypes[i].Obj().Name() })
	pr("comparatorTypes", len(r.ComparatorTypes), func(i int) string { return r.ComparatorTypes[i].Obj().Name() })
	pr("validatorTypes", len(r.ValidatorTypes), func(i int) string { return r.ValidatorTypes[i].Obj().Name() })
	pr("subscriptTypes", len(r.SubscriptTypes), func(i int) string { return r.SubscriptTypes[i].Obj().Name() })
	fmt.Printf("marker=%s (%s) markerList=%s fullList=%s\n", r.Marker.Name(), r.MarkerType(), r.MarkerList.Name(), r.FullList.Name())
	fmt.Printf("EVAL=%d PARSE=%d cgEdges=%d\n", len(p.Eval), len(p.ParsePhase), p.CG.Edges)
	var ext []string
	for e := range p.EvalExt {
		ext = append(ext, e)
	}
	sort.Strings(ext)
	fmt.Printf("EVAL external callees(%d): %s\n", len(ext), strings.Join(ext, ", "))
	for _, f := range load.SortedFuncs(p.Eval) {
		tag := ""
		if p.ParsePhase[f] {
			tag = " [also PARSE]"
		}
		fmt.Printf("  EVAL %s%s\n", load.FuncName(f), tag)
	}
}

func runRule(c *engine.Context, id string) *report.Rule {
	f := engine.Lookup(id)
	if f == nil {
		die2("unknown rule %s", id)
	}
	var res *report.Rule
	func() {
		defer func() {
			if r := recover(); r != nil {
				res = report.NewRule(id, "", 0)
				res.InfraFail("rule %s panicked: %v", id, r)
				if os.Getenv("VERIF_DEBUG") != "" {
					panic(r)
				}
			}
		}()
		res = f(c)
	}()
	res.CheckFloor()
	report.SortFindings(res.Findings)
	return res
}

func cmdRule(args []string) {
	if len(args) == 0 {
		for _, id := range engine.RuleIDs() {
			fmt.Println(id)
		}
		return
	}
	asJSON := len(args) > 1 && args[1] == "--json"
	p := mustLoad()
	c := engine.NewContext(p, "quick")
	var out []*report.Rule
	for _, id := range strings.Split(args[0], ",") {
		out = append(out, runRule(c, id))
	}
	if asJSON {
		for _, r := range out {
			for i := range r.Findings {
				r.Findings[i].Property = strings.Join(engine.PropsOf(r.Findings[i]), ",")
			}
		}
		b, _ := json.MarshalIndent(out, "", " ")
		fmt.Println(string(b))
		return
	}
	for _, res := range out {
		printRule(res)
	}
}

func printRule(res *report.Rule) {
	fmt.Printf("== %s: instances=%d obligations=%d discharged=%d assumed=%d floor=%d\n", res.ID, res.Instances, res.Obligations, res.Discharged, res.Assumed, res.Floor)
	for _, n := range res.Notes {
		fmt.Printf("   note: %s\n", n)
	}
	for _, s := range res.Samples {
		fmt.Printf("   sample: %s\n", s)
	}
	for _, i := range res.Infra {
		fmt.Printf("   INFRA: %s\n", i)
	}
	for _, f := range res.Findings {
		fmt.Printf("   FINDING[%s] %s @ %s: %s\n", f.Kind, f.Construct, f.Pos, f.Message)
		for _, w := range f.Witness {
			fmt.Printf("      via %s\n", w)
		}
	}
}

type replayFile struct {
	Property string         `json:"property"`
	Finding  report.Finding `json:"finding"`
}

func cmdProperty(args []string) {
	id := args[0]
	tier := os.Getenv("VERIF_TIER")
	for i := 1; i < len(args); i++ {
		if args[i] == "--tier" && i+1 < len(args) {
			tier = args[i+1]
			i++
		}
	}
	if tier == "" {
		tier = "quick"
	}
	if tier != "quick" && tier != "thorough" {
		die2("unknown tier %q", tier)
	}
	prop, ok := properties[id]
	if !ok {
		die2("property %s is not claimed (see MANIFEST.json not_applicable)", id)
	}
	seed, _ := strconv.Atoi(os.Getenv("VERIF_SEED"))
	start := time.Now()

	known, err := report.LoadKnown(filepath.Join(verifDir(), "known_findings.json"))
	if err != nil {
		die2("known_findings.json: %v", err)
	}

	p := mustLoad()
	c := engine.NewContext(p, tier)
	var rules []*report.Rule
	for _, rid := range prop.Rules {
		rules = append(rules, runRule(c, rid))
	}

	var extra map[string]interface{}
	var extraInfra []string
	var extraFindings []report.Finding
	if tier == "thorough" {
		extra, extraInfra, extraFindings = thorough(id, prop, rules)
	}

	// classify findings
	var infra []string
	var violations, knownHits []report.Finding
	seen := map[string]bool{}
	consider := func(f report.Finding) {
		if !engine.Concerns(f, id) {
			return
		}
		f.Property = id
		if seen[f.Key()] {
			return
		}
		seen[f.Key()] = true
		if o := known.Match(id, f); o != nil {
			knownHits = append(knownHits, f)
			fmt.Printf("KNOWN-FINDING: property=%s %s [%s :: %s]\n", id, o.What, f.Rule, f.Construct)
			return
		}
		violations = append(violations, f)
	}
	for _, r := range rules {
		infra = append(infra, r.Infra...)
		for _, f := range r.Findings {
			consider(f)
		}
	}
	infra = append(infra, extraInfra...)
	for _, f := range extraFindings {
		consider(f)
	}

	// evidence
	ev := buildEvidence(id, prop, tier, seed, p, rules, violations, knownHits, extra)
	ev.WallS = time.Since(start).Seconds()
	evPath := filepath.Join(verifDir(), "evidence", id+".json")
	if err := report.WriteJSON(evPath, ev); err != nil {
		die2("write evidence: %v", err)
	}

	for _, r := range rules {
		fmt.Printf("rule %-16s instances=%-4d obligations=%-4d discharged=%-4d assumed=%-3d findings=%d\n", r.ID, r.Instances, r.Obligations, r.Discharged, r.Assumed, len(r.Findings))
	}
	for _, m := range infra {
		fmt.Printf("INFRA-FAILURE: %s\n", m)
	}
	if len(infra) > 0 && len(violations) == 0 {
		os.Exit(2)
	}
	if len(violations) > 0 {
		outDir := filepath.Join(verifDir(), "out")
		for _, f := range violations {
			path := filepath.Join(outDir, fmt.Sprintf("%s-%s-%s.json", id, report.Slug(f.Rule), report.Slug(f.Construct)))
			_ = report.WriteJSON(path, replayFile{Property: id, Finding: f})
			fmt.Printf("FINDING rule=%s kind=%s construct=%q at %s: %s\n", f.Rule, f.Kind, f.Construct, f.Pos, f.Message)
			for _, w := range f.Witness {
				fmt.Printf("    via %s\n", w)
			}
			fmt.Printf("VIOLATION property=%s replay=%s\n", id, path)
		}
		os.Exit(1)
	}
	fmt.Printf("OK property=%s tier=%s rules=%d wall=%.1fs evidence=%s\n", id, tier, len(rules), time.Since(start).Seconds(), evPath)
}

func cmdReplay(path string) {
	b, err := os.ReadFile(path)
	if err != nil {
		die2("replay: %v", err)
	}
	var rf replayFile
	if err := json.Unmarshal(b, &rf); err != nil {
		die2("replay: %v", err)
	}
	p := mustLoad()
	c := engine.NewContext(p, "quick")
	res := runRule(c, rf.Finding.Rule)
	if len(res.Infra) > 0 {
		die2("%s", strings.Join(res.Infra, "; "))
	}
	for _, f := range res.Findings {
		if f.Key() == rf.Finding.Key() {
			fmt.Printf("FINDING rule=%s kind=%s construct=%q at %s: %s\n", f.Rule, f.Kind, f.Construct, f.Pos, f.Message)
			for _, w := range f.Witness {
				fmt.Printf("    via %s\n", w)
			}
			fmt.Printf("VIOLATION property=%s replay=%s\n", rf.Property, path)
			os.Exit(1)
		}
	}
	fmt.Printf("replay: finding %q no longer reported on the current tree\n", rf.Finding.Key())
}
