package main

import (
	"encoding/json"
	"fmt"
	"os"
	"os/exec"
	"path/filepath"
	"sort"
	"strings"
	"sync"

	"verif/checker/internal/engine"
	"verif/checker/internal/report"
)

// control is one entry of controls/controls.json.
type control struct {
	Name   string              `json:"name"`
	Patch  string              `json:"patch"`  // path relative to /verif
	Kind   string              `json:"kind"`   // "breaking" (rules must fire), "neutral" (nothing may fire) or "drift" (the named rules fire, nothing else may)
	Expect map[string][]string `json:"expect"` // property -> rules that must report a finding
	Note   string              `json:"note,omitempty"`
}

func subRun(repo string, goarch, tags string, rules []string) ([]*report.Rule, error) {
	self, err := os.Executable()
	if err != nil {
		return nil, err
	}
	cmd := exec.Command(self, "rule", strings.Join(rules, ","), "--json")
	cmd.Env = append(os.Environ(), "VERIF_GOARCH="+goarch, "VERIF_TAGS="+tags)
	if repo != "" {
		cmd.Env = append(cmd.Env, "VERIF_REPO="+repo)
	}
	out, err := cmd.Output()
	if err != nil {
		if ee, ok := err.(*exec.ExitError); ok && len(out) == 0 {
			return nil, fmt.Errorf("%v: %s", err, string(ee.Stderr))
		}
	}
	var rs []*report.Rule
	if jerr := json.Unmarshal(out, &rs); jerr != nil {
		return nil, fmt.Errorf("cannot parse sub-run output: %v (%s)", jerr, trunc(string(out), 200))
	}
	return rs, nil
}

func trunc(s string, n int) string {
	if len(s) > n {
		return s[:n] + "…"
	}
	return s
}

func findingKeys(rs []*report.Rule) []string {
	var ks []string
	for _, r := range rs {
		for _, f := range r.Findings {
			ks = append(ks, f.Key())
		}
	}
	sort.Strings(ks)
	return ks
}

func scratchCopy(patch string) (string, func(), error) {
	base := os.Getenv("TMPDIR")
	if base == "" {
		base = os.TempDir()
	}
	dir, err := os.MkdirTemp(base, "verif-control-")
	if err != nil {
		return "", nil, err
	}
	cleanup := func() { os.RemoveAll(dir) }
	src := os.Getenv("VERIF_REPO")
	if src == "" {
		src = "/repo"
	}
	if out, err := exec.Command("rsync", "-a", "--exclude", ".git", src+"/", dir+"/").CombinedOutput(); err != nil {
		cleanup()
		return "", nil, fmt.Errorf("rsync: %v %s", err, out)
	}
	cmd := exec.Command("patch", "-p1", "-s", "--no-backup-if-mismatch", "-i", patch)
	cmd.Dir = dir
	if out, err := cmd.CombinedOutput(); err != nil {
		cleanup()
		return "", nil, fmt.Errorf("patch does not apply: %s", trunc(string(out), 200))
	}
	return dir, cleanup, nil
}

func thoroughImpl(id string, prop Property, base []*report.Rule) (map[string]interface{}, []string, []report.Finding) {
	extra := map[string]interface{}{}
	var infra []string
	var findings []report.Finding
	baseKeys := findingKeys(base)

	// (a) 32-bit int, (b) with the hook build tag: same rules, findings must agree
	type cfg struct{ name, goarch, tags string }
	var cfgRes []map[string]interface{}
	for _, c := range []cfg{{"GOARCH=386", "386", ""}, {"-tags verif", "", "verif"}} {
		rs, err := subRun("", c.goarch, c.tags, prop.Rules)
		entry := map[string]interface{}{"config": c.name}
		if err != nil {
			infra = append(infra, fmt.Sprintf("configuration %s: %v", c.name, err))
			entry["error"] = err.Error()
			cfgRes = append(cfgRes, entry)
			continue
		}
		keys := findingKeys(rs)
		obl := 0
		for _, r := range rs {
			obl += r.Obligations
			infra = append(infra, r.Infra...)
			for _, f := range r.Findings {
				findings = append(findings, f)
			}
		}
		entry["obligations"] = obl
		entry["findings"] = keys
		entry["agrees_with_default"] = strings.Join(keys, "|") == strings.Join(baseKeys, "|")
		cfgRes = append(cfgRes, entry)
	}
	extra["configurations"] = cfgRes

	// (c) control corpus
	var ctrls []control
	b, err := os.ReadFile(filepath.Join(verifDir(), "controls", "controls.json"))
	if err != nil {
		infra = append(infra, "controls/controls.json: "+err.Error())
		return extra, infra, findings
	}
	if err := json.Unmarshal(b, &ctrls); err != nil {
		infra = append(infra, "controls/controls.json: "+err.Error())
		return extra, infra, findings
	}
	ruleSet := map[string]bool{}
	for _, r := range prop.Rules {
		ruleSet[r] = true
	}
	type outcome struct {
		name, status, detail string
	}
	var mu sync.Mutex
	var outs []outcome
	sem := make(chan struct{}, 8)
	var wg sync.WaitGroup
	for _, c := range ctrls {
		c := c
		want := c.Expect[id]
		if c.Kind == "breaking" && len(want) == 0 {
			continue // this control does not concern the property
		}
		wg.Add(1)
		go func() {
			defer wg.Done()
			sem <- struct{}{}
			defer func() { <-sem }()
			rec := func(status, detail string) {
				mu.Lock()
				outs = append(outs, outcome{c.Name, status, detail})
				mu.Unlock()
			}
			dir, cleanup, err := scratchCopy(filepath.Join(verifDir(), c.Patch))
			if err != nil {
				rec("skipped", err.Error())
				return
			}
			defer cleanup()
			rs, err := subRun(dir, "", "", prop.Rules)
			if err != nil {
				rec("error", err.Error())
				return
			}
			fired := map[string]bool{}
			var all []string
			for _, r := range rs {
				for _, f := range r.Findings {
					if engineConcerns(f, id) {
						fired[r.ID] = true
						all = append(all, f.Key())
					}
				}
			}
			kind := c.Kind
			if kind == "drift" && len(want) == 0 {
				kind = "neutral" // a drift control must be silent for every property it does not name
			}
			switch kind {
			case "neutral":
				if len(all) > 0 {
					rec("FALSE-ALARM", strings.Join(all, "; "))
				} else {
					rec("silent", "")
				}
			default:
				var missing []string
				for _, w := range want {
					if ruleSet[w] && !fired[w] {
						missing = append(missing, w)
					}
				}
				if len(missing) > 0 {
					rec("NOT-DETECTED", "rules that should fire: "+strings.Join(missing, ","))
				} else {
					rec("detected", strings.Join(want, ","))
				}
			}
		}()
	}
	wg.Wait()
	sort.Slice(outs, func(i, j int) bool { return outs[i].name < outs[j].name })
	var list []map[string]string
	counts := map[string]int{}
	for _, o := range outs {
		list = append(list, map[string]string{"control": o.name, "status": o.status, "detail": o.detail})
		counts[o.status]++
		switch o.status {
		case "NOT-DETECTED":
			infra = append(infra, fmt.Sprintf("control %s: a rule of %s no longer fires on a change it is known to catch (%s)", o.name, id, o.detail))
		case "FALSE-ALARM":
			infra = append(infra, fmt.Sprintf("control %s: behaviour-preserving edit raises an alarm for %s: %s", o.name, id, o.detail))
		case "error":
			infra = append(infra, fmt.Sprintf("control %s: %s", o.name, o.detail))
		}
	}
	extra["controls"] = list
	extra["control_summary"] = counts
	return extra, infra, findings
}

// engineConcerns: in a sub-run the per-finding property restriction is not available (it lives in
// the sub-process); the sub-process encodes it in the finding's Property field.
func engineConcerns(f report.Finding, prop string) bool {
	if f.Property == "" {
		return true
	}
	return engine.ConcernsList(strings.Split(f.Property, ","), prop)
}
