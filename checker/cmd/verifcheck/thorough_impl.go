package main

import "verif/checker/internal/report"

func thoroughImpl(id string, prop Property, base []*report.Rule) (map[string]interface{}, []string, []report.Finding) {
	return map[string]interface{}{}, nil, nil
}
