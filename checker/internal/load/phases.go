package load

import (
	"go/types"
	"sort"

	"golang.org/x/tools/go/callgraph"
	"golang.org/x/tools/go/callgraph/cha"
	"golang.org/x/tools/go/callgraph/vta"
	"golang.org/x/tools/go/ssa"
	"golang.org/x/tools/go/ssa/ssautil"
)

// CallGraph is the VTA call graph restricted to what the rules need.
type CallGraph struct {
	G     *callgraph.Graph
	CHA   *callgraph.Graph
	Edges int
}

// Callees returns the callees of fn (all, including external), deduplicated.
func (c *CallGraph) Callees(fn *ssa.Function) []*ssa.Function {
	n := c.G.Nodes[fn]
	if n == nil {
		return nil
	}
	seen := map[*ssa.Function]bool{}
	var out []*ssa.Function
	for _, e := range n.Out {
		if e.Callee == nil || e.Callee.Func == nil || seen[e.Callee.Func] {
			continue
		}
		seen[e.Callee.Func] = true
		out = append(out, e.Callee.Func)
	}
	sort.Slice(out, func(i, j int) bool { return out[i].String() < out[j].String() })
	return out
}

// CalleesAt returns the resolved callees of one call site.
func (c *CallGraph) CalleesAt(site ssa.CallInstruction) []*ssa.Function {
	fn := site.Parent()
	n := c.G.Nodes[fn]
	if n == nil {
		return nil
	}
	seen := map[*ssa.Function]bool{}
	var out []*ssa.Function
	for _, e := range n.Out {
		if e.Site == site && e.Callee != nil && e.Callee.Func != nil && !seen[e.Callee.Func] {
			seen[e.Callee.Func] = true
			out = append(out, e.Callee.Func)
		}
	}
	sort.Slice(out, func(i, j int) bool { return out[i].String() < out[j].String() })
	return out
}

// Callers returns the call edges into fn.
func (c *CallGraph) Callers(fn *ssa.Function) []*callgraph.Edge {
	n := c.G.Nodes[fn]
	if n == nil {
		return nil
	}
	return n.In
}

func (p *Program) computePhases() error {
	all := ssautil.AllFunctions(p.Prog)
	chaG := cha.CallGraph(p.Prog)
	g := vta.CallGraph(all, chaG)
	p.CG = &CallGraph{G: g, CHA: chaG}
	for _, n := range g.Nodes {
		if n.Func != nil && p.InPkg(n.Func) {
			p.CG.Edges += len(n.Out)
		}
	}

	parse := p.Roles.Parse
	// evaluation closure: the unique MakeClosure in Parse whose signature is
	// Parse's first result type.
	want := parse.Signature.Results().At(0).Type()
	var clos []*ssa.Function
	for _, b := range parse.Blocks {
		for _, ins := range b.Instrs {
			if mc, ok := ins.(*ssa.MakeClosure); ok {
				if types.Identical(mc.Type(), want) {
					clos = append(clos, mc.Fn.(*ssa.Function))
				}
			}
		}
	}
	if len(clos) == 0 {
		// a closure without free variables is a plain *ssa.Function value
		for _, a := range parse.AnonFuncs {
			if types.Identical(a.Signature, want) {
				clos = append(clos, a)
			}
		}
	}
	if len(clos) == 0 {
		// the closure is built by a helper that Parse calls and whose result Parse returns
		for _, b := range parse.Blocks {
			for _, ins := range b.Instrs {
				call, ok := ins.(*ssa.Call)
				if !ok {
					continue
				}
				sc := call.Call.StaticCallee()
				if sc == nil || !p.InPkg(sc) || sc.Blocks == nil || sc.Signature.Results().Len() != 1 || !types.Identical(sc.Signature.Results().At(0).Type(), want) {
					continue
				}
				for _, bb := range sc.Blocks {
					for _, x := range bb.Instrs {
						if mc, ok := x.(*ssa.MakeClosure); ok && types.Identical(mc.Type(), want) {
							clos = append(clos, mc.Fn.(*ssa.Function))
						}
					}
				}
				if len(clos) == 0 {
					for _, a := range sc.AnonFuncs {
						if types.Identical(a.Signature, want) {
							clos = append(clos, a)
						}
					}
				}
			}
		}
	}
	if len(clos) != 1 {
		return infra("anchor unresolved: evaluation closure of Parse (found %d candidates)", len(clos))
	}
	p.EvalClosure = clos[0]

	p.Eval = map[*ssa.Function]bool{}
	p.EvalExt = map[string]bool{}
	var walk func(fn *ssa.Function, set map[*ssa.Function]bool, stop *ssa.Function, ext map[string]bool)
	walk = func(fn *ssa.Function, set map[*ssa.Function]bool, stop *ssa.Function, ext map[string]bool) {
		if fn == nil || set[fn] || fn == stop {
			return
		}
		if !p.InPkg(fn) {
			if ext != nil {
				ext[fn.String()] = true
			}
			return
		}
		set[fn] = true
		for _, c := range p.CG.Callees(fn) {
			walk(c, set, stop, ext)
		}
	}
	walk(p.EvalClosure, p.Eval, nil, p.EvalExt)
	p.ParsePhase = map[*ssa.Function]bool{}
	walk(parse, p.ParsePhase, p.EvalClosure, nil)
	if len(p.Eval) < 30 {
		return infra("EVAL phase has only %d functions (floor 30): call graph broken?", len(p.Eval))
	}
	if len(p.ParsePhase) < 60 {
		return infra("PARSE phase has only %d functions (floor 60)", len(p.ParsePhase))
	}
	return nil
}

// SortedFuncs returns the functions of a set in deterministic order.
func SortedFuncs(set map[*ssa.Function]bool) []*ssa.Function {
	var out []*ssa.Function
	for f := range set {
		out = append(out, f)
	}
	sort.Slice(out, func(i, j int) bool {
		if out[i].Pos() != out[j].Pos() {
			return out[i].Pos() < out[j].Pos()
		}
		return out[i].String() < out[j].String()
	})
	return out
}
