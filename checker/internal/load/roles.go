package load

import (
	"go/types"
	"sort"

	"golang.org/x/tools/go/ssa"
)

// Roles are the semantic anchors of the rules (DESIGN.md G-2). Only the
// public API is located by name; everything else by shape.
type Roles struct {
	Parse    *ssa.Function
	Retrieve *ssa.Function

	ParserGlobal *ssa.Global  // the package-level generated parser instance
	ParserType   *types.Named // type declared in the generated file
	ActionState  *types.Named // hand-written struct embedded in ParserType
	Mutex        *ssa.Global
	Pools        []*ssa.Global

	NodeIface       *types.Named
	RetrieveName    string // name of the node interface's evaluation method
	SinkType        *types.Named
	SinkField       *types.Var
	RuntimeErrIface *types.Named
	QueryIface      *types.Named
	QueryMethod     string
	ComparatorIface *types.Named
	CompareMethod   string // (list, value) bool
	ValidateMethod  string // (list) bool
	ValidatorIface  *types.Named
	SubscriptIface  *types.Named
	IndexesMethod   string

	NodeTypes       []*types.Named // concrete struct types T with *T implementing NodeIface
	BasicNode       *types.Named   // struct embedded (by pointer) in all node types
	QueryTypes      []*types.Named // *T implements QueryIface
	ComparatorTypes []*types.Named
	ValidatorTypes  []*types.Named // *T implements ValidatorIface and not ComparatorIface
	SubscriptTypes  []*types.Named

	Marker     *ssa.Global // absence marker
	MarkerList *ssa.Global // one-element list holding the marker ("no member matched")
	FullList   *ssa.Global // one-element list holding a constant ("matched as a whole")

	SyntaxErrTypes  []*types.Named // the four documented syntax-check error types
	RuntimeErrTypes []*types.Named // the three documented runtime error types
	Accessor        *types.Named
	Config          *types.Named
}

var syntaxErrNames = []string{"ErrorInvalidSyntax", "ErrorInvalidArgument", "ErrorFunctionNotFound", "ErrorNotSupported"}
var runtimeErrNames = []string{"ErrorMemberNotExist", "ErrorTypeUnmatched", "ErrorFunctionFailed"}

func (p *Program) namedType(name string) *types.Named {
	o := p.Types.Scope().Lookup(name)
	if tn, ok := o.(*types.TypeName); ok {
		if n, ok := tn.Type().(*types.Named); ok {
			return n
		}
	}
	return nil
}

func isEmptyIface(t types.Type) bool {
	i, ok := t.Underlying().(*types.Interface)
	return ok && i.NumMethods() == 0
}

func isIfaceSlice(t types.Type) bool {
	s, ok := t.Underlying().(*types.Slice)
	return ok && isEmptyIface(s.Elem())
}

func isBool(t types.Type) bool {
	b, ok := t.Underlying().(*types.Basic)
	return ok && b.Kind() == types.Bool
}

func isInt(t types.Type) bool {
	b, ok := t.Underlying().(*types.Basic)
	return ok && b.Kind() == types.Int
}

// allNamed lists the package-level named types in deterministic order.
func (p *Program) allNamed() []*types.Named {
	var out []*types.Named
	sc := p.Types.Scope()
	names := sc.Names()
	sort.Strings(names)
	for _, n := range names {
		if tn, ok := sc.Lookup(n).(*types.TypeName); ok && !tn.IsAlias() {
			if nt, ok := tn.Type().(*types.Named); ok {
				out = append(out, nt)
			}
		}
	}
	return out
}

func (p *Program) implementers(iface *types.Named) []*types.Named {
	it := iface.Underlying().(*types.Interface)
	var out []*types.Named
	for _, n := range p.allNamed() {
		if _, isI := n.Underlying().(*types.Interface); isI {
			continue
		}
		if types.Implements(types.NewPointer(n), it) || types.Implements(n, it) {
			out = append(out, n)
		}
	}
	return out
}

func (p *Program) findRoles() error {
	r := &Roles{}
	p.Roles = r

	// public API by name
	if f, ok := p.SSA.Members["Parse"].(*ssa.Function); ok {
		r.Parse = f
	}
	if f, ok := p.SSA.Members["Retrieve"].(*ssa.Function); ok {
		r.Retrieve = f
	}
	if r.Parse == nil || r.Retrieve == nil {
		return infra("anchor unresolved: exported Parse/Retrieve")
	}
	sig := r.Parse.Signature
	if sig.Results().Len() != 2 {
		return infra("anchor unresolved: Parse must return (func, error)")
	}
	for _, n := range syntaxErrNames {
		t := p.namedType(n)
		if t == nil {
			return infra("anchor unresolved: exported type %s", n)
		}
		r.SyntaxErrTypes = append(r.SyntaxErrTypes, t)
	}
	for _, n := range runtimeErrNames {
		t := p.namedType(n)
		if t == nil {
			return infra("anchor unresolved: exported type %s", n)
		}
		r.RuntimeErrTypes = append(r.RuntimeErrTypes, t)
	}
	r.Accessor = p.namedType("Accessor")
	r.Config = p.namedType("Config")
	if r.Accessor == nil || r.Config == nil {
		return infra("anchor unresolved: exported Accessor/Config")
	}

	// globals by type / declaring file
	var globals []*ssa.Global
	for _, m := range p.SSA.Members {
		if g, ok := m.(*ssa.Global); ok {
			globals = append(globals, g)
		}
	}
	sort.Slice(globals, func(i, j int) bool { return globals[i].Name() < globals[j].Name() })
	for _, g := range globals {
		et := g.Type().(*types.Pointer).Elem()
		if nt, ok := et.(*types.Named); ok {
			if nt.Obj().Pkg() != nil && nt.Obj().Pkg().Path() == "sync" && (nt.Obj().Name() == "Mutex" || nt.Obj().Name() == "RWMutex") {
				if r.Mutex != nil {
					return infra("anchor ambiguous: more than one package-level mutex (%s, %s)", r.Mutex.Name(), g.Name())
				}
				r.Mutex = g
			}
			if nt.Obj().Pkg() == p.Types && p.IsGenerated(nt.Obj().Pos()) {
				if _, isStruct := nt.Underlying().(*types.Struct); isStruct {
					if r.ParserGlobal != nil {
						return infra("anchor ambiguous: more than one global of a generated struct type")
					}
					r.ParserGlobal = g
					r.ParserType = nt
				}
			}
		}
		if pt, ok := et.(*types.Pointer); ok {
			if nt, ok := pt.Elem().(*types.Named); ok && nt.Obj().Pkg() != nil && nt.Obj().Pkg().Path() == "sync" && nt.Obj().Name() == "Pool" {
				r.Pools = append(r.Pools, g)
			}
		}
	}
	if r.Mutex == nil {
		return infra("anchor unresolved: package-level mutex")
	}
	if r.ParserGlobal == nil {
		return infra("anchor unresolved: package-level generated parser instance")
	}
	// action state = embedded field of parser type declared outside generated file
	st := r.ParserType.Underlying().(*types.Struct)
	for i := 0; i < st.NumFields(); i++ {
		f := st.Field(i)
		if f.Embedded() {
			if nt, ok := f.Type().(*types.Named); ok && nt.Obj().Pkg() == p.Types && !p.IsGenerated(nt.Obj().Pos()) {
				if r.ActionState != nil {
					return infra("anchor ambiguous: two hand-written structs embedded in the parser type")
				}
				r.ActionState = nt
			}
		}
	}
	if r.ActionState == nil {
		return infra("anchor unresolved: action-state struct embedded in the generated parser type")
	}

	// interfaces by shape
	for _, n := range p.allNamed() {
		it, ok := n.Underlying().(*types.Interface)
		if !ok {
			continue
		}
		for i := 0; i < it.NumMethods(); i++ {
			m := it.Method(i)
			ms := m.Type().(*types.Signature)
			ps, rs := ms.Params(), ms.Results()
			switch {
			case ps.Len() == 3 && rs.Len() == 1 && isEmptyIface(ps.At(0).Type()) && isEmptyIface(ps.At(1).Type()):
				if pt, ok := ps.At(2).Type().(*types.Pointer); ok {
					if sn, ok := pt.Elem().(*types.Named); ok {
						if _, ok := rs.At(0).Type().Underlying().(*types.Interface); ok {
							if r.NodeIface != nil && r.NodeIface != n {
								return infra("anchor ambiguous: node interface (%s, %s)", r.NodeIface.Obj().Name(), n.Obj().Name())
							}
							r.NodeIface = n
							r.RetrieveName = m.Name()
							r.SinkType = sn
							if en, ok := rs.At(0).Type().(*types.Named); ok {
								r.RuntimeErrIface = en
							}
						}
					}
				}
			case it.NumMethods() == 1 && ps.Len() == 2 && rs.Len() == 1 && isEmptyIface(ps.At(0).Type()) && isIfaceSlice(ps.At(1).Type()) && isIfaceSlice(rs.At(0).Type()):
				if r.QueryIface != nil {
					return infra("anchor ambiguous: query interface")
				}
				r.QueryIface = n
				r.QueryMethod = m.Name()
			case it.NumMethods() == 2 && ps.Len() == 2 && rs.Len() == 1 && isIfaceSlice(ps.At(0).Type()) && isEmptyIface(ps.At(1).Type()) && isBool(rs.At(0).Type()):
				if r.ComparatorIface != nil {
					return infra("anchor ambiguous: comparator interface")
				}
				r.ComparatorIface = n
				r.CompareMethod = m.Name()
			case it.NumMethods() == 1 && ps.Len() == 1 && rs.Len() == 1 && isIfaceSlice(ps.At(0).Type()) && isBool(rs.At(0).Type()):
				if r.ValidatorIface != nil {
					return infra("anchor ambiguous: validator interface")
				}
				r.ValidatorIface = n
				r.ValidateMethod = m.Name()
			case ps.Len() >= 1 && rs.Len() == 1 && isInt(ps.At(0).Type()):
				// index generation: (source length[, scratch…]) -> list of ints
				if sl, ok := rs.At(0).Type().Underlying().(*types.Slice); ok && isInt(sl.Elem()) {
					if r.SubscriptIface != nil {
						return infra("anchor ambiguous: subscript interface")
					}
					r.SubscriptIface = n
					r.IndexesMethod = m.Name()
				}
			}
		}
	}
	for name, v := range map[string]*types.Named{
		"node interface": r.NodeIface, "result sink type": r.SinkType, "runtime error interface": r.RuntimeErrIface,
		"query interface": r.QueryIface, "comparator interface": r.ComparatorIface,
		"validator interface": r.ValidatorIface, "subscript interface": r.SubscriptIface} {
		if v == nil {
			return infra("anchor unresolved: %s", name)
		}
	}
	// sink field: the single []interface{} field of the sink struct
	if ss, ok := r.SinkType.Underlying().(*types.Struct); ok {
		for i := 0; i < ss.NumFields(); i++ {
			if isIfaceSlice(ss.Field(i).Type()) {
				if r.SinkField != nil {
					return infra("anchor ambiguous: result field of the sink type")
				}
				r.SinkField = ss.Field(i)
			}
		}
	}
	if r.SinkField == nil {
		return infra("anchor unresolved: result field of the sink type")
	}

	r.NodeTypes = p.implementers(r.NodeIface)
	r.QueryTypes = p.implementers(r.QueryIface)
	r.ComparatorTypes = p.implementers(r.ComparatorIface)
	r.SubscriptTypes = p.implementers(r.SubscriptIface)
	cmpSet := map[*types.Named]bool{}
	for _, c := range r.ComparatorTypes {
		cmpSet[c] = true
	}
	for _, v := range p.implementers(r.ValidatorIface) {
		if !cmpSet[v] {
			r.ValidatorTypes = append(r.ValidatorTypes, v)
		}
	}
	if len(r.NodeTypes) < 8 || len(r.QueryTypes) < 6 || len(r.ComparatorTypes) < 6 || len(r.ValidatorTypes) < 4 || len(r.SubscriptTypes) < 3 {
		return infra("anchor unresolved: implementer sets too small (nodes=%d queries=%d comparators=%d validators=%d subscripts=%d)",
			len(r.NodeTypes), len(r.QueryTypes), len(r.ComparatorTypes), len(r.ValidatorTypes), len(r.SubscriptTypes))
	}
	// basic node: the struct embedded by pointer in every node type
	count := map[*types.Named]int{}
	for _, nt := range r.NodeTypes {
		if s, ok := nt.Underlying().(*types.Struct); ok {
			for i := 0; i < s.NumFields(); i++ {
				f := s.Field(i)
				if f.Embedded() {
					if pt, ok := f.Type().(*types.Pointer); ok {
						if bn, ok := pt.Elem().(*types.Named); ok {
							count[bn]++
						}
					}
				}
			}
		}
	}
	for bn, c := range count {
		if c >= len(r.NodeTypes)-1 { // the basic node itself also implements the interface
			r.BasicNode = bn
		}
	}
	if r.BasicNode == nil {
		return infra("anchor unresolved: basic node struct embedded in all node types")
	}

	// sentinels: package-level []interface{} one-element lists
	if err := p.findSentinels(globals); err != nil {
		return err
	}
	return nil
}

// findSentinels inspects the package initialiser: a global L of type
// []interface{} that is assigned a slice of a one-element array whose element
// is MakeInterface(load of global G) makes G the absence marker and L the
// "no member matched" list; one whose element is a constant is the "whole
// match" list.
func (p *Program) findSentinels(globals []*ssa.Global) error {
	r := p.Roles
	init := p.SSA.Members["init"].(*ssa.Function)
	for _, b := range init.Blocks {
		for _, ins := range b.Instrs {
			st, ok := ins.(*ssa.Store)
			if !ok {
				continue
			}
			g, ok := st.Addr.(*ssa.Global)
			if !ok || g.Pkg != p.SSA {
				continue
			}
			if !isIfaceSlice(g.Type().(*types.Pointer).Elem()) {
				continue
			}
			sl, ok := st.Val.(*ssa.Slice)
			if !ok {
				continue
			}
			alloc, ok := sl.X.(*ssa.Alloc)
			if !ok {
				continue
			}
			at, ok := alloc.Type().(*types.Pointer).Elem().(*types.Array)
			if !ok || at.Len() != 1 {
				continue
			}
			// find the store into element 0
			var elem ssa.Value
			for _, ref := range *alloc.Referrers() {
				if ia, ok := ref.(*ssa.IndexAddr); ok {
					for _, r2 := range *ia.Referrers() {
						if s2, ok := r2.(*ssa.Store); ok && s2.Addr == ia {
							elem = s2.Val
						}
					}
				}
			}
			if elem == nil {
				continue
			}
			// a marker variable that is declared with an interface type is stored as it is (its
			// dynamic type is then whatever was assigned: P-SENTINEL judges that)
			if ld, ok := elem.(*ssa.UnOp); ok {
				if mg, ok := ld.X.(*ssa.Global); ok && mg.Pkg == p.SSA && types.IsInterface(mg.Type().(*types.Pointer).Elem()) {
					if r.Marker != nil {
						return infra("anchor ambiguous: absence marker")
					}
					r.Marker = mg
					r.MarkerList = g
					continue
				}
			}
			if mi, ok := elem.(*ssa.MakeInterface); ok {
				if ld, ok := mi.X.(*ssa.UnOp); ok {
					if mg, ok := ld.X.(*ssa.Global); ok && mg.Pkg == p.SSA {
						if r.Marker != nil {
							return infra("anchor ambiguous: absence marker")
						}
						r.Marker = mg
						r.MarkerList = g
						continue
					}
				}
				if _, ok := mi.X.(*ssa.Const); ok {
					if r.FullList != nil {
						return infra("anchor ambiguous: whole-match sentinel list")
					}
					r.FullList = g
				}
			}
		}
	}
	if r.Marker == nil || r.MarkerList == nil {
		return infra("anchor unresolved: absence marker / no-match sentinel list")
	}
	if r.FullList == nil {
		return infra("anchor unresolved: whole-match sentinel list")
	}
	return nil
}

// MarkerType is the dynamic type of the absence marker.
func (r *Roles) MarkerType() types.Type {
	return r.Marker.Type().(*types.Pointer).Elem()
}

// IsNodeType reports whether t (possibly a pointer) is one of the node types.
func (r *Roles) IsNodeType(t types.Type) bool {
	if pt, ok := t.(*types.Pointer); ok {
		t = pt.Elem()
	}
	for _, n := range r.NodeTypes {
		if types.Identical(n, t) {
			return true
		}
	}
	return false
}
