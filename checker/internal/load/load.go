// Package load loads the repository under analysis (go/packages + go/ssa),
// computes the phases (PARSE / EVAL / USER-ONLY) and finds the semantic roles
// the rules refer to (DESIGN.md §2, G-2).
package load

import (
	"fmt"
	"go/ast"
	"go/parser"
	"go/token"
	"go/types"
	"os"
	"path/filepath"
	"runtime/debug"
	"sort"
	"strings"

	"verif/checker/internal/normal"

	"golang.org/x/tools/go/packages"
	"golang.org/x/tools/go/ssa"
	"golang.org/x/tools/go/ssa/ssautil"
)

// InfraError is an infrastructure failure (exit 2, never a VIOLATION).
type InfraError struct{ Msg string }

func (e *InfraError) Error() string { return e.Msg }

func infra(format string, a ...interface{}) error {
	return &InfraError{Msg: fmt.Sprintf(format, a...)}
}

// Options selects the build configuration.
type Options struct {
	Dir    string   // repository root (default /repo or $VERIF_REPO)
	Tags   []string // build tags
	GOARCH string   // "" = host

	NoNormalise bool   // skip internal/normal (set by Load itself when normalisation fails)
	normalErr   string // why normalisation was abandoned
}

// Program is the loaded, type-checked, SSA-built package plus roles.
type Program struct {
	Opts  Options
	Dir   string
	Fset  *token.FileSet
	Pkg   *packages.Package
	Types *types.Package
	Info  *types.Info
	Prog  *ssa.Program
	SSA   *ssa.Package

	Files    []*ast.File
	GenFiles map[*ast.File]bool // files with a "Code generated" header
	GenFile  *ast.File          // the single generated parser file
	NFiles   int

	// All SSA functions that belong to the package (methods, functions,
	// anonymous functions, init), deterministic order.
	Funcs []*ssa.Function

	Roles *Roles

	// Phases.
	EvalClosure *ssa.Function          // the function literal Parse returns
	Eval        map[*ssa.Function]bool // reachable from EvalClosure (package functions only)
	ParsePhase  map[*ssa.Function]bool // reachable from Parse's body, excluding EvalClosure's body
	CG          *CallGraph
	EvalExt     map[string]bool // external callees reachable directly from EVAL package functions

	Sizes types.Sizes

	// Normal reports what the source normaliser (internal/normal) expanded. Files, Info, Types
	// and the SSA form are those of the normalised source; GenFile is the generated parser as
	// written on disk (the grammar engine compares it with the grammar source).
	Normal *normal.Report
}

// RelPos renders a position relative to the repo root.
func (p *Program) RelPos(pos token.Pos) string {
	if !pos.IsValid() {
		return "-"
	}
	ps := p.Fset.Position(pos)
	rel, err := filepath.Rel(p.Dir, ps.Filename)
	if err != nil || strings.HasPrefix(rel, "..") {
		rel = ps.Filename
	}
	return fmt.Sprintf("%s:%d", rel, ps.Line)
}

// FileOf returns the base file name of a position.
func (p *Program) FileOf(pos token.Pos) string {
	if !pos.IsValid() {
		return ""
	}
	return filepath.Base(p.Fset.Position(pos).Filename)
}

// IsGenerated reports whether pos lies in a generated file.
func (p *Program) IsGenerated(pos token.Pos) bool {
	if !pos.IsValid() {
		return false
	}
	for f := range p.GenFiles {
		if f.Pos() <= pos && pos <= f.End() {
			return true
		}
	}
	return false
}

// FuncIsGenerated reports whether the function's source is in a generated file.
func (p *Program) FuncIsGenerated(fn *ssa.Function) bool {
	for f := fn; f != nil; f = f.Parent() {
		if f.Pos().IsValid() {
			return p.IsGenerated(f.Pos())
		}
		if f.Syntax() != nil {
			return p.IsGenerated(f.Syntax().Pos())
		}
	}
	return false
}

// FuncName is a stable printable name for a function.
func FuncName(fn *ssa.Function) string {
	if fn == nil {
		return "<nil>"
	}
	for f := fn; f != nil; f = f.Parent() {
		if f.Pkg != nil {
			return fn.RelString(f.Pkg.Pkg)
		}
	}
	if fn.Object() != nil && fn.Object().Pkg() != nil {
		return fn.RelString(fn.Object().Pkg())
	}
	return fn.String()
}

// InPkg reports whether fn belongs to the analysed package.
func (p *Program) InPkg(fn *ssa.Function) bool {
	if fn == nil {
		return false
	}
	for f := fn; f != nil; f = f.Parent() {
		if f.Pkg != nil {
			return f.Pkg == p.SSA
		}
	}
	// synthetic wrappers/bounds: decide by receiver / object package
	if fn.Object() != nil && fn.Object().Pkg() == p.Types {
		return true
	}
	return false
}

// Load loads and builds the program. Any failure is an InfraError.
func Load(opts Options) (*Program, error) {
	dir := opts.Dir
	if dir == "" {
		dir = os.Getenv("VERIF_REPO")
	}
	if dir == "" {
		dir = "/repo"
	}
	abs, err := filepath.Abs(dir)
	if err != nil {
		return nil, infra("abs %s: %v", dir, err)
	}
	env := append(os.Environ(),
		"GOFLAGS=-mod=mod", "GOPROXY=off", "GOSUMDB=off", "GOTOOLCHAIN=local", "GOWORK=off", "CGO_ENABLED=0")
	if opts.GOARCH != "" {
		env = append(env, "GOARCH="+opts.GOARCH)
	}
	cfg := &packages.Config{
		Mode:  packages.LoadAllSyntax | packages.NeedModule,
		Dir:   abs,
		Env:   env,
		Tests: false,
	}
	if len(opts.Tags) > 0 {
		cfg.BuildFlags = []string{"-tags=" + strings.Join(opts.Tags, ",")}
	}
	pkgs, err := packages.Load(cfg, ".")
	if err != nil {
		return nil, infra("packages.Load: %v", err)
	}
	if len(pkgs) != 1 {
		return nil, infra("expected exactly one root package, got %d", len(pkgs))
	}
	root := pkgs[0]
	nerr := 0
	var firstErr string
	packages.Visit(pkgs, nil, func(p *packages.Package) {
		for _, e := range p.Errors {
			if nerr == 0 {
				firstErr = e.Error()
			}
			nerr++
		}
	})
	if nerr > 0 {
		return nil, infra("load/type-check errors (%d), first: %s", nerr, firstErr)
	}
	if root.Types == nil || root.TypesInfo == nil || len(root.Syntax) == 0 {
		return nil, infra("root package has no syntax/types")
	}

	// the generated parser as written, before normalisation
	var origGen *ast.File
	ngen := 0
	for _, f := range root.Syntax {
		if isGeneratedFile(f) {
			ngen++
			og, err := parser.ParseFile(root.Fset, root.Fset.Position(f.Pos()).Filename, nil, parser.ParseComments)
			if err != nil {
				return nil, infra("re-parsing the generated file: %v", err)
			}
			origGen = og
		}
	}
	if ngen != 1 {
		return nil, infra("expected exactly one generated file, found %d", ngen)
	}
	var nrep *normal.Report
	if os.Getenv("VERIF_NO_NORMALISE") == "" && !opts.NoNormalise {
		imp := importerOf(root)
		// the language version decides the meaning of the program (loop variables are per
		// iteration only from go1.22 on): it must be the module's, as in the real build
		goVersion := ""
		if root.Module != nil && root.Module.GoVersion != "" {
			goVersion = "go" + root.Module.GoVersion
		} else if b, err := os.ReadFile(filepath.Join(abs, "go.mod")); err == nil {
			for _, line := range strings.Split(string(b), "\n") {
				f := strings.Fields(line)
				if len(f) == 2 && f[0] == "go" {
					goVersion = "go" + f[1]
				}
			}
		}
		if goVersion == "" {
			return nil, infra("cannot determine the module's go version (go.mod)")
		}
		check := func(files []*ast.File) (*types.Package, *types.Info, error) {
			info := &types.Info{
				Types:        map[ast.Expr]types.TypeAndValue{},
				Defs:         map[*ast.Ident]types.Object{},
				Uses:         map[*ast.Ident]types.Object{},
				Implicits:    map[ast.Node]types.Object{},
				Instances:    map[*ast.Ident]types.Instance{},
				Scopes:       map[ast.Node]*types.Scope{},
				Selections:   map[*ast.SelectorExpr]*types.Selection{},
				FileVersions: map[*ast.File]string{},
			}
			var first error
			conf := &types.Config{Importer: imp, Sizes: root.TypesSizes, GoVersion: goVersion, Error: func(e error) {
				if first == nil {
					first = e
				}
			}}
			pkg, _ := conf.Check(root.PkgPath, root.Fset, files, info)
			if first != nil {
				return nil, nil, first
			}
			return pkg, info, nil
		}
		var np *types.Package
		var ni *types.Info
		var rep *normal.Report
		var err error
		func() {
			defer func() {
				if x := recover(); x != nil {
					err = fmt.Errorf("panic: %v", x)
					if os.Getenv("VERIF_DEBUG_NORMAL") != "" {
						fmt.Fprintf(os.Stderr, "%s\n", debug.Stack())
					}
				}
			}()
			np, ni, rep, err = normal.Normalize(root.Fset, root.Syntax, root.Types, root.TypesInfo, normal.Known(), check)
		}()
		if err != nil {
			// the syntax trees were rewritten in place: load again and analyse the source as written
			// (helpers then stay opaque to the rules, as before the normaliser existed)
			opts.NoNormalise = true
			opts.normalErr = err.Error()
			return Load(opts)
		}
		root.Types, root.TypesInfo = np, ni
		nrep = rep
	}

	prog, ssapkgs := ssautil.AllPackages(pkgs, ssa.InstantiateGenerics)
	prog.Build()
	var spkg *ssa.Package
	for i, p := range pkgs {
		if p == root {
			spkg = ssapkgs[i]
		}
	}
	if spkg == nil {
		return nil, infra("no SSA package for root")
	}

	P := &Program{
		Opts:     opts,
		Dir:      abs,
		Fset:     root.Fset,
		Pkg:      root,
		Types:    root.Types,
		Info:     root.TypesInfo,
		Prog:     prog,
		SSA:      spkg,
		Files:    root.Syntax,
		GenFiles: map[*ast.File]bool{},
		Sizes:    root.TypesSizes,
		Normal:   nrep,
	}
	if opts.normalErr != "" {
		P.Normal = &normal.Report{Expanded: map[string]int{}, Failed: opts.normalErr}
	}
	for _, f := range root.Syntax {
		if isGeneratedFile(f) {
			P.GenFiles[f] = true
		}
	}
	P.GenFile = origGen
	P.NFiles = len(root.Syntax)
	if P.NFiles < 50 {
		return nil, infra("only %d non-test source files loaded (floor 50)", P.NFiles)
	}
	if len(P.GenFiles) != 1 {
		return nil, infra("expected exactly one generated file, found %d", len(P.GenFiles))
	}
	P.GenFiles[origGen] = true

	// collect functions
	seen := map[*ssa.Function]bool{}
	var add func(fn *ssa.Function)
	add = func(fn *ssa.Function) {
		if fn == nil || seen[fn] {
			return
		}
		seen[fn] = true
		P.Funcs = append(P.Funcs, fn)
		for _, a := range fn.AnonFuncs {
			add(a)
		}
	}
	for _, m := range spkg.Members {
		switch m := m.(type) {
		case *ssa.Function:
			add(m)
		case *ssa.Type:
			for _, T := range []types.Type{m.Type(), types.NewPointer(m.Type())} {
				ms := prog.MethodSets.MethodSet(T)
				for i := 0; i < ms.Len(); i++ {
					fn := prog.MethodValue(ms.At(i))
					if fn != nil && fn.Synthetic == "" {
						add(fn)
					}
				}
			}
		}
	}
	sort.Slice(P.Funcs, func(i, j int) bool {
		a, b := P.Funcs[i], P.Funcs[j]
		if a.Pos() != b.Pos() {
			return a.Pos() < b.Pos()
		}
		return FuncName(a) < FuncName(b)
	})

	if err := P.findRoles(); err != nil {
		return nil, err
	}
	if err := P.computePhases(); err != nil {
		return nil, err
	}
	return P, nil
}

// FuncByName finds a package function by its RelString name (e.g.
// "(*jsonPathParser).pop" or "Parse"). Only for tests / controls.
func (p *Program) FuncByName(name string) *ssa.Function {
	for _, f := range p.Funcs {
		if FuncName(f) == name {
			return f
		}
	}
	return nil
}

// isGeneratedFile recognises the "Code generated ... DO NOT EDIT" marker in
// any comment of the file head (peg writes it after the package clause).
func isGeneratedFile(f *ast.File) bool {
	for i, cg := range f.Comments {
		if i > 3 {
			break
		}
		for _, c := range cg.List {
			if strings.Contains(c.Text, "Code generated") && strings.Contains(c.Text, "DO NOT EDIT") {
				return true
			}
		}
	}
	return false
}

type mapImporter map[string]*types.Package

func (m mapImporter) Import(path string) (*types.Package, error) {
	if p := m[path]; p != nil {
		return p, nil
	}
	if path == "unsafe" {
		return types.Unsafe, nil
	}
	return nil, fmt.Errorf("package %s not loaded", path)
}

func importerOf(root *packages.Package) types.Importer {
	m := mapImporter{}
	for path, p := range root.Imports {
		m[path] = p.Types
	}
	return m
}
