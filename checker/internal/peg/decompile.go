package peg

import (
	"fmt"
	"go/ast"
	"go/token"
	"strconv"
	"strings"
)

// GenRule is a rule function recovered from the generated parser.
type GenRule struct {
	Name  string
	Index int // pegRule value
	E     Expr
	Pos   token.Pos
	Err   string // non-empty if the body is outside the template family
}

// Generated is what the decompiler recovered from jsonpath.peg.go.
type Generated struct {
	RuleNames []string            // pegRule value -> name ("Unknown", rules..., "Action0", "PegText", ...)
	Rules     map[string]*GenRule // non-inlined rules (function literals)
	NilSlots  map[string]bool     // rules whose slot in _rules is nil (inlined everywhere or action markers)
	Inlined   map[string][]Expr   // inlined copies found inside other rules
	Actions   map[int]*ast.CaseClause
	PegText   *ast.CaseClause
	Execute   *ast.FuncDecl
	Init      *ast.FuncDecl
	Errors    []string
}

type item struct {
	label string
	stmt  ast.Stmt
}

func flatten(stmts []ast.Stmt) []item {
	var out []item
	for _, s := range stmts {
		for {
			ls, ok := s.(*ast.LabeledStmt)
			if !ok {
				break
			}
			out = append(out, item{label: ls.Label.Name})
			s = ls.Stmt
		}
		if _, ok := s.(*ast.EmptyStmt); ok {
			continue
		}
		out = append(out, item{stmt: s})
	}
	return out
}

type decomp struct {
	g    *Generated
	rule string
	errs []string
	// inside a switch case: the label set whose test the generator elided; the
	// first matcher on the leftmost path may then be a bare position++.
	pending    RuneSet
	hasPending bool
	elided     bool
}

func (d *decomp) errf(pos token.Pos, f string, a ...interface{}) {
	d.errs = append(d.errs, fmt.Sprintf("rule %s: %s", d.rule, fmt.Sprintf(f, a...)))
	_ = pos
}

func identName(e ast.Expr) string {
	if id, ok := e.(*ast.Ident); ok {
		return id.Name
	}
	return ""
}

func isGoto(s ast.Stmt) (string, bool) {
	b, ok := s.(*ast.BranchStmt)
	if ok && b.Tok == token.GOTO && b.Label != nil {
		return b.Label.Name, true
	}
	return "", false
}

// single goto inside an if body
func bodyGoto(b *ast.BlockStmt) (string, bool) {
	if b == nil || len(b.List) != 1 {
		return "", false
	}
	return isGoto(b.List[0])
}

func isSave2(s ast.Stmt) (string, bool) {
	a, ok := s.(*ast.AssignStmt)
	if !ok || a.Tok != token.DEFINE || len(a.Lhs) != 2 || len(a.Rhs) != 2 {
		return "", false
	}
	l0, l1 := identName(a.Lhs[0]), identName(a.Lhs[1])
	if identName(a.Rhs[0]) != "position" || identName(a.Rhs[1]) != "tokenIndex" {
		return "", false
	}
	if !strings.HasPrefix(l0, "position") || !strings.HasPrefix(l1, "tokenIndex") {
		return "", false
	}
	n := strings.TrimPrefix(l0, "position")
	if n == "" || strings.TrimPrefix(l1, "tokenIndex") != n {
		return "", false
	}
	return n, true
}

func isSave1(s ast.Stmt) (string, bool) {
	a, ok := s.(*ast.AssignStmt)
	if !ok || a.Tok != token.DEFINE || len(a.Lhs) != 1 || len(a.Rhs) != 1 {
		return "", false
	}
	l0 := identName(a.Lhs[0])
	if identName(a.Rhs[0]) != "position" || !strings.HasPrefix(l0, "position") || l0 == "position" {
		return "", false
	}
	return strings.TrimPrefix(l0, "position"), true
}

func isRestore2(s ast.Stmt, n string) bool {
	a, ok := s.(*ast.AssignStmt)
	if !ok || a.Tok != token.ASSIGN || len(a.Lhs) != 2 || len(a.Rhs) != 2 {
		return false
	}
	return identName(a.Lhs[0]) == "position" && identName(a.Lhs[1]) == "tokenIndex" &&
		identName(a.Rhs[0]) == "position"+n && identName(a.Rhs[1]) == "tokenIndex"+n
}

func isPosInc(s ast.Stmt) bool {
	i, ok := s.(*ast.IncDecStmt)
	return ok && i.Tok == token.INC && identName(i.X) == "position"
}

// isBufferAtPosition: buffer[position]
func isBufferAtPosition(e ast.Expr) bool {
	ix, ok := e.(*ast.IndexExpr)
	return ok && identName(ix.X) == "buffer" && identName(ix.Index) == "position"
}

// runeOf: rune('c') or 'c'
func runeOf(e ast.Expr) (rune, bool) {
	if call, ok := e.(*ast.CallExpr); ok && identName(call.Fun) == "rune" && len(call.Args) == 1 {
		e = call.Args[0]
	}
	lit, ok := e.(*ast.BasicLit)
	if !ok || lit.Kind != token.CHAR {
		return 0, false
	}
	s, err := strconv.Unquote(lit.Value)
	if err != nil {
		return 0, false
	}
	rs := []rune(s)
	if len(rs) != 1 {
		return 0, false
	}
	return rs[0], true
}

// addCall: add(ruleX, arg)
func addCall(s ast.Stmt) (rule string, arg string, ok bool) {
	es, isE := s.(*ast.ExprStmt)
	if !isE {
		return "", "", false
	}
	call, isC := es.X.(*ast.CallExpr)
	if !isC || identName(call.Fun) != "add" || len(call.Args) != 2 {
		return "", "", false
	}
	r := identName(call.Args[0])
	if !strings.HasPrefix(r, "rule") {
		return "", "", false
	}
	return strings.TrimPrefix(r, "rule"), identName(call.Args[1]), true
}

// ruleCall: !_rules[ruleX]()
func ruleCall(e ast.Expr) (string, bool) {
	u, ok := e.(*ast.UnaryExpr)
	if !ok || u.Op != token.NOT {
		return "", false
	}
	call, ok := u.X.(*ast.CallExpr)
	if !ok || len(call.Args) != 0 {
		return "", false
	}
	if identName(call.Fun) == "matchDot" {
		return ".", true
	}
	ix, ok := call.Fun.(*ast.IndexExpr)
	if !ok || identName(ix.X) != "_rules" {
		return "", false
	}
	r := identName(ix.Index)
	if !strings.HasPrefix(r, "rule") {
		return "", false
	}
	return strings.TrimPrefix(r, "rule"), true
}

// parseSeq decompiles a statement list into a sequence of expressions. fail is
// the label a failing matcher must jump to.
func (d *decomp) parseSeq(items []item, fail string) []Expr {
	var out []Expr
	for i := 0; i < len(items); i++ {
		it := items[i]
		if it.label != "" {
			continue // labels are interpreted by the neighbouring blocks
		}
		if isPosInc(it.stmt) {
			if d.hasPending {
				out = append(out, &CharSet{Set: d.pending})
				d.hasPending, d.elided = false, true
			} else {
				d.errf(it.stmt.Pos(), "bare position++ that is not the elided first test of a switch case")
			}
			continue
		}
		if _, isBlock := it.stmt.(*ast.BlockStmt); !isBlock {
			d.hasPending = false // any other matcher ends the leftmost path
		}
		switch s := it.stmt.(type) {
		case *ast.IfStmt:
			target, okg := bodyGoto(s.Body)
			if !okg || s.Else != nil {
				d.errf(s.Pos(), "if statement outside the matcher templates")
				continue
			}
			if target != fail {
				d.errf(s.Pos(), "matcher fails to label %s, expected %s", target, fail)
			}
			if s.Init != nil {
				// range: c := buffer[position]; c < rune(a) || c > rune(b)
				as, ok := s.Init.(*ast.AssignStmt)
				be, ok2 := s.Cond.(*ast.BinaryExpr)
				if !ok || !ok2 || len(as.Rhs) != 1 || !isBufferAtPosition(as.Rhs[0]) || be.Op != token.LOR {
					d.errf(s.Pos(), "range test outside the template")
					continue
				}
				lo, ok3 := be.X.(*ast.BinaryExpr)
				hi, ok4 := be.Y.(*ast.BinaryExpr)
				if !ok3 || !ok4 || lo.Op != token.LSS || hi.Op != token.GTR {
					d.errf(s.Pos(), "range test outside the template")
					continue
				}
				a, oka := runeOf(lo.Y)
				b, okb := runeOf(hi.Y)
				if !oka || !okb || identName(lo.X) != identName(as.Lhs[0]) || identName(hi.X) != identName(as.Lhs[0]) {
					d.errf(s.Pos(), "range test outside the template")
					continue
				}
				if i+1 >= len(items) || items[i+1].stmt == nil || !isPosInc(items[i+1].stmt) {
					d.errf(s.Pos(), "range test not followed by position++")
				} else {
					i++
				}
				out = append(out, &CharSet{Set: NewSet(Interval{a, b})})
				continue
			}
			if be, ok := s.Cond.(*ast.BinaryExpr); ok && be.Op == token.NEQ && isBufferAtPosition(be.X) {
				c, okc := runeOf(be.Y)
				if !okc {
					d.errf(s.Pos(), "character test with a non-literal")
					continue
				}
				if i+1 >= len(items) || items[i+1].stmt == nil || !isPosInc(items[i+1].stmt) {
					d.errf(s.Pos(), "character test not followed by position++")
				} else {
					i++
				}
				out = append(out, &CharSet{Set: NewSet(Interval{c, c})})
				continue
			}
			if name, ok := ruleCall(s.Cond); ok {
				if name == "." {
					out = append(out, &Dot{})
				} else {
					out = append(out, &Ref{Name: name})
				}
				continue
			}
			d.errf(s.Pos(), "if condition outside the matcher templates")
		case *ast.BlockStmt:
			var before, after []string
			for j := i - 1; j >= 0 && items[j].label != ""; j-- {
				before = append(before, items[j].label)
			}
			for j := i + 1; j < len(items) && items[j].label != ""; j++ {
				after = append(after, items[j].label)
			}
			if e := d.parseBlock(s, fail, before, after); e != nil {
				out = append(out, e)
			}
		case *ast.BranchStmt:
			d.errf(s.Pos(), "stray goto in a sequence")
		default:
			d.errf(it.stmt.Pos(), "statement outside the matcher templates: %T", it.stmt)
		}
	}
	return out
}

func mkSeq(es []Expr) Expr {
	if len(es) == 1 {
		return es[0]
	}
	return &Seq{Items: es}
}

func contains(ss []string, s string) bool {
	for _, x := range ss {
		if x == s {
			return true
		}
	}
	return false
}

func (d *decomp) parseBlock(b *ast.BlockStmt, fail string, before, after []string) Expr {
	items := flatten(b.List)
	if len(items) == 0 {
		return nil
	}
	first := items[0]
	if first.stmt == nil {
		d.errf(b.Pos(), "block starts with a label")
		return nil
	}
	// action marker
	if len(items) == 1 {
		if _, isSw := first.stmt.(*ast.SwitchStmt); !isSw {
			d.hasPending = false
		}
		if r, arg, ok := addCall(first.stmt); ok && strings.HasPrefix(r, "Action") && arg == "position" {
			k, err := strconv.Atoi(strings.TrimPrefix(r, "Action"))
			if err != nil {
				d.errf(b.Pos(), "bad action marker %s", r)
				return nil
			}
			return &Action{Index: k}
		}
		if sw, ok := first.stmt.(*ast.SwitchStmt); ok {
			return d.parseSwitch(sw, fail)
		}
	}
	// wrapper: positionN := position ... add(ruleX, positionN)
	if n, ok := isSave1(first.stmt); ok {
		last := items[len(items)-1]
		r, arg, okA := "", "", false
		if last.stmt != nil {
			r, arg, okA = addCall(last.stmt)
		}
		if !okA || arg != "position"+n {
			d.errf(b.Pos(), "wrapper block does not end with add(rule…, position%s)", n)
			return nil
		}
		inner := d.parseSeq(items[1:len(items)-1], fail)
		if r == "PegText" {
			return &Capture{E: mkSeq(inner)}
		}
		return &Named{Name: r, E: mkSeq(inner)}
	}
	n, ok := isSave2(first.stmt)
	if !ok {
		d.errf(b.Pos(), "block outside the matcher templates")
		return nil
	}
	d.hasPending = false
	// find the first "label + restore(n)"
	findRestore := func(from int) int {
		for j := from; j+1 < len(items); j++ {
			if items[j].label != "" && items[j+1].stmt != nil && isRestore2(items[j+1].stmt, n) {
				return j
			}
		}
		return -1
	}
	j := findRestore(1)
	if j < 0 {
		d.errf(b.Pos(), "saved-position block without restore")
		return nil
	}
	altItems := items[1:j]
	if len(altItems) == 0 || altItems[len(altItems)-1].stmt == nil {
		d.errf(b.Pos(), "alternative without success jump")
		return nil
	}
	target, okg := isGoto(altItems[len(altItems)-1].stmt)
	if !okg {
		d.errf(b.Pos(), "alternative does not end with a goto")
		return nil
	}
	alt := mkSeq(d.parseSeq(altItems[:len(altItems)-1], items[j].label))
	rest := items[j+2:]
	if len(rest) == 0 {
		switch {
		case contains(before, target):
			return &Star{E: alt}
		case target == fail:
			return &Not{E: alt}
		case contains(after, target):
			return &Opt{E: alt}
		}
		d.errf(b.Pos(), "saved-position block whose success target %s is neither loop, enclosing failure (%s) nor continuation", target, fail)
		return nil
	}
	// ordered choice
	okLabel := target
	if !contains(after, okLabel) {
		d.errf(b.Pos(), "choice whose success label %s does not follow the block", okLabel)
	}
	alts := []Expr{alt}
	for {
		k := -1
		for x := 0; x+1 < len(rest); x++ {
			if rest[x].label != "" && rest[x+1].stmt != nil && isRestore2(rest[x+1].stmt, n) {
				k = x
				break
			}
		}
		if k < 0 {
			// last alternative: fails outward; may end with goto okLabel or fall through
			li := rest
			if len(li) > 0 && li[len(li)-1].stmt != nil {
				if t, ok := isGoto(li[len(li)-1].stmt); ok && t == okLabel {
					li = li[:len(li)-1]
				}
			}
			alts = append(alts, mkSeq(d.parseSeq(li, fail)))
			break
		}
		ai := rest[:k]
		if len(ai) == 0 || ai[len(ai)-1].stmt == nil {
			d.errf(b.Pos(), "alternative without success jump")
			return nil
		}
		t, okg := isGoto(ai[len(ai)-1].stmt)
		if !okg || t != okLabel {
			d.errf(b.Pos(), "alternative does not jump to the choice's success label")
			return nil
		}
		alts = append(alts, mkSeq(d.parseSeq(ai[:len(ai)-1], rest[k].label)))
		rest = rest[k+2:]
	}
	return &Choice{Alts: alts}
}

func (d *decomp) parseSwitch(sw *ast.SwitchStmt, fail string) Expr {
	if sw.Init != nil || !isBufferAtPosition(sw.Tag) {
		d.errf(sw.Pos(), "switch outside the template")
		return nil
	}
	ch := &Choice{Switch: true}
	for _, cs := range sw.Body.List {
		cc, ok := cs.(*ast.CaseClause)
		if !ok {
			d.errf(cs.Pos(), "switch clause outside the template")
			continue
		}
		var set RuneSet
		for _, e := range cc.List {
			c, okc := runeOf(e)
			if !okc {
				d.errf(e.Pos(), "non-literal case label")
				continue
			}
			set = append(set, Interval{c, c})
		}
		set = set.norm()
		items := flatten(cc.Body)
		d.hasPending, d.pending, d.elided = cc.List != nil, set, false
		es := d.parseSeq(items, fail)
		elided := d.elided
		d.hasPending, d.elided = false, false
		ch.Alts = append(ch.Alts, mkSeq(es))
		if cc.List == nil {
			ch.CaseSets = append(ch.CaseSets, nil)
		} else {
			ch.CaseSets = append(ch.CaseSets, set)
		}
		ch.Elided = append(ch.Elided, elided)
	}
	return ch
}

// Decompile recovers the grammar implemented by the generated parser file.
func Decompile(f *ast.File) *Generated {
	g := &Generated{Rules: map[string]*GenRule{}, NilSlots: map[string]bool{}, Inlined: map[string][]Expr{}, Actions: map[int]*ast.CaseClause{}}
	// rule names from the const block: ruleUnknown pegRule = iota ...
	for _, decl := range f.Decls {
		gd, ok := decl.(*ast.GenDecl)
		if !ok || gd.Tok != token.CONST {
			continue
		}
		var names []string
		for _, sp := range gd.Specs {
			vs := sp.(*ast.ValueSpec)
			for _, n := range vs.Names {
				names = append(names, n.Name)
			}
		}
		if len(names) > 0 && names[0] == "ruleUnknown" {
			for _, n := range names {
				g.RuleNames = append(g.RuleNames, strings.TrimPrefix(n, "rule"))
			}
		}
	}
	if len(g.RuleNames) == 0 {
		g.Errors = append(g.Errors, "rule constant block not found")
		return g
	}
	for _, decl := range f.Decls {
		fd, ok := decl.(*ast.FuncDecl)
		if !ok || fd.Recv == nil {
			continue
		}
		switch fd.Name.Name {
		case "Init":
			g.Init = fd
		case "Execute":
			g.Execute = fd
		}
	}
	if g.Init == nil || g.Execute == nil {
		g.Errors = append(g.Errors, "Init/Execute not found")
		return g
	}
	// _rules = [...]func() bool{...}
	var lit *ast.CompositeLit
	ast.Inspect(g.Init.Body, func(n ast.Node) bool {
		as, ok := n.(*ast.AssignStmt)
		if ok && len(as.Lhs) == 1 && identName(as.Lhs[0]) == "_rules" && as.Tok == token.ASSIGN {
			if cl, ok := as.Rhs[0].(*ast.CompositeLit); ok {
				lit = cl
			}
		}
		return true
	})
	if lit == nil {
		g.Errors = append(g.Errors, "_rules array literal not found")
		return g
	}
	if len(lit.Elts) != len(g.RuleNames) {
		g.Errors = append(g.Errors, fmt.Sprintf("_rules has %d entries, %d rule constants", len(lit.Elts), len(g.RuleNames)))
	}
	for idx, el := range lit.Elts {
		if idx >= len(g.RuleNames) {
			break
		}
		name := g.RuleNames[idx]
		if id, ok := el.(*ast.Ident); ok && id.Name == "nil" {
			g.NilSlots[name] = true
			continue
		}
		fl, ok := el.(*ast.FuncLit)
		if !ok {
			g.Errors = append(g.Errors, fmt.Sprintf("_rules[%d] is neither nil nor a function literal", idx))
			continue
		}
		gr := &GenRule{Name: name, Index: idx, Pos: fl.Pos()}
		g.Rules[name] = gr
		d := &decomp{g: g, rule: name}
		gr.E = d.parseRuleFunc(fl, idx, name)
		if len(d.errs) > 0 {
			gr.Err = strings.Join(d.errs, "; ")
		}
	}
	// collect inlined copies
	var collect func(e Expr)
	collect = func(e Expr) {
		switch x := e.(type) {
		case *Seq:
			for _, y := range x.Items {
				collect(y)
			}
		case *Choice:
			for _, y := range x.Alts {
				collect(y)
			}
		case *Star:
			collect(x.E)
		case *Plus:
			collect(x.E)
		case *Opt:
			collect(x.E)
		case *Not:
			collect(x.E)
		case *And:
			collect(x.E)
		case *Capture:
			collect(x.E)
		case *Named:
			g.Inlined[x.Name] = append(g.Inlined[x.Name], x.E)
			collect(x.E)
		}
	}
	for _, gr := range g.Rules {
		if gr.E != nil {
			collect(gr.E)
		}
	}
	// actions in Execute
	ast.Inspect(g.Execute.Body, func(n ast.Node) bool {
		cc, ok := n.(*ast.CaseClause)
		if !ok || len(cc.List) != 1 {
			return true
		}
		name := identName(cc.List[0])
		if name == "rulePegText" {
			g.PegText = cc
		}
		if strings.HasPrefix(name, "ruleAction") {
			if k, err := strconv.Atoi(strings.TrimPrefix(name, "ruleAction")); err == nil {
				g.Actions[k] = cc
			}
		}
		return true
	})
	return g
}

// parseRuleFunc checks prologue/epilogue of a rule function and decompiles its body.
func (d *decomp) parseRuleFunc(fl *ast.FuncLit, idx int, name string) Expr {
	items := flatten(fl.Body.List)
	// prologue: memo lookup
	if len(items) < 4 {
		d.errf(fl.Pos(), "rule function too short")
		return nil
	}
	memoOK := false
	if ifs, ok := items[0].stmt.(*ast.IfStmt); ok && ifs.Init != nil {
		src := nodeString(ifs)
		if strings.Contains(src, fmt.Sprintf("memoKey{%d, position}", idx-1)) && strings.Contains(src, "memoizedResult(memoized)") {
			memoOK = true
		}
	}
	if !memoOK {
		d.errf(fl.Pos(), "memo prologue missing or keyed with the wrong rule index")
	}
	n, ok := isSave2(items[1].stmt)
	if !ok {
		d.errf(fl.Pos(), "rule function does not save position/tokenIndex")
		return nil
	}
	blk, ok := items[2].stmt.(*ast.BlockStmt)
	if !ok {
		d.errf(fl.Pos(), "rule body block missing")
		return nil
	}
	// failure label: the label item after "return true"
	fail := ""
	for i := 3; i < len(items); i++ {
		if items[i].label != "" {
			fail = items[i].label
		}
	}
	// epilogue checks
	epi := nodeStrings(items[3:])
	wantT := fmt.Sprintf("memoize(%d, position%s, tokenIndex%s, true)", idx-1, n, n)
	if !strings.Contains(epi, wantT) || !strings.Contains(epi, "return true") {
		d.errf(fl.Pos(), "success epilogue does not memoize this rule's result")
	}
	if fail != "" {
		wantF := fmt.Sprintf("memoize(%d, position%s, tokenIndex%s, false)", idx-1, n, n)
		if !strings.Contains(epi, wantF) || !strings.Contains(epi, fmt.Sprintf("position, tokenIndex = position%s, tokenIndex%s", n, n)) || !strings.Contains(epi, "return false") {
			d.errf(fl.Pos(), "failure epilogue does not memoize/restore")
		}
	}
	e := d.parseBlock(blk, fail, nil, nil)
	nm, ok := e.(*Named)
	if !ok || nm.Name != name {
		d.errf(fl.Pos(), "rule body is not wrapped as rule %s", name)
		return e
	}
	return nm.E
}

// AsGrammar reconstructs the grammar the generated parser actually runs: rule
// functions with their inlined rules re-extracted as rules of their own.
func (g *Generated) AsGrammar() (*Grammar, []string) {
	out := &Grammar{ByName: map[string]*Rule{}}
	var problems []string
	bodies := map[string]Expr{}
	var strip func(e Expr) Expr
	strip = func(e Expr) Expr {
		switch x := e.(type) {
		case *Seq:
			n := &Seq{}
			for _, it := range x.Items {
				n.Items = append(n.Items, strip(it))
			}
			return n
		case *Choice:
			n := &Choice{Switch: false}
			for _, a := range x.Alts {
				n.Alts = append(n.Alts, strip(a))
			}
			return n
		case *Star:
			return &Star{E: strip(x.E)}
		case *Plus:
			return &Plus{E: strip(x.E)}
		case *Opt:
			return &Opt{E: strip(x.E)}
		case *Not:
			return &Not{E: strip(x.E)}
		case *And:
			return &And{E: strip(x.E)}
		case *Capture:
			return &Capture{E: strip(x.E)}
		case *Named:
			b := strip(x.E)
			if old, ok := bodies[x.Name]; ok {
				if Normalize(old).String() != Normalize(b).String() {
					problems = append(problems, "inlined copies of rule "+x.Name+" differ")
				}
			} else {
				bodies[x.Name] = b
			}
			return &Ref{Name: x.Name}
		}
		return e
	}
	for name, gr := range g.Rules {
		if gr.Err != "" || gr.E == nil {
			problems = append(problems, "rule "+name+" could not be decompiled: "+gr.Err)
			continue
		}
		bodies[name] = strip(gr.E)
	}
	maxAction := -1
	for k := range g.Actions {
		if k > maxAction {
			maxAction = k
		}
	}
	for k := 0; k <= maxAction; k++ {
		a := &Action{Index: k}
		if cc := g.Actions[k]; cc != nil {
			var ss []string
			for _, st := range cc.Body {
				ss = append(ss, nodeString(st))
			}
			a.Code = strings.Join(ss, "\n")
		}
		out.Actions = append(out.Actions, a)
	}
	// attach code to action nodes
	var attach func(e Expr)
	attach = func(e Expr) {
		switch x := e.(type) {
		case *Seq:
			for _, it := range x.Items {
				attach(it)
			}
		case *Choice:
			for _, a := range x.Alts {
				attach(a)
			}
		case *Star:
			attach(x.E)
		case *Plus:
			attach(x.E)
		case *Opt:
			attach(x.E)
		case *Not:
			attach(x.E)
		case *And:
			attach(x.E)
		case *Capture:
			attach(x.E)
		case *Action:
			if x.Index < len(out.Actions) {
				x.Code = out.Actions[x.Index].Code
			}
		}
	}
	for _, name := range g.RuleNames {
		if name == "Unknown" || name == "PegText" || strings.HasPrefix(name, "Action") {
			continue
		}
		b, ok := bodies[name]
		if !ok {
			problems = append(problems, "rule "+name+" has no body in the generated parser")
			continue
		}
		attach(b)
		r := &Rule{Name: name, E: b}
		out.Rules = append(out.Rules, r)
		out.ByName[name] = r
	}
	return out, problems
}
