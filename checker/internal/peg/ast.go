// Package peg reads the published grammar (jsonpath.peg), decompiles the
// generated parser (jsonpath.peg.go) back into PEG expressions and compares
// the two rule by rule (DESIGN.md §3.C).
package peg

import (
	"fmt"
	"sort"
	"strings"
)

const MaxRune = 0x10FFFF

// RuneSet is a sorted list of disjoint inclusive intervals.
type RuneSet []Interval

type Interval struct{ Lo, Hi rune }

func NewSet(iv ...Interval) RuneSet {
	s := append(RuneSet(nil), iv...)
	return s.norm()
}

func (s RuneSet) norm() RuneSet {
	if len(s) == 0 {
		return nil
	}
	sort.Slice(s, func(i, j int) bool { return s[i].Lo < s[j].Lo })
	out := RuneSet{s[0]}
	for _, iv := range s[1:] {
		last := &out[len(out)-1]
		if iv.Lo <= last.Hi+1 {
			if iv.Hi > last.Hi {
				last.Hi = iv.Hi
			}
		} else {
			out = append(out, iv)
		}
	}
	return out
}

func (s RuneSet) Union(t RuneSet) RuneSet {
	return append(append(RuneSet(nil), s...), t...).norm()
}

func (s RuneSet) Contains(r rune) bool {
	for _, iv := range s {
		if r >= iv.Lo && r <= iv.Hi {
			return true
		}
	}
	return false
}

func (s RuneSet) Intersects(t RuneSet) bool {
	for _, a := range s {
		for _, b := range t {
			if a.Lo <= b.Hi && b.Lo <= a.Hi {
				return true
			}
		}
	}
	return false
}

func (s RuneSet) SubsetOf(t RuneSet) bool {
	for _, a := range s {
		ok := false
		for _, b := range t {
			if a.Lo >= b.Lo && a.Hi <= b.Hi {
				ok = true
			}
		}
		if !ok {
			return false
		}
	}
	return true
}

func (s RuneSet) Equal(t RuneSet) bool {
	if len(s) != len(t) {
		return false
	}
	for i := range s {
		if s[i] != t[i] {
			return false
		}
	}
	return true
}

func (s RuneSet) Complement() RuneSet {
	var out RuneSet
	next := rune(0)
	for _, iv := range s {
		if iv.Lo > next {
			out = append(out, Interval{next, iv.Lo - 1})
		}
		next = iv.Hi + 1
	}
	if next <= MaxRune {
		out = append(out, Interval{next, MaxRune})
	}
	return out
}

func All() RuneSet { return RuneSet{{0, MaxRune}} }

func runeStr(r rune) string {
	if r >= 0x21 && r <= 0x7e && r != '\\' && r != '\'' && r != '-' && r != ']' && r != '[' && r != '^' {
		return string(r)
	}
	return fmt.Sprintf("\\x%02x", r)
}

func (s RuneSet) String() string {
	var b strings.Builder
	b.WriteByte('[')
	for _, iv := range s {
		if iv.Lo == iv.Hi {
			b.WriteString(runeStr(iv.Lo))
		} else {
			b.WriteString(runeStr(iv.Lo) + "-" + runeStr(iv.Hi))
		}
	}
	b.WriteByte(']')
	return b.String()
}

// Expr is a PEG expression.
type Expr interface{ String() string }

type (
	Seq    struct{ Items []Expr }
	Choice struct {
		Alts []Expr
		// Switch is set on the generated side for `switch buffer[position]` choices:
		// CaseSets[i] is the label set of alternative i (nil for the default alternative).
		Switch   bool
		CaseSets []RuneSet
		Elided   []bool // alternative i's first matcher was elided (bare position++)
	}
	Star    struct{ E Expr }
	Plus    struct{ E Expr }
	Opt     struct{ E Expr }
	Not     struct{ E Expr }
	And     struct{ E Expr }
	CharSet struct{ Set RuneSet } // consumes exactly one rune of Set
	Dot     struct{}
	Ref     struct{ Name string }
	Capture struct{ E Expr }
	Action  struct {
		Index int
		Code  string
	}
	// Named is an inlined rule body on the generated side.
	Named struct {
		Name string
		E    Expr
	}
)

func join(es []Expr, sep string) string {
	var ss []string
	for _, e := range es {
		ss = append(ss, e.String())
	}
	return strings.Join(ss, sep)
}

func (e *Seq) String() string { return "(" + join(e.Items, " ") + ")" }
func (e *Choice) String() string {
	if e.Switch {
		return "(switch " + join(e.Alts, " | ") + ")"
	}
	return "(" + join(e.Alts, " / ") + ")"
}
func (e *Star) String() string    { return e.E.String() + "*" }
func (e *Plus) String() string    { return e.E.String() + "+" }
func (e *Opt) String() string     { return e.E.String() + "?" }
func (e *Not) String() string     { return "!" + e.E.String() }
func (e *And) String() string     { return "&" + e.E.String() }
func (e *CharSet) String() string { return e.Set.String() }
func (e *Dot) String() string     { return "." }
func (e *Ref) String() string     { return e.Name }
func (e *Capture) String() string { return "<" + e.E.String() + ">" }
func (e *Action) String() string  { return fmt.Sprintf("{A%d}", e.Index) }
func (e *Named) String() string   { return e.Name + ":" + e.E.String() }

// Rule is one grammar rule.
type Rule struct {
	Name string
	E    Expr
	Line int
}

// Grammar is a parsed grammar.
type Grammar struct {
	Rules   []*Rule
	ByName  map[string]*Rule
	Actions []*Action // in order of appearance
	Header  string
}
