package peg

import (
	"fmt"
	"strconv"
	"strings"
	"unicode"
)

// ParseSource parses a grammar in pointlander/peg's input syntax.
func ParseSource(src string) (*Grammar, error) {
	p := &srcParser{s: []rune(src)}
	g := &Grammar{ByName: map[string]*Rule{}}
	p.g = g
	p.ws()
	if !p.word("package") {
		return nil, p.errf("expected 'package'")
	}
	p.ws()
	p.ident()
	p.ws()
	for p.word("import") {
		p.ws()
		p.skipGoString()
		p.ws()
	}
	if !p.word("type") {
		return nil, p.errf("expected 'type'")
	}
	p.ws()
	p.ident()
	p.ws()
	if !p.word("Peg") {
		return nil, p.errf("expected 'Peg'")
	}
	p.ws()
	hdr, err := p.braces()
	if err != nil {
		return nil, err
	}
	g.Header = hdr
	p.ws()
	for !p.eof() {
		line := p.line()
		name := p.ident()
		if name == "" {
			return nil, p.errf("expected rule name")
		}
		p.ws()
		if !p.lit("<-") {
			return nil, p.errf("expected '<-' after %s", name)
		}
		p.ws()
		e, err := p.expression()
		if err != nil {
			return nil, err
		}
		if _, dup := g.ByName[name]; dup {
			return nil, p.errf("duplicate rule %s", name)
		}
		r := &Rule{Name: name, E: e, Line: line}
		g.Rules = append(g.Rules, r)
		g.ByName[name] = r
		p.ws()
	}
	return g, nil
}

type srcParser struct {
	s   []rune
	pos int
	g   *Grammar
}

func (p *srcParser) eof() bool { return p.pos >= len(p.s) }
func (p *srcParser) peek() rune {
	if p.eof() {
		return -1
	}
	return p.s[p.pos]
}
func (p *srcParser) line() int {
	n := 1
	for _, c := range p.s[:p.pos] {
		if c == '\n' {
			n++
		}
	}
	return n
}
func (p *srcParser) errf(f string, a ...interface{}) error {
	return fmt.Errorf("grammar line %d: %s", p.line(), fmt.Sprintf(f, a...))
}
func (p *srcParser) ws() {
	for !p.eof() {
		c := p.peek()
		if c == '#' {
			for !p.eof() && p.peek() != '\n' {
				p.pos++
			}
		} else if unicode.IsSpace(c) {
			p.pos++
		} else {
			return
		}
	}
}
func (p *srcParser) lit(s string) bool {
	r := []rune(s)
	if p.pos+len(r) > len(p.s) {
		return false
	}
	for i, c := range r {
		if p.s[p.pos+i] != c {
			return false
		}
	}
	p.pos += len(r)
	return true
}
func (p *srcParser) word(s string) bool {
	save := p.pos
	if !p.lit(s) {
		return false
	}
	if !p.eof() && (unicode.IsLetter(p.peek()) || unicode.IsDigit(p.peek()) || p.peek() == '_') {
		p.pos = save
		return false
	}
	return true
}
func (p *srcParser) ident() string {
	start := p.pos
	if p.eof() || !(unicode.IsLetter(p.peek()) || p.peek() == '_') {
		return ""
	}
	for !p.eof() && (unicode.IsLetter(p.peek()) || unicode.IsDigit(p.peek()) || p.peek() == '_') {
		p.pos++
	}
	return string(p.s[start:p.pos])
}
func (p *srcParser) skipGoString() {
	q := p.peek()
	if q != '"' && q != '`' && q != '\'' {
		return
	}
	p.pos++
	for !p.eof() {
		c := p.peek()
		p.pos++
		if c == '\\' && q != '`' {
			p.pos++
			continue
		}
		if c == q {
			return
		}
	}
}

// braces reads a { ... } block with nested braces and Go literals; returns the inner text.
func (p *srcParser) braces() (string, error) {
	if p.peek() != '{' {
		return "", p.errf("expected '{'")
	}
	p.pos++
	start := p.pos
	depth := 1
	for !p.eof() {
		c := p.peek()
		switch c {
		case '{':
			depth++
			p.pos++
		case '}':
			depth--
			if depth == 0 {
				txt := string(p.s[start:p.pos])
				p.pos++
				return txt, nil
			}
			p.pos++
		case '"', '`', '\'':
			p.skipGoString()
		case '/':
			if p.pos+1 < len(p.s) && p.s[p.pos+1] == '/' {
				for !p.eof() && p.peek() != '\n' {
					p.pos++
				}
			} else {
				p.pos++
			}
		default:
			p.pos++
		}
	}
	return "", p.errf("unterminated action")
}

func (p *srcParser) expression() (Expr, error) {
	var alts []Expr
	for {
		seq, err := p.sequence()
		if err != nil {
			return nil, err
		}
		alts = append(alts, seq)
		p.ws()
		if p.peek() == '/' {
			p.pos++
			p.ws()
			continue
		}
		break
	}
	if len(alts) == 1 {
		return alts[0], nil
	}
	return &Choice{Alts: alts}, nil
}

// startsDefinition: an identifier followed by '<-' begins the next rule.
func (p *srcParser) startsDefinition() bool {
	save := p.pos
	defer func() { p.pos = save }()
	if p.ident() == "" {
		return false
	}
	p.ws()
	return p.lit("<-")
}

func (p *srcParser) sequence() (Expr, error) {
	var items []Expr
	for {
		p.ws()
		if p.eof() {
			break
		}
		c := p.peek()
		if c == '/' || c == ')' || c == '>' {
			break
		}
		if (unicode.IsLetter(c) || c == '_') && p.startsDefinition() {
			break
		}
		e, err := p.prefix()
		if err != nil {
			return nil, err
		}
		items = append(items, e)
	}
	if len(items) == 1 {
		return items[0], nil
	}
	return &Seq{Items: items}, nil
}

func (p *srcParser) prefix() (Expr, error) {
	switch p.peek() {
	case '!':
		p.pos++
		p.ws()
		e, err := p.suffix()
		if err != nil {
			return nil, err
		}
		return &Not{E: e}, nil
	case '&':
		p.pos++
		p.ws()
		e, err := p.suffix()
		if err != nil {
			return nil, err
		}
		return &And{E: e}, nil
	}
	return p.suffix()
}

func (p *srcParser) suffix() (Expr, error) {
	e, err := p.primary()
	if err != nil {
		return nil, err
	}
	p.ws()
	switch p.peek() {
	case '?':
		p.pos++
		return &Opt{E: e}, nil
	case '*':
		p.pos++
		return &Star{E: e}, nil
	case '+':
		p.pos++
		return &Plus{E: e}, nil
	}
	return e, nil
}

func (p *srcParser) primary() (Expr, error) {
	c := p.peek()
	switch {
	case c == '(':
		p.pos++
		p.ws()
		e, err := p.expression()
		if err != nil {
			return nil, err
		}
		p.ws()
		if p.peek() != ')' {
			return nil, p.errf("expected ')'")
		}
		p.pos++
		return e, nil
	case c == '<':
		p.pos++
		p.ws()
		e, err := p.expression()
		if err != nil {
			return nil, err
		}
		p.ws()
		if p.peek() != '>' {
			return nil, p.errf("expected '>'")
		}
		p.pos++
		return &Capture{E: e}, nil
	case c == '{':
		code, err := p.braces()
		if err != nil {
			return nil, err
		}
		a := &Action{Index: len(p.g.Actions), Code: code}
		p.g.Actions = append(p.g.Actions, a)
		return a, nil
	case c == '.':
		p.pos++
		return &Dot{}, nil
	case c == '\'':
		return p.literal('\'')
	case c == '"':
		return p.literal('"')
	case c == '[':
		return p.class()
	case unicode.IsLetter(c) || c == '_':
		return &Ref{Name: p.ident()}, nil
	}
	return nil, p.errf("unexpected %q", string(c))
}

// char reads one (possibly escaped) character of a literal or class.
func (p *srcParser) char() (rune, error) {
	c := p.peek()
	p.pos++
	if c != '\\' {
		return c, nil
	}
	e := p.peek()
	p.pos++
	switch e {
	case 'a':
		return '\a', nil
	case 'b':
		return '\b', nil
	case 'e':
		return 0x1b, nil
	case 'f':
		return '\f', nil
	case 'n':
		return '\n', nil
	case 'r':
		return '\r', nil
	case 't':
		return '\t', nil
	case 'v':
		return '\v', nil
	case '\'', '"', '[', ']', '-', '\\':
		return e, nil
	case '0':
		if p.peek() == 'x' {
			p.pos++
			start := p.pos
			for !p.eof() && strings.ContainsRune("0123456789abcdefABCDEF", p.peek()) {
				p.pos++
			}
			v, err := strconv.ParseInt(string(p.s[start:p.pos]), 16, 32)
			if err != nil {
				return 0, p.errf("bad hex escape")
			}
			return rune(v), nil
		}
		fallthrough
	case '1', '2', '3', '4', '5', '6', '7':
		start := p.pos - 1
		for p.pos-start < 3 && !p.eof() && p.peek() >= '0' && p.peek() <= '7' {
			p.pos++
		}
		v, err := strconv.ParseInt(string(p.s[start:p.pos]), 8, 32)
		if err != nil {
			return 0, p.errf("bad octal escape")
		}
		return rune(v), nil
	}
	return 0, p.errf("unknown escape \\%c", e)
}

func (p *srcParser) literal(q rune) (Expr, error) {
	p.pos++
	var rs []rune
	for {
		if p.eof() {
			return nil, p.errf("unterminated literal")
		}
		if p.peek() == q {
			p.pos++
			break
		}
		c, err := p.char()
		if err != nil {
			return nil, err
		}
		rs = append(rs, c)
	}
	if q == '"' {
		for _, c := range rs {
			if unicode.IsLetter(c) {
				return nil, p.errf("double-quoted (case-insensitive) literals with letters are not supported by this reader")
			}
		}
	}
	var items []Expr
	for _, c := range rs {
		items = append(items, &CharSet{Set: NewSet(Interval{c, c})})
	}
	if len(items) == 1 {
		return items[0], nil
	}
	return &Seq{Items: items}, nil
}

func (p *srcParser) class() (Expr, error) {
	p.pos++ // [
	if p.peek() == '[' {
		return nil, p.errf("[[...]] case-insensitive classes are not supported by this reader")
	}
	neg := false
	if p.peek() == '^' {
		neg = true
		p.pos++
	}
	var set RuneSet
	for {
		if p.eof() {
			return nil, p.errf("unterminated class")
		}
		if p.peek() == ']' {
			p.pos++
			break
		}
		lo, err := p.char()
		if err != nil {
			return nil, err
		}
		hi := lo
		if p.peek() == '-' && p.pos+1 < len(p.s) && p.s[p.pos+1] != ']' {
			p.pos++
			hi, err = p.char()
			if err != nil {
				return nil, err
			}
		}
		if hi < lo {
			return nil, p.errf("inverted range")
		}
		set = append(set, Interval{lo, hi})
	}
	set = set.norm()
	if neg {
		// peg compiles [^set] as !set . : one rune not in set (and not end of input)
		return &Seq{Items: []Expr{&Not{E: &CharSet{Set: set}}, &Dot{}}}, nil
	}
	return &CharSet{Set: set}, nil
}
