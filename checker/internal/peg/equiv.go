package peg

import (
	"bytes"
	"fmt"
	"go/ast"
	"go/printer"
	"go/token"
	"strings"
)

func nodeString(n ast.Node) string {
	var b bytes.Buffer
	printer.Fprint(&b, token.NewFileSet(), n)
	return b.String()
}

func nodeStrings(items []item) string {
	var ss []string
	for _, it := range items {
		if it.stmt != nil {
			ss = append(ss, nodeString(it.stmt))
		} else {
			ss = append(ss, it.label+":")
		}
	}
	return strings.Join(ss, "\n")
}

// Normalize brings an expression into the normal form shared by both sides.
func Normalize(e Expr) Expr {
	switch x := e.(type) {
	case *Seq:
		var items []Expr
		for _, it := range x.Items {
			n := Normalize(it)
			if s, ok := n.(*Seq); ok {
				items = append(items, s.Items...)
			} else if n != nil {
				items = append(items, n)
			}
		}
		// ![set] .  →  complement set
		var out []Expr
		for i := 0; i < len(items); i++ {
			if nt, ok := items[i].(*Not); ok && i+1 < len(items) {
				if cs, ok := nt.E.(*CharSet); ok {
					if _, isDot := items[i+1].(*Dot); isDot {
						out = append(out, &CharSet{Set: cs.Set.Complement()})
						i++
						continue
					}
				}
			}
			out = append(out, items[i])
		}
		if len(out) == 1 {
			return out[0]
		}
		return &Seq{Items: out}
	case *Choice:
		var alts []Expr
		allSingle := true
		var union RuneSet
		for _, a := range x.Alts {
			n := Normalize(a)
			if c, ok := n.(*Choice); ok && !c.Switch && !x.Switch {
				alts = append(alts, c.Alts...)
			} else {
				alts = append(alts, n)
			}
		}
		for _, a := range alts {
			if cs, ok := a.(*CharSet); ok {
				union = union.Union(cs.Set)
			} else {
				allSingle = false
			}
		}
		if allSingle {
			return &CharSet{Set: union}
		}
		c := &Choice{Alts: alts, Switch: x.Switch, CaseSets: x.CaseSets, Elided: x.Elided}
		return c
	case *Star:
		return &Star{E: Normalize(x.E)}
	case *Plus:
		n := Normalize(x.E)
		return Normalize(&Seq{Items: []Expr{n, &Star{E: n}}})
	case *Opt:
		return &Opt{E: Normalize(x.E)}
	case *Not:
		return &Not{E: Normalize(x.E)}
	case *And:
		return &And{E: Normalize(x.E)}
	case *Capture:
		return &Capture{E: Normalize(x.E)}
	case *Named:
		return &Named{Name: x.Name, E: Normalize(x.E)}
	}
	return e
}

// Facts holds nullable / FIRST per rule of the source grammar.
type Facts struct {
	g        *Grammar
	nullable map[string]bool
	first    map[string]RuneSet
}

func NewFacts(g *Grammar) *Facts {
	f := &Facts{g: g, nullable: map[string]bool{}, first: map[string]RuneSet{}}
	for changed := true; changed; {
		changed = false
		for _, r := range g.Rules {
			n := f.Nullable(r.E)
			if n != f.nullable[r.Name] {
				f.nullable[r.Name] = n
				changed = true
			}
			fs := f.First(r.E)
			if !fs.Equal(f.first[r.Name]) {
				f.first[r.Name] = fs
				changed = true
			}
		}
	}
	return f
}

// Nullable: e can succeed without consuming input (over-approximation).
func (f *Facts) Nullable(e Expr) bool {
	switch x := e.(type) {
	case *Seq:
		for _, it := range x.Items {
			if !f.Nullable(it) {
				return false
			}
		}
		return true
	case *Choice:
		for _, a := range x.Alts {
			if f.Nullable(a) {
				return true
			}
		}
		return false
	case *Star, *Opt, *Not, *And, *Action:
		return true
	case *Plus:
		return f.Nullable(x.E)
	case *CharSet, *Dot:
		return false
	case *Ref:
		return f.nullable[x.Name]
	case *Capture:
		return f.Nullable(x.E)
	case *Named:
		return f.Nullable(x.E)
	}
	return true
}

// First: runes that can be consumed first by a successful match (over-approximation).
func (f *Facts) First(e Expr) RuneSet {
	switch x := e.(type) {
	case *Seq:
		var s RuneSet
		for _, it := range x.Items {
			s = s.Union(f.First(it))
			if !f.Nullable(it) {
				break
			}
		}
		return s
	case *Choice:
		var s RuneSet
		for _, a := range x.Alts {
			s = s.Union(f.First(a))
		}
		return s
	case *Star:
		return f.First(x.E)
	case *Plus:
		return f.First(x.E)
	case *Opt:
		return f.First(x.E)
	case *Not, *And, *Action:
		return nil
	case *CharSet:
		return x.Set
	case *Dot:
		return All()
	case *Ref:
		return f.first[x.Name]
	case *Capture:
		return f.First(x.E)
	case *Named:
		return f.First(x.E)
	}
	return All()
}

// Equivalent compares a (normalised) source expression with a (normalised)
// generated expression. Named nodes on the generated side are inlined rule
// bodies: they must equal the body of the source rule of that name and then
// stand for a reference to it.
func (f *Facts) Equivalent(src, gen Expr) (bool, string) {
	if nm, ok := gen.(*Named); ok {
		// inlined rule: source must reference that rule
		ref, isRef := src.(*Ref)
		if !isRef || ref.Name != nm.Name {
			return false, fmt.Sprintf("generated code inlines rule %s where the grammar has %s", nm.Name, src)
		}
		r := f.g.ByName[nm.Name]
		if r == nil {
			return false, "inlined rule " + nm.Name + " does not exist in the grammar"
		}
		return f.Equivalent(Normalize(r.E), nm.E)
	}
	switch s := src.(type) {
	case *Seq:
		g, ok := gen.(*Seq)
		if !ok || len(g.Items) != len(s.Items) {
			return false, fmt.Sprintf("sequence %s vs %s", src, gen)
		}
		for i := range s.Items {
			if ok, why := f.Equivalent(s.Items[i], g.Items[i]); !ok {
				return false, why
			}
		}
		return true, ""
	case *Choice:
		g, ok := gen.(*Choice)
		if !ok {
			return false, fmt.Sprintf("choice %s vs %s", src, gen)
		}
		if g.Switch {
			return f.equivSwitch(s, g)
		}
		if len(g.Alts) != len(s.Alts) {
			return false, fmt.Sprintf("choice with %d alternatives vs %d: %s vs %s", len(s.Alts), len(g.Alts), src, gen)
		}
		for i := range s.Alts {
			if ok, why := f.Equivalent(s.Alts[i], g.Alts[i]); !ok {
				return false, why
			}
		}
		return true, ""
	case *Star:
		g, ok := gen.(*Star)
		if !ok {
			return false, fmt.Sprintf("%s vs %s", src, gen)
		}
		return f.Equivalent(s.E, g.E)
	case *Opt:
		g, ok := gen.(*Opt)
		if !ok {
			return false, fmt.Sprintf("%s vs %s", src, gen)
		}
		return f.Equivalent(s.E, g.E)
	case *Not:
		g, ok := gen.(*Not)
		if !ok {
			return false, fmt.Sprintf("%s vs %s", src, gen)
		}
		return f.Equivalent(s.E, g.E)
	case *And:
		g, ok := gen.(*And)
		if !ok {
			return false, fmt.Sprintf("%s vs %s", src, gen)
		}
		return f.Equivalent(s.E, g.E)
	case *Capture:
		g, ok := gen.(*Capture)
		if !ok {
			return false, fmt.Sprintf("capture %s vs %s", src, gen)
		}
		return f.Equivalent(s.E, g.E)
	case *CharSet:
		g, ok := gen.(*CharSet)
		if !ok {
			// a switch over single runes is a character set too
			if gc, isC := gen.(*Choice); isC && gc.Switch {
				return f.equivSwitch(&Choice{Alts: []Expr{s}}, gc)
			}
			return false, fmt.Sprintf("character set %s vs %s", src, gen)
		}
		if !s.Set.Equal(g.Set) {
			return false, fmt.Sprintf("character set %s in the grammar, %s in the generated code", s.Set, g.Set)
		}
		return true, ""
	case *Dot:
		if _, ok := gen.(*Dot); !ok {
			return false, fmt.Sprintf(". vs %s", gen)
		}
		return true, ""
	case *Ref:
		g, ok := gen.(*Ref)
		if !ok || g.Name != s.Name {
			return false, fmt.Sprintf("reference %s vs %s", src, gen)
		}
		return true, ""
	case *Action:
		g, ok := gen.(*Action)
		if !ok || g.Index != s.Index {
			return false, fmt.Sprintf("action %s vs %s", src, gen)
		}
		return true, ""
	}
	return false, fmt.Sprintf("unhandled expression %T", src)
}

// splitFirst splits an expression into its first single-rune matcher (if it starts with one) and the rest.
func splitFirst(e Expr) (*CharSet, Expr, bool) {
	switch x := e.(type) {
	case *CharSet:
		return x, &Seq{}, true
	case *Seq:
		if len(x.Items) > 0 {
			if cs, ok := x.Items[0].(*CharSet); ok {
				rest := x.Items[1:]
				if len(rest) == 1 {
					return cs, rest[0], true
				}
				return cs, &Seq{Items: rest}, true
			}
		}
	}
	return nil, nil, false
}

func isEmptySeq(e Expr) bool {
	s, ok := e.(*Seq)
	return ok && len(s.Items) == 0
}

// equivSwitch: ordered choice vs `switch buffer[position]`.
func (f *Facts) equivSwitch(s *Choice, g *Choice) (bool, string) {
	// source alternatives may contain character-set alternatives that the generator split over several cases
	used := make([]bool, len(g.Alts))
	var defaultIdx = -1
	for i, cs := range g.CaseSets {
		if cs == nil {
			defaultIdx = i
		}
	}
	// pairwise disjoint case sets
	for i := range g.CaseSets {
		for j := i + 1; j < len(g.CaseSets); j++ {
			if g.CaseSets[i] != nil && g.CaseSets[j] != nil && g.CaseSets[i].Intersects(g.CaseSets[j]) {
				return false, "switch cases overlap"
			}
		}
	}
	for _, a := range s.Alts {
		if f.Nullable(a) {
			return false, fmt.Sprintf("switch over a nullable alternative %s", a)
		}
	}
	matchAlt := func(a Expr) (bool, string) {
		// try the default first if it is structurally equal
		fa := f.First(a)
		// cases whose label set intersects FIRST(a)
		var cand []int
		for i, cs := range g.CaseSets {
			if cs != nil && cs.Intersects(fa) {
				cand = append(cand, i)
			}
		}
		if len(cand) == 0 {
			if defaultIdx >= 0 && !used[defaultIdx] {
				if ok, why := f.Equivalent(a, g.Alts[defaultIdx]); ok {
					used[defaultIdx] = true
					// default alternative: its FIRST must be disjoint from all case sets (checked via cand==0)
					return true, ""
				} else {
					return false, "default case: " + why
				}
			}
			return false, fmt.Sprintf("alternative %s has no matching case", a)
		}
		// a may be split over several cases when it starts with a single-rune matcher
		head, rest, startsSingle := splitFirst(a)
		var covered RuneSet
		for _, i := range cand {
			if used[i] {
				return false, "a switch case matches two grammar alternatives"
			}
			used[i] = true
			ga := g.Alts[i]
			if g.Elided[i] {
				// the decompiler put the case's label set in place of the elided test: when the
				// label set equals the alternative's first matcher the trees are simply equal
				if ok, _ := f.Equivalent(a, ga); ok && fa.SubsetOf(g.CaseSets[i]) {
					covered = covered.Union(g.CaseSets[i])
					continue
				}
				if !startsSingle {
					return false, fmt.Sprintf("case %s elides a test that alternative %s does not start with", g.CaseSets[i], a)
				}
				gh, grest, _ := splitFirst(ga)
				if gh == nil || !gh.Set.SubsetOf(head.Set) {
					return false, fmt.Sprintf("case labels %s are not within the alternative's first matcher %s", g.CaseSets[i], head.Set)
				}
				if isEmptySeq(rest) != isEmptySeq(grest) {
					return false, fmt.Sprintf("case %s: rest differs", g.CaseSets[i])
				}
				if !isEmptySeq(rest) {
					if ok, why := f.Equivalent(rest, grest); !ok {
						return false, why
					}
				}
				covered = covered.Union(g.CaseSets[i])
			} else {
				if ok, why := f.Equivalent(a, ga); !ok {
					return false, why
				}
				if !fa.SubsetOf(g.CaseSets[i]) {
					return false, fmt.Sprintf("alternative %s can start with runes outside its case labels %s", a, g.CaseSets[i])
				}
				covered = covered.Union(fa)
			}
		}
		// if the alternative also has first runes handled by the default clause, the default must be the same matcher restricted
		if !fa.SubsetOf(covered) {
			if defaultIdx >= 0 && !used[defaultIdx] && startsSingle {
				gh, grest, ok := splitFirst(g.Alts[defaultIdx])
				if ok && gh.Set.Union(covered).Equal(head.Set.Union(covered)) && gh.Set.SubsetOf(head.Set) && isEmptySeq(rest) == isEmptySeq(grest) {
					if isEmptySeq(rest) {
						used[defaultIdx] = true
						return true, ""
					}
					if ok2, _ := f.Equivalent(rest, grest); ok2 {
						used[defaultIdx] = true
						return true, ""
					}
				}
			}
			return false, fmt.Sprintf("alternative %s can start with %s but its cases cover only %s", a, fa, covered)
		}
		return true, ""
	}
	for _, a := range s.Alts {
		if ok, why := matchAlt(a); !ok {
			return false, why
		}
	}
	for i, u := range used {
		if !u {
			return false, fmt.Sprintf("switch case %d (%s) corresponds to no grammar alternative", i, g.Alts[i])
		}
	}
	return true, ""
}

// WellFormed checks for left recursion and nullable repetition (termination of matching).
func (f *Facts) WellFormed() []string {
	var errs []string
	// left recursion: rule reachable from itself without consuming
	leftRefs := func(e Expr) []string {
		var out []string
		var walk func(e Expr) bool // returns nullable
		walk = func(e Expr) bool {
			switch x := e.(type) {
			case *Seq:
				for _, it := range x.Items {
					if !walk(it) {
						return false
					}
				}
				return true
			case *Choice:
				n := false
				for _, a := range x.Alts {
					if walk(a) {
						n = true
					}
				}
				return n
			case *Star:
				walk(x.E)
				return true
			case *Opt:
				walk(x.E)
				return true
			case *Plus:
				return walk(x.E)
			case *Not:
				walk(x.E)
				return true
			case *And:
				walk(x.E)
				return true
			case *Capture:
				return walk(x.E)
			case *Ref:
				out = append(out, x.Name)
				return f.nullable[x.Name]
			case *Action:
				return true
			}
			return false
		}
		walk(e)
		return out
	}
	reach := map[string]map[string]bool{}
	for _, r := range f.g.Rules {
		reach[r.Name] = map[string]bool{}
		for _, n := range leftRefs(r.E) {
			reach[r.Name][n] = true
		}
	}
	for changed := true; changed; {
		changed = false
		for a, m := range reach {
			for b := range m {
				for c := range reach[b] {
					if !reach[a][c] {
						reach[a][c] = true
						changed = true
					}
				}
			}
		}
	}
	for _, r := range f.g.Rules {
		if reach[r.Name][r.Name] {
			errs = append(errs, fmt.Sprintf("rule %s is left-recursive", r.Name))
		}
	}
	// nullable repetition
	var walk func(rule string, e Expr)
	walk = func(rule string, e Expr) {
		switch x := e.(type) {
		case *Seq:
			for _, it := range x.Items {
				walk(rule, it)
			}
		case *Choice:
			for _, a := range x.Alts {
				walk(rule, a)
			}
		case *Star:
			if f.Nullable(x.E) {
				errs = append(errs, fmt.Sprintf("rule %s repeats a nullable expression %s*", rule, x.E))
			}
			walk(rule, x.E)
		case *Plus:
			if f.Nullable(x.E) {
				errs = append(errs, fmt.Sprintf("rule %s repeats a nullable expression %s+", rule, x.E))
			}
			walk(rule, x.E)
		case *Opt:
			walk(rule, x.E)
		case *Not:
			walk(rule, x.E)
		case *And:
			walk(rule, x.E)
		case *Capture:
			walk(rule, x.E)
		}
	}
	for _, r := range f.g.Rules {
		walk(r.Name, r.E)
		// undefined references
		var refs func(e Expr)
		refs = func(e Expr) {
			switch x := e.(type) {
			case *Seq:
				for _, it := range x.Items {
					refs(it)
				}
			case *Choice:
				for _, a := range x.Alts {
					refs(a)
				}
			case *Star:
				refs(x.E)
			case *Plus:
				refs(x.E)
			case *Opt:
				refs(x.E)
			case *Not:
				refs(x.E)
			case *And:
				refs(x.E)
			case *Capture:
				refs(x.E)
			case *Ref:
				if f.g.ByName[x.Name] == nil {
					errs = append(errs, fmt.Sprintf("rule %s references undefined rule %s", r.Name, x.Name))
				}
			}
		}
		refs(r.E)
	}
	return errs
}
