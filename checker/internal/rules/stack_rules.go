package rules

import (
	"fmt"
	"os"
	"sort"
	"strconv"
	"strings"

	"golang.org/x/tools/go/ssa"

	"go/types"

	"verif/checker/internal/engine"
	"verif/checker/internal/report"
	"verif/checker/internal/stackty"
)

func init() {
	engine.Register("ST-UNIFORM", ruleSTUniform)
	engine.Register("ST-TYPES", func(c *engine.Context) *report.Rule { return ruleSTInterp(c, "ST-TYPES") })
	engine.Register("ST-BALANCE", func(c *engine.Context) *report.Rule { return ruleSTInterp(c, "ST-BALANCE") })
	engine.Register("ST-FRAMES", func(c *engine.Context) *report.Rule { return ruleSTInterp(c, "ST-FRAMES") })
}

type stackModel struct {
	m   *stackty.Model
	in  *stackty.Interp
	err string
}

func stackOf(c *engine.Context) *stackModel {
	return c.Memo("stackty", func() interface{} {
		sm := &stackModel{}
		pm := pegOf(c)
		if pm.err != "" {
			sm.err = pm.err
			return sm
		}
		p := c.P
		m := stackty.NewModel(p)
		m.EdgeInfeasible = literalLenEdgeInfeasible(c)
		sm.m = m
		// Execute method of the generated parser
		var execute *ssa.Function
		for _, fn := range p.Funcs {
			if fn.Name() == "Execute" && p.FuncIsGenerated(fn) && fn.Signature.Recv() != nil {
				execute = fn
			}
		}
		vals := map[int]int64{}
		for i, name := range pm.gen.RuleNames {
			if strings.HasPrefix(name, "Action") {
				if k, err := strconv.Atoi(strings.TrimPrefix(name, "Action")); err == nil {
					vals[k] = int64(i)
				}
			}
		}
		// phase 1: all paths, to learn which types each pop can see
		m.SummariseActions(execute, vals)
		in := stackty.NewInterp(m, pm.run, p.Roles.NodeIface)
		in.Run()
		// phase 2: implicit defaults of type switches over values that were popped from slots
		// whose producer types are all handled are infeasible
		popSlots := in.PopSlots
		m2 := stackty.NewModel(p)
		m2.EdgeInfeasible = m.EdgeInfeasible
		m2.DynTypesOf = func(v ssa.Value) ([]types.Type, bool) {
			pops, consts, ok := m2.ElementSources(v)
			if !ok {
				return nil, false
			}
			var out []types.Type
			out = append(out, consts...)
			for _, pc := range pops {
				sl, seen := popSlots[pc.Pos()]
				if !seen {
					return nil, false
				}
				for _, t := range sl {
					if b, isB := t.(*types.Basic); isB && b.Kind() == types.UntypedNil {
						continue // nil is excluded separately by the nil comparison
					}
					out = append(out, t)
				}
			}
			// untyped constants default
			for i, t := range out {
				out[i] = types.Default(t)
			}
			return out, true
		}
		m2.SummariseActions(execute, vals)
		in2 := stackty.NewInterp(m2, pm.run, p.Roles.NodeIface)
		in2.Debug = os.Getenv("VERIF_DEBUG_STACK") != ""
		in2.Run()
		sm.m = m2
		sm.in = in2
		return sm
	}).(*stackModel)
}

func pathEffect(p stackty.Path) (pops, pushes int, frames string) {
	for _, o := range p.Ops {
		switch o.Kind {
		case stackty.OpPop:
			pops++
		case stackty.OpPush:
			pushes++
		case stackty.OpSave:
			frames += "S"
		case stackty.OpLoad:
			frames += "L"
		case stackty.OpCollapse:
			frames += "C"
		}
	}
	return
}

func describePath(p stackty.Path) string {
	var ss []string
	for _, o := range p.Ops {
		switch o.Kind {
		case stackty.OpPush:
			if o.SlotRef >= 0 {
				ss = append(ss, fmt.Sprintf("push(popped#%d)", o.SlotRef))
			} else {
				ss = append(ss, "push("+strings.Join(o.TypeStr, "|")+")")
			}
		case stackty.OpPop:
			if len(o.TypeStr) > 0 {
				ss = append(ss, "pop.("+strings.Join(o.TypeStr, ",")+")")
			} else {
				ss = append(ss, "pop")
			}
		case stackty.OpSave:
			ss = append(ss, "save-frame")
		case stackty.OpLoad:
			ss = append(ss, "load-frame")
		case stackty.OpCollapse:
			ss = append(ss, "collapse-frame")
		case stackty.OpPeekTop:
			ss = append(ss, "peek-top.("+strings.Join(o.TypeStr, ",")+")")
		case stackty.OpPeekBottom:
			ss = append(ss, "peek-bottom.("+strings.Join(o.TypeStr, ",")+")")
		}
	}
	if p.Panics {
		ss = append(ss, "panic")
	}
	return strings.Join(ss, " ")
}

// ruleSTUniform: ST-UNIFORM.
func ruleSTUniform(c *engine.Context) *report.Rule {
	r := report.NewRule("ST-UNIFORM", "every non-panicking path of an action has the same effect on the value stack", 30)
	sm := stackOf(c)
	if sm.err != "" {
		r.InfraFail("%s", sm.err)
		return r
	}
	p := c.P
	requireRunning(r, pegOf(c))
	for _, pr := range uniqSorted(append([]string(nil), sm.m.Problems...)) {
		r.Undischarged("value-stack model: "+pr, "-", "%s", pr)
	}
	var ks []int
	for k := range sm.m.Actions {
		ks = append(ks, k)
	}
	sort.Ints(ks)
	for _, k := range ks {
		paths := sm.m.Actions[k]
		r.Instances++
		effects := map[string]string{}
		for _, pa := range paths {
			if pa.Panics {
				continue
			}
			po, pu, fr := pathEffect(pa)
			effects[fmt.Sprintf("pops=%d pushes=%d frames=%s", po, pu, fr)] = describePath(pa)
		}
		ok := len(effects) <= 1
		r.Oblige(ok)
		if len(paths) > 1 {
			r.Nontrivial++
		}
		if k < 6 || k == 39 {
			for _, pa := range paths {
				r.Sample("action %d: %s", k, describePath(pa))
				break
			}
		}
		if !ok {
			var es []string
			for e, d := range effects {
				es = append(es, e+" ["+d+"]")
			}
			sort.Strings(es)
			r.Violation(fmt.Sprintf("action %d has paths with different stack effects", k), p.RelPos(sm.m.ActionPos[k]),
				"depending on the values it finds, action %d leaves the value stack in different shapes: %s; the following action then pops values of the wrong type or from an empty stack", k, strings.Join(es, " vs "))
		}
	}
	r.Note("helper methods summarised: %d", sm.m.Helpers)
	return r
}

func ruleSTInterp(c *engine.Context, id string) *report.Rule {
	docs := map[string]string{
		"ST-TYPES":   "on every derivation of the grammar, each unchecked assertion on a popped or peeked stack value succeeds",
		"ST-BALANCE": "every rule has one net stack effect, no action pops an empty stack, the start rule leaves the stack empty",
		"ST-FRAMES":  "frame save/load are paired on every derivation and never index an empty list of saved frames",
	}
	floors := map[string]int{"ST-TYPES": 20, "ST-BALANCE": 40, "ST-FRAMES": 1}
	r := report.NewRule(id, docs[id], floors[id])
	sm := stackOf(c)
	if sm.err != "" {
		r.InfraFail("%s", sm.err)
		return r
	}
	p := c.P
	switch id {
	case "ST-TYPES":
		r.Instances = sm.in.Obligations
		r.Obligations = sm.in.Obligations
	case "ST-BALANCE":
		r.Instances = len(sm.in.RuleEffects)
		r.Obligations = len(sm.in.RuleEffects)
		var names []string
		for n := range sm.in.RuleEffects {
			names = append(names, n)
		}
		sort.Strings(names)
		for _, n := range names {
			r.Sample("rule %s: %s", n, sm.in.RuleEffects[n])
		}
	case "ST-FRAMES":
		n := 0
		for _, paths := range sm.m.Actions {
			for _, pa := range paths {
				for _, o := range pa.Ops {
					if o.Kind == stackty.OpSave || o.Kind == stackty.OpLoad {
						n++
					}
				}
			}
		}
		r.Instances = n
		r.Obligations = n
	}
	bad := 0
	for _, f := range sm.in.Findings() {
		if f.Rule != id {
			continue
		}
		bad++
		r.Violation(f.Construct, p.RelPos(f.Pos), "%s", f.Msg)
	}
	r.Discharged = r.Obligations - bad
	if r.Discharged < 0 {
		r.Discharged = 0
	}
	r.Nontrivial = r.Obligations
	return r
}
