package rules

import (
	"go/types"

	"golang.org/x/tools/go/ssa"

	"verif/checker/internal/engine"
	"verif/checker/internal/load"
	"verif/checker/internal/report"
)

func init() {
	engine.Register("N-HEADORDER", ruleNHeadOrder)
}

// ruleNHeadOrder: N-HEADORDER — the `$` / `@` classification of a filter operand reads the chain
// as the grammar built it. Parse-phase code that rewrites the links of wrapper nodes (stripping
// the root identifier re-links the argument of every enclosing function) must therefore run
// after every classification of that pass: a type test of a chain head against the root
// identifier types that control can reach from such a rewrite — without going round a loop —
// looks at the rewritten chain, and the flag derived from it no longer says how the operand was
// written (the comparison is then built with the operands the wrong way round, or a `$` operand
// is evaluated per member).
func ruleNHeadOrder(c *engine.Context) *report.Rule {
	r := report.NewRule("N-HEADORDER", "no root / current-root classification runs after the chain's wrapper links were rewritten", 2)
	p := c.P
	// wrapper link fields: node-typed fields of node types that evaluate them into a private sink
	type wf struct {
		T     *types.Named
		field int
	}
	links := map[wf]bool{}
	for _, e := range findRetrieveEdges(c) {
		if e.sameSink {
			continue
		}
		if st, ok := e.T.Underlying().(*types.Struct); ok && types.Identical(st.Field(e.field).Type(), p.Roles.NodeIface) {
			links[wf{e.T, e.field}] = true
		}
	}
	if len(links) == 0 {
		r.InfraFail("anchor unresolved: wrapper node types")
		return r
	}
	// root identifier types: as in N-HEAD (node types made of the basic node only whose
	// evaluation inspects nothing) — taken from the types the classifications test against
	namedOf := func(t types.Type) *types.Named {
		if pt, ok := t.(*types.Pointer); ok {
			t = pt.Elem()
		}
		nt, _ := t.(*types.Named)
		return nt
	}
	heads := map[*types.Named]bool{}
	for _, T := range p.Roles.NodeTypes {
		st, ok := T.Underlying().(*types.Struct)
		if !ok || st.NumFields() != 1 || types.Identical(T, p.Roles.BasicNode) {
			continue
		}
		heads[T] = true
	}
	// functions that rewrite a wrapper link, directly or through static callees
	writes := map[*ssa.Function]bool{}
	direct := func(ins ssa.Instruction) bool {
		st, ok := ins.(*ssa.Store)
		if !ok {
			return false
		}
		fa, ok := st.Addr.(*ssa.FieldAddr)
		if !ok {
			return false
		}
		nt := namedOf(fa.X.Type())
		return nt != nil && links[wf{nt, fa.Field}]
	}
	for changed := true; changed; {
		changed = false
		for _, fn := range p.Funcs {
			if fn.Blocks == nil || !p.ParsePhase[fn] || writes[fn] {
				continue
			}
			for _, b := range fn.Blocks {
				for _, ins := range b.Instrs {
					if direct(ins) {
						// constructing a wrapper (store into a fresh allocation) is not a rewrite
						if fa := ins.(*ssa.Store).Addr.(*ssa.FieldAddr); isFreshAlloc(fa.X) {
							continue
						}
						writes[fn] = true
					}
					if call, ok := ins.(ssa.CallInstruction); ok {
						if sc := call.Common().StaticCallee(); sc != nil && writes[sc] {
							writes[fn] = true
						}
					}
				}
			}
			if writes[fn] {
				changed = true
			}
		}
	}
	for _, fn := range p.Funcs {
		if fn.Blocks == nil || !p.ParsePhase[fn] {
			continue
		}
		// rewrite sites of this function
		var sites []ssa.Instruction
		for _, b := range fn.Blocks {
			for _, ins := range b.Instrs {
				if direct(ins) && !isFreshAlloc(ins.(*ssa.Store).Addr.(*ssa.FieldAddr).X) {
					sites = append(sites, ins)
				}
				if call, ok := ins.(ssa.CallInstruction); ok {
					if sc := call.Common().StaticCallee(); sc != nil && writes[sc] {
						sites = append(sites, ins)
					}
				}
			}
		}
		for _, b := range fn.Blocks {
			for _, ins := range b.Instrs {
				ta, ok := ins.(*ssa.TypeAssert)
				if !ok || !types.Identical(ta.X.Type(), p.Roles.NodeIface) {
					continue
				}
				nt := namedOf(ta.AssertedType)
				if nt == nil || !heads[nt] {
					continue
				}
				r.Instances++
				var before ssa.Instruction
				for _, w := range sites {
					if reachesForward(w, ta) {
						before = w
						break
					}
				}
				r.Oblige(before == nil)
				if len(r.Samples) < 4 {
					r.Sample("%s: classification against %s is not preceded by a rewrite of wrapper links: %v", load.FuncName(fn), nt.Obj().Name(), before == nil)
				}
				if before != nil {
					r.Violation("classification after the chain was rewritten in "+load.FuncName(fn), p.RelPos(ta.Pos()),
						"the test of a chain head against %s can be reached from %s, which rewrites the argument link of a function node (the root identifier is stripped): the classification then looks at the rewritten chain, and the `$`-rooted / `@`-rooted flag it yields disagrees with how the operand was written", nt.Obj().Name(), describeInstr(p, before))
				}
			}
		}
	}
	return r
}

func isFreshAlloc(v ssa.Value) bool {
	al, ok := v.(*ssa.Alloc)
	return ok && al != nil
}

func describeInstr(p *load.Program, ins ssa.Instruction) string {
	if call, ok := ins.(ssa.CallInstruction); ok {
		if sc := call.Common().StaticCallee(); sc != nil {
			return "the call of " + load.FuncName(sc) + " at " + p.RelPos(ins.Pos())
		}
	}
	return "the store at " + p.RelPos(ins.Pos())
}

// reachesForward: control can get from instruction a to instruction b without following a back
// edge (an edge into a block that dominates its source).
func reachesForward(a, b ssa.Instruction) bool {
	if a.Block() == b.Block() {
		for _, ins := range a.Block().Instrs {
			if ins == a {
				return true
			}
			if ins == b {
				break
			}
		}
	}
	seen := map[*ssa.BasicBlock]bool{}
	var walk func(x *ssa.BasicBlock) bool
	walk = func(x *ssa.BasicBlock) bool {
		for _, s := range x.Succs {
			if s.Dominates(x) { // back edge
				continue
			}
			if s == b.Block() {
				return true
			}
			if !seen[s] {
				seen[s] = true
				if walk(s) {
					return true
				}
			}
		}
		return false
	}
	return walk(a.Block())
}
