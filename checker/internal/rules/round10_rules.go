package rules

import (
	"go/types"

	"golang.org/x/tools/go/ssa"

	"verif/checker/internal/engine"
	"verif/checker/internal/load"
	"verif/checker/internal/report"
)

func init() {
	engine.Register("N-HEADORDER", ruleNHeadOrder)
}

// ruleNHeadOrder: N-HEADORDER — the `$` / `@` classification of a filter operand reads the chain
// as the grammar built it. Parse-phase code that rewrites the links of wrapper nodes (stripping
// the root identifier re-links the argument of every enclosing function) must therefore run
// after every classification of that pass: a type test of a chain head against the root
// identifier types that control can reach from such a rewrite — without going round a loop —
// looks at the rewritten chain, and the flag derived from it no longer says how the operand was
// written (the comparison is then built with the operands the wrong way round, or a `$` operand
// is evaluated per member).
func ruleNHeadOrder(c *engine.Context) *report.Rule {
	r := report.NewRule("N-HEADORDER", "no root / current-root classification runs after the chain's wrapper links were rewritten", 2)
	p := c.P
	// wrapper link fields: node-typed fields of node types that evaluate them into a private sink
	type wf struct {
		T     *types.Named
		field int
	}
	links := map[wf]bool{}
	for _, e := range findRetrieveEdges(c) {
		if e.sameSink {
			continue
		}
		if st, ok := e.T.Underlying().(*types.Struct); ok && types.Identical(st.Field(e.field).Type(), p.Roles.NodeIface) {
			links[wf{e.T, e.field}] = true
		}
	}
	if len(links) == 0 {
		r.InfraFail("anchor unresolved: wrapper node types")
		return r
	}
	// root identifier types: as in N-HEAD (node types made of the basic node only whose
	// evaluation inspects nothing) — taken from the types the classifications test against
	namedOf := func(t types.Type) *types.Named {
		if pt, ok := t.(*types.Pointer); ok {
			t = pt.Elem()
		}
		nt, _ := t.(*types.Named)
		return nt
	}
	heads := map[*types.Named]bool{}
	for _, T := range p.Roles.NodeTypes {
		st, ok := T.Underlying().(*types.Struct)
		if !ok || st.NumFields() != 1 || types.Identical(T, p.Roles.BasicNode) {
			continue
		}
		heads[T] = true
	}
	// functions that rewrite a wrapper link, directly or through static callees
	writes := map[*ssa.Function]bool{}
	direct := func(ins ssa.Instruction) bool {
		st, ok := ins.(*ssa.Store)
		if !ok {
			return false
		}
		fa, ok := st.Addr.(*ssa.FieldAddr)
		if !ok {
			return false
		}
		nt := namedOf(fa.X.Type())
		return nt != nil && links[wf{nt, fa.Field}]
	}
	for changed := true; changed; {
		changed = false
		for _, fn := range p.Funcs {
			if fn.Blocks == nil || !p.ParsePhase[fn] || writes[fn] {
				continue
			}
			for _, b := range fn.Blocks {
				for _, ins := range b.Instrs {
					if direct(ins) {
						// constructing a wrapper (store into a fresh allocation) is not a rewrite
						if fa := ins.(*ssa.Store).Addr.(*ssa.FieldAddr); isFreshAlloc(fa.X) {
							continue
						}
						writes[fn] = true
					}
					if call, ok := ins.(ssa.CallInstruction); ok {
						if sc := call.Common().StaticCallee(); sc != nil && writes[sc] {
							writes[fn] = true
						}
					}
				}
			}
			if writes[fn] {
				changed = true
			}
		}
	}
	for _, fn := range p.Funcs {
		if fn.Blocks == nil || !p.ParsePhase[fn] {
			continue
		}
		// rewrite sites of this function
		var sites []ssa.Instruction
		for _, b := range fn.Blocks {
			for _, ins := range b.Instrs {
				if direct(ins) && !isFreshAlloc(ins.(*ssa.Store).Addr.(*ssa.FieldAddr).X) {
					sites = append(sites, ins)
				}
				if call, ok := ins.(ssa.CallInstruction); ok {
					if sc := call.Common().StaticCallee(); sc != nil && writes[sc] {
						sites = append(sites, ins)
					}
				}
			}
		}
		for _, b := range fn.Blocks {
			for _, ins := range b.Instrs {
				ta, ok := ins.(*ssa.TypeAssert)
				if !ok || !types.Identical(ta.X.Type(), p.Roles.NodeIface) {
					continue
				}
				nt := namedOf(ta.AssertedType)
				if nt == nil || !heads[nt] {
					continue
				}
				r.Instances++
				var before ssa.Instruction
				for _, w := range sites {
					if reachesForward(w, ta) {
						before = w
						break
					}
				}
				r.Oblige(before == nil)
				if len(r.Samples) < 4 {
					r.Sample("%s: classification against %s is not preceded by a rewrite of wrapper links: %v", load.FuncName(fn), nt.Obj().Name(), before == nil)
				}
				if before != nil {
					r.Violation("classification after the chain was rewritten in "+load.FuncName(fn), p.RelPos(ta.Pos()),
						"the test of a chain head against %s can be reached from %s, which rewrites the argument link of a function node (the root identifier is stripped): the classification then looks at the rewritten chain, and the `$`-rooted / `@`-rooted flag it yields disagrees with how the operand was written", nt.Obj().Name(), describeInstr(p, before))
				}
			}
		}
	}
	return r
}

func isFreshAlloc(v ssa.Value) bool {
	al, ok := v.(*ssa.Alloc)
	return ok && al != nil
}

func describeInstr(p *load.Program, ins ssa.Instruction) string {
	if call, ok := ins.(ssa.CallInstruction); ok {
		if sc := call.Common().StaticCallee(); sc != nil {
			return "the call of " + load.FuncName(sc) + " at " + p.RelPos(ins.Pos())
		}
	}
	return "the store at " + p.RelPos(ins.Pos())
}

// reachesForward: control can get from instruction a to instruction b without following a back
// edge (an edge into a block that dominates its source).
func reachesForward(a, b ssa.Instruction) bool {
	if a.Block() == b.Block() {
		for _, ins := range a.Block().Instrs {
			if ins == a {
				return true
			}
			if ins == b {
				break
			}
		}
	}
	seen := map[*ssa.BasicBlock]bool{}
	var walk func(x *ssa.BasicBlock) bool
	walk = func(x *ssa.BasicBlock) bool {
		for _, s := range x.Succs {
			if s.Dominates(x) { // back edge
				continue
			}
			if s == b.Block() {
				return true
			}
			if !seen[s] {
				seen[s] = true
				if walk(s) {
					return true
				}
			}
		}
		return false
	}
	return walk(a.Block())
}

func init() {
	engine.Register("R-PEGFIELD", rulePegField)
	engine.Register("N-ACCUSE", ruleNAccUse)
	engine.Register("O-PUTCLEAN", rulePutClean)
}

// rulePegField: R-PEGFIELD — state that the actions or the hand-written parse code keep in the
// generated parser's own struct, next to the embedded action state, survives Parse: the
// deferred closure wipes the action state only, and the generated reset covers the matcher's
// variables only. Every such field that is written outside the generated engine must be
// assigned afresh by Parse before the matcher runs (as the input buffer is); otherwise one
// Parse leaves something behind for the next (a counter that is not brought back on a panic,
// a cache).
func rulePegField(c *engine.Context) *report.Rule {
	r := report.NewRule("R-PEGFIELD", "fields of the parser struct outside the action state that parse code writes are assigned afresh by every Parse", 1)
	p := c.P
	asIdx := actionStateIndex(p)
	if asIdx < 0 || p.Roles.Parse == nil {
		r.InfraFail("anchor unresolved: action-state field of the parser type")
		return r
	}
	isParserPtr := func(t types.Type) bool {
		pt, ok := t.Underlying().(*types.Pointer)
		return ok && types.Identical(pt.Elem(), p.Roles.ParserType)
	}
	pst := p.Roles.ParserType.Underlying().(*types.Struct)
	type site struct {
		fn  *ssa.Function
		ins ssa.Instruction
	}
	written := map[int][]site{}
	for _, fn := range p.Funcs {
		if fn.Blocks == nil || !p.InPkg(fn) {
			continue
		}
		if p.FuncIsGenerated(fn) && fn.Name() != "Execute" {
			continue // the engine's own variables are R-PEGRESET's business
		}
		for _, b := range fn.Blocks {
			for _, ins := range b.Instrs {
				st, ok := ins.(*ssa.Store)
				if !ok {
					continue
				}
				fa, ok := st.Addr.(*ssa.FieldAddr)
				if !ok || !isParserPtr(fa.X.Type()) || fa.Field == asIdx {
					continue
				}
				written[fa.Field] = append(written[fa.Field], site{fn, st})
			}
		}
	}
	// where Parse starts the matcher: the first call of a method of the parser type
	parse := p.Roles.Parse
	var start ssa.Instruction
	for _, b := range parse.Blocks {
		for _, ins := range b.Instrs {
			if call, ok := ins.(*ssa.Call); ok && start == nil {
				if sc := call.Call.StaticCallee(); sc != nil && sc.Signature.Recv() != nil && isParserPtr(sc.Signature.Recv().Type()) && (sc.Name() == "Parse" || sc.Name() == "Execute") {
					start = call
				}
			}
		}
	}
	if start == nil {
		r.InfraFail("anchor unresolved: the call that starts the matcher in Parse")
		return r
	}
	var fields []int
	for f := range written {
		fields = append(fields, f)
	}
	sortInts(fields)
	for _, f := range fields {
		r.Instances++
		fresh := false
		for _, s := range written[f] {
			if s.fn == parse && instrDominates(s.ins, start) {
				fresh = true
			}
		}
		r.Oblige(fresh)
		r.Sample("parser field %s written by parse code is assigned by Parse before the matcher starts: %v", pst.Field(f).Name(), fresh)
		if !fresh {
			s := written[f][0]
			r.Violation("parser field "+pst.Field(f).Name()+" outlives Parse", p.RelPos(s.ins.Pos()),
				"%s writes the field %s of the generated parser's struct; it is not part of the action state that Parse's deferred closure wipes, not one of the matcher variables the generated reset assigns, and Parse does not assign it before starting the matcher: what one Parse leaves there (also when it ends in a panic) is seen by the next", load.FuncName(s.fn), pst.Field(f).Name())
		}
	}
	return r
}

func sortInts(a []int) {
	for i := 1; i < len(a); i++ {
		for j := i; j > 0 && a[j] < a[j-1]; j-- {
			a[j], a[j-1] = a[j-1], a[j]
		}
	}
}

// ruleNAccUse: N-ACCUSE — the accessor flag of a node decides how a selected value is wrapped
// and nothing else. Every read of the flag in evaluation code is the test that selects between
// the plain and the accessor branch of an emission site; a read that feeds any other decision
// (skipping, de-duplicating, choosing another path) makes the two modes select different values.
func ruleNAccUse(c *engine.Context) *report.Rule {
	r := report.NewRule("N-ACCUSE", "during evaluation the accessor flag is read only to choose the wrapping at an emission site", 3)
	p := c.P
	flagField := -1
	guards := map[*ssa.If]bool{}
	for _, es := range findEmitSites(c) {
		if es.guard != nil {
			guards[es.guard] = true
			if base, f, ok := boolFieldLoad(es.guard.Cond); ok {
				if pt, isP := base.Type().Underlying().(*types.Pointer); isP && types.Identical(pt.Elem(), p.Roles.BasicNode) {
					flagField = f
				}
			}
		}
	}
	if flagField < 0 {
		r.InfraFail("anchor unresolved: accessor flag field")
		return r
	}
	for _, fn := range evalFuncs(c) {
		for _, b := range fn.Blocks {
			for _, ins := range b.Instrs {
				ld, ok := ins.(*ssa.UnOp)
				if !ok {
					continue
				}
				fa, ok := ld.X.(*ssa.FieldAddr)
				if !ok || fa.Field != flagField {
					continue
				}
				pt, isP := fa.X.Type().Underlying().(*types.Pointer)
				if !isP || !types.Identical(pt.Elem(), p.Roles.BasicNode) {
					continue
				}
				r.Instances++
				ok = true
				var bad ssa.Instruction
				for _, ref := range *ld.Referrers() {
					switch x := ref.(type) {
					case *ssa.If:
						if !guards[x] {
							ok, bad = false, x
						}
					case *ssa.DebugRef:
					default:
						ok, bad = false, ref
					}
				}
				r.Oblige(ok)
				if len(r.Samples) < 4 {
					r.Sample("%s: the flag read only selects the wrapping: %v", load.FuncName(fn), ok)
				}
				if !ok {
					r.Violation("accessor flag decides more than the wrapping in "+load.FuncName(fn), p.RelPos(bad.Pos()),
						"%s reads the node's accessor flag for something other than choosing between the plain and the accessor form of a value it emits: what is selected then depends on the mode, so accessor mode and plain mode return different sequences", load.FuncName(fn))
				}
			}
		}
	}
	return r
}

// rulePutClean: O-PUTCLEAN — releasing a result buffer to its pool only truncates it. The
// buffer's list is handed out as it is (an aggregate function receives it, a user function may
// return it, the exported copy is taken from it): a release that also writes elements — to
// "forget" the caller's values — writes into a backing array somebody may still hold.
func rulePutClean(c *engine.Context) *report.Rule {
	r := report.NewRule("O-PUTCLEAN", "a pooled result buffer is only truncated when it is released, never written", 1)
	p := c.P
	if p.Roles.SinkType == nil || p.Roles.SinkField == nil {
		r.InfraFail("anchor unresolved: result sink type")
		return r
	}
	sinkFieldIdx := -1
	if st, ok := p.Roles.SinkType.Underlying().(*types.Struct); ok {
		for i := 0; i < st.NumFields(); i++ {
			if st.Field(i) == p.Roles.SinkField {
				sinkFieldIdx = i
			}
		}
	}
	for _, fn := range p.Funcs {
		if fn.Blocks == nil || !p.InPkg(fn) || p.FuncIsGenerated(fn) {
			continue
		}
		// a releasing function: calls (*sync.Pool).Put with a sink
		releases := false
		for _, b := range fn.Blocks {
			for _, ins := range b.Instrs {
				if call, ok := ins.(ssa.CallInstruction); ok {
					if sc := call.Common().StaticCallee(); sc != nil && sc.Name() == "Put" && sc.Pkg != nil && sc.Pkg.Pkg.Path() == "sync" {
						for _, a := range call.Common().Args {
							if mi, ok := a.(*ssa.MakeInterface); ok {
								if pt, ok := mi.X.Type().Underlying().(*types.Pointer); ok && types.Identical(pt.Elem(), p.Roles.SinkType) {
									releases = true
								}
							}
						}
					}
				}
			}
		}
		if !releases {
			continue
		}
		r.Instances++
		ok := true
		var bad ssa.Instruction
		for _, b := range fn.Blocks {
			for _, ins := range b.Instrs {
				switch x := ins.(type) {
				case *ssa.Store:
					if ia, isIA := x.Addr.(*ssa.IndexAddr); isIA {
						if ld, isLd := ia.X.(*ssa.UnOp); isLd {
							if fa, isFA := ld.X.(*ssa.FieldAddr); isFA && fa.Field == sinkFieldIdx {
								if pt, ok2 := fa.X.Type().Underlying().(*types.Pointer); ok2 && types.Identical(pt.Elem(), p.Roles.SinkType) {
									ok, bad = false, x
								}
							}
						}
					}
				case *ssa.Call:
					if bi, isB := x.Call.Value.(*ssa.Builtin); isB && (bi.Name() == "clear" || bi.Name() == "copy") {
						ok, bad = false, x
					}
				}
			}
		}
		r.Oblige(ok)
		r.Sample("%s releases a result buffer without writing its elements: %v", load.FuncName(fn), ok)
		if !ok {
			r.Violation("release of a result buffer writes its elements in "+load.FuncName(fn), p.RelPos(bad.Pos()),
				"%s stores into the elements of the result list before it puts the buffer back into the pool: the list's backing array was handed to an aggregate function (and may have been returned by it, or be the array the exported results are still copied from), so values a caller holds are overwritten", load.FuncName(fn))
		}
	}
	return r
}
