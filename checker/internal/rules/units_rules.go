package rules

import (
	"fmt"
	"go/token"
	"go/types"
	"strings"

	"golang.org/x/tools/go/ssa"

	"verif/checker/internal/cfgutil"
	"verif/checker/internal/engine"
	"verif/checker/internal/load"
	"verif/checker/internal/report"
)

func init() {
	engine.Register("U-INDEX", ruleUIndex)
	engine.Register("U-BYTES", func(c *engine.Context) *report.Rule { return ruleUBytes(c, "U-BYTES") })
	engine.Register("U-RUNELEN", func(c *engine.Context) *report.Rule { return ruleUBytes(c, "U-RUNELEN") })
	engine.Register("N-KEYFLOW", ruleNKeyFlow)
	engine.Register("N-NUMCONV", ruleNNumConv)
}

func isStringT(t types.Type) bool {
	b, ok := t.Underlying().(*types.Basic)
	return ok && b.Info()&types.IsString != 0
}

// tokenType: the generated token struct (embedded rule id + two uint32 offsets).
func tokenType(p *load.Program) *types.Named {
	for _, name := range p.Types.Scope().Names() {
		tn, ok := p.Types.Scope().Lookup(name).(*types.TypeName)
		if !ok || !p.IsGenerated(tn.Pos()) {
			continue
		}
		nt, ok := tn.Type().(*types.Named)
		if !ok {
			continue
		}
		st, ok := nt.Underlying().(*types.Struct)
		if !ok || st.NumFields() != 3 {
			continue
		}
		n32 := 0
		for i := 0; i < 3; i++ {
			if b, ok := st.Field(i).Type().Underlying().(*types.Basic); ok && b.Kind() == types.Uint32 {
				n32++
			}
		}
		if n32 == 2 {
			return nt
		}
	}
	return nil
}

// ruleUIndex: U-INDEX and U-POS.
func ruleUIndex(c *engine.Context) *report.Rule {
	r := report.NewRule("U-INDEX", "token offsets are character (rune) indices: they index or slice only rune slices, never a string; the reported position is that index unchanged", 2)
	p := c.P
	a := regionsOf(c)
	tokT := tokenType(p)
	if tokT == nil {
		r.InfraFail("anchor unresolved: generated token type")
		return r
	}
	// taint: values derived from the uint32 fields of a token
	tainted := map[ssa.Value]bool{}
	var work []ssa.Value
	add := func(v ssa.Value) {
		if v != nil && !tainted[v] {
			tainted[v] = true
			work = append(work, v)
		}
	}
	isTokField := func(t types.Type) bool {
		if pt, ok := t.(*types.Pointer); ok {
			t = pt.Elem()
		}
		return types.Identical(t, tokT)
	}
	for _, fn := range parseFuncs(c, false) {
		for _, b := range fn.Blocks {
			for _, ins := range b.Instrs {
				switch x := ins.(type) {
				case *ssa.Field:
					if isTokField(x.X.Type()) {
						if bb, ok := x.Type().Underlying().(*types.Basic); ok && bb.Kind() == types.Uint32 {
							add(x)
						}
					}
				case *ssa.FieldAddr:
					if isTokField(x.X.Type()) {
						st := tokT.Underlying().(*types.Struct)
						if bb, ok := st.Field(x.Field).Type().Underlying().(*types.Basic); ok && bb.Kind() == types.Uint32 {
							for _, ref := range *x.Referrers() {
								if ld, ok := ref.(*ssa.UnOp); ok && ld.Op == token.MUL {
									add(ld)
								}
							}
						}
					}
				}
			}
		}
	}
	sources := len(work)
	for len(work) > 0 {
		v := work[len(work)-1]
		work = work[:len(work)-1]
		if v.Referrers() == nil {
			continue
		}
		for _, ref := range *v.Referrers() {
			switch x := ref.(type) {
			case *ssa.Convert:
				if bb, ok := x.Type().Underlying().(*types.Basic); ok && bb.Info()&types.IsInteger != 0 {
					add(x)
				}
			case *ssa.ChangeType:
				add(x)
			case *ssa.BinOp:
				if x.Op == token.ADD || x.Op == token.SUB {
					add(x)
				}
			case *ssa.Phi:
				add(x)
			case *ssa.Call:
				// hand-written callee parameter
				for _, callee := range a.Edges(x.Parent()) {
					_ = callee
				}
				if sc := x.Call.StaticCallee(); sc != nil && p.InPkg(sc) && sc.Blocks != nil {
					for i, arg := range x.Call.Args {
						if arg == v && i < len(sc.Params) {
							add(sc.Params[i])
						}
					}
				}
			}
		}
	}
	r.Note("token offset sources: %d, values carrying a rune index: %d", sources, len(tainted))
	if sources == 0 {
		r.InfraFail("no token offset source found")
		return r
	}
	// sinks
	for v := range tainted {
		if v.Referrers() == nil {
			continue
		}
		for _, ref := range *v.Referrers() {
			switch x := ref.(type) {
			case *ssa.Slice:
				if x.Low != v && x.High != v {
					continue
				}
				r.Instances++
				ok := !isStringT(x.X.Type())
				r.Oblige(ok)
				r.Sample("%s: %s sliced with a token offset (operand type %s): %v", load.FuncName(x.Parent()), x.X.Name(), tname(x.X.Type()), ok)
				if !ok {
					r.Violation("string sliced with a rune index in "+load.FuncName(x.Parent()), p.RelPos(x.Pos()),
						"a character (rune) index taken from the token tree is used to slice a string, which is indexed in bytes: for paths with multi-byte characters before that point the text starts in the middle of a character or the slice is out of range")
				}
			case *ssa.Index:
				if x.Index == v && isStringT(x.X.Type()) {
					r.Instances++
					r.Oblige(false)
					r.Violation("string indexed with a rune index in "+load.FuncName(x.Parent()), p.RelPos(x.Pos()), "a character (rune) index is used as a byte index into a string")
				}
			case *ssa.Lookup:
				if x.Index == v && isStringT(x.X.Type()) {
					r.Instances++
					r.Oblige(false)
					r.Violation("string indexed with a rune index in "+load.FuncName(x.Parent()), p.RelPos(x.Pos()), "a character (rune) index is used as a byte index into a string")
				}
			case *ssa.Store:
				// U-POS: stored into the position field of the syntax error unchanged
				if fa, ok := x.Addr.(*ssa.FieldAddr); ok && x.Val == v {
					if pt, ok := fa.X.Type().Underlying().(*types.Pointer); ok && inTypes(pt.Elem(), p.Roles.SyntaxErrTypes) {
						r.Instances++
						_, direct := v.(*ssa.Parameter)
						r.Oblige(direct)
						r.Sample("%s: reported position is the token offset itself: %v", load.FuncName(x.Parent()), direct)
						if !direct {
							r.Violation("reported position is not the token offset in "+load.FuncName(x.Parent()), p.RelPos(x.Pos()), "the position stored in the syntax error is computed from the token offset instead of being that character offset")
						}
					}
				}
			}
		}
	}
	return r
}

// ruleUBytes: byte/rune unit pitfalls in the hand-written text transducers.
func ruleUBytes(c *engine.Context, id string) *report.Rule {
	doc := "text is transduced in one unit: no byte-wise read driven by a rune-wise range over the same string"
	if id == "U-RUNELEN" {
		doc = "no byte offset is accumulated from utf8.RuneLen of runes decoded by ranging over a string (wrong after malformed UTF-8)"
	}
	r := report.NewRule(id, doc, 0)
	p := c.P
	for _, fn := range parseFuncs(c, true) {
		for _, l := range cfgutil.Loops(fn) {
			for _, ins := range l.Header.Instrs {
				nx, ok := ins.(*ssa.Next)
				if !ok || !nx.IsString {
					continue
				}
				rg := nx.Iter.(*ssa.Range)
				r.Instances++
				var idx, val ssa.Value
				for _, ref := range *nx.Referrers() {
					if ex, ok := ref.(*ssa.Extract); ok {
						switch ex.Index {
						case 1:
							idx = ex
						case 2:
							val = ex
						}
					}
				}
				ok2 := true
				// (a) index used to read single bytes of the same string while the rune value is unused
				valUsed := val != nil && len(*val.Referrers()) > 0
				if idx != nil && !valUsed && id == "U-BYTES" {
					for _, ref := range *idx.Referrers() {
						if ix, isIx := ref.(*ssa.Index); isIx && ix.X == rg.X && ix.Index == idx {
							ok2 = false
							r.Violation("byte-wise read driven by a rune-wise range in "+load.FuncName(fn), p.RelPos(ix.Pos()),
								"`for i := range s` visits only the first byte of every character; the loop reads s[i] as a byte and ignores the character: continuation bytes of multi-byte characters are never processed")
							break
						}
						if lk, isLk := ref.(*ssa.Lookup); isLk && lk.X == rg.X && lk.Index == idx {
							ok2 = false
							r.Violation("byte-wise read driven by a rune-wise range in "+load.FuncName(fn), p.RelPos(lk.Pos()),
								"`for i := range s` visits only the first byte of every character; the loop reads s[i] as a byte and ignores the character: continuation bytes of multi-byte characters are never processed")
						}
					}
				}
				// (b) utf8.RuneLen of the decoded rune accumulates a byte offset
				if val != nil && id == "U-RUNELEN" {
					for _, ref := range *val.Referrers() {
						if call, isCall := ref.(*ssa.Call); isCall && call.Call.StaticCallee() != nil && call.Call.StaticCallee().String() == "unicode/utf8.RuneLen" {
							ok2 = false
							r.Violation("byte offset summed from utf8.RuneLen in "+load.FuncName(fn), p.RelPos(call.Pos()),
								"a malformed byte decodes to U+FFFD, whose RuneLen is 3 although it occupied one byte: a byte offset accumulated this way is wrong after invalid UTF-8 (use the range index or the decoded width)")
						}
					}
				}
				r.Oblige(ok2)
			}
		}
	}
	r.Note("string range loops in hand-written parser code: %d", r.Instances)
	return r
}

// provenance of a string value: backward trace through parameters.
type strLeaf struct {
	kind string
	at   token.Pos
	desc string
}

func traceString(c *engine.Context, v ssa.Value, depth int, seen map[ssa.Value]bool, out *[]strLeaf) {
	p := c.P
	a := regionsOf(c)
	if depth > 8 || seen[v] {
		return
	}
	seen[v] = true
	switch x := v.(type) {
	case *ssa.Parameter:
		fn := x.Parent()
		idx := -1
		for i, prm := range fn.Params {
			if prm == x {
				idx = i
			}
		}
		found := false
		for _, ce := range a.Calls {
			if ce.Callee != fn {
				continue
			}
			cc := ce.Site.Common()
			var args []ssa.Value
			if cc.IsInvoke() {
				args = append(args, cc.Value)
			}
			args = append(args, cc.Args...)
			if idx < len(args) {
				found = true
				traceString(c, args[idx], depth+1, seen, out)
			}
		}
		if !found {
			*out = append(*out, strLeaf{"param-of-uncalled", x.Pos(), "parameter " + x.Name() + " of " + load.FuncName(fn)})
		}
	case *ssa.UnOp:
		if x.Op == token.MUL {
			switch ad := x.X.(type) {
			case *ssa.FieldAddr:
				st := ad.X.Type().Underlying().(*types.Pointer).Elem().Underlying().(*types.Struct)
				*out = append(*out, strLeaf{"field", x.Pos(), tname(ad.X.Type().Underlying().(*types.Pointer).Elem()) + "." + st.Field(ad.Field).Name()})
				return
			case *ssa.IndexAddr:
				*out = append(*out, strLeaf{"element", x.Pos(), "element of " + tname(ad.X.Type())})
				return
			case *ssa.Alloc:
				// spilled parameter / local: follow the stores
				for _, ref := range *ad.Referrers() {
					if st, ok := ref.(*ssa.Store); ok && st.Addr == ssa.Value(ad) {
						traceString(c, st.Val, depth+1, seen, out)
					}
				}
				return
			case *ssa.FreeVar:
				*out = append(*out, strLeaf{"captured", x.Pos(), "captured variable " + ad.Name()})
				return
			}
		}
		*out = append(*out, strLeaf{"op", x.Pos(), x.String()})
	case *ssa.Phi:
		for _, e := range x.Edges {
			traceString(c, e, depth+1, seen, out)
		}
	case *ssa.Extract:
		if nx, ok := x.Tuple.(*ssa.Next); ok && !nx.IsString {
			*out = append(*out, strLeaf{"mapkey", x.Pos(), "map key from range"})
			return
		}
		*out = append(*out, strLeaf{"call", x.Pos(), "result of " + x.Tuple.String()})
	case *ssa.Const:
		*out = append(*out, strLeaf{"const", token.NoPos, "constant"})
	case *ssa.BinOp:
		*out = append(*out, strLeaf{"concat", x.Pos(), "string expression " + x.String()})
	case *ssa.Call:
		callee := "call"
		if sc := x.Call.StaticCallee(); sc != nil {
			callee = sc.String()
		}
		*out = append(*out, strLeaf{"call", x.Pos(), "result of " + callee})
	case *ssa.Slice:
		*out = append(*out, strLeaf{"slice", x.Pos(), "substring " + x.String()})
	case *ssa.Convert:
		*out = append(*out, strLeaf{"convert", x.Pos(), "conversion " + x.String()})
	default:
		*out = append(*out, strLeaf{"other", v.Pos(), fmt.Sprintf("%T", v)})
	}
	_ = p
}

// ruleNKeyFlow: N-KEYFLOW.
func ruleNKeyFlow(c *engine.Context) *report.Rule {
	r := report.NewRule("N-KEYFLOW", "the member name stored by the parser is the key used for the map lookup, unmodified", 2)
	p := c.P
	// lookups during evaluation on document maps
	identFields := map[string]bool{}
	for _, fn := range evalFuncs(c) {
		for _, b := range fn.Blocks {
			for _, ins := range b.Instrs {
				lk, ok := ins.(*ssa.Lookup)
				if !ok {
					continue
				}
				mt, ok := lk.X.Type().Underlying().(*types.Map)
				if !ok || !isStringT(mt.Key()) {
					continue
				}
				if it, ok := mt.Elem().Underlying().(*types.Interface); !ok || it.NumMethods() != 0 {
					continue
				}
				r.Instances++
				var leaves []strLeaf
				traceString(c, lk.Index, 0, map[ssa.Value]bool{}, &leaves)
				ok2 := true
				var bad []string
				var srcs []string
				for _, l := range leaves {
					switch l.kind {
					case "field":
						identFields[l.desc] = true
						srcs = append(srcs, l.desc)
					case "element", "mapkey", "captured":
						srcs = append(srcs, l.desc)
					default:
						ok2 = false
						bad = append(bad, l.desc)
					}
				}
				r.Oblige(ok2)
				r.Sample("%s: lookup key comes from {%s}", load.FuncName(fn), strings.Join(uniqSorted(srcs), ", "))
				if !ok2 {
					r.Violation("member lookup key is computed in "+load.FuncName(fn), p.RelPos(lk.Pos()),
						"the key used to look up an object member is %s rather than the stored member name / a key of the object itself: some member names become unreachable or are confused with others", strings.Join(uniqSorted(bad), "; "))
				}
			}
		}
	}
	// the identifier field is assigned exactly the constructor's argument
	for fld := range identFields {
		parts := strings.SplitN(fld, ".", 2)
		if len(parts) != 2 {
			continue
		}
		for _, fn := range p.Funcs {
			for _, b := range fn.Blocks {
				for _, ins := range b.Instrs {
					st, ok := ins.(*ssa.Store)
					if !ok {
						continue
					}
					fa, ok := st.Addr.(*ssa.FieldAddr)
					if !ok {
						continue
					}
					pt, ok := fa.X.Type().Underlying().(*types.Pointer)
					if !ok || tname(pt.Elem()) != parts[0] {
						continue
					}
					sst, ok := pt.Elem().Underlying().(*types.Struct)
					if !ok || sst.Field(fa.Field).Name() != parts[1] || !isStringT(sst.Field(fa.Field).Type()) {
						continue
					}
					r.Instances++
					_, isParam := st.Val.(*ssa.Parameter)
					r.Oblige(isParam)
					r.Sample("%s stores its argument into %s unchanged: %v", load.FuncName(fn), fld, isParam)
					if !isParam {
						r.Violation("member name modified when stored into "+fld+" by "+load.FuncName(fn), p.RelPos(st.Pos()),
							"the constructor does not store the member name it was given verbatim (the value is %s)", st.Val.String())
					}
				}
			}
		}
	}
	return r
}

// ruleNNumConv: N-NUMCONV.
func ruleNNumConv(c *engine.Context) *report.Rule {
	r := report.NewRule("N-NUMCONV", "index and number texts are converted base-10 by strconv on the captured text unmodified", 2)
	p := c.P
	for _, fn := range parseFuncs(c, false) { // a conversion helper may be expanded into a grammar action
		for _, b := range fn.Blocks {
			for _, ins := range b.Instrs {
				call, ok := ins.(*ssa.Call)
				if !ok || call.Call.StaticCallee() == nil || call.Call.StaticCallee().Pkg == nil || call.Call.StaticCallee().Pkg.Pkg.Path() != "strconv" {
					continue
				}
				name := call.Call.StaticCallee().Name()
				if !strings.HasPrefix(name, "Parse") && name != "Atoi" {
					continue
				}
				// conversions of path numbers: the numeric result is kept as a number (stored, returned,
				// passed on); strconv used to decode an escape into a character is not this rule's business
				yieldsNumber := false
				for _, ref := range *call.Referrers() {
					ex, isEx := ref.(*ssa.Extract)
					if !isEx || ex.Index != 0 {
						continue
					}
					for _, r2 := range *ex.Referrers() {
						switch x := r2.(type) {
						case *ssa.Convert:
							if !isBasicKind(x.Type(), types.Int) && !isBasicKind(x.Type(), types.Float64) && !isBasicKind(x.Type(), types.Int64) {
								continue
							}
							yieldsNumber = true
						case *ssa.DebugRef:
						default:
							yieldsNumber = true
						}
					}
				}
				if !yieldsNumber {
					continue
				}
				r.Instances++
				ok2, why := true, ""
				switch name {
				case "Atoi":
				case "ParseInt", "ParseUint":
					if cv, okc := cfgutil.ConstInt(call.Call.Args[1]); !okc || cv != 10 {
						ok2, why = false, "integer text is not parsed in base 10 (a base of 0 accepts 0x/0o/0b prefixes and treats a leading 0 as octal)"
					}
				case "ParseFloat":
					if cv, okc := cfgutil.ConstInt(call.Call.Args[1]); !okc || cv != 64 {
						ok2, why = false, "number text is not parsed as a 64-bit float"
					}
				default:
					ok2, why = false, "unexpected conversion "+name
				}
				if ok2 && !unmodifiedText(call.Call.Args[0], 0) {
					ok2, why = false, "the text is modified before conversion ("+call.Call.Args[0].String()+")"
				}
				r.Oblige(ok2)
				r.Sample("%s: strconv.%s on the text unmodified, base 10 / 64-bit: %v", load.FuncName(fn), name, ok2)
				if !ok2 {
					r.Violation("numeric conversion in "+load.FuncName(fn), p.RelPos(call.Pos()), "%s", why)
				}
			}
		}
	}
	return r
}

// unmodifiedText: v is a parameter, a constant, or the matched text as the generated parser
// captures it (a conversion of a slice of the input, possibly merged by phis): nothing computed
// from it by a call or a concatenation.
func unmodifiedText(v ssa.Value, depth int) bool {
	if depth > 8 {
		return false
	}
	switch x := v.(type) {
	case *ssa.Parameter, *ssa.Const, *ssa.FreeVar:
		return true
	case *ssa.Phi:
		for _, e := range x.Edges {
			if e != ssa.Value(x) && !unmodifiedText(e, depth+1) {
				return false
			}
		}
		return true
	case *ssa.Convert:
		return unmodifiedText(x.X, depth+1)
	case *ssa.ChangeType:
		return unmodifiedText(x.X, depth+1)
	case *ssa.Slice:
		return unmodifiedText(x.X, depth+1)
	case *ssa.UnOp:
		if x.Op == token.MUL {
			switch a := x.X.(type) {
			case *ssa.FieldAddr, *ssa.Global:
				return true
			case *ssa.Alloc:
				for _, ref := range *a.Referrers() {
					if st, ok := ref.(*ssa.Store); ok && st.Addr == ssa.Value(a) && !unmodifiedText(st.Val, depth+1) {
						return false
					}
				}
				return true
			}
		}
	}
	return false
}
