package rules

import (
	"fmt"
	"go/token"
	"go/types"
	"sort"

	"golang.org/x/tools/go/ssa"

	"verif/checker/internal/cfgutil"
	"verif/checker/internal/engine"
	"verif/checker/internal/load"
	"verif/checker/internal/regions"
	"verif/checker/internal/report"
)

func init() {
	engine.Register("N-VGFLAG", ruleNVgFlag)
}

// ruleNVgFlag: N-VGFLAG — the "selects several values" flag a step or subscript is built with
// agrees with what its evaluation can do. A subscript whose index generator contains a loop can
// yield several indexes, one without a loop yields at most one; a node whose evaluation methods
// contain a loop fans out over members, one without yields at most one value. The flag decides
// whether an aggregate function receives the list of selected values or unwraps a single array,
// and whether a path may be an operand of a comparison: built wrongly for one constructor, only
// that spelling of a selector misbehaves. Every construction in the parse phase is examined; a
// flag that is computed (not a constant) is left to the rules that follow the value it is
// computed from.
func ruleNVgFlag(c *engine.Context) *report.Rule {
	r := report.NewRule("N-VGFLAG", "steps and subscripts are built with a value-group flag that matches whether their evaluation can select several values", 6)
	p := c.P
	// holder struct types: the basic node, and the struct embedded by pointer in the subscript types
	type holder struct {
		B    *types.Named
		flag int // index of the flag field
	}
	var holders []holder
	boolFieldOf := func(B *types.Named, getterResult bool) int {
		st, ok := B.Underlying().(*types.Struct)
		if !ok {
			return -1
		}
		// the flag field is the one a zero-argument bool method of *B returns
		for _, fn := range p.Funcs {
			if fn.Blocks == nil || fn.Signature.Recv() == nil || len(fn.Blocks) != 1 || len(fn.Params) != 1 {
				continue
			}
			pt, ok := fn.Signature.Recv().Type().(*types.Pointer)
			if !ok || !types.Identical(pt.Elem(), B) {
				continue
			}
			if res := fn.Signature.Results(); res.Len() != 1 || !isBasicKind(res.At(0).Type(), types.Bool) {
				continue
			}
			if ret, ok := fn.Blocks[0].Instrs[len(fn.Blocks[0].Instrs)-1].(*ssa.Return); ok {
				if ld, ok := ret.Results[0].(*ssa.UnOp); ok {
					if fa, ok := ld.X.(*ssa.FieldAddr); ok && fa.X == ssa.Value(fn.Params[0]) && isBasicKind(st.Field(fa.Field).Type(), types.Bool) {
						// the value-group getter is the one that is part of an interface of the package
						// (node / subscript); the accessor flag has no getter
						return fa.Field
					}
				}
			}
		}
		return -1
	}
	if f := boolFieldOf(p.Roles.BasicNode, true); f >= 0 {
		holders = append(holders, holder{p.Roles.BasicNode, f})
	}
	seenB := map[*types.Named]bool{}
	for _, S := range p.Roles.SubscriptTypes {
		st, ok := S.Underlying().(*types.Struct)
		if !ok {
			continue
		}
		for i := 0; i < st.NumFields(); i++ {
			if !st.Field(i).Embedded() {
				continue
			}
			if pt, ok := st.Field(i).Type().(*types.Pointer); ok {
				if B, ok := pt.Elem().(*types.Named); ok && !seenB[B] {
					seenB[B] = true
					if f := boolFieldOf(B, true); f >= 0 {
						holders = append(holders, holder{B, f})
					}
				}
			}
		}
	}
	if len(holders) < 2 {
		r.InfraFail("anchor unresolved: value-group flag holders (basic node and basic subscript), found %d", len(holders))
		return r
	}
	// which owner types can select several values
	multi := map[*types.Named]bool{}
	known := map[*types.Named]bool{}
	recvNamed := func(fn *ssa.Function) *types.Named {
		if fn.Signature.Recv() == nil {
			return nil
		}
		t := fn.Signature.Recv().Type()
		if pt, ok := t.(*types.Pointer); ok {
			t = pt.Elem()
		}
		nt, _ := t.(*types.Named)
		return nt
	}
	for _, S := range p.Roles.SubscriptTypes {
		if fn := methodOf(p, S, p.Roles.IndexesMethod); fn != nil && fn.Blocks != nil {
			known[S] = true
			multi[S] = len(cfgutil.Loops(fn)) > 0
		}
	}
	for _, fn := range retrieveFamily(c) {
		T := recvNamed(fn)
		if T == nil || !p.Roles.IsNodeType(types.NewPointer(T)) && !p.Roles.IsNodeType(T) {
			continue
		}
		known[T] = true
		if len(cfgutil.Loops(fn)) > 0 {
			multi[T] = true
		}
	}
	// constructions
	type site struct {
		fn    *ssa.Function
		al    *ssa.Alloc
		owner *types.Named
		val   *bool
		pos   token.Pos
	}
	var sites []*site
	for _, fn := range p.Funcs {
		if fn.Blocks == nil || !p.ParsePhase[fn] {
			continue
		}
		for _, b := range fn.Blocks {
			for _, ins := range b.Instrs {
				al, ok := ins.(*ssa.Alloc)
				if !ok {
					continue
				}
				var h *holder
				for i := range holders {
					if types.Identical(al.Type().(*types.Pointer).Elem(), holders[i].B) {
						h = &holders[i]
					}
				}
				if h == nil {
					continue
				}
				s := &site{fn: fn, al: al, pos: al.Pos()}
				f := false
				s.val = &f // a field left out of the literal is false
				for _, ref := range *al.Referrers() {
					switch x := ref.(type) {
					case *ssa.FieldAddr:
						if x.Field != h.flag {
							continue
						}
						for _, r2 := range *x.Referrers() {
							if st, ok := r2.(*ssa.Store); ok && st.Addr == ssa.Value(x) {
								if cst, isC := st.Val.(*ssa.Const); isC && cst.Value != nil {
									v := cst.Value.String() == "true"
									s.val = &v
								} else {
									s.val = nil // computed
								}
							}
						}
					case *ssa.Store:
						// stored into the embedding field of its owner
						if x.Val == ssa.Value(al) {
							if fa, ok := x.Addr.(*ssa.FieldAddr); ok {
								if pt, ok := fa.X.Type().Underlying().(*types.Pointer); ok {
									if nt, ok := pt.Elem().(*types.Named); ok {
										s.owner = nt
									}
								}
							}
						}
					}
				}
				if s.owner != nil && known[s.owner] {
					sites = append(sites, s)
				}
			}
		}
	}
	sort.Slice(sites, func(i, j int) bool { return sites[i].pos < sites[j].pos })
	for _, s := range sites {
		r.Instances++
		if s.val == nil {
			r.Oblige(true)
			r.Sample("%s builds %s with a computed flag (judged where it is computed)", load.FuncName(s.fn), s.owner.Obj().Name())
			continue
		}
		ok := *s.val == multi[s.owner]
		r.Oblige(ok)
		r.Sample("%s builds %s with value-group=%v; its evaluation can select several values: %v", load.FuncName(s.fn), s.owner.Obj().Name(), *s.val, multi[s.owner])
		if !ok {
			r.Violation(fmt.Sprintf("%s builds %s with value-group=%v", load.FuncName(s.fn), s.owner.Obj().Name(), *s.val), p.RelPos(s.pos),
				"%s constructs a %s whose value-group flag is %v, but the evaluation of %s %s: an aggregate function behind this selector then receives %s, and the selector is %s as a comparison operand, unlike the other spellings of the same selection",
				load.FuncName(s.fn), s.owner.Obj().Name(), *s.val, s.owner.Obj().Name(),
				map[bool]string{true: "can select several values (it loops over members or indexes)", false: "selects at most one value"}[multi[s.owner]],
				map[bool]string{true: "only the first selected array instead of the list of selected values", false: "a list where a single value is expected"}[multi[s.owner]],
				map[bool]string{true: "accepted", false: "rejected"}[multi[s.owner]])
		}
	}
	return r
}

func init() {
	engine.Register("P-SLICEBOUND", rulePSliceBound)
}

// rulePSliceBound: P-SLICEBOUND — in the hand-written code of the parse phase, the upper bound of
// a slice expression on a slice is tied to that slice's own length (len(x), len(x)-k, a constant
// 0, or a value bounded by a dominating comparison with len(x) / cap(x)). A bound computed from
// another slice's length can exceed the capacity for some inputs: the run-time panic is recovered
// by Parse and returned as an error that is none of the documented ones.
func rulePSliceBound(c *engine.Context) *report.Rule {
	r := report.NewRule("P-SLICEBOUND", "slice expressions in parse-phase code are bounded by the length of the slice they cut", 1)
	p := c.P
	for _, fn := range parseFuncs(c, true) {
		n := 0
		for _, b := range fn.Blocks {
			for _, ins := range b.Instrs {
				sl, ok := ins.(*ssa.Slice)
				if !ok || sl.High == nil {
					continue
				}
				if _, isSlice := sl.X.Type().Underlying().(*types.Slice); !isSlice {
					continue // arrays (pointer to array) and strings: bounds are types' business or checked elsewhere
				}
				n++
				r.Instances++
				x := resolveCell(sl.X)
				same := func(v ssa.Value) bool { return v == sl.X || resolveCell(v) == x || sameFieldLoad(v, sl.X) }
				lenOrCapOfX := func(v ssa.Value) bool {
					call, ok := v.(*ssa.Call)
					if !ok {
						return false
					}
					bi, ok := call.Call.Value.(*ssa.Builtin)
					return ok && (bi.Name() == "len" || bi.Name() == "cap") && len(call.Call.Args) == 1 && same(call.Call.Args[0])
				}
				okB := false
				switch h := sl.High.(type) {
				case *ssa.Const:
					if cv, isC := cfgutil.ConstInt(h); isC && cv == 0 {
						okB = true
					}
				case *ssa.Call:
					okB = lenOrCapOfX(h)
				case *ssa.BinOp:
					if h.Op == token.SUB && lenOrCapOfX(h.X) {
						if cv, isC := cfgutil.ConstInt(h.Y); isC && cv >= 0 {
							okB = true
						}
					}
				}
				if !okB {
					// bounded by a dominating comparison: high <= len(x) / high < len(x)
					for _, dc := range dominatingConds(b) {
						bo, isBo := dc.cond.(*ssa.BinOp)
						if !isBo {
							continue
						}
						op, l, rr := bo.Op, bo.X, bo.Y
						if !dc.taken {
							op = map[token.Token]token.Token{token.LSS: token.GEQ, token.GEQ: token.LSS, token.GTR: token.LEQ, token.LEQ: token.GTR}[op]
						}
						if l == sl.High && lenOrCapOfX(rr) && (op == token.LSS || op == token.LEQ) {
							okB = true
						}
						if rr == sl.High && lenOrCapOfX(l) && (op == token.GTR || op == token.GEQ) {
							okB = true
						}
					}
				}
				r.Oblige(okB)
				r.Sample("%s: slice #%d upper bound %s tied to the slice's own length: %v", load.FuncName(fn), n, sl.High.String(), okB)
				if !okB {
					r.Violation(fmt.Sprintf("%s: slice expression #%d", load.FuncName(fn), n), p.RelPos(sl.Pos()),
						"%s cuts a slice at an upper bound (%s) that is not tied to that slice's own length or capacity: for some inputs the bound exceeds the capacity, the run-time panic is recovered by Parse and comes back as an error that is none of the documented ones (or a valid path is rejected)", load.FuncName(fn), sl.High.String())
				}
			}
		}
	}
	return r
}

func init() {
	engine.Register("N-ERRWIRE", ruleNErrWire)
}

// ruleNErrWire: N-ERRWIRE — a step whose evaluation builds runtime errors from its error
// descriptor is constructed with that descriptor, and the descriptor points back to the very
// node it is stored in. A step built without it dereferences nil when it has to report "nothing
// selected"; a descriptor that points to a copy of the node reports an empty path text, which
// also loses the deepest-error ranking.
func ruleNErrWire(c *engine.Context) *report.Rule {
	r := report.NewRule("N-ERRWIRE", "steps that can raise runtime errors are constructed with an error descriptor that points back to the step itself", 5)
	p := c.P
	bst, ok := p.Roles.BasicNode.Underlying().(*types.Struct)
	if !ok {
		r.InfraFail("anchor unresolved: basic node struct")
		return r
	}
	// the descriptor field of the basic node: a pointer to a struct that has a field of type *basic node
	errField, backField := -1, -1
	var descT *types.Named
	for i := 0; i < bst.NumFields(); i++ {
		pt, ok := bst.Field(i).Type().(*types.Pointer)
		if !ok {
			continue
		}
		nt, ok := pt.Elem().(*types.Named)
		if !ok {
			continue
		}
		st, ok := nt.Underlying().(*types.Struct)
		if !ok {
			continue
		}
		for j := 0; j < st.NumFields(); j++ {
			if p2, ok := st.Field(j).Type().(*types.Pointer); ok && types.Identical(p2.Elem(), p.Roles.BasicNode) {
				errField, backField, descT = i, j, nt
			}
		}
	}
	if errField < 0 {
		r.InfraFail("anchor unresolved: error descriptor field of the basic node")
		return r
	}
	// owner types whose evaluation reads the descriptor
	uses := map[*types.Named]bool{}
	for _, fn := range evalFuncs(c) {
		if fn.Signature.Recv() == nil {
			continue
		}
		t := fn.Signature.Recv().Type()
		if pt, ok := t.(*types.Pointer); ok {
			t = pt.Elem()
		}
		T, ok := t.(*types.Named)
		if !ok || types.Identical(T, p.Roles.BasicNode) {
			continue
		}
		for _, b := range fn.Blocks {
			for _, ins := range b.Instrs {
				if fa, ok := ins.(*ssa.FieldAddr); ok && fa.Field == errField {
					if pt, ok := fa.X.Type().Underlying().(*types.Pointer); ok && types.Identical(pt.Elem(), p.Roles.BasicNode) {
						uses[T] = true
					}
				}
			}
		}
	}
	if len(uses) < 3 {
		r.InfraFail("anchor unresolved: fewer than three step types read their error descriptor (%d)", len(uses))
		return r
	}
	for _, fn := range p.Funcs {
		if fn.Blocks == nil || !p.ParsePhase[fn] {
			continue
		}
		for _, b := range fn.Blocks {
			for _, ins := range b.Instrs {
				al, ok := ins.(*ssa.Alloc)
				if !ok || !types.Identical(al.Type().(*types.Pointer).Elem(), p.Roles.BasicNode) {
					continue
				}
				// owner: the struct this basic node is embedded in
				var owner *types.Named
				for _, ref := range *al.Referrers() {
					if st, ok := ref.(*ssa.Store); ok && st.Val == ssa.Value(al) {
						if fa, ok := st.Addr.(*ssa.FieldAddr); ok {
							if pt, ok := fa.X.Type().Underlying().(*types.Pointer); ok {
								if nt, ok := pt.Elem().(*types.Named); ok && !types.Identical(nt, descT) {
									owner = nt
								}
							}
						}
					}
				}
				if owner == nil || !uses[owner] {
					continue
				}
				r.Instances++
				wired, back := false, false
				// the node is also reached through its owner (struct copies, loads of the embedding
				// field): everything whose points-to set is exactly this allocation
				pta := regionsOf(c)
				// access paths inside this function: where the node pointer is stored (a field path of a
				// local struct), which locals are whole copies of each other, and which values read
				// that same path
				lp := newLocalPaths(fn)
				selfRoot, selfPath, hasLoc := lp.storedAt(al)
				isSelf := func(v ssa.Value) bool {
					if v == ssa.Value(al) {
						return true
					}
					if !hasLoc {
						return false
					}
					r2, p2, ok := lp.pathOfValue(v)
					if !ok {
						return false
					}
					cr1, cp1 := lp.canon(selfRoot, selfPath)
					cr2, cp2 := lp.canon(r2, p2)
					return cr1 == cr2 && cp1 == cp2
				}
				ofType := func(v ssa.Value, T types.Type) []*regions.Object {
					nd := pta.ValueNode(v)
					if nd == nil {
						return nil
					}
					var out []*regions.Object
					for _, o := range nd.Pts() {
						if o.Kind == regions.KAlloc && o.Parent == nil && o.Typ != nil && types.Identical(o.Typ, T) {
							out = append(out, o)
						}
					}
					return out
				}
				for _, bb := range fn.Blocks {
					for _, y := range bb.Instrs {
						st, ok := y.(*ssa.Store)
						if !ok {
							continue
						}
						fa, ok := st.Addr.(*ssa.FieldAddr)
						if !ok || fa.Field != errField || !isSelf(fa.X) {
							continue
						}
						wired = true
						// the descriptor's back pointer
						var desc *regions.Object
						if ps := ofType(st.Val, descT); len(ps) == 1 {
							desc = ps[0]
						}
						for _, b3 := range fn.Blocks {
							for _, z := range b3.Instrs {
								s4, ok := z.(*ssa.Store)
								if !ok {
									continue
								}
								f3, ok := s4.Addr.(*ssa.FieldAddr)
								if !ok || f3.Field != backField {
									continue
								}
								if pt, ok := f3.X.Type().Underlying().(*types.Pointer); !ok || !types.Identical(pt.Elem(), descT) {
									continue
								}
								sameDesc := f3.X == st.Val
								if !sameDesc && desc != nil {
									if ps := ofType(f3.X, descT); len(ps) == 1 && ps[0] == desc {
										sameDesc = true
									}
								}
								if sameDesc && isSelf(s4.Val) {
									back = true
								}
							}
						}
					}
				}
				okS := wired && back
				r.Oblige(okS)
				r.Sample("%s builds a %s: error descriptor wired=%v, points back to the node=%v", load.FuncName(fn), owner.Obj().Name(), wired, back)
				if !wired {
					r.Violation(fmt.Sprintf("%s builds a %s without an error descriptor", load.FuncName(fn), owner.Obj().Name()), p.RelPos(al.Pos()),
						"%s constructs a %s whose error descriptor is left nil, but the evaluation of %s builds its runtime errors from it: when this step has to report that nothing was selected (or a type mismatch) it dereferences nil — a panic during evaluation", load.FuncName(fn), owner.Obj().Name(), owner.Obj().Name())
				} else if !back {
					r.Violation(fmt.Sprintf("%s builds a %s whose error descriptor does not point back to it", load.FuncName(fn), owner.Obj().Name()), p.RelPos(al.Pos()),
						"%s constructs a %s whose error descriptor refers to another node object (a copy, or none): runtime errors of this step carry an empty or foreign path text, and the deepest-error choice between branches goes wrong", load.FuncName(fn), owner.Obj().Name())
				}
			}
		}
	}
	return r
}

// localPaths: field-path aliasing inside one function. A whole-struct copy `*dst = *src` (between
// locals, or from a temporary into a field of a local) makes the source's field paths names for
// the destination's: every path is rewritten towards its final location.
type localPaths struct {
	fn    *ssa.Function
	edges []copyEdge
}

type copyEdge struct {
	dstRoot *ssa.Alloc
	dstPath []int
	srcRoot *ssa.Alloc
	srcPath []int
}

func newLocalPaths(fn *ssa.Function) *localPaths {
	lp := &localPaths{fn: fn}
	for _, b := range fn.Blocks {
		for _, ins := range b.Instrs {
			st, ok := ins.(*ssa.Store)
			if !ok {
				continue
			}
			ld, ok := st.Val.(*ssa.UnOp)
			if !ok || ld.Op != token.MUL {
				continue
			}
			if _, isStruct := ld.Type().Underlying().(*types.Struct); !isStruct {
				continue
			}
			dr, dp, ok1 := lp.pathOfAddr(st.Addr)
			sr, sp, ok2 := lp.pathOfAddr(ld.X)
			if ok1 && ok2 && !(dr == sr && fmt.Sprint(dp) == fmt.Sprint(sp)) {
				lp.edges = append(lp.edges, copyEdge{dr, dp, sr, sp})
			}
		}
	}
	return lp
}

// canon rewrites (root, path) through the copy edges to the place the data finally lives in.
func (lp *localPaths) canon(root *ssa.Alloc, path []int) (*ssa.Alloc, string) {
	for i := 0; i < 6; i++ {
		moved := false
		for _, e := range lp.edges {
			if e.srcRoot != root || len(path) < len(e.srcPath) {
				continue
			}
			if fmt.Sprint(path[:len(e.srcPath)]) != fmt.Sprint(e.srcPath) {
				continue
			}
			np := append(append([]int(nil), e.dstPath...), path[len(e.srcPath):]...)
			root, path, moved = e.dstRoot, np, true
			break
		}
		if !moved {
			break
		}
	}
	return root, fmt.Sprint(path)
}

func (lp *localPaths) same(a, b *ssa.Alloc) bool { return a != nil && a == b }

// pathOfAddr: addr is a field path inside a local struct.
func (lp *localPaths) pathOfAddr(addr ssa.Value) (*ssa.Alloc, []int, bool) {
	switch x := addr.(type) {
	case *ssa.Alloc:
		return x, nil, true
	case *ssa.FieldAddr:
		r, p, ok := lp.pathOfAddr(x.X)
		if !ok {
			return nil, nil, false
		}
		return r, append(append([]int(nil), p...), x.Field), true
	}
	return nil, nil, false
}

// pathOfValue: v is the content of a field path of a local struct (a load of its address, or a
// field of the loaded struct value).
func (lp *localPaths) pathOfValue(v ssa.Value) (*ssa.Alloc, []int, bool) {
	switch x := v.(type) {
	case *ssa.UnOp:
		if x.Op != token.MUL {
			return nil, nil, false
		}
		return lp.pathOfAddr(x.X)
	case *ssa.Field:
		r, p, ok := lp.pathOfValue(x.X)
		if !ok {
			return nil, nil, false
		}
		return r, append(append([]int(nil), p...), x.Field), true
	}
	return nil, nil, false
}

// storedAt: the field path of a local struct into which v is stored.
func (lp *localPaths) storedAt(v ssa.Value) (*ssa.Alloc, []int, bool) {
	if v.Referrers() == nil {
		return nil, nil, false
	}
	for _, ref := range *v.Referrers() {
		if st, ok := ref.(*ssa.Store); ok && st.Val == v {
			if r, p, ok := lp.pathOfAddr(st.Addr); ok && len(p) > 0 {
				return r, p, true
			}
		}
	}
	return nil, nil, false
}
