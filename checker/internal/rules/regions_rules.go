package rules

import (
	"fmt"
	"go/types"
	"sort"
	"strings"

	"golang.org/x/tools/go/ssa"

	"verif/checker/internal/engine"
	"verif/checker/internal/load"
	"verif/checker/internal/regions"
	"verif/checker/internal/report"
)

func init() {
	engine.Register("R-EVAL-WRITE", ruleEvalWrite)
	engine.Register("R-DOC-EXT", ruleDocExt)
	engine.Register("R-SET-USERONLY", ruleSetUserOnly)
	engine.Register("R-RESULT-FRESH", ruleResultFresh)
	engine.Register("R-GLOBALS", ruleGlobals)
	engine.Register("G-IMPORTS", ruleImports)
	engine.Register("R-ENGINE", ruleEngineSanity)
}

func regionsOf(c *engine.Context) *regions.Analysis {
	return c.Memo("regions", func() interface{} { return regions.Analyze(c.P) }).(*regions.Analysis)
}

// instrKey is a position-free identification of an instruction: function +
// kind + ordinal of that kind within the function.
func instrKey(ins ssa.Instruction, what string) string {
	fn := ins.Parent()
	n := 0
	idx := 0
	for _, b := range fn.Blocks {
		for _, i := range b.Instrs {
			if sameKind(i, ins) {
				n++
				if i == ins {
					idx = n
				}
			}
		}
	}
	return fmt.Sprintf("%s %s#%d", load.FuncName(fn), what, idx)
}

func sameKind(a, b ssa.Instruction) bool {
	return fmt.Sprintf("%T", a) == fmt.Sprintf("%T", b)
}

func describeStore(p *load.Program, ins ssa.Instruction) string {
	switch v := ins.(type) {
	case *ssa.Store:
		return "store " + addrExpr(v.Addr)
	case *ssa.MapUpdate:
		return "map update " + v.Map.Name()
	case ssa.CallInstruction:
		c := v.Common()
		if b, ok := c.Value.(*ssa.Builtin); ok {
			return b.Name()
		}
		if sc := c.StaticCallee(); sc != nil {
			return "call " + sc.String()
		}
		return "call"
	}
	return ins.String()
}

// addrExpr renders an address in source-like terms (x.f, x[i]).
func addrExpr(v ssa.Value) string {
	switch a := v.(type) {
	case *ssa.FieldAddr:
		st := a.X.Type().Underlying().(*types.Pointer).Elem().Underlying().(*types.Struct)
		return addrExpr(a.X) + "." + st.Field(a.Field).Name()
	case *ssa.IndexAddr:
		return addrExpr(a.X) + "[·]"
	case *ssa.UnOp:
		return "*" + addrExpr(a.X)
	case *ssa.Global:
		return a.Name()
	case *ssa.Parameter:
		return a.Name()
	case *ssa.FreeVar:
		return a.Name()
	case *ssa.Alloc:
		if a.Comment != "" {
			return a.Comment
		}
	}
	if v.Name() != "" {
		return v.Name()
	}
	return v.String()
}

// sentinelExempt returns the backing arrays of the two sentinel lists when
// the premises of the exemption hold (DESIGN.md R-EVAL-WRITE).
func sentinelExempt(c *engine.Context, a *regions.Analysis, r *report.Rule) map[*regions.Object]string {
	p := c.P
	out := map[*regions.Object]string{}
	for _, g := range []*ssa.Global{p.Roles.MarkerList, p.Roles.FullList} {
		ok := true
		// assigned only by the initialiser; never sliced/appended as operand
		for _, fn := range p.Funcs {
			for _, b := range fn.Blocks {
				for _, ins := range b.Instrs {
					if st, isSt := ins.(*ssa.Store); isSt && st.Addr == ssa.Value(g) {
						if fn.Name() != "init" {
							ok = false
							r.Note("sentinel exemption withdrawn for %s: assigned in %s", g.Name(), load.FuncName(fn))
						}
					}
					// uses of the loaded value
					if ld, isLd := ins.(*ssa.UnOp); isLd && ld.X == ssa.Value(g) {
						for _, ref := range *ld.Referrers() {
							switch u := ref.(type) {
							case *ssa.Slice:
								ok = false
								r.Note("sentinel exemption withdrawn for %s: sliced in %s", g.Name(), load.FuncName(fn))
							case *ssa.Call:
								if bi, isB := u.Call.Value.(*ssa.Builtin); isB && (bi.Name() == "append" || bi.Name() == "copy") && len(u.Call.Args) > 0 && u.Call.Args[0] == ssa.Value(ld) {
									ok = false
									r.Note("sentinel exemption withdrawn for %s: %s destination in %s", g.Name(), bi.Name(), load.FuncName(fn))
								}
							}
						}
					}
				}
			}
		}
		if !ok {
			continue
		}
		mem := a.MemOf(a.GlobalObj(g))
		if mem == nil {
			continue
		}
		for _, o := range mem.Pts() {
			out[o] = g.Name()
		}
	}
	return out
}

// ruleEvalWrite: R-EVAL-WRITE.
func ruleEvalWrite(c *engine.Context) *report.Rule {
	r := report.NewRule("R-EVAL-WRITE", "every effect instruction reachable during evaluation writes only memory allocated by that evaluation, a pooled scratch object or a local", 30)
	a := regionsOf(c)
	p := c.P
	for _, u := range a.Unknown {
		r.Undischarged("engine: "+u, "-", "construct outside the points-to model: %s", u)
	}
	exempt := sentinelExempt(c, a, r)
	markerWriters := validatorsOverwritingMarker(c)
	effs := a.EvalEffects()
	r.Instances = len(effs)
	for _, e := range effs {
		var bad []string
		var docHit, sharedHit bool
		var witness []string
		classes := map[string]int{}
		for _, t := range e.Targets {
			cls := a.Class(t)
			if name, ok := exempt[t.Root()]; ok && !(markerWriters[e.Fn] && name == p.Roles.MarkerList.Name()) {
				classes["sentinel:"+name]++
				continue
			}
			classes[cls]++
			switch cls {
			case regions.ClsEVAL, regions.ClsPOOL:
			case regions.ClsDOC:
				docHit = true
				bad = append(bad, "DOC")
			case regions.ClsUSER:
				// values returned by user functions are caller data like the document
				docHit = true
				bad = append(bad, "caller data "+t.Root().String())
			case regions.ClsEXT:
				bad = append(bad, cls+":"+t.Root().String())
				sharedHit = true
			default:
				bad = append(bad, cls+":"+t.Root().String())
				sharedHit = true
			}
		}
		ok := len(bad) == 0
		r.Oblige(ok)
		if len(e.Targets) > 1 || len(classes) > 1 {
			r.Nontrivial++
		}
		var cl []string
		for k, n := range classes {
			cl = append(cl, fmt.Sprintf("%s×%d", k, n))
		}
		sort.Strings(cl)
		r.Sample("%s in %s → targets {%s}", describeStore(p, e.Instr), load.FuncName(e.Fn), strings.Join(cl, ", "))
		if ok {
			continue
		}
		sort.Strings(bad)
		bad = uniq(bad)
		construct := instrKey(e.Instr, e.What)
		// witness for the first bad target
		for _, t := range e.Targets {
			if name, ex := exempt[t.Root()]; ex && !(markerWriters[e.Fn] && name == p.Roles.MarkerList.Name()) {
				continue
			}
			cls := a.Class(t)
			if cls == regions.ClsEVAL || cls == regions.ClsPOOL {
				continue
			}
			witness = a.WitnessForEffect(e, t)
			break
		}
		if docHit {
			f := r.Violation(construct+" → DOC", p.RelPos(e.Instr.Pos()),
				"%s in %s may write memory of the caller's document (targets: %s)", describeStore(p, e.Instr), load.FuncName(e.Fn), strings.Join(bad, ", "))
			f.Witness = witness
			engine.Restrict(f, "C04")
		}
		if sharedHit {
			f := r.Violation(construct+" → shared", p.RelPos(e.Instr.Pos()),
				"%s in %s may write memory that outlives the call and is shared between calls (targets: %s)", describeStore(p, e.Instr), load.FuncName(e.Fn), strings.Join(bad, ", "))
			f.Witness = witness
			props := []string{"C05", "C06", "C19"}
			if collectsKeys(e.Fn) {
				props = append(props, "C07") // a key buffer shared between evaluations makes order schedule-dependent
			}
			engine.Restrict(f, props...)
		}
	}
	return r
}

func uniq(s []string) []string {
	var out []string
	for i, x := range s {
		if i == 0 || x != s[i-1] {
			out = append(out, x)
		}
	}
	return out
}

// ruleDocExt: R-DOC-EXT — external callees that receive document memory.
func ruleDocExt(c *engine.Context) *report.Rule {
	r := report.NewRule("R-DOC-EXT", "library calls that receive memory of the document are tabled read-only; user functions are the accepted boundary", 4)
	a := regionsOf(c)
	p := c.P
	for _, ec := range a.ExtCalls {
		if !a.EvalReach[ec.Fn] {
			continue
		}
		recvDoc := false
		for _, os := range ec.Args {
			for _, o := range os {
				if a.Class(o) == regions.ClsDOC {
					recvDoc = true
				}
				// boxes holding DOC
				if o.Kind == regions.KBox {
					if m := a.MemOf(o); m != nil {
						for _, x := range m.Pts() {
							if a.Class(x) == regions.ClsDOC {
								recvDoc = true
							}
						}
					}
				}
			}
		}
		if !recvDoc {
			continue
		}
		r.Instances++
		ok := ec.Tabled && (ec.Class == regions.ClPure || ec.Class == regions.ClPassThru || ec.Class == regions.ClUserFn || ec.Class == regions.ClPoolPut)
		r.Oblige(ok)
		r.Sample("%s called from %s with document memory: class %s", ec.Callee, load.FuncName(ec.Fn), ec.Class)
		if !ok {
			r.Undischarged(fmt.Sprintf("%s calls %s with DOC", load.FuncName(ec.Fn), ec.Callee), p.RelPos(ec.Site.Pos()),
				"external callee %s (class %s) receives memory of the document and is not tabled read-only", ec.Callee, ec.Class)
		}
	}
	return r
}

// ruleSetUserOnly: the library never calls the closures it hands out as Accessor.Set/Get.
func ruleSetUserOnly(c *engine.Context) *report.Rule {
	r := report.NewRule("R-SET-USERONLY", "closures stored in Accessor fields are never called by the library itself", 1)
	a := regionsOf(c)
	p := c.P
	for _, fn := range p.Funcs {
		if fn.Parent() == nil {
			continue
		}
		if !regions.IsAccessorClosure(a, fn) {
			continue
		}
		r.Instances++
		called := a.EvalReach[fn] || a.ParseReach[fn] || a.InitReach[fn]
		r.Oblige(!called)
		r.Sample("%s: reachable from library entry points: %v", load.FuncName(fn), called)
		if called {
			r.Violation("accessor closure "+load.FuncName(fn)+" is called by the library", p.RelPos(fn.Pos()),
				"closure %s handed out through Accessor is reachable from Parse/evaluation: the library itself may write caller data", load.FuncName(fn))
		}
	}
	return r
}

// ruleResultFresh: R-RESULT-FRESH.
func ruleResultFresh(c *engine.Context) *report.Rule {
	r := report.NewRule("R-RESULT-FRESH", "the slice returned by the evaluation closure is allocated by that call and unreachable from library state", 1)
	a := regionsOf(c)
	p := c.P
	rs := a.ResultNodes(p.EvalClosure)
	if len(rs) == 0 || rs[0] == nil {
		r.InfraFail("evaluation closure has no pointer-like first result")
		return r
	}
	objs := rs[0].Pts()
	r.Instances = len(objs)
	ret := map[*regions.Object]bool{}
	for _, o := range objs {
		cls := a.Class(o)
		ok := cls == regions.ClsEVAL
		r.Oblige(ok)
		r.Sample("returned slice may be %s (class %s)", o, cls)
		ret[o] = true
		if !ok {
			f := r.Violation("evaluation closure returns "+cls+" memory", p.RelPos(p.EvalClosure.Pos()),
				"the result slice may be %s (class %s), not an allocation of this call", o, cls)
			f.Witness = a.Witness(rs[0], o)
		}
	}
	// no instruction stores a returned object into memory that outlives the call
	for _, e := range a.Effects {
		if !a.EvalReach[e.Fn] {
			continue
		}
		for _, v := range e.Values {
			if !ret[v] {
				continue
			}
			for _, t := range e.Targets {
				cls := a.Class(t)
				if cls == regions.ClsEVAL {
					continue
				}
				r.Oblige(false)
				r.Violation(fmt.Sprintf("result slice stored into %s memory by %s", cls, instrKey(e.Instr, e.What)), p.RelPos(e.Instr.Pos()),
					"%s in %s stores the array that is later returned to the caller (%s) into %s memory %s: a later call can reach an earlier result", describeStore(p, e.Instr), load.FuncName(e.Fn), v, cls, t.Root())
			}
		}
	}
	return r
}

// ruleGlobals: R-GLOBALS — inventory of package-level variables.
func ruleGlobals(c *engine.Context) *report.Rule {
	r := report.NewRule("R-GLOBALS", "every package-level variable is a sync primitive, the lock-protected parser, or never written after initialisation", 6)
	a := regionsOf(c)
	p := c.P
	var globals []*ssa.Global
	for _, m := range p.SSA.Members {
		if g, ok := m.(*ssa.Global); ok {
			globals = append(globals, g)
		}
	}
	sort.Slice(globals, func(i, j int) bool { return globals[i].Name() < globals[j].Name() })
	pools := map[*ssa.Global]bool{}
	for _, g := range p.Roles.Pools {
		pools[g] = true
	}
	// objects only reachable from a global (ownership): compute reachable sets per global
	for _, g := range globals {
		if strings.HasPrefix(g.Name(), "init$") {
			continue
		}
		r.Instances++
		go_ := a.GlobalObj(g)
		verdict := ""
		switch {
		case g == p.Roles.Mutex:
			verdict = "sync primitive (mutex)"
		case pools[g]:
			verdict = "sync primitive (pool pointer, never reassigned)"
		case g == p.Roles.ParserGlobal:
			verdict = "lock-protected parser (rule R-LOCK)"
		default:
			verdict = "immutable after init"
		}
		// writers outside init targeting the global cell or memory only it reaches
		owned := map[*regions.Object]bool{go_: true}
		if g != p.Roles.ParserGlobal && g != p.Roles.Mutex {
			for _, o := range regions.ReachableObjects(a, go_) {
				owned[o] = true
			}
		}
		var writers []string
		for _, e := range a.Effects {
			if a.InitReach[e.Fn] && !a.EvalReach[e.Fn] && !a.ParseReach[e.Fn] {
				continue
			}
			if e.Fn.Name() == "init" {
				continue
			}
			for _, t := range e.Targets {
				root := t.Root()
				if !owned[root] {
					continue
				}
				if g == p.Roles.ParserGlobal {
					continue // R-LOCK decides
				}
				if pools[g] && root != go_ {
					continue // pool internals are the sync primitive's business
				}
				if g == p.Roles.Mutex {
					continue
				}
				cls := a.Class(root)
				if cls != regions.ClsGLOBAL && cls != regions.ClsINIT {
					continue
				}
				if root != go_ && (a.EvalReach[e.Fn] || a.ParseReach[e.Fn]) {
					// sentinel arrays are handled (with premises) by R-EVAL-WRITE
					if g == p.Roles.MarkerList || g == p.Roles.FullList {
						continue
					}
				}
				writers = append(writers, fmt.Sprintf("%s in %s", describeStore(p, e.Instr), load.FuncName(e.Fn)))
			}
		}
		writers = uniqSorted(writers)
		ok := len(writers) == 0
		r.Oblige(ok)
		r.Sample("%s: %s; writers outside init: %d", g.Name(), verdict, len(writers))
		if !ok {
			// who can access it: functions mentioning the global or holding memory it owns
			nonParse, _ := outsideParse(c)
			accessOutside, accessEval := "", false
			for _, fn := range p.Funcs {
				if fn.Blocks == nil || fn.Name() == "init" {
					continue
				}
				acc := false
				for _, b := range fn.Blocks {
					for _, ins := range b.Instrs {
						for _, op := range ins.Operands(nil) {
							if *op == ssa.Value(g) {
								acc = true
							}
						}
						if v, isV := ins.(ssa.Value); isV && !acc {
							if n := a.ValueNode(v); n != nil {
								for _, o := range n.Pts() {
									if owned[o.Root()] && o.Root() != go_ && o.Root().Kind == regions.KAlloc {
										acc = true
									}
								}
							}
						}
					}
				}
				if !acc {
					continue
				}
				if nonParse[fn] && accessOutside == "" {
					accessOutside = load.FuncName(fn)
				}
				if a.EvalReach[fn] {
					accessEval = true
				}
			}
			f := r.Violation("global "+g.Name()+" written after init", p.RelPos(g.Pos()),
				"package-level variable %s is neither a sync primitive nor the parser that is reset on every exit of Parse, and it is written outside package initialisation by: %s — state survives from one call to the next%s", g.Name(), strings.Join(writers, "; "),
				map[bool]string{true: "; it is also accessed without the parser lock by " + accessOutside, false: " (all accesses happen under the parser lock)"}[accessOutside != ""])
			props := []string{"C19"}
			// state consulted while turning captured text into member names / literals also breaks
			// the equivalence of spellings and the addressability of members
			if textHelperAccess(c, g, owned, go_) {
				props = append(props, "C16", "C18")
			}
			if accessEval {
				props = append(props, "C05")
			}
			if accessOutside != "" {
				props = append(props, "C06")
			}
			engine.Restrict(f, props...)
		}
	}
	return r
}

func uniqSorted(s []string) []string {
	sort.Strings(s)
	return uniq(s)
}

// reflectReadOnly is the modelled (read-only) part of package reflect.
var reflectReadOnly = map[string]bool{
	"reflect.TypeOf": true, "reflect.DeepEqual": true, "reflect.ValueOf": true, "reflect.Indirect": true,
	"(reflect.Type).String": true, "(reflect.Type).Kind": true, "(reflect.Type).Name": true, "(reflect.Type).Elem": true,
	"(reflect.Value).Elem": true, "(reflect.Value).Index": true, "(reflect.Value).MapIndex": true, "(reflect.Value).Field": true,
	"(reflect.Value).Interface": true, "(reflect.Value).Type": true, "(reflect.Value).Kind": true, "(reflect.Value).IsNil": true,
	"(reflect.Value).IsValid": true, "(reflect.Value).IsZero": true, "(reflect.Value).Pointer": true, "(reflect.Value).UnsafePointer": true,
	"(reflect.Value).Len": true, "(reflect.Value).NumField": true, "(reflect.Value).String": true, "(reflect.Value).Int": true,
	"(reflect.Value).Float": true, "(reflect.Value).Bool": true, "(reflect.Value).CanInterface": true,
}

// ruleImports: G-7 premises.
func ruleImports(c *engine.Context) *report.Rule {
	r := report.NewRule("G-IMPORTS", "the package does not use unsafe, cgo, go:linkname or reflect mutation", 1)
	p := c.P
	r.Instances = 1
	for _, imp := range p.Types.Imports() {
		r.Oblige(imp.Path() != "unsafe" && imp.Path() != "C")
		if imp.Path() == "unsafe" || imp.Path() == "C" {
			r.Undischarged("import "+imp.Path(), "-", "package imports %s: the soundness assumptions of the engines do not hold", imp.Path())
		}
	}
	for _, f := range p.Files {
		for _, cg := range f.Comments {
			for _, cm := range cg.List {
				if strings.HasPrefix(cm.Text, "//go:linkname") {
					r.Undischarged("go:linkname in "+p.FileOf(f.Pos()), p.RelPos(cm.Pos()), "go:linkname directive")
				}
			}
		}
	}
	// reflect usage restricted to TypeOf / DeepEqual / Type.String
	for _, fn := range p.Funcs {
		for _, b := range fn.Blocks {
			for _, ins := range b.Instrs {
				ci, ok := ins.(ssa.CallInstruction)
				if !ok {
					continue
				}
				cm := ci.Common()
				var name string
				if sc := cm.StaticCallee(); sc != nil && sc.Pkg != nil && sc.Pkg.Pkg.Path() == "reflect" {
					name = sc.String()
				} else if cm.IsInvoke() && cm.Method.Pkg() != nil && cm.Method.Pkg().Path() == "reflect" {
					name = "(reflect.Type)." + cm.Method.Name()
				} else if cm.IsInvoke() {
					if nt, ok := cm.Value.Type().(*types.Named); ok && nt.Obj().Pkg() != nil && nt.Obj().Pkg().Path() == "reflect" {
						name = "(reflect." + nt.Obj().Name() + ")." + cm.Method.Name()
					}
				}
				if name == "" || name == "reflect.init" {
					continue
				}
				r.Instances++
				ok2 := reflectReadOnly[name]
				r.Oblige(ok2)
				if !ok2 {
					r.Undischarged("reflect use "+name+" in "+load.FuncName(fn), p.RelPos(ins.Pos()), "use of %s is outside the modelled read-only reflect subset", name)
				}
			}
		}
	}
	return r
}

// ruleEngineSanity cross-checks the engine's call graph against VTA/CHA.
func ruleEngineSanity(c *engine.Context) *report.Rule {
	r := report.NewRule("R-ENGINE", "the points-to engine's evaluation call graph agrees with VTA", 30)
	a := regionsOf(c)
	p := c.P
	r.Instances = len(a.EvalReach)
	// every package function VTA puts in EVAL (non-synthetic) must be in the engine's EVAL, and vice versa
	for _, f := range load.SortedFuncs(p.Eval) {
		if f.Synthetic != "" {
			continue
		}
		ok := a.EvalReach[f]
		r.Oblige(ok)
		if !ok {
			r.Note("VTA reaches %s during evaluation, the engine does not (engine more precise or unsound)", load.FuncName(f))
		}
	}
	for _, f := range load.SortedFuncs(a.EvalReach) {
		if f.Synthetic != "" || !p.InPkg(f) || a.PoolCtor[f] {
			continue
		}
		ok := p.Eval[f]
		r.Oblige(ok)
		if !ok {
			r.Undischarged("engine-only EVAL function "+load.FuncName(f), p.RelPos(f.Pos()), "the engine reaches %s during evaluation but VTA does not", load.FuncName(f))
		}
	}
	return r
}

// collectsKeys: the function ranges over a map or sorts strings (it builds the key order).
func collectsKeys(fn *ssa.Function) bool {
	for _, b := range fn.Blocks {
		for _, ins := range b.Instrs {
			switch x := ins.(type) {
			case *ssa.Range:
				if _, ok := x.X.Type().Underlying().(*types.Map); ok {
					return true
				}
			case *ssa.Call:
				if _, ok := byteWiseSort(x); ok {
					return true
				}
			}
		}
	}
	return false
}

// textHelperAccess: the global (or memory it owns) is accessed by, or below, a parser helper
// that maps a string to a string (the unescape routines).
func textHelperAccess(c *engine.Context, g *ssa.Global, owned map[*regions.Object]bool, cell *regions.Object) bool {
	p := c.P
	a := regionsOf(c)
	accesses := func(fn *ssa.Function) bool {
		for _, b := range fn.Blocks {
			for _, ins := range b.Instrs {
				for _, op := range ins.Operands(nil) {
					if *op == ssa.Value(g) {
						return true
					}
				}
			}
		}
		return false
	}
	for _, fn := range parseFuncs(c, true) {
		sig := fn.Signature
		if sig.Recv() == nil || sig.Params().Len() != 1 || sig.Results().Len() != 1 || !isStringT(sig.Params().At(0).Type()) || !isStringT(sig.Results().At(0).Type()) {
			continue
		}
		seen := map[*ssa.Function]bool{}
		var walk func(f *ssa.Function) bool
		walk = func(f *ssa.Function) bool {
			if seen[f] || !p.InPkg(f) || f.Blocks == nil {
				return false
			}
			seen[f] = true
			if accesses(f) {
				return true
			}
			for _, cal := range a.Edges(f) {
				if walk(cal) {
					return true
				}
			}
			return false
		}
		if walk(fn) {
			return true
		}
	}
	return false
}

// validatorsOverwritingMarker: validators with a path that stores into an element which may
// already hold the absence marker. The shared "no match" list (one marker) reaches every
// validator; the sentinel exemption of R-EVAL-WRITE rests on validators leaving the marker alone.
func validatorsOverwritingMarker(c *engine.Context) map[*ssa.Function]bool {
	p := c.P
	out := map[*ssa.Function]bool{}
	markerT := p.Roles.MarkerType()
	for _, T := range p.Roles.ValidatorTypes {
		fn := methodOf(p, T, p.Roles.ValidateMethod)
		if fn == nil || fn.Blocks == nil {
			continue
		}
		ll := analyseListLoop(p, fn, firstListParam(fn))
		if ll.reason != "" {
			continue // V-ACCEPT reports the unrecognised shape
		}
		for _, ep := range ll.paths {
			if len(ep.stores) == 0 {
				continue
			}
			excluded := false
			ft, isNil := ep.typeFact(markerT)
			if isNil || (ft != nil && !types.Identical(ft, markerT)) {
				excluded = true
			}
			for _, pc := range ep.conds {
				holds := pc.taken
				if pc.neg {
					holds = !holds
				}
				if !holds && (pc.kind == condIsMarker || (pc.kind == condTypeIs && types.Identical(pc.typ, markerT))) {
					excluded = true
				}
			}
			if !excluded {
				out[fn] = true
			}
		}
	}
	return out
}
