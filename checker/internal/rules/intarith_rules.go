package rules

import (
	"go/types"
	"os"
	"sort"
	"strings"

	"verif/checker/internal/engine"
	"verif/checker/internal/intarith"
	"verif/checker/internal/load"
	"verif/checker/internal/report"
)

func init() {
	for _, id := range []string{"I-OVERFLOW", "I-RANGE", "I-BUF", "I-PROGRESS"} {
		id := id
		engine.Register(id, func(c *engine.Context) *report.Rule { return ruleIntarith(c, id) })
	}
}

type intarithResult struct {
	obls     []*intarith.Obligation
	problems []string
	entries  int
	paths    int
}

func intarithOf(c *engine.Context) *intarithResult {
	return c.Memo("intarith", func() interface{} {
		p := c.P
		res := &intarithResult{}
		for _, T := range p.Roles.SubscriptTypes {
			fn := methodOf(p, T, p.Roles.IndexesMethod)
			if fn == nil || fn.Blocks == nil {
				res.problems = append(res.problems, "no "+p.Roles.IndexesMethod+" method body for "+T.Obj().Name())
				continue
			}
			a := intarith.New(p, fn)
			a.Debug = os.Getenv("VERIF_DEBUG_INT") != ""
			a.Run()
			res.entries++
			res.paths += a.Paths
			res.obls = append(res.obls, a.Obligations()...)
			for _, pr := range a.Problems {
				res.problems = append(res.problems, load.FuncName(fn)+": "+pr)
			}
		}
		sort.Slice(res.obls, func(i, j int) bool {
			return res.obls[i].Rule+res.obls[i].Construct < res.obls[j].Rule+res.obls[j].Construct
		})
		return res
	}).(*intarithResult)
}

func ruleIntarith(c *engine.Context, id string) *report.Rule {
	docs := map[string]string{
		"I-OVERFLOW": "no arithmetic operation on subscript values can overflow the machine integer (or divide by zero)",
		"I-RANGE":    "every index a subscript produces lies in [0, length-1]",
		"I-BUF":      "every write into the pre-sized index buffer, and every reslice of it, is in range",
		"I-PROGRESS": "every subscript loop moves its induction variable towards the bound by a non-zero amount",
	}
	floors := map[string]int{"I-OVERFLOW": 6, "I-RANGE": 4, "I-BUF": 3, "I-PROGRESS": 3}
	r := report.NewRule(id, docs[id], floors[id])
	p := c.P
	res := intarithOf(c)
	if id == "I-OVERFLOW" {
		for _, pr := range uniqSorted(append([]string(nil), res.problems...)) {
			r.Undischarged("zone analysis: "+pr, "-", "%s", pr)
		}
	}
	for _, o := range res.obls {
		rule := o.Rule
		if rule == "I-MAKE" {
			rule = "I-BUF"
		}
		if rule != id {
			continue
		}
		r.Instances++
		if o.Assumed {
			r.Assumed++
			r.Obligations++
			r.Discharged++
			r.Note("assumed: %s — %s", o.Construct, o.Msg)
			continue
		}
		r.Oblige(o.OK)
		r.Nontrivial++
		r.Sample("%s: %v", strings.TrimSpace(o.Construct), o.OK)
		if !o.OK {
			r.Violation(o.Construct, p.RelPos(o.Pos), "%s", o.Msg)
		}
	}
	r.Note("subscript implementations analysed: %d, execution partitions: %d, int is %d bytes, length in [0, maxInt/16]", res.entries, res.paths, p.Sizes.Sizeof(types.Typ[types.Int]))
	return r
}
