package rules

import (
	"fmt"
	"go/token"
	"go/types"
	"sort"
	"strings"

	"golang.org/x/tools/go/ssa"

	"verif/checker/internal/cfgutil"
	"verif/checker/internal/engine"
	"verif/checker/internal/load"
	"verif/checker/internal/report"
)

func init() {
	engine.Register("P-RECOVER", rulePRecover)
	engine.Register("P-PANICTYPE", rulePPanicType)
	engine.Register("P-ERRCHECK", rulePErrCheck)
	engine.Register("P-MEMO", rulePMemo)
	engine.Register("P-SCT", rulePSct)
	engine.Register("P-POST-NONEMPTY", rulePPostNonEmpty)
	engine.Register("P-RTERR", rulePRtErr)
	engine.Register("P-ASSERT", rulePAssert)
	engine.Register("P-NILGUARD", rulePNilGuard)
	engine.Register("P-IFACE-EQ", rulePIfaceEq)
	engine.Register("P-SENTINEL", rulePSentinel)
}

func parseFuncs(c *engine.Context, handWrittenOnly bool) []*ssa.Function {
	a := regionsOf(c)
	var out []*ssa.Function
	for _, f := range load.SortedFuncs(a.ParseReach) {
		if !c.P.InPkg(f) || f.Blocks == nil || f.Synthetic != "" {
			continue
		}
		if handWrittenOnly && c.P.FuncIsGenerated(f) {
			continue
		}
		out = append(out, f)
	}
	return out
}

func isErrorType(t types.Type) bool {
	nt, ok := t.(*types.Named)
	return ok && nt.Obj().Pkg() == nil && nt.Obj().Name() == "error"
}

func inTypes(t types.Type, set []*types.Named) bool {
	for _, s := range set {
		if types.Identical(t, s) {
			return true
		}
	}
	return false
}

// rulePRecover: P-RECOVER.
func rulePRecover(c *engine.Context) *report.Rule {
	r := report.NewRule("P-RECOVER", "Parse converts every panic that carries an error into its error result through an unconditional deferred recover", 1)
	p := c.P
	parse := p.Roles.Parse
	r.Instances = 1
	var fn *ssa.Function
	var theDefer *ssa.Defer
	for _, d := range deferredClosures(parse) {
		if f := closureFn(d.Call.Value); f != nil {
			for _, b := range f.Blocks {
				for _, ins := range b.Instrs {
					if call, ok := ins.(*ssa.Call); ok {
						if bi, ok := call.Call.Value.(*ssa.Builtin); ok && bi.Name() == "recover" {
							fn, theDefer = f, d
						}
					}
				}
			}
		}
	}
	if fn == nil {
		r.Oblige(false)
		r.Violation("Parse has no deferred recover", p.RelPos(parse.Pos()), "no deferred closure of Parse calls recover(): a panic raised by an action would crash the caller")
		return r
	}
	// registered in the entry block before any call that can panic
	okPos := theDefer.Block() == parse.Blocks[0]
	if okPos {
		for _, ins := range parse.Blocks[0].Instrs[:instrIndex(theDefer)] {
			if call, isCall := ins.(*ssa.Call); isCall {
				if !mutexCall(p, call, "Lock") {
					okPos = false
				}
			}
		}
	}
	r.Oblige(okPos)
	if !okPos {
		r.Violation("deferred recover registered late in Parse", p.RelPos(theDefer.Pos()), "code that can panic runs before the deferred recover is registered")
	}
	// recover() unconditionally in the closure's entry block
	var rec *ssa.Call
	for _, ins := range fn.Blocks[0].Instrs {
		if call, ok := ins.(*ssa.Call); ok {
			if bi, ok := call.Call.Value.(*ssa.Builtin); ok && bi.Name() == "recover" {
				rec = call
			}
		}
	}
	r.Oblige(rec != nil)
	if rec == nil {
		r.Violation("recover is conditional", p.RelPos(fn.Pos()), "recover() is not called unconditionally at the top of the deferred closure")
		return r
	}
	// error values are stored into the named error result
	stored := false
	for _, b := range fn.Blocks {
		for _, ins := range b.Instrs {
			st, ok := ins.(*ssa.Store)
			if !ok {
				continue
			}
			fv, isFV := st.Addr.(*ssa.FreeVar)
			if !isFV {
				continue
			}
			et := fv.Type().(*types.Pointer).Elem()
			if isErrorType(et) {
				isRecovered := func(v ssa.Value) *ssa.TypeAssert {
					if ex, ok := v.(*ssa.Extract); ok && ex.Index == 0 {
						if ta, ok := ex.Tuple.(*ssa.TypeAssert); ok && ta.X == ssa.Value(rec) && isErrorType(ta.AssertedType) {
							return ta
						}
					}
					return nil
				}
				if isRecovered(st.Val) != nil {
					// must be the named result of Parse: binding is the Alloc for result #1
					stored = true
				} else if ph, isPhi := st.Val.(*ssa.Phi); isPhi {
					// `err = choose(recovered, err)`: the recovered error on the edge that comes from
					// the successful assertion, the result's own earlier value on the others
					okEdges, good := 0, true
					for i, e := range ph.Edges {
						if ta := isRecovered(e); ta != nil {
							fromOK := false
							for _, dc := range append(dominatingConds(ph.Block().Preds[i]), lastCondOf(ph.Block().Preds[i], ph.Block())...) {
								if ex, ok := dc.cond.(*ssa.Extract); ok && ex.Index == 1 && ex.Tuple == ssa.Value(ta) && dc.taken {
									fromOK = true
								}
							}
							if fromOK {
								okEdges++
							} else {
								good = false
							}
							continue
						}
						if ld, ok := e.(*ssa.UnOp); ok && ld.Op == token.MUL && ld.X == ssa.Value(fv) {
							continue
						}
						good = false
					}
					if good && okEdges > 0 {
						stored = true
					}
				}
			} else {
				r.Oblige(false)
				r.Violation("deferred closure assigns a non-error result of Parse", p.RelPos(st.Pos()), "the recover closure writes %s: Parse could return a function together with an error", fv.Name())
			}
		}
	}
	r.Oblige(stored)
	r.Sample("Parse: defer registered in entry block=%v, recover unconditional=%v, error stored into the named result=%v", okPos, rec != nil, stored)
	if !stored {
		r.Violation("recovered error not returned", p.RelPos(fn.Pos()), "the recovered panic value is not stored into Parse's error result when it is an error: Parse would return (nil, nil)")
	}
	return r
}

// concreteReturnTypes: dynamic types a function can return in result i (through MakeInterface), following static calls.
func concreteReturnTypes(fn *ssa.Function, idx int, depth int, seen map[*ssa.Function]bool) ([]types.Type, bool) {
	if fn.Blocks == nil || depth > 4 || seen[fn] {
		return nil, false
	}
	seen[fn] = true
	var out []types.Type
	complete := true
	var visit func(v ssa.Value)
	visit = func(v ssa.Value) {
		switch x := v.(type) {
		case *ssa.MakeInterface:
			out = append(out, x.X.Type())
		case *ssa.Phi:
			for _, e := range x.Edges {
				visit(e)
			}
		case *ssa.Call:
			if sc := x.Call.StaticCallee(); sc != nil {
				ts, ok := concreteReturnTypes(sc, 0, depth+1, seen)
				out = append(out, ts...)
				if !ok {
					complete = false
				}
			} else {
				complete = false
			}
		case *ssa.Const:
			if !x.IsNil() {
				complete = false
			}
		case *ssa.ChangeInterface:
			visit(x.X)
		default:
			complete = false
		}
	}
	for _, b := range fn.Blocks {
		if ret, ok := b.Instrs[len(b.Instrs)-1].(*ssa.Return); ok && idx < len(ret.Results) {
			visit(ret.Results[idx])
		}
	}
	return out, complete
}

// rulePPanicType: P-PANICTYPE.
func rulePPanicType(c *engine.Context) *report.Rule {
	r := report.NewRule("P-PANICTYPE", "every explicit panic in parser code carries one of the four documented syntax-check error types; evaluation code never panics explicitly", 8)
	p := c.P
	for _, fn := range parseFuncs(c, false) {
		for _, b := range fn.Blocks {
			for _, ins := range b.Instrs {
				pn, ok := ins.(*ssa.Panic)
				if !ok {
					continue
				}
				// generated matcher has no panics; Execute's action bodies do
				r.Instances++
				var ts []types.Type
				complete := true
				switch x := pn.X.(type) {
				case *ssa.MakeInterface:
					ts = []types.Type{x.X.Type()}
				case *ssa.Call:
					if sc := x.Call.StaticCallee(); sc != nil {
						ts, complete = concreteReturnTypes(sc, 0, 0, map[*ssa.Function]bool{})
					} else {
						complete = false
					}
				case *ssa.ChangeInterface:
					if call, isCall := x.X.(*ssa.Call); isCall && call.Call.StaticCallee() != nil {
						ts, complete = concreteReturnTypes(call.Call.StaticCallee(), 0, 0, map[*ssa.Function]bool{})
					} else {
						complete = false
					}
				default:
					complete = false
				}
				ok2 := complete && len(ts) > 0
				var names []string
				for _, t := range ts {
					names = append(names, tname(t))
					if !inTypes(t, p.Roles.SyntaxErrTypes) {
						ok2 = false
					}
				}
				r.Oblige(ok2)
				r.Sample("panic in %s carries {%s}", load.FuncName(fn), strings.Join(uniqSorted(names), ","))
				if !ok2 {
					r.Violation("panic in "+load.FuncName(fn)+" #"+fmt.Sprint(ordinalOfPanic(pn)), p.RelPos(pn.Pos()),
						"panic value has type {%s}%s: Parse would return an undocumented error type, or (nil, nil) for a non-error value", strings.Join(uniqSorted(names), ","), map[bool]string{false: " (not fully resolved)", true: ""}[complete])
				}
			}
		}
	}
	for _, fn := range evalFuncs(c) {
		for _, b := range fn.Blocks {
			for _, ins := range b.Instrs {
				if pn, ok := ins.(*ssa.Panic); ok {
					r.Oblige(false)
					r.Violation("explicit panic during evaluation in "+load.FuncName(fn), p.RelPos(pn.Pos()), "evaluation code must return a runtime error value, never panic")
				}
			}
		}
	}
	return r
}

func ordinalOfPanic(pn *ssa.Panic) int {
	n := 0
	for _, b := range pn.Parent().Blocks {
		for _, ins := range b.Instrs {
			if x, ok := ins.(*ssa.Panic); ok {
				n++
				if x == pn {
					return n
				}
			}
		}
	}
	return 0
}

// rulePErrCheck: P-ERRCHECK.
func rulePErrCheck(c *engine.Context) *report.Rule {
	r := report.NewRule("P-ERRCHECK", "errors returned by conversions (strconv, regexp, json) in parser code are never dropped: they panic with a documented error or are propagated", 5)
	p := c.P
	genInit := map[*ssa.Function]bool{}
	for _, fn := range parseFuncs(c, true) {
		for _, b := range fn.Blocks {
			for _, ins := range b.Instrs {
				call, ok := ins.(*ssa.Call)
				if !ok {
					continue
				}
				sig := call.Call.Signature()
				n := sig.Results().Len()
				if n == 0 || !isErrorType(sig.Results().At(n-1).Type()) {
					continue
				}
				r.Instances++
				callee := "dynamic call"
				var sc *ssa.Function
				if sc = call.Call.StaticCallee(); sc != nil {
					callee = sc.String()
				}
				construct := fmt.Sprintf("error result of %s in %s", callee, load.FuncName(fn))
				// tabled exceptions: methods of the generated parser type called from Parse
				if sc != nil && p.FuncIsGenerated(sc) && fn == p.Roles.Parse {
					genInit[sc] = true
					r.Oblige(true)
					r.Assumed++
					r.Sample("%s: ignored by design (generated parser entry point; see P-MEMO / TV-CATCHALL)", construct)
					continue
				}
				var errV ssa.Value
				if n == 1 {
					errV = call
				} else {
					for _, ref := range *call.Referrers() {
						if ex, ok := ref.(*ssa.Extract); ok && ex.Index == n-1 {
							errV = ex
						}
					}
				}
				handled := false
				if errV != nil {
					for _, ref := range *errV.Referrers() {
						switch x := ref.(type) {
						case *ssa.BinOp:
							if (x.Op == token.NEQ || x.Op == token.EQL) && isNilConstV(x.Y) {
								// the non-nil branch must end in a documented panic
								for _, r2 := range *x.Referrers() {
									if ifi, ok := r2.(*ssa.If); ok {
										nb := ifi.Block().Succs[0]
										if x.Op == token.EQL {
											nb = ifi.Block().Succs[1]
										}
										if blockEndsInDocumentedPanic(p, nb) {
											handled = true
										}
									}
								}
							}
						case *ssa.Return:
							handled = true // propagated: callers are checked as callers of an error-returning function
						}
					}
				}
				r.Oblige(handled)
				r.Sample("%s: checked and turned into a documented panic (or propagated): %v", construct, handled)
				if !handled {
					r.Violation(construct, p.RelPos(call.Pos()), "the error result is dropped or not converted into a documented syntax-check error: invalid input would be accepted silently or fail later in an undocumented way")
				}
			}
		}
	}
	return r
}

func isNilConstV(v ssa.Value) bool {
	c, ok := v.(*ssa.Const)
	return ok && c.IsNil()
}

func blockEndsInDocumentedPanic(p *load.Program, b *ssa.BasicBlock) bool {
	seen := map[*ssa.BasicBlock]bool{}
	for b != nil && !seen[b] {
		seen[b] = true
		last := b.Instrs[len(b.Instrs)-1]
		if pn, ok := last.(*ssa.Panic); ok {
			if mi, ok := pn.X.(*ssa.MakeInterface); ok {
				return inTypes(mi.X.Type(), p.Roles.SyntaxErrTypes)
			}
			return false
		}
		if _, ok := last.(*ssa.Jump); ok && len(b.Succs) == 1 {
			b = b.Succs[0]
			continue
		}
		return false
	}
	return false
}

// rulePMemo: P-MEMO — the generated parser is initialised without options (memoisation stays on).
func rulePMemo(c *engine.Context) *report.Rule {
	r := report.NewRule("P-MEMO", "the generated packrat parser is initialised without options, so memoisation (the polynomial time bound) is never disabled", 1)
	p := c.P
	for _, b := range p.Roles.Parse.Blocks {
		for _, ins := range b.Instrs {
			call, ok := ins.(*ssa.Call)
			if !ok {
				continue
			}
			sc := call.Call.StaticCallee()
			if sc == nil || !p.FuncIsGenerated(sc) || !sc.Signature.Variadic() {
				continue
			}
			// variadic option/rule arguments must be the nil slice
			last := call.Call.Args[len(call.Call.Args)-1]
			r.Instances++
			ok2 := isNilConstV(last)
			r.Oblige(ok2)
			r.Sample("Parse calls %s with no variadic arguments: %v", sc.Name(), ok2)
			if !ok2 {
				r.Violation("Parse passes options to "+sc.Name(), p.RelPos(call.Pos()),
					"the generated parser is configured with options (e.g. disabling memoisation makes matching exponential in the nesting depth, and an option's error result is ignored)")
			}
		}
	}
	// nobody sets a bool field of the parser type to true outside generated option closures that Parse never calls
	return r
}

// ---------- P-SCT ----------

func nodeish(p *load.Program, t types.Type) bool {
	if pt, ok := t.(*types.Pointer); ok {
		t = pt.Elem()
	}
	if types.Identical(t, p.Roles.NodeIface) || types.Identical(t, p.Roles.QueryIface) {
		return true
	}
	nt, ok := t.(*types.Named)
	if !ok {
		return false
	}
	for _, set := range [][]*types.Named{p.Roles.NodeTypes, p.Roles.QueryTypes, {p.Roles.BasicNode}} {
		for _, x := range set {
			if x == nt {
				return true
			}
		}
	}
	return false
}

// descent: how arg derives from a parameter of fn: returns (param, loads) or (nil, 0).
func descent(p *load.Program, v ssa.Value, depth int) (*ssa.Parameter, int) {
	return descentS(p, v, depth, map[*ssa.Phi]bool{})
}

// selfPhi marks an edge that leads back to a phi under evaluation (a loop-carried walk such as
// n = n.getNext()): it derives from whatever the other edges derive from.
var selfPhi = &ssa.Parameter{}

func descentS(p *load.Program, v ssa.Value, depth int, stack map[*ssa.Phi]bool) (*ssa.Parameter, int) {
	if depth > 10 {
		return nil, 0
	}
	switch x := v.(type) {
	case *ssa.Parameter:
		return x, 0
	case *ssa.UnOp:
		if x.Op == token.MUL {
			pr, n := descentS(p, x.X, depth+1, stack)
			// a load through a field/element address counts as one step down; loading a spilled parameter cell does not
			if _, isAlloc := x.X.(*ssa.Alloc); isAlloc {
				return allocParam(x.X.(*ssa.Alloc)), 0
			}
			return pr, n + 1
		}
	case *ssa.FieldAddr:
		return descentS(p, x.X, depth+1, stack)
	case *ssa.IndexAddr:
		return descentS(p, x.X, depth+1, stack)
	case *ssa.Field:
		pr, n := descentS(p, x.X, depth+1, stack)
		return pr, n + 1
	case *ssa.TypeAssert:
		return descentS(p, x.X, depth+1, stack)
	case *ssa.Extract:
		return descentS(p, x.Tuple, depth+1, stack)
	case *ssa.MakeInterface:
		return descentS(p, x.X, depth+1, stack)
	case *ssa.ChangeInterface:
		return descentS(p, x.X, depth+1, stack)
	case *ssa.Call:
		// trivial getter: invoke/static method with no args returning a node-ish value
		if x.Call.IsInvoke() && len(x.Call.Args) == 0 && nodeish(p, x.Type()) {
			pr, n := descentS(p, x.Call.Value, depth+1, stack)
			return pr, n + 1
		}
		if sc := x.Call.StaticCallee(); sc != nil && len(x.Call.Args) == 1 && nodeish(p, x.Type()) && len(sc.Blocks) == 1 {
			pr, n := descentS(p, x.Call.Args[0], depth+1, stack)
			return pr, n + 1
		}
	case *ssa.Phi:
		// all edges must derive from the same parameter; take the minimum number of loads
		if stack[x] {
			return selfPhi, 1 << 20
		}
		stack[x] = true
		defer delete(stack, x)
		var pr *ssa.Parameter
		min := 1 << 30
		for _, e := range x.Edges {
			if e == ssa.Value(x) {
				continue
			}
			q, n := descentS(p, e, depth+1, stack)
			if q == selfPhi {
				continue
			}
			if q == nil || (pr != nil && q != pr) {
				return nil, 0
			}
			pr = q
			if n < min {
				min = n
			}
		}
		if pr == nil {
			return nil, 0
		}
		return pr, min
	}
	return nil, 0
}

func allocParam(al *ssa.Alloc) *ssa.Parameter {
	for _, ref := range *al.Referrers() {
		if st, ok := ref.(*ssa.Store); ok && st.Addr == ssa.Value(al) {
			if prm, ok := st.Val.(*ssa.Parameter); ok {
				return prm
			}
		}
	}
	return nil
}

func rulePSct(c *engine.Context) *report.Rule {
	r := report.NewRule("P-SCT", "every recursion cycle in hand-written code descends on the syntax tree; every loop is a bounded loop of a known shape", 4)
	p := c.P
	a := regionsOf(c)
	// call graph among hand-written package functions
	var fns []*ssa.Function
	idx := map[*ssa.Function]int{}
	for _, fn := range p.Funcs {
		if fn.Blocks == nil || p.FuncIsGenerated(fn) || fn.Synthetic != "" {
			continue
		}
		if !(a.EvalReach[fn] || a.ParseReach[fn]) {
			continue
		}
		idx[fn] = len(fns)
		fns = append(fns, fn)
	}
	type edge struct {
		from, to *ssa.Function
		site     ssa.CallInstruction
	}
	adj := map[*ssa.Function][]edge{}
	for _, ce := range a.Calls {
		if ce.Callee == nil {
			continue
		}
		callee := ce.Callee
		// look through synthetic wrappers (promoted methods)
		if callee.Synthetic != "" {
			for _, c2 := range a.Edges(callee) {
				if _, ok := idx[c2]; ok {
					if _, ok := idx[ce.Caller]; ok {
						adj[ce.Caller] = append(adj[ce.Caller], edge{ce.Caller, c2, ce.Site})
					}
				}
			}
			continue
		}
		if _, ok := idx[ce.Caller]; !ok {
			continue
		}
		if _, ok := idx[callee]; !ok {
			continue
		}
		adj[ce.Caller] = append(adj[ce.Caller], edge{ce.Caller, callee, ce.Site})
	}
	// Tarjan SCC
	index, low := map[*ssa.Function]int{}, map[*ssa.Function]int{}
	on := map[*ssa.Function]bool{}
	var stack []*ssa.Function
	var sccs [][]*ssa.Function
	n := 0
	var strong func(v *ssa.Function)
	strong = func(v *ssa.Function) {
		n++
		index[v], low[v] = n, n
		stack = append(stack, v)
		on[v] = true
		for _, e := range adj[v] {
			if index[e.to] == 0 {
				strong(e.to)
				if low[e.to] < low[v] {
					low[v] = low[e.to]
				}
			} else if on[e.to] && index[e.to] < low[v] {
				low[v] = index[e.to]
			}
		}
		if low[v] == index[v] {
			var comp []*ssa.Function
			for {
				w := stack[len(stack)-1]
				stack = stack[:len(stack)-1]
				on[w] = false
				comp = append(comp, w)
				if w == v {
					break
				}
			}
			sccs = append(sccs, comp)
		}
	}
	for _, fn := range fns {
		if index[fn] == 0 {
			strong(fn)
		}
	}
	for _, comp := range sccs {
		in := map[*ssa.Function]bool{}
		for _, f := range comp {
			in[f] = true
		}
		recursive := len(comp) > 1
		for _, e := range adj[comp[0]] {
			if e.to == comp[0] {
				recursive = true
			}
		}
		if !recursive {
			continue
		}
		r.Instances++
		sort.Slice(comp, func(i, j int) bool { return load.FuncName(comp[i]) < load.FuncName(comp[j]) })
		var names []string
		for _, f := range comp {
			names = append(names, load.FuncName(f))
		}
		label := "SCC{" + strings.Join(names, ", ") + "}"
		if len(names) > 4 {
			label = fmt.Sprintf("SCC{%s, … %d functions}", strings.Join(names[:3], ", "), len(names))
		}
		// neutral edges (no descent) must not form a cycle
		neutral := map[*ssa.Function][]*ssa.Function{}
		unknown := ""
		for _, f := range comp {
			for _, e := range adj[f] {
				if !in[e.to] {
					continue
				}
				cc := e.site.Common()
				var args []ssa.Value
				if cc.IsInvoke() {
					args = append(args, cc.Value)
				}
				args = append(args, cc.Args...)
				best := -1
				for _, arg := range args {
					if !nodeish(p, arg.Type()) {
						continue
					}
					pr, loads := descent(p, arg, 0)
					if pr == nil || !nodeish(p, pr.Type()) {
						continue
					}
					if loads > best {
						best = loads
					}
				}
				switch {
				case best >= 1:
				case best == 0:
					neutral[f] = append(neutral[f], e.to)
				default:
					neutral[f] = append(neutral[f], e.to)
					if unknown == "" {
						unknown = fmt.Sprintf("%s → %s", load.FuncName(f), load.FuncName(e.to))
					}
				}
			}
		}
		// cycle detection in neutral graph
		color := map[*ssa.Function]int{}
		var cyc []string
		var dfs func(v *ssa.Function) bool
		dfs = func(v *ssa.Function) bool {
			color[v] = 1
			for _, w := range neutral[v] {
				if color[w] == 1 {
					cyc = append(cyc, load.FuncName(v)+" → "+load.FuncName(w))
					return true
				}
				if color[w] == 0 && dfs(w) {
					cyc = append(cyc, load.FuncName(v)+" → "+load.FuncName(w))
					return true
				}
			}
			color[v] = 2
			return false
		}
		bad := false
		for _, f := range comp {
			if color[f] == 0 && dfs(f) {
				bad = true
				break
			}
		}
		r.Oblige(!bad)
		r.Nontrivial++
		r.Sample("%s: every cycle passes a call whose node argument is loaded from the caller's node: %v", label, !bad)
		if bad {
			f := r.Violation("recursion without descent: "+label, p.RelPos(comp[0].Pos()),
				"the functions call each other along %s without moving down the syntax tree (arguments are passed on unchanged or exchanged): the recursion need not terminate", strings.Join(cyc, ", "))
			// Parse totality (C02) is concerned by cycles reachable while parsing, evaluation totality (C03) by cycles reachable while evaluating
			var props []string
			inParse, inEval := false, false
			for _, x := range comp {
				if p.ParsePhase[x] {
					inParse = true
				}
				if p.Eval[x] {
					inEval = true
				}
			}
			if inParse {
				props = append(props, "C02")
			}
			if inEval {
				props = append(props, "C03")
			}
			if len(props) > 0 {
				engine.Restrict(f, props...)
			}
		}
	}
	// loop census in evaluation code outside the retrieve family and subscripts (those have their own rules)
	for _, fn := range evalFuncs(c) {
		if sinkParam(p, fn) != nil && fn.Signature.Results().Len() == 1 && types.Identical(fn.Signature.Results().At(0).Type(), p.Roles.RuntimeErrIface) {
			continue // O-SEQ
		}
		isSubscript := false
		if fn.Signature.Recv() != nil {
			rt := fn.Signature.Recv().Type()
			if pt, ok := rt.(*types.Pointer); ok {
				rt = pt.Elem()
			}
			for _, s := range p.Roles.SubscriptTypes {
				if types.Identical(rt, s) {
					isSubscript = true // I-PROGRESS
				}
			}
		}
		if isSubscript {
			continue
		}
		for _, l := range cfgutil.Loops(fn) {
			ind := cfgutil.Classify(l)
			r.Instances++
			ok := ind.Kind == cfgutil.LoopAscending || ind.Kind == cfgutil.LoopDescending || ind.Kind == cfgutil.LoopMapRange
			r.Oblige(ok)
			if !ok {
				r.Undischarged(fmt.Sprintf("loop #%d in %s", loopOrdinal(fn, l), load.FuncName(fn)), p.RelPos(fn.Pos()), "loop in evaluation code whose bound is not recognised (not a range / counted loop)")
			}
		}
	}
	return r
}

// ---------- P-POST-NONEMPTY ----------

// sinkResultAddr: v is &S.result for sink value S (parameter or loaded cell); returns the sink "variable".
func sinkResultVar(p *load.Program, v ssa.Value) ssa.Value {
	fa, ok := v.(*ssa.FieldAddr)
	if !ok {
		return nil
	}
	pt, ok := fa.X.Type().Underlying().(*types.Pointer)
	if !ok || !types.Identical(pt.Elem(), p.Roles.SinkType) {
		return nil
	}
	return varOf(fa.X)
}

func rulePPostNonEmpty(c *engine.Context) *report.Rule {
	r := report.NewRule("P-POST-NONEMPTY", "a step that reports success has put at least one result into its sink; result[0] is read only after a successful step", 15)
	p := c.P
	fam := retrieveFamily(c)
	inFam := map[*ssa.Function]bool{}
	for _, f := range fam {
		inFam[f] = true
	}
	isFamilyCallOn := func(v ssa.Value, sinkVar ssa.Value) bool {
		call, ok := v.(*ssa.Call)
		if !ok {
			return false
		}
		var sinkArg ssa.Value
		if call.Call.IsInvoke() && call.Call.Method.Name() == p.Roles.RetrieveName && types.Identical(call.Call.Value.Type(), p.Roles.NodeIface) {
			sinkArg = call.Call.Args[2]
		} else if sc := call.Call.StaticCallee(); sc != nil && inFam[sc] {
			for i, prm := range sc.Params {
				if prm == sinkParam(p, sc) {
					sinkArg = call.Call.Args[i]
				}
			}
		}
		return sinkArg != nil && varOf(sinkArg) == sinkVar
	}
	for _, fn := range fam {
		S := sinkParam(p, fn)
		sinkVar := ssa.Value(S)
		if cell := cellOfParam(fn, S); cell != nil {
			sinkVar = cell
		}
		// must-analysis: nonEmpty[b] = sink known non-empty at the end of block b
		in := map[*ssa.BasicBlock]bool{}
		outB := map[*ssa.BasicBlock]bool{}
		edgeFact := func(from, to *ssa.BasicBlock) bool {
			// true edge of len(S.result) > 0 (or != 0, >= 1)
			ifi, ok := from.Instrs[len(from.Instrs)-1].(*ssa.If)
			if !ok {
				return false
			}
			bo, ok := ifi.Cond.(*ssa.BinOp)
			if !ok {
				return false
			}
			lenOfSink := func(v ssa.Value) bool {
				x, ok := lenArg(v)
				if !ok {
					return false
				}
				ld, ok := x.(*ssa.UnOp)
				return ok && sinkResultVar(p, ld.X) == sinkVar
			}
			isTrue := from.Succs[0] == to
			cv, isC := cfgutil.ConstInt(bo.Y)
			if lenOfSink(bo.X) && isC {
				switch bo.Op {
				case token.GTR:
					return isTrue && cv >= 0
				case token.NEQ:
					return isTrue && cv == 0
				case token.GEQ:
					return isTrue && cv >= 1
				case token.EQL:
					return !isTrue && cv == 0
				case token.LEQ:
					return !isTrue && cv >= 0
				case token.LSS:
					return !isTrue && cv >= 1
				}
			}
			return false
		}
		transfer := func(b *ssa.BasicBlock, v bool) bool {
			for _, ins := range b.Instrs {
				if call, isCall := ins.(*ssa.Call); isCall {
					if sc := call.Call.StaticCallee(); sc != nil {
						if h, isH := emitHelpers(c)[sc]; isH && varOf(call.Call.Args[h.sink]) == sinkVar {
							v = true
						}
					}
					continue
				}
				st, ok := ins.(*ssa.Store)
				if !ok {
					continue
				}
				if sinkResultVar(p, st.Addr) != sinkVar {
					continue
				}
				switch x := st.Val.(type) {
				case *ssa.Call:
					if bi, isB := x.Call.Value.(*ssa.Builtin); isB && bi.Name() == "append" && len(x.Call.Args) == 2 {
						v = true
						continue
					}
					v = false
				default:
					v = false
				}
			}
			return v
		}
		// initialise optimistic (true) except entry, iterate to greatest fixpoint
		for _, b := range fn.Blocks {
			outB[b] = true
		}
		changed := true
		for changed {
			changed = false
			for _, b := range fn.Blocks {
				var v bool
				if len(b.Preds) == 0 {
					v = false
				} else {
					v = true
					for _, pb := range b.Preds {
						if !(outB[pb] || edgeFact(pb, b)) {
							v = false
						}
					}
				}
				in[b] = v
				nv := transfer(b, v)
				if nv != outB[b] {
					outB[b] = nv
					changed = true
				}
			}
		}
		// returned values (with defer spill)
		var spill *ssa.Alloc
		type retVal struct {
			v  ssa.Value
			at ssa.Instruction
		}
		var rets []retVal
		for _, b := range fn.Blocks {
			if b == fn.Recover {
				continue
			}
			ret, ok := b.Instrs[len(b.Instrs)-1].(*ssa.Return)
			if !ok || len(ret.Results) != 1 {
				continue
			}
			if ld, ok := ret.Results[0].(*ssa.UnOp); ok {
				if al, ok := ld.X.(*ssa.Alloc); ok {
					spill = al
					continue
				}
			}
			rets = append(rets, retVal{ret.Results[0], ret})
		}
		if spill != nil {
			for _, ref := range *spill.Referrers() {
				if st, ok := ref.(*ssa.Store); ok && st.Addr == ssa.Value(spill) {
					rets = append(rets, retVal{st.Val, st})
				}
			}
		}
		for _, rv := range rets {
			r.Instances++
			ok, how := false, ""
			// a value is judged at a program point: after the instructions of blk that precede upto
			// (all of them when upto is nil) and, when to is set, on the edge blk -> to (the
			// operand of a phi is judged on its own edge, not at the join)
			condsAt := func(blk *ssa.BasicBlock, to *ssa.BasicBlock) []edgeCond {
				out := dominatingConds(blk)
				if to != nil {
					if ifi, ok := blk.Instrs[len(blk.Instrs)-1].(*ssa.If); ok && blk.Succs[0] != blk.Succs[1] {
						out = append(out, edgeCond{cond: ifi.Cond, taken: blk.Succs[0] == to, at: ifi})
					}
				}
				return out
			}
			var check func(v ssa.Value, blk *ssa.BasicBlock, upto ssa.Instruction, to *ssa.BasicBlock, depth int) bool
			check = func(v ssa.Value, blk *ssa.BasicBlock, upto ssa.Instruction, to *ssa.BasicBlock, depth int) bool {
				if depth > 4 {
					return false
				}
				provenNonNil := func() bool {
					for _, dc := range condsAt(blk, to) {
						if bo, ok := dc.cond.(*ssa.BinOp); ok && isNilConstV(bo.Y) && (bo.X == v || sameLocalLoad(bo.X, v)) {
							if (bo.Op == token.NEQ) == dc.taken {
								how = "variable proven non-nil"
								return true
							}
						}
					}
					return false
				}
				if provenNonNil() {
					return true
				}
				switch x := v.(type) {
				case *ssa.MakeInterface:
					how = "fresh error value"
					return true
				case *ssa.Call:
					if isFamilyCallOn(x, sinkVar) {
						how = "result of a step on the same sink"
						return true
					}
					// a package helper every return of which converts a concrete error value (never nil)
					if sc := x.Call.StaticCallee(); sc != nil && p.InPkg(sc) && sc.Blocks != nil && !inFam[sc] {
						allFresh, n := true, 0
						for _, bb := range sc.Blocks {
							if ret, isRet := bb.Instrs[len(bb.Instrs)-1].(*ssa.Return); isRet && len(ret.Results) == 1 {
								n++
								if _, isMI := ret.Results[0].(*ssa.MakeInterface); !isMI {
									allFresh = false
								}
							}
						}
						if allFresh && n > 0 {
							how = "a helper that always returns a fresh error value"
							return true
						}
					}
				case *ssa.Const:
					if x.IsNil() {
						// sink must be known non-empty here
						v2 := in[blk]
						for _, ins := range blk.Instrs {
							if upto != nil && ins == upto {
								break
							}
							if call, isCall := ins.(*ssa.Call); isCall {
								if sc := call.Call.StaticCallee(); sc != nil {
									if h, isH := emitHelpers(c)[sc]; isH && varOf(call.Call.Args[h.sink]) == sinkVar {
										v2 = true
									}
								}
								continue
							}
							if st, ok := ins.(*ssa.Store); ok && sinkResultVar(p, st.Addr) == sinkVar {
								if cl, isCall := st.Val.(*ssa.Call); isCall {
									if bi, isB := cl.Call.Value.(*ssa.Builtin); isB && bi.Name() == "append" {
										v2 = true
										continue
									}
								}
								v2 = false
							}
						}
						if to != nil && edgeFact(blk, to) {
							v2 = true
						}
						how = "nil with the sink known non-empty"
						return v2
					}
				case *ssa.Phi:
					for i, e := range x.Edges {
						if !check(e, x.Block().Preds[i], nil, x.Block(), depth+1) {
							return false
						}
					}
					return true
				}
				return false
			}
			ok = check(rv.v, rv.at.Block(), rv.at, nil, 0)
			r.Oblige(ok)
			if len(r.Samples) < 10 {
				r.Sample("%s returns %s: %s", load.FuncName(fn), describeVal(rv.v), how)
			}
			if !ok {
				r.Violation(fmt.Sprintf("%s may report success with an empty sink", load.FuncName(fn)), p.RelPos(rv.at.Pos()),
					"a return of %s yields a possibly-nil error (%s) on a path where nothing guarantees that a result was appended: a query that matches nothing could be reported as an empty success", load.FuncName(fn), describeVal(rv.v))
			}
		}
	}
	// consequence: result[0] reads on sinks are guarded by a successful step on that sink
	for _, fn := range evalFuncs(c) {
		for _, b := range fn.Blocks {
			for _, ins := range b.Instrs {
				ia, ok := ins.(*ssa.IndexAddr)
				if !ok {
					continue
				}
				cv, isC := cfgutil.ConstInt(ia.Index)
				if !isC || cv != 0 {
					continue
				}
				ld, ok := ia.X.(*ssa.UnOp)
				if !ok {
					continue
				}
				sv := sinkResultVar(p, ld.X)
				if sv == nil {
					continue
				}
				r.Instances++
				guarded := false
				for _, dc := range append(dominatingConds(b), edgeCondsOfPred(b)...) {
					bo, ok := dc.cond.(*ssa.BinOp)
					if !ok || !isNilConstV(bo.Y) {
						continue
					}
					if isFamilyCallOn(bo.X, sv) && (bo.Op == token.EQL) == dc.taken {
						guarded = true
					}
				}
				r.Oblige(guarded)
				r.Sample("%s reads result[0] of a sink after a step on it returned nil: %v", load.FuncName(fn), guarded)
				if !guarded {
					r.Violation("unguarded result[0] in "+load.FuncName(fn), p.RelPos(ia.Pos()), "element 0 of a result sink is read on a path where no step on that sink is known to have succeeded (index out of range on an empty sink)")
				}
			}
		}
	}
	return r
}

func describeVal(v ssa.Value) string {
	switch x := v.(type) {
	case *ssa.Const:
		if x.IsNil() {
			return "nil"
		}
	case *ssa.MakeInterface:
		return "a " + tname(x.X.Type()) + " value"
	case *ssa.Call:
		return "the result of " + calleeLabel(x)
	case *ssa.Phi:
		return "variable " + x.Comment
	}
	return v.Name()
}

// ---------- P-RTERR ----------

func rulePRtErr(c *engine.Context) *report.Rule {
	r := report.NewRule("P-RTERR", "only the three documented runtime error types are ever returned, and ErrorFunctionFailed only for a failing user function", 3)
	p := c.P
	seen := map[string]bool{}
	for _, fn := range p.Funcs {
		for _, b := range fn.Blocks {
			for _, ins := range b.Instrs {
				mi, ok := ins.(*ssa.MakeInterface)
				if !ok || !types.Identical(mi.Type(), p.Roles.RuntimeErrIface) {
					continue
				}
				t := mi.X.Type()
				r.Instances++
				ok2 := inTypes(t, p.Roles.RuntimeErrTypes)
				errIface := types.Universe.Lookup("error").Type().Underlying().(*types.Interface)
				impl := types.Implements(t, errIface)
				r.Oblige(ok2 && impl)
				seen[tname(t)] = true
				if !(ok2 && impl) {
					r.Violation("runtime error of type "+tname(t)+" in "+load.FuncName(fn), p.RelPos(mi.Pos()),
						"a value of type %s is returned as runtime error (documented: %v; implements error: %v)", tname(t), ok2, impl)
				}
			}
		}
	}
	var ks []string
	for k := range seen {
		ks = append(ks, k)
	}
	sort.Strings(ks)
	r.Sample("types converted to the runtime-error interface: {%s}", strings.Join(ks, ", "))
	// ErrorFunctionFailed only under err != nil of a user-function call
	var ffT *types.Named
	for _, t := range p.Roles.RuntimeErrTypes {
		if st, ok := t.Underlying().(*types.Struct); ok && st.NumFields() == 2 {
			ffT = t
		}
	}
	if ffT == nil {
		r.InfraFail("anchor unresolved: function-failed error type")
		return r
	}
	for _, fn := range p.Funcs {
		for _, b := range fn.Blocks {
			for _, ins := range b.Instrs {
				al, ok := ins.(*ssa.Alloc)
				if !ok || !types.Identical(al.Type().(*types.Pointer).Elem(), ffT) || al.Comment != "complit" {
					continue
				}
				r.Instances++
				okU := false
				for _, dc := range dominatingConds(b) {
					bo, ok := dc.cond.(*ssa.BinOp)
					if !ok || !isNilConstV(bo.Y) || (bo.Op == token.NEQ) != dc.taken {
						continue
					}
					if ex, ok := bo.X.(*ssa.Extract); ok {
						if call, ok := ex.Tuple.(*ssa.Call); ok && !call.Call.IsInvoke() && call.Call.StaticCallee() == nil {
							if _, isB := call.Call.Value.(*ssa.Builtin); !isB {
								okU = true
							}
						}
					}
				}
				r.Oblige(okU)
				r.Sample("%s builds %s only when the user function returned an error: %v", load.FuncName(fn), ffT.Obj().Name(), okU)
				if !okU {
					r.Violation(ffT.Obj().Name()+" built in "+load.FuncName(fn)+" without a failing user function", p.RelPos(al.Pos()), "%s is constructed on a path not guarded by a non-nil error of a user-function call", ffT.Obj().Name())
				}
			}
		}
	}
	return r
}

// ---------- P-ASSERT ----------

func rulePAssert(c *engine.Context) *report.Rule {
	r := report.NewRule("P-ASSERT", "every unchecked type assertion during evaluation is justified (pool element type, runtime error is an error, validated comparator operand)", 10)
	p := c.P
	cmpMethods := map[*ssa.Function]bool{}
	for _, C := range p.Roles.ComparatorTypes {
		if fn := methodOf(p, C, p.Roles.CompareMethod); fn != nil {
			cmpMethods[fn] = true
		}
	}
	// pool element types: dynamic type returned by each pool's New
	poolElem := map[string]bool{}
	for _, fn := range p.Funcs {
		if fn.Parent() != nil && fn.Parent().Name() == "init" {
			ts, _ := concreteReturnTypes(fn, 0, 0, map[*ssa.Function]bool{})
			for _, t := range ts {
				poolElem[tname(t)] = true
			}
		}
	}
	for _, fn := range evalFuncs(c) {
		for _, b := range fn.Blocks {
			for _, ins := range b.Instrs {
				ta, ok := ins.(*ssa.TypeAssert)
				// an assertion of an interface value to its own interface type is the nil check go/ssa
				// writes for a method value (`f := x.m`): it inspects no dynamic type
				if ok && !ta.CommaOk && types.Identical(ta.AssertedType, ta.X.Type()) {
					continue
				}
				if !ok || ta.CommaOk {
					continue
				}
				r.Instances++
				why := ""
				switch {
				case isPoolGet(ta.X) && poolElem[tname(ta.AssertedType)]:
					why = "pool element type"
				case types.Identical(ta.X.Type(), p.Roles.RuntimeErrIface) && isErrorType(ta.AssertedType):
					why = "runtime error values implement error (P-RTERR)"
				case cmpMethods[fn]:
					why = "comparator operand, validated before the call (V-VALIDATED)"
				}
				r.Oblige(why != "")
				r.Sample("%s: %s.(%s): %s", load.FuncName(fn), ta.X.Name(), tname(ta.AssertedType), why)
				if why == "" {
					r.Violation(fmt.Sprintf("unchecked assertion to %s in %s", tname(ta.AssertedType), load.FuncName(fn)), p.RelPos(ta.Pos()),
						"a single-result type assertion on a value that may come from the caller's document is not covered by a validator: it panics for other types")
				}
			}
		}
	}
	return r
}

func isPoolGet(v ssa.Value) bool {
	call, ok := v.(*ssa.Call)
	return ok && call.Call.StaticCallee() != nil && call.Call.StaticCallee().String() == "(*sync.Pool).Get"
}

// ---------- P-NILGUARD ----------

func rulePNilGuard(c *engine.Context) *report.Rule {
	r := report.NewRule("P-NILGUARD", "reflect.TypeOf(x) is dereferenced only under x != nil", 0)
	p := c.P
	for _, fn := range evalFuncs(c) {
		for _, b := range fn.Blocks {
			for _, ins := range b.Instrs {
				call, ok := ins.(*ssa.Call)
				if !ok || call.Call.StaticCallee() == nil || call.Call.StaticCallee().String() != "reflect.TypeOf" {
					continue
				}
				arg := call.Call.Args[0]
				for _, ref := range *call.Referrers() {
					use, ok := ref.(*ssa.Call)
					if !ok || !use.Call.IsInvoke() || use.Call.Value != ssa.Value(call) {
						continue
					}
					r.Instances++
					guarded := false
					for _, dc := range dominatingConds(use.Block()) {
						if bo, ok := dc.cond.(*ssa.BinOp); ok && isNilConstV(bo.Y) && bo.X == arg && (bo.Op == token.NEQ) == dc.taken {
							guarded = true
						}
					}
					r.Oblige(guarded)
					if !guarded {
						r.Violation("unguarded reflect.TypeOf(x)."+use.Call.Method.Name()+" in "+load.FuncName(fn), p.RelPos(use.Pos()), "reflect.TypeOf returns nil for a nil interface; calling %s on it panics", use.Call.Method.Name())
					}
				}
			}
		}
	}
	return r
}

// ---------- P-IFACE-EQ ----------

func rulePIfaceEq(c *engine.Context) *report.Rule {
	r := report.NewRule("P-IFACE-EQ", "every interface comparison during evaluation is panic-safe for uncomparable dynamic types", 20)
	p := c.P
	vinfos := validatorInfos(c)
	rawOK := map[*ssa.Function]bool{}
	for _, C := range p.Roles.ComparatorTypes {
		fn := methodOf(p, C, p.Roles.CompareMethod)
		if fn == nil {
			continue
		}
		V, isIface := embeddedValidator(p, C)
		if isIface {
			// validator chosen per literal: all non-permissive validators keep comparable scalar types
			all := true
			for _, vi := range vinfos {
				if vi.kept == "any" {
					continue
				}
				if !vi.ok {
					all = false
				}
			}
			// the interface-embedded comparator must never be built with the permissive validator (V-LITERAL)
			rawOK[fn] = all
		} else if V != nil && vinfos[V] != nil && vinfos[V].ok && vinfos[V].kept != "any" {
			rawOK[fn] = true
		}
	}
	for _, fn := range evalFuncs(c) {
		for _, b := range fn.Blocks {
			for _, ins := range b.Instrs {
				bo, ok := ins.(*ssa.BinOp)
				if !ok || (bo.Op != token.EQL && bo.Op != token.NEQ) {
					continue
				}
				_, xi := bo.X.Type().Underlying().(*types.Interface)
				_, yi := bo.Y.Type().Underlying().(*types.Interface)
				if !xi || !yi {
					continue
				}
				r.Instances++
				safe := func(v ssa.Value) bool {
					if isNilConstV(v) {
						return true
					}
					if mi, ok := v.(*ssa.MakeInterface); ok {
						return types.Comparable(mi.X.Type())
					}
					return false
				}
				why := ""
				switch {
				case safe(bo.X) || safe(bo.Y):
					why = "one operand is nil or a value of a comparable concrete type"
				case rawOK[fn]:
					why = "operands validated to a comparable JSON scalar type (V-VALIDATED)"
				}
				r.Oblige(why != "")
				if len(r.Samples) < 6 {
					r.Sample("%s: %s %s %s: %s", load.FuncName(fn), bo.X.Name(), bo.Op, bo.Y.Name(), why)
				}
				if why == "" {
					r.Violation(fmt.Sprintf("raw interface comparison in %s #%d", load.FuncName(fn), ordinalOfBinop(bo)), p.RelPos(bo.Pos()),
						"two interface values that may both come from the caller's document are compared with %s: Go panics when both hold the same uncomparable dynamic type (slice, map, func)", bo.Op)
				}
			}
		}
	}
	return r
}

func ordinalOfBinop(bo *ssa.BinOp) int {
	n := 0
	for _, b := range bo.Parent().Blocks {
		for _, ins := range b.Instrs {
			if x, ok := ins.(*ssa.BinOp); ok && (x.Op == token.EQL || x.Op == token.NEQ) {
				n++
				if x == bo {
					return n
				}
			}
		}
	}
	return 0
}

// ---------- P-SENTINEL ----------

func rulePSentinel(c *engine.Context) *report.Rule {
	r := report.NewRule("P-SENTINEL", "the absence marker has a package-private named type, so no caller value can equal it", 1)
	p := c.P
	r.Instances = 1
	t := p.Roles.MarkerType()
	nt, ok := t.(*types.Named)
	good := ok && nt.Obj().Pkg() == p.Types && !nt.Obj().Exported()
	r.Oblige(good)
	r.Sample("absence marker %s has type %s", p.Roles.Marker.Name(), tname(t))
	if !good {
		r.Violation("absence marker type "+tname(t), p.RelPos(p.Roles.Marker.Pos()),
			"the internal 'missing' marker has type %s, which a caller can also put into a document: such a value is treated as absent", tname(t))
	}
	// comparable, so comparisons against it never panic
	r.Oblige(types.Comparable(t))
	return r
}

// sameLocalLoad: a and b are loads of the same field (or element-free path) of the same local
// allocation, in the same block, with no store or call between them: the same value.
func sameLocalLoad(a, b ssa.Value) bool {
	la, ok1 := a.(*ssa.UnOp)
	lb, ok2 := b.(*ssa.UnOp)
	if !ok1 || !ok2 || la.Op != token.MUL || lb.Op != token.MUL {
		return false
	}
	sameAddr := func(x, y ssa.Value) bool {
		if x == y {
			return true
		}
		fx, ok1 := x.(*ssa.FieldAddr)
		fy, ok2 := y.(*ssa.FieldAddr)
		return ok1 && ok2 && fx.X == fy.X && fx.Field == fy.Field
	}
	if !sameAddr(la.X, lb.X) {
		return false
	}
	// the first load must dominate the second with nothing that can write in between
	first, second := la, lb
	if !instrBefore(first, second) {
		first, second = lb, la
		if !instrBefore(first, second) {
			return false
		}
	}
	return noWriteBetween(first, second)
}

// noWriteBetween: on every path from a to b (a dominates b) no store, call or defer is executed.
func noWriteBetween(a, b ssa.Instruction) bool {
	isWrite := func(ins ssa.Instruction) bool {
		switch ins.(type) {
		case *ssa.Store, *ssa.Call, *ssa.Defer, *ssa.Go, *ssa.MapUpdate, *ssa.Send:
			return true
		}
		return false
	}
	if a.Block() == b.Block() {
		seenA := false
		for _, ins := range a.Block().Instrs {
			if ins == a {
				seenA = true
				continue
			}
			if ins == b {
				return seenA
			}
			if seenA && isWrite(ins) {
				return false
			}
		}
		return false
	}
	// blocks that lie on a path a.Block -> b.Block: reachable from a's block and reaching b's
	fwd := map[*ssa.BasicBlock]bool{}
	var f func(x *ssa.BasicBlock)
	f = func(x *ssa.BasicBlock) {
		for _, sx := range x.Succs {
			if sx != b.Block() && !fwd[sx] && sx != a.Block() {
				fwd[sx] = true
				f(sx)
			}
		}
	}
	f(a.Block())
	bwd := map[*ssa.BasicBlock]bool{}
	var g func(x *ssa.BasicBlock)
	g = func(x *ssa.BasicBlock) {
		for _, px := range x.Preds {
			if px != a.Block() && !bwd[px] && px != b.Block() {
				bwd[px] = true
				g(px)
			}
		}
	}
	g(b.Block())
	after := false
	for _, ins := range a.Block().Instrs {
		if ins == a {
			after = true
			continue
		}
		if after && isWrite(ins) {
			return false
		}
	}
	for _, ins := range b.Block().Instrs {
		if ins == b {
			break
		}
		if isWrite(ins) {
			return false
		}
	}
	for blk := range fwd {
		if !bwd[blk] {
			continue
		}
		for _, ins := range blk.Instrs {
			if isWrite(ins) {
				return false
			}
		}
	}
	// a loop through a's or b's block would re-execute them; require b's block not to reach a's
	return true
}

// lastCondOf: the condition of pred's own branch when it ends in an If, with the truth of the
// edge into succ.
func lastCondOf(pred, succ *ssa.BasicBlock) []edgeCond {
	ifi, ok := pred.Instrs[len(pred.Instrs)-1].(*ssa.If)
	if !ok || len(pred.Succs) != 2 || pred.Succs[0] == pred.Succs[1] {
		return nil
	}
	return []edgeCond{{cond: ifi.Cond, taken: pred.Succs[0] == succ, at: ifi}}
}
