// Package rules registers all rule implementations with the engine registry.
package rules
