package rules

import (
	"go/token"
	"go/types"

	"golang.org/x/tools/go/ssa"

	"verif/checker/internal/cfgutil"
	"verif/checker/internal/load"
)

// listLoop summarises a function that processes a list parameter element by
// element in one complete ascending loop (validators, comparators): every
// acyclic path through the loop body with its conditions, stores to the
// element, unchecked assertions and result-flag update.
type listLoop struct {
	fn     *ssa.Function
	list   *ssa.Parameter
	loop   *cfgutil.Loop
	ind    *cfgutil.Induction
	paths  []*elemPath
	reason string // why the shape was not recognised
	// early returns inside the loop (blocks leaving the loop other than via header)
	earlyExit bool
}

type condKind int

const (
	condTypeIs   condKind = iota // comma-ok type assertion of the element to typ
	condIsMarker                 // element == absence marker
	condIsNil                    // element == nil
	condRawEq                    // element == other interface value (raw interface comparison)
	condCmp                      // ordered comparison of asserted element with asserted other
	condCall                     // boolean result of a call taking the element
	condOther
)

type pathCond struct {
	kind       condKind
	typ        types.Type
	op         token.Token
	taken      bool // which edge of the If was followed (true edge = condition holds)
	neg        bool // condition was written negated (!=)
	callee     string
	other      ssa.Value
	at         ssa.Instruction
	elemOnLeft bool
}

type storeKind int

const (
	storeMarker    storeKind = iota
	storeConverted           // result of json.Number.Float64 on the asserted element
	storeConst
	storeOtherElem // element of another list at the same index
	storeOther
)

type elemStore struct {
	kind storeKind
	typ  types.Type // dynamic type of the stored value when known
	at   *ssa.Store
	val  ssa.Value
}

type elemAssert struct {
	onElem bool
	typ    types.Type
	at     *ssa.TypeAssert
	value  ssa.Value
}

type elemPath struct {
	conds   []pathCond
	stores  []elemStore
	asserts []elemAssert
	calls   []*ssa.Call
	flagSet bool // result flag phi receives constant true on this path
	blocks  []*ssa.BasicBlock
}

func firstListParam(fn *ssa.Function) *ssa.Parameter {
	for _, prm := range fn.Params {
		if isIfaceSliceT(prm.Type()) {
			return prm
		}
	}
	return nil
}

func isIfaceSliceT(t types.Type) bool {
	s, ok := t.Underlying().(*types.Slice)
	if !ok {
		return false
	}
	i, ok := s.Elem().Underlying().(*types.Interface)
	return ok && i.NumMethods() == 0
}

// analyseListLoop builds the summary for fn over its list parameter.
func analyseListLoop(p *load.Program, fn *ssa.Function, list *ssa.Parameter) *listLoop {
	ll := &listLoop{fn: fn, list: list}
	if fn.Blocks == nil || list == nil {
		ll.reason = "no body or no list parameter"
		return ll
	}
	loops := cfgutil.Loops(fn)
	var cand []*cfgutil.Loop
	for _, l := range loops {
		ind := cfgutil.Classify(l)
		if ind.Kind == cfgutil.LoopAscending {
			if x, ok := lenArg(ind.Bound); ok && x == ssa.Value(list) {
				cand = append(cand, l)
				ll.ind = ind
			}
		}
	}
	if len(cand) != 1 || len(loops) != 1 {
		ll.reason = "expected exactly one complete ascending loop over the list parameter"
		return ll
	}
	ll.loop = cand[0]
	for _, e := range ll.loop.Exits {
		if e.From != ll.loop.Header {
			ll.earlyExit = true
		}
	}
	h := ll.loop.Header
	isElemAddr := func(v ssa.Value) bool {
		ia, ok := v.(*ssa.IndexAddr)
		return ok && ia.X == ssa.Value(list) && ia.Index == ll.ind.Index
	}
	isElem := func(v ssa.Value) bool {
		ld, ok := v.(*ssa.UnOp)
		return ok && ld.Op == token.MUL && isElemAddr(ld.X)
	}
	isMarker := func(v ssa.Value) bool {
		mi, ok := v.(*ssa.MakeInterface)
		if !ok {
			return false
		}
		ld, ok := mi.X.(*ssa.UnOp)
		return ok && ld.Op == token.MUL && ld.X == ssa.Value(p.Roles.Marker)
	}
	isNilConst := func(v ssa.Value) bool {
		c, ok := v.(*ssa.Const)
		return ok && c.IsNil()
	}
	// result flag: a bool phi in the header that is returned after the loop
	var flag *ssa.Phi
	for _, ins := range h.Instrs {
		if ph, ok := ins.(*ssa.Phi); ok && ph != ll.ind.Phi {
			if b, ok := ph.Type().Underlying().(*types.Basic); ok && b.Kind() == types.Bool {
				flag = ph
			}
		}
	}
	classify := func(ifi *ssa.If) pathCond {
		pc := pathCond{kind: condOther, at: ifi}
		switch c := ifi.Cond.(type) {
		case *ssa.Extract:
			if ta, ok := c.Tuple.(*ssa.TypeAssert); ok && c.Index == 1 && ta.CommaOk && isElem(ta.X) {
				pc.kind, pc.typ = condTypeIs, ta.AssertedType
			}
		case *ssa.BinOp:
			switch c.Op {
			case token.EQL, token.NEQ:
				var other ssa.Value
				if isElem(c.X) {
					other, pc.elemOnLeft = c.Y, true
				} else if isElem(c.Y) {
					other = c.X
				}
				if other != nil {
					pc.neg = c.Op == token.NEQ
					switch {
					case isMarker(other):
						pc.kind = condIsMarker
					case isNilConst(other):
						pc.kind = condIsNil
					default:
						pc.kind, pc.other = condRawEq, other
					}
				}
			case token.LSS, token.LEQ, token.GTR, token.GEQ:
				tx, okx := c.X.(*ssa.TypeAssert)
				ty, oky := c.Y.(*ssa.TypeAssert)
				if okx && oky {
					if isElem(tx.X) && !isElem(ty.X) {
						pc.kind, pc.op, pc.elemOnLeft, pc.other, pc.typ = condCmp, c.Op, true, ty.X, tx.AssertedType
					} else if isElem(ty.X) && !isElem(tx.X) {
						pc.kind, pc.op, pc.elemOnLeft, pc.other, pc.typ = condCmp, c.Op, false, tx.X, ty.AssertedType
					}
				}
			}
		case *ssa.Call:
			if sc := c.Call.StaticCallee(); sc != nil {
				pc.kind, pc.callee = condCall, sc.String()
				// a tiny predicate `return x == marker` applied to the element
				if neg, ok := markerPredicate(p, sc); ok && len(c.Call.Args) >= 1 && isElem(c.Call.Args[len(c.Call.Args)-1]) {
					pc.kind, pc.neg, pc.callee = condIsMarker, neg, ""
				}
			}
		case *ssa.UnOp:
			if c.Op == token.NOT {
				if call, ok := c.X.(*ssa.Call); ok {
					if sc := call.Call.StaticCallee(); sc != nil {
						pc.kind, pc.callee, pc.neg = condCall, sc.String(), true
					}
				}
			}
		}
		return pc
	}
	// enumerate paths from the body entry to the header
	var bodyEntry *ssa.BasicBlock
	for _, s := range h.Succs {
		if ll.loop.Blocks[s] && s != h {
			bodyEntry = s
		}
	}
	if bodyEntry == nil {
		ll.reason = "loop body not found"
		return ll
	}
	var walk func(b *ssa.BasicBlock, cur elemPath, onPath map[*ssa.BasicBlock]bool)
	walk = func(b *ssa.BasicBlock, cur elemPath, onPath map[*ssa.BasicBlock]bool) {
		if len(ll.paths) > 256 {
			return
		}
		cur.blocks = append(append([]*ssa.BasicBlock(nil), cur.blocks...), b)
		for _, ins := range b.Instrs {
			switch x := ins.(type) {
			case *ssa.Store:
				if isElemAddr(x.Addr) {
					es := elemStore{kind: storeOther, at: x, val: x.Val}
					switch v := x.Val.(type) {
					case *ssa.MakeInterface:
						es.typ = v.X.Type()
						if isMarker(v) {
							es.kind = storeMarker
						} else if ex, ok := v.X.(*ssa.Extract); ok {
							if call, ok := ex.Tuple.(*ssa.Call); ok {
								if sc := call.Call.StaticCallee(); sc != nil && sc.String() == "(encoding/json.Number).Float64" && ex.Index == 0 {
									es.kind = storeConverted
								}
							}
						} else if _, ok := v.X.(*ssa.Const); ok {
							es.kind = storeConst
						}
					case *ssa.UnOp:
						// element of another list at the same index
						if ia, ok := v.X.(*ssa.IndexAddr); ok && v.Op == token.MUL && ia.Index == ll.ind.Index {
							es.kind = storeOtherElem
						}
					}
					cur.stores = append(append([]elemStore(nil), cur.stores...), es)
				}
			case *ssa.TypeAssert:
				if !x.CommaOk {
					cur.asserts = append(append([]elemAssert(nil), cur.asserts...), elemAssert{onElem: isElem(x.X), typ: x.AssertedType, at: x, value: x.X})
				}
			case *ssa.Call:
				cur.calls = append(append([]*ssa.Call(nil), cur.calls...), x)
			}
		}
		last := b.Instrs[len(b.Instrs)-1]
		next := func(s *ssa.BasicBlock, c elemPath) {
			if s == h {
				// flag update on this edge
				if flag != nil {
					for i, pred := range h.Preds {
						if pred == b {
							v := flag.Edges[i]
							// resolve phis of join blocks (e.g. the post block of a counted loop) along this path
							for depth := 0; depth < 6; depth++ {
								ph, isPhi := v.(*ssa.Phi)
								if !isPhi || ph == flag {
									break
								}
								resolved := false
								for k := 1; k < len(c.blocks); k++ {
									if c.blocks[k] == ph.Block() {
										for ei, pb := range ph.Block().Preds {
											if pb == c.blocks[k-1] {
												v = ph.Edges[ei]
												resolved = true
											}
										}
									}
								}
								if !resolved {
									break
								}
							}
							if cst, ok := v.(*ssa.Const); ok && cst.Value != nil && cst.Value.String() == "true" {
								c.flagSet = true
							}
						}
					}
				}
				ll.paths = append(ll.paths, &c)
				return
			}
			if !ll.loop.Blocks[s] {
				// leaves the loop (early return): record as a path too
				ll.paths = append(ll.paths, &c)
				return
			}
			if onPath[s] {
				return
			}
			onPath[s] = true
			walk(s, c, onPath)
			delete(onPath, s)
		}
		if ifi, ok := last.(*ssa.If); ok {
			pc := classify(ifi)
			t := cur
			pc.taken = true
			t.conds = append(append([]pathCond(nil), cur.conds...), pc)
			next(b.Succs[0], t)
			f := cur
			pc.taken = false
			f.conds = append(append([]pathCond(nil), cur.conds...), pc)
			next(b.Succs[1], f)
			return
		}
		for _, s := range b.Succs {
			next(s, cur)
		}
	}
	walk(bodyEntry, elemPath{}, map[*ssa.BasicBlock]bool{bodyEntry: true})
	return ll
}

// holds reports whether the path passed cond kind k with the condition being true
// (accounting for negation) before instruction `before` (nil = anywhere).
func (ep *elemPath) knows(kind condKind, truth bool) bool {
	for _, c := range ep.conds {
		if c.kind == kind {
			h := c.taken
			if c.neg {
				h = !h
			}
			if h == truth {
				return true
			}
		}
	}
	return false
}

// typeFact returns the type the element is known to have on this path (nil if unknown), and
// whether it is known to be the marker / nil.
func (ep *elemPath) typeFact(markerT types.Type) (t types.Type, isNil bool) {
	for _, c := range ep.conds {
		h := c.taken
		if c.neg {
			h = !h
		}
		if !h {
			continue
		}
		switch c.kind {
		case condTypeIs:
			return c.typ, false
		case condIsMarker:
			return markerT, false
		case condIsNil:
			return nil, true
		}
	}
	return nil, false
}

// markerPredicate: fn is a one-block function returning param == marker (or !=).
func markerPredicate(p *load.Program, fn *ssa.Function) (neg bool, ok bool) {
	if fn.Blocks == nil || len(fn.Blocks) != 1 || !p.InPkg(fn) {
		return false, false
	}
	ret, isRet := fn.Blocks[0].Instrs[len(fn.Blocks[0].Instrs)-1].(*ssa.Return)
	if !isRet || len(ret.Results) != 1 {
		return false, false
	}
	bo, isBo := ret.Results[0].(*ssa.BinOp)
	if !isBo || (bo.Op != token.EQL && bo.Op != token.NEQ) {
		return false, false
	}
	isMarkerV := func(v ssa.Value) bool {
		mi, ok := v.(*ssa.MakeInterface)
		if !ok {
			return false
		}
		ld, ok := mi.X.(*ssa.UnOp)
		return ok && ld.Op == token.MUL && ld.X == ssa.Value(p.Roles.Marker)
	}
	_, xp := bo.X.(*ssa.Parameter)
	_, yp := bo.Y.(*ssa.Parameter)
	if (xp && isMarkerV(bo.Y)) || (yp && isMarkerV(bo.X)) {
		return bo.Op == token.NEQ, true
	}
	return false, false
}
