package rules

import (
	"fmt"
	"go/constant"
	"go/token"
	"go/types"
	"sort"

	"golang.org/x/tools/go/ssa"

	"verif/checker/internal/cfgutil"
	"verif/checker/internal/engine"
	"verif/checker/internal/load"
	"verif/checker/internal/report"
)

func init() {
	engine.Register("L-PROGRESS", ruleLProgress)
	engine.Register("N-STANDIN", ruleNStandIn)
	engine.Register("P-ARRAYBOUND", rulePArrayBound)
	engine.Register("R-SETTER", ruleRSetter)
}

// ruleLProgress: L-PROGRESS — every loop of hand-written code can change what its exits test.
// A loop all of whose exit conditions are, from the second iteration on, computed from values
// that no longer change (values defined outside the loop, constants, header phis whose
// back-edge operands are defined outside the loop, pure operations on these) either ends within
// two iterations or never ends. Loads count as unchanging only in a loop without stores, calls
// and other effects. No loop of the confirmed tree has that shape; one that does is a loop whose
// rewrite forgot to re-bind the variable it walks (the thread then spins, in the parse phase
// while holding the parser mutex).
func ruleLProgress(c *engine.Context) *report.Rule {
	r := report.NewRule("L-PROGRESS", "every loop of hand-written code can change the values its exit conditions test", 20)
	p := c.P
	for _, fn := range p.Funcs {
		if fn.Blocks == nil || !p.InPkg(fn) {
			continue
		}
		for li, l := range cfgutil.Loops(fn) {
			r.Instances++
			// effects inside the loop
			pureLoop := true
			for b := range l.Blocks {
				for _, ins := range b.Instrs {
					switch x := ins.(type) {
					case *ssa.Store, *ssa.MapUpdate, *ssa.Send, *ssa.Go, *ssa.Defer, *ssa.Next, *ssa.Range, *ssa.Select, *ssa.RunDefers:
						pureLoop = false
					case *ssa.Call:
						if _, isBuiltin := x.Call.Value.(*ssa.Builtin); !isBuiltin {
							pureLoop = false
						} else if b := x.Call.Value.(*ssa.Builtin); b.Name() != "len" && b.Name() != "cap" {
							pureLoop = false
						}
					}
				}
			}
			memo := map[ssa.Value]bool{}
			var settled func(v ssa.Value, depth int) bool
			settled = func(v ssa.Value, depth int) bool {
				if done, ok := memo[v]; ok {
					return done
				}
				if depth > 12 {
					return false
				}
				memo[v] = false
				res := false
				switch x := v.(type) {
				case *ssa.Const, *ssa.Parameter, *ssa.FreeVar, *ssa.Global, *ssa.Function:
					res = true
				default:
					ins, isInstr := v.(ssa.Instruction)
					if !isInstr {
						break
					}
					if !l.Blocks[ins.Block()] {
						res = true
						break
					}
					switch y := x.(type) {
					case *ssa.Phi:
						if y.Block() == l.Header {
							// settled after the first iteration: every back-edge operand comes from
							// outside the loop or is itself settled without going through this phi
							res = true
							for i, pred := range y.Block().Preds {
								if !l.Blocks[pred] {
									continue
								}
								e := y.Edges[i]
								if e == ssa.Value(y) {
									continue
								}
								if ei, ok := e.(ssa.Instruction); ok && l.Blocks[ei.Block()] {
									if !settled(e, depth+1) {
										res = false
									}
								}
							}
						} else {
							// a merge inside the iteration: which edge is taken is decided by tests
							// inside the loop, so only a phi whose edges all carry one settled value is
							// settled itself
							res = len(y.Edges) > 0
							for _, e := range y.Edges {
								if e != y.Edges[0] || !settled(e, depth+1) {
									res = false
								}
							}
						}
					case *ssa.BinOp:
						res = settled(y.X, depth+1) && settled(y.Y, depth+1)
					case *ssa.UnOp:
						if y.Op == token.MUL {
							res = pureLoop && settled(y.X, depth+1)
						} else if y.Op == token.ARROW {
							res = false
						} else {
							res = settled(y.X, depth+1)
						}
					case *ssa.TypeAssert:
						res = settled(y.X, depth+1)
					case *ssa.Extract:
						res = settled(y.Tuple, depth+1)
					case *ssa.Convert:
						res = settled(y.X, depth+1)
					case *ssa.ChangeType:
						res = settled(y.X, depth+1)
					case *ssa.ChangeInterface:
						res = settled(y.X, depth+1)
					case *ssa.MakeInterface:
						res = settled(y.X, depth+1)
					case *ssa.FieldAddr:
						res = settled(y.X, depth+1)
					case *ssa.Field:
						res = settled(y.X, depth+1)
					case *ssa.IndexAddr:
						res = settled(y.X, depth+1) && settled(y.Index, depth+1)
					case *ssa.Index:
						res = settled(y.X, depth+1) && settled(y.Index, depth+1)
					case *ssa.Lookup:
						res = pureLoop && settled(y.X, depth+1) && settled(y.Index, depth+1)
					case *ssa.Slice:
						res = settled(y.X, depth+1) && (y.Low == nil || settled(y.Low, depth+1)) && (y.High == nil || settled(y.High, depth+1))
					case *ssa.Call:
						if b, isBuiltin := y.Call.Value.(*ssa.Builtin); isBuiltin && (b.Name() == "len" || b.Name() == "cap") {
							res = settled(y.Call.Args[0], depth+1)
						}
					}
				}
				memo[v] = res
				return res
			}
			// exits: conditional edges leaving the loop; a return, panic or other way out inside the
			// loop body counts as an exit we cannot judge
			judged, allSettled := 0, true
			var at ssa.Instruction
			for b := range l.Blocks {
				last := b.Instrs[len(b.Instrs)-1]
				leaves := false
				for _, s := range b.Succs {
					if !l.Blocks[s] {
						leaves = true
					}
				}
				switch x := last.(type) {
				case *ssa.If:
					if leaves {
						judged++
						if !settled(x.Cond, 0) || settlesOnExit(l, x) {
							allSettled = false
						} else if at == nil {
							at = x
						}
					}
				case *ssa.Return, *ssa.Panic:
					// reached only through conditional edges inside the loop, which are not exits by
					// themselves; the block is in the loop only if control can come back, which a
					// return cannot: not part of a natural loop
				default:
					if leaves {
						allSettled = false
					}
				}
			}
			ok := judged == 0 || !allSettled
			if judged == 0 {
				// `for {}` without conditional exit: an endless loop on purpose is not in this tree
				ok = false
				for b := range l.Blocks {
					for _, ins := range b.Instrs {
						if _, isCall := ins.(ssa.CallInstruction); isCall {
							ok = true // may panic or block: not judged here
						}
					}
				}
			}
			r.Oblige(ok)
			if li == 0 && len(r.Samples) < 6 {
				r.Sample("%s: first loop has an exit condition that can change between iterations: %v", load.FuncName(fn), ok)
			}
			if !ok {
				pos := p.RelPos(fn.Pos())
				if at != nil {
					pos = p.RelPos(at.Pos())
				} else if l.Header != nil && len(l.Header.Instrs) > 0 {
					pos = p.RelPos(l.Header.Instrs[0].Pos())
				}
				r.Violation(fmt.Sprintf("loop #%d in %s cannot change its exit condition", li+1, load.FuncName(fn)), pos,
					"from the second iteration on every exit condition of this loop is computed from values that no longer change (the variable the loop walks is not re-bound inside it): the loop ends within two iterations or never; in the parse phase a spinning loop also keeps the parser mutex, so every later Parse blocks")
			}
		}
	}
	return r
}

// settlesOnExit: the exit condition is a header phi (possibly negated) whose back-edge operands
// are boolean constants that all send control out of the loop: a run-once / run-until-flag loop
// (`for again := true; again; again = false`), which ends on its second test.
func settlesOnExit(l *cfgutil.Loop, ifi *ssa.If) bool {
	cond, neg := unwrapNot(ifi.Cond)
	ph, ok := cond.(*ssa.Phi)
	if !ok || ph.Block() != l.Header {
		return false
	}
	b := ifi.Block()
	if len(b.Succs) != 2 {
		return false
	}
	n := 0
	for i, pred := range ph.Block().Preds {
		if !l.Blocks[pred] {
			continue
		}
		c, isC := ph.Edges[i].(*ssa.Const)
		if !isC || c.Value == nil || c.Value.Kind() != constant.Bool {
			return false
		}
		truth := constant.BoolVal(c.Value) != neg
		next := b.Succs[1]
		if truth {
			next = b.Succs[0]
		}
		if l.Blocks[next] {
			return false
		}
		n++
	}
	return n > 0
}

// ruleNStandIn: N-STANDIN — a node that carries an optional part by value (a struct field that
// is itself a step: it embeds the basic node by pointer, so its zero value cannot be evaluated)
// touches that part under one and the same guard everywhere. The sites are compared with each
// other (the guard that most sites use is the reference): the place that builds the part, the
// places that forward texts, modes and successors to it, and the place that evaluates it. A site
// that uses another test reaches the part when it was never built (nil dereference during
// evaluation or parsing) or skips it when it exists.
func ruleNStandIn(c *engine.Context) *report.Rule {
	r := report.NewRule("N-STANDIN", "an optional by-value part of a node is built, updated and evaluated under one and the same guard", 5)
	p := c.P
	nodePtr := func(t types.Type) bool {
		st, ok := t.Underlying().(*types.Struct)
		if !ok {
			return false
		}
		for i := 0; i < st.NumFields(); i++ {
			f := st.Field(i)
			if _, isPtr := f.Type().(*types.Pointer); isPtr && f.Embedded() {
				return true
			}
		}
		return false
	}
	type site struct {
		fn    *ssa.Function
		fa    *ssa.FieldAddr
		guard string
	}
	type key struct {
		T *types.Named
		F int
	}
	sites := map[key][]*site{}
	for _, fn := range p.Funcs {
		if fn.Blocks == nil || !p.InPkg(fn) || p.FuncIsGenerated(fn) {
			continue
		}
		for _, b := range fn.Blocks {
			for _, ins := range b.Instrs {
				fa, ok := ins.(*ssa.FieldAddr)
				if !ok {
					continue
				}
				pt, ok := fa.X.Type().Underlying().(*types.Pointer)
				if !ok {
					continue
				}
				T, ok := pt.Elem().(*types.Named)
				if !ok || T.Obj().Pkg() != p.Types {
					continue
				}
				st, ok := T.Underlying().(*types.Struct)
				if !ok || fa.Field >= st.NumFields() {
					continue
				}
				ft := st.Field(fa.Field).Type()
				if _, isNamed := ft.(*types.Named); !isNamed || !nodePtr(ft) || st.Field(fa.Field).Embedded() {
					continue
				}
				// the part is touched where the address is used, not where it is computed
				// (`standIn := &node.part` may stand before the test)
				var uses []ssa.Instruction
				for _, ref := range *fa.Referrers() {
					if sto, ok := ref.(*ssa.Store); ok && sto.Addr == ssa.Value(fa) && isZeroStruct(sto.Val) {
						continue // a store of the zero value clears the part: allowed anywhere
					}
					if _, isDbg := ref.(*ssa.DebugRef); isDbg {
						continue
					}
					uses = append(uses, ref)
				}
				seenGuard := map[string]bool{}
				for _, u := range uses {
					g := standInGuard(fa, u.Block())
					if seenGuard[g] {
						continue
					}
					seenGuard[g] = true
					sites[key{T, fa.Field}] = append(sites[key{T, fa.Field}], &site{fn: fn, fa: fa, guard: g})
				}
			}
		}
	}
	var keys []key
	for k := range sites {
		keys = append(keys, k)
	}
	sort.Slice(keys, func(i, j int) bool {
		if keys[i].T.Obj().Name() != keys[j].T.Obj().Name() {
			return keys[i].T.Obj().Name() < keys[j].T.Obj().Name()
		}
		return keys[i].F < keys[j].F
	})
	for _, k := range keys {
		ss := sites[k]
		count := map[string]int{}
		for _, s := range ss {
			count[s.guard]++
		}
		ref, best := "", 0
		var gs []string
		for g := range count {
			gs = append(gs, g)
		}
		sort.Strings(gs)
		for _, g := range gs {
			if g != "" && count[g] > best {
				ref, best = g, count[g]
			}
		}
		fname := k.T.Underlying().(*types.Struct).Field(k.F).Name()
		if ref == "" || best < 2 {
			// a part that is always present (never guarded): nothing to compare
			continue
		}
		r.Sample("%s.%s: %d sites, reference guard %s", k.T.Obj().Name(), fname, len(ss), ref)
		for _, s := range ss {
			r.Instances++
			ok := s.guard == ref
			r.Oblige(ok)
			if !ok {
				g := s.guard
				if g == "" {
					g = "no test of the node's own fields"
				}
				r.Violation(fmt.Sprintf("optional part %s.%s used in %s under another guard", k.T.Obj().Name(), fname, load.FuncName(s.fn)), p.RelPos(s.fa.Pos()),
					"%s reaches the by-value part %s of a %s under [%s]; the other %d sites (where it is built, updated and evaluated) use [%s]. Under the other test the part is reached when it was never built — its embedded node is nil, the access panics — or skipped when it exists",
					load.FuncName(s.fn), fname, k.T.Obj().Name(), g, best, ref)
			}
		}
	}
	return r
}

func isZeroStruct(v ssa.Value) bool {
	switch x := v.(type) {
	case *ssa.Const:
		return x.Value == nil
	case *ssa.UnOp:
		if x.Op == token.MUL {
			if al, ok := x.X.(*ssa.Alloc); ok {
				// a composite literal without elements: a fresh cell nothing is stored into
				for _, ref := range *al.Referrers() {
					switch y := ref.(type) {
					case *ssa.Store:
						if y.Addr == ssa.Value(al) {
							return false
						}
					case *ssa.FieldAddr, *ssa.IndexAddr, *ssa.Call:
						return false
					}
				}
				return true
			}
		}
	}
	return false
}

// standInGuard: the tests of scalar fields of the same object that hold whenever fa executes,
// in a canonical spelling.
func standInGuard(fa *ssa.FieldAddr, at *ssa.BasicBlock) string {
	base := fa.X
	// a local that was stored into a scalar field of the same object stands for that field
	storedInto := map[ssa.Value]string{}
	for _, b := range fa.Parent().Blocks {
		for _, ins := range b.Instrs {
			st, ok := ins.(*ssa.Store)
			if !ok {
				continue
			}
			f2, ok := st.Addr.(*ssa.FieldAddr)
			if !ok || f2.X != base {
				continue
			}
			stt := f2.X.Type().Underlying().(*types.Pointer).Elem().Underlying().(*types.Struct)
			if _, isBasic := stt.Field(f2.Field).Type().Underlying().(*types.Basic); isBasic {
				storedInto[st.Val] = stt.Field(f2.Field).Name()
			}
		}
	}
	var parts []string
	for _, dc := range dominatingConds(at) {
		cond, neg := unwrapNot(dc.cond)
		truth := dc.taken != neg
		desc := ""
		fieldOf := func(v ssa.Value) (string, bool) {
			if name, ok := storedInto[v]; ok {
				return name, true
			}
			ld, ok := v.(*ssa.UnOp)
			if !ok || ld.Op != token.MUL {
				return "", false
			}
			f2, ok := ld.X.(*ssa.FieldAddr)
			if !ok || f2.X != base {
				return "", false
			}
			st := f2.X.Type().Underlying().(*types.Pointer).Elem().Underlying().(*types.Struct)
			if _, isBasic := st.Field(f2.Field).Type().Underlying().(*types.Basic); !isBasic {
				return "", false
			}
			return st.Field(f2.Field).Name(), true
		}
		constOf := func(v ssa.Value) (string, bool) {
			c, ok := v.(*ssa.Const)
			if !ok || c.Value == nil {
				return "", false
			}
			if c.Value.Kind() == constant.Bool || c.Value.Kind() == constant.Int {
				return c.Value.ExactString(), true
			}
			return "", false
		}
		if name, ok := fieldOf(cond); ok {
			desc = fmt.Sprintf("%s==%v", name, truth)
		} else if bo, ok := cond.(*ssa.BinOp); ok && (bo.Op == token.EQL || bo.Op == token.NEQ) {
			x, y := bo.X, bo.Y
			if _, isC := x.(*ssa.Const); isC {
				x, y = y, x
			}
			cv, isC := constOf(y)
			if !isC {
				continue
			}
			eq := (bo.Op == token.EQL) == truth
			op := "=="
			if !eq {
				op = "!="
			}
			if name, ok := fieldOf(x); ok {
				desc = name + op + cv
			} else if and, ok := x.(*ssa.BinOp); ok && and.Op == token.AND {
				ax, ay := and.X, and.Y
				if _, isC := ax.(*ssa.Const); isC {
					ax, ay = ay, ax
				}
				if name, ok := fieldOf(ax); ok {
					if mv, ok := constOf(ay); ok {
						desc = name + "&" + mv + op + cv
					}
				}
			}
		}
		if desc != "" {
			parts = append(parts, desc)
		}
	}
	sort.Strings(parts)
	out := ""
	for i, s := range parts {
		if i > 0 && parts[i-1] == s {
			continue
		}
		if out != "" {
			out += " && "
		}
		out += s
	}
	return out
}

// rulePArrayBound: P-ARRAYBOUND — in hand-written code an index into a fixed-size array that is
// not a constant is shown to be smaller than the array's length by the tests that dominate it
// (a comparison with a constant no larger than the length, a mask, a shift of a byte, or the
// index type's own range). The confirmed tree indexes arrays by constants only; a lookup table
// introduced later must come with its range test, off by one included.
func rulePArrayBound(c *engine.Context) *report.Rule {
	r := report.NewRule("P-ARRAYBOUND", "a computed index into a fixed-size array is bounded by the array's length", 0)
	p := c.P
	for _, fn := range p.Funcs {
		if fn.Blocks == nil || !p.InPkg(fn) || (p.FuncIsGenerated(fn) && fn.Name() != "Execute") {
			continue // the generated engine is compared as boilerplate (TV-ENGINE); Execute holds the actions and whatever was expanded into them
		}
		for _, b := range fn.Blocks {
			for _, ins := range b.Instrs {
				var xs, idx ssa.Value
				switch x := ins.(type) {
				case *ssa.IndexAddr:
					xs, idx = x.X, x.Index
				case *ssa.Index:
					xs, idx = x.X, x.Index
				default:
					continue
				}
				t := xs.Type().Underlying()
				if pt, ok := t.(*types.Pointer); ok {
					t = pt.Elem().Underlying()
				}
				arr, ok := t.(*types.Array)
				if !ok {
					continue
				}
				if _, isC := idx.(*ssa.Const); isC {
					continue // the compiler checks constant indexes
				}
				r.Instances++
				ub, known := upperBound(idx, b, 0)
				if eb, isEnum := closedEnumBound(p, idx.Type()); isEnum && (!known || eb < ub) {
					ub, known = eb, true
				}
				ok = known && ub < arr.Len()
				r.Oblige(ok)
				r.Sample("%s: index into [%d]%s bounded by %d (known=%v)", load.FuncName(fn), arr.Len(), tname(arr.Elem()), ub, known)
				if !ok {
					what := "no upper bound is established"
					if known {
						what = fmt.Sprintf("the largest value the tests allow is %d", ub)
					}
					r.Violation(fmt.Sprintf("array index in %s may reach the array's length", load.FuncName(fn)), p.RelPos(ins.Pos()),
						"an array of %d elements is indexed with a computed value and %s: for that value the access panics with index out of range (a parse of text containing such a byte then fails for one spelling of a name only)", arr.Len(), what)
				}
			}
		}
	}
	return r
}

// closedEnumBound: t is a named integer type of the package whose values are only ever its
// declared constants (no conversion from a computed integer, no arithmetic yields the type);
// the bound is the largest constant.
func closedEnumBound(p *load.Program, t types.Type) (int64, bool) {
	nt, ok := t.(*types.Named)
	if !ok || nt.Obj().Pkg() != p.Types {
		return 0, false
	}
	bt, ok := nt.Underlying().(*types.Basic)
	if !ok || bt.Info()&types.IsInteger == 0 {
		return 0, false
	}
	max, n := int64(0), 0
	for _, name := range p.Types.Scope().Names() {
		c, ok := p.Types.Scope().Lookup(name).(*types.Const)
		if !ok || !types.Identical(c.Type(), nt) {
			continue
		}
		iv := constant.ToInt(c.Val())
		if iv.Kind() != constant.Int {
			return 0, false
		}
		v, exact := constant.Int64Val(iv)
		if !exact || v < 0 {
			return 0, false
		}
		if v > max {
			max = v
		}
		n++
	}
	if n == 0 {
		return 0, false
	}
	for _, fn := range p.Funcs {
		for _, b := range fn.Blocks {
			for _, ins := range b.Instrs {
				v, isVal := ins.(ssa.Value)
				if !isVal {
					continue
				}
				if vt, isNamed := v.Type().(*types.Named); !isNamed || vt.Obj() != nt.Obj() {
					continue
				}
				switch x := ins.(type) {
				case *ssa.Convert:
					if _, isC := x.X.(*ssa.Const); !isC {
						return 0, false
					}
				case *ssa.ChangeType:
					if _, isC := x.X.(*ssa.Const); !isC {
						return 0, false
					}
				case *ssa.BinOp:
					return 0, false
				case *ssa.UnOp:
					if x.Op != token.MUL {
						return 0, false
					}
				}
			}
		}
	}
	return max, true
}

// upperBound: the largest value v can have when control is in block at (inclusive).
func upperBound(v ssa.Value, at *ssa.BasicBlock, depth int) (int64, bool) {
	if depth > 6 {
		return 0, false
	}
	if c, ok := cfgutil.ConstInt(v); ok {
		return c, true
	}
	best, have := int64(0), false
	note := func(b int64) {
		if !have || b < best {
			best, have = b, true
		}
	}
	// the type's own range
	if bt, ok := v.Type().Underlying().(*types.Basic); ok {
		switch bt.Kind() {
		case types.Uint8:
			note(255)
		case types.Uint16:
			note(65535)
		case types.Bool:
		}
	}
	switch x := v.(type) {
	case *ssa.Convert:
		if bt, ok := x.X.Type().Underlying().(*types.Basic); ok && bt.Info()&types.IsInteger != 0 {
			if bt.Info()&types.IsUnsigned != 0 || true {
				if ub, ok := upperBound(x.X, at, depth+1); ok {
					// widening or same-size conversion of a non-negative bounded value keeps the bound
					if bt.Info()&types.IsUnsigned != 0 {
						note(ub)
					}
				}
			}
		}
	case *ssa.ChangeType:
		if ub, ok := upperBound(x.X, at, depth+1); ok {
			note(ub)
		}
	case *ssa.BinOp:
		switch x.Op {
		case token.AND:
			if m, ok := cfgutil.ConstInt(x.Y); ok && m >= 0 {
				note(m)
			}
			if m, ok := cfgutil.ConstInt(x.X); ok && m >= 0 {
				note(m)
			}
		case token.SHR:
			if s, ok := cfgutil.ConstInt(x.Y); ok && s >= 0 && s < 63 {
				if ub, ok := upperBound(x.X, at, depth+1); ok {
					note(ub >> uint(s))
				}
			}
		case token.REM:
			if m, ok := cfgutil.ConstInt(x.Y); ok && m > 0 {
				note(m - 1)
			}
		}
	case *ssa.Phi:
		all, worst := true, int64(0)
		for _, e := range x.Edges {
			if e == ssa.Value(x) {
				continue
			}
			ub, ok := upperBound(e, at, depth+1)
			if !ok {
				all = false
				break
			}
			if ub > worst {
				worst = ub
			}
		}
		if all {
			note(worst)
		}
	}
	// tests that dominate the use
	same := func(a ssa.Value) bool {
		if a == v {
			return true
		}
		// the same quantity before / after an integer conversion
		if cv, ok := v.(*ssa.Convert); ok && cv.X == a {
			return true
		}
		if ca, ok := a.(*ssa.Convert); ok && ca.X == v {
			return true
		}
		if cv, ok := v.(*ssa.Convert); ok {
			if ca, ok := a.(*ssa.Convert); ok && ca.X == cv.X {
				return true
			}
		}
		return false
	}
	for _, dc := range dominatingConds(at) {
		cond, neg := unwrapNot(dc.cond)
		bo, ok := cond.(*ssa.BinOp)
		if !ok {
			continue
		}
		truth := dc.taken != neg
		op, x, y := bo.Op, bo.X, bo.Y
		if _, isC := cfgutil.ConstInt(x); isC {
			x, y = y, x
			op = mirrorOp(op)
		}
		k, isC := cfgutil.ConstInt(y)
		if !isC || !same(x) {
			continue
		}
		if !truth {
			switch op {
			case token.LSS:
				op = token.GEQ
			case token.LEQ:
				op = token.GTR
			case token.GTR:
				op = token.LEQ
			case token.GEQ:
				op = token.LSS
			case token.EQL:
				op = token.NEQ
			case token.NEQ:
				op = token.EQL
			}
		}
		switch op {
		case token.LSS:
			note(k - 1)
		case token.LEQ, token.EQL:
			note(k)
		}
	}
	return best, have
}

// ruleRSetter: R-SETTER — every exported method of the configuration type writes one setting:
// stores through the receiver go to a single field (and to what that field refers to); the
// receiver is never overwritten as a whole, and no second field is reset on the way. A setter
// that re-creates the settings to make room for its own entry loses what an earlier setter
// stored.
func ruleRSetter(c *engine.Context) *report.Rule {
	r := report.NewRule("R-SETTER", "every configuration setter writes one setting and leaves the others alone", 3)
	p := c.P
	cfg := p.Roles.Config
	if cfg == nil {
		r.InfraFail("anchor unresolved: configuration type")
		return r
	}
	for _, fn := range p.Funcs {
		if fn.Blocks == nil || !p.InPkg(fn) || fn.Signature.Recv() == nil || fn.Object() == nil || !fn.Object().Exported() {
			continue
		}
		pt, ok := fn.Signature.Recv().Type().(*types.Pointer)
		if !ok || !types.Identical(pt.Elem(), cfg) || len(fn.Params) == 0 {
			continue
		}
		recv := fn.Params[0]
		fields := map[string]bool{}
		whole := false
		var at ssa.Instruction
		for _, b := range fn.Blocks {
			for _, ins := range b.Instrs {
				st, ok := ins.(*ssa.Store)
				if !ok {
					continue
				}
				// the path from the receiver to the stored address, by-value fields only
				addr := st.Addr
				var path []string
				for {
					fa, ok := addr.(*ssa.FieldAddr)
					if !ok {
						break
					}
					stt := fa.X.Type().Underlying().(*types.Pointer).Elem().Underlying().(*types.Struct)
					path = append([]string{stt.Field(fa.Field).Name()}, path...)
					addr = fa.X
				}
				if addr != ssa.Value(recv) {
					continue
				}
				if len(path) == 0 {
					whole, at = true, st
					continue
				}
				// a by-value struct field overwritten as a whole counts for all its members
				if _, isStruct := st.Val.Type().Underlying().(*types.Struct); isStruct {
					whole, at = true, st
					continue
				}
				fields[path[len(path)-1]] = true
				if at == nil {
					at = st
				}
			}
		}
		r.Instances++
		ok = !whole && len(fields) <= 1
		r.Oblige(ok)
		r.Sample("%s writes %d field(s) of its receiver, the receiver as a whole: %v", load.FuncName(fn), len(fields), whole)
		if !ok {
			var fs []string
			for f := range fields {
				fs = append(fs, f)
			}
			sort.Strings(fs)
			pos := p.RelPos(fn.Pos())
			if at != nil {
				pos = p.RelPos(at.Pos())
			}
			r.Violation("setter "+load.FuncName(fn)+" writes more than its own setting", pos,
				"%s overwrites the configuration (or a group of settings held by value) as a whole, or writes several settings %v: a setting stored by an earlier call of another setter is lost, so the same Config gives different results depending on the order of the setter calls", load.FuncName(fn), fs)
		}
	}
	return r
}

func init() {
	engine.Register("N-DEEPRULE", ruleNDeepRule)
}

// ruleNDeepRule: N-DEEPRULE — the helper that decides which of two branch errors survives
// implements the documented rule on every combination of its inputs: the new error replaces the
// recorded one exactly when nothing is recorded yet (recorded length 0), when the recorded
// error's connected text is longer than the new one's, or when the lengths are equal and the
// recorded error is a type mismatch (a type mismatch gives way to any other error at the same
// depth). The helper's paths are enumerated; for each
// of the ten input classes (nothing recorded; recorded shorter / equal / longer × recorded kind
// type-mismatch / member-missing / function-failed) the path whose conditions hold is found by
// evaluating its tests on a representative, and its outcome is compared with the rule. This is
// the decision table of one small function, not an execution of the library.
func ruleNDeepRule(c *engine.Context) *report.Rule {
	r := report.NewRule("N-DEEPRULE", "the deepest-error helper keeps or replaces the recorded error as the documented rule says, for every class of inputs", 10)
	p := c.P
	isPtrTo := func(t types.Type, elem func(types.Type) bool) bool {
		pt, ok := t.(*types.Pointer)
		return ok && elem(pt.Elem())
	}
	isRtErr := func(t types.Type) bool { return types.Identical(t, p.Roles.RuntimeErrIface) }
	var helper *ssa.Function
	byPointer := false
	for _, fn := range evalFuncs(c) {
		if sinkParam(p, fn) != nil {
			continue
		}
		res := fn.Signature.Results()
		nErr, nInt, nPErr, nPInt := 0, 0, 0, 0
		for _, prm := range fn.Params {
			switch {
			case isRtErr(prm.Type()):
				nErr++
			case isIntT(prm.Type()):
				nInt++
			case isPtrTo(prm.Type(), isRtErr):
				nPErr++
			case isPtrTo(prm.Type(), isIntT):
				nPInt++
			}
		}
		byValue := res.Len() == 2 && isIntT(res.At(0).Type()) && isRtErr(res.At(1).Type()) && nErr == 2 && nInt == 1
		byPtr := res.Len() == 0 && nErr == 1 && nPErr == 1 && nPInt == 1
		if byValue || byPtr {
			if helper != nil {
				r.InfraFail("anchor ambiguous: deepest-error helper (%s, %s)", helper.Name(), fn.Name())
				return r
			}
			helper, byPointer = fn, byPtr
		}
	}
	if helper == nil {
		// the rule is about the helper's decision table; call sites that accumulate errors
		// without one are N-DEEPEST's business
		r.InfraFail("anchor unresolved: deepest-error helper")
		return r
	}
	// roles of the parameters
	var newErr, curErr, curLen, pErr, pLen *ssa.Parameter
	for _, prm := range helper.Params {
		switch {
		case isRtErr(prm.Type()):
			invoked := false
			for _, ref := range *prm.Referrers() {
				if call, ok := ref.(*ssa.Call); ok && call.Call.IsInvoke() && call.Call.Value == ssa.Value(prm) {
					invoked = true
				}
			}
			if invoked && newErr == nil {
				newErr = prm
			} else {
				curErr = prm
			}
		case isIntT(prm.Type()):
			curLen = prm
		case isPtrTo(prm.Type(), isRtErr):
			pErr = prm
		case isPtrTo(prm.Type(), isIntT):
			pLen = prm
		}
	}
	if newErr == nil || (!byPointer && (curErr == nil || curLen == nil)) || (byPointer && (pErr == nil || pLen == nil)) {
		r.InfraFail("anchor unresolved: roles of the deepest-error helper's parameters")
		return r
	}
	var lenCall *ssa.Call
	nlen := 0
	for _, b := range helper.Blocks {
		for _, ins := range b.Instrs {
			if call, ok := ins.(*ssa.Call); ok {
				if bi, ok := call.Call.Value.(*ssa.Builtin); ok && bi.Name() == "len" {
					lenCall = call
					nlen++
				}
			}
		}
	}
	if nlen != 1 {
		r.InfraFail("anchor unresolved: the new error's text length in the deepest-error helper (found %d len calls)", nlen)
		return r
	}
	var mismatch *types.Named
	for _, k := range p.Roles.RuntimeErrTypes {
		if k.Obj().Name() == "ErrorTypeUnmatched" { // exported API name
			mismatch = k
		}
	}
	if mismatch == nil {
		r.InfraFail("anchor unresolved: type-mismatch error type")
		return r
	}
	type row struct {
		d    int64
		kind types.Type // nil: nothing recorded
		name string
	}
	const t = 5
	var rows []row
	rows = append(rows, row{0, nil, "nothing recorded"})
	for _, k := range p.Roles.RuntimeErrTypes {
		for _, d := range []struct {
			v int64
			n string
		}{{3, "recorded text shorter"}, {5, "same length"}, {7, "recorded text longer"}} {
			rows = append(rows, row{d.v, k, d.n + ", recorded " + k.Obj().Name()})
		}
	}
	paths, complete := enumPaths(helper, 512)
	if !complete {
		r.InfraFail("the deepest-error helper has too many paths to enumerate")
		return r
	}
	isCurLoad := func(v ssa.Value) (isLen, isErr bool) {
		if ld, ok := v.(*ssa.UnOp); ok && ld.Op == token.MUL {
			if pLen != nil && ld.X == ssa.Value(pLen) {
				return true, false
			}
			if pErr != nil && ld.X == ssa.Value(pErr) {
				return false, true
			}
		}
		return false, false
	}
	for _, rw := range rows {
		r.Instances++
		var problem string
		var evalInt func(fp *fnPath, v ssa.Value, depth int) (int64, bool)
		var evalBool func(fp *fnPath, v ssa.Value, depth int) (bool, bool)
		isCur := func(v ssa.Value) bool {
			if curErr != nil && v == ssa.Value(curErr) {
				return true
			}
			_, e := isCurLoad(v)
			return e
		}
		evalInt = func(fp *fnPath, v ssa.Value, depth int) (int64, bool) {
			if depth > 10 {
				return 0, false
			}
			v = fp.resolve(v)
			if cv, ok := cfgutil.ConstInt(v); ok {
				return cv, true
			}
			if curLen != nil && v == ssa.Value(curLen) {
				return rw.d, true
			}
			if l, _ := isCurLoad(v); l {
				return rw.d, true
			}
			if v == ssa.Value(lenCall) {
				return t, true
			}
			if bo, ok := v.(*ssa.BinOp); ok {
				x, ok1 := evalInt(fp, bo.X, depth+1)
				y, ok2 := evalInt(fp, bo.Y, depth+1)
				if ok1 && ok2 {
					switch bo.Op {
					case token.ADD:
						return x + y, true
					case token.SUB:
						return x - y, true
					}
				}
			}
			if cv, ok := v.(*ssa.Convert); ok {
				return evalInt(fp, cv.X, depth+1)
			}
			return 0, false
		}
		evalBool = func(fp *fnPath, v ssa.Value, depth int) (bool, bool) {
			if depth > 10 {
				return false, false
			}
			v = fp.resolve(v)
			switch x := v.(type) {
			case *ssa.Const:
				if x.Value != nil && x.Value.Kind() == constant.Bool {
					return constant.BoolVal(x.Value), true
				}
			case *ssa.UnOp:
				if x.Op == token.NOT {
					b, ok := evalBool(fp, x.X, depth+1)
					return !b, ok
				}
			case *ssa.Extract:
				if ta, ok := x.Tuple.(*ssa.TypeAssert); ok && ta.CommaOk && x.Index == 1 && isCur(fp.resolve(ta.X)) {
					if rw.kind == nil {
						return false, true
					}
					if types.IsInterface(ta.AssertedType) {
						return types.Implements(rw.kind, ta.AssertedType.Underlying().(*types.Interface)), true
					}
					return types.Identical(ta.AssertedType, rw.kind), true
				}
			case *ssa.Call:
				// a predicate of the package that is nothing but a type test of its argument
				if sc := x.Call.StaticCallee(); sc != nil && p.InPkg(sc) && len(sc.Blocks) == 1 && len(x.Call.Args) >= 1 {
					if ret, ok := sc.Blocks[0].Instrs[len(sc.Blocks[0].Instrs)-1].(*ssa.Return); ok && len(ret.Results) == 1 {
						if ex, ok := ret.Results[0].(*ssa.Extract); ok && ex.Index == 1 {
							if ta, ok := ex.Tuple.(*ssa.TypeAssert); ok && ta.CommaOk {
								for i, prm := range sc.Params {
									if ta.X == ssa.Value(prm) && i < len(x.Call.Args) && isCur(fp.resolve(x.Call.Args[i])) {
										if rw.kind == nil {
											return false, true
										}
										return types.Identical(ta.AssertedType, rw.kind), true
									}
								}
							}
						}
					}
				}
			case *ssa.BinOp:
				switch x.Op {
				case token.EQL, token.NEQ, token.LSS, token.LEQ, token.GTR, token.GEQ:
					// the new error is never nil where the helper is called
					if x.X == ssa.Value(newErr) && isNilConstV(x.Y) || x.Y == ssa.Value(newErr) && isNilConstV(x.X) {
						if x.Op == token.EQL {
							return false, true
						}
						if x.Op == token.NEQ {
							return true, true
						}
					}
					// nil tests of the recorded error
					if isCur(fp.resolve(x.X)) && isNilConstV(x.Y) || isCur(fp.resolve(x.Y)) && isNilConstV(x.X) {
						isNil := rw.kind == nil
						if x.Op == token.EQL {
							return isNil, true
						}
						if x.Op == token.NEQ {
							return !isNil, true
						}
					}
					a, ok1 := evalInt(fp, x.X, depth+1)
					b, ok2 := evalInt(fp, x.Y, depth+1)
					if ok1 && ok2 {
						switch x.Op {
						case token.EQL:
							return a == b, true
						case token.NEQ:
							return a != b, true
						case token.LSS:
							return a < b, true
						case token.LEQ:
							return a <= b, true
						case token.GTR:
							return a > b, true
						case token.GEQ:
							return a >= b, true
						}
					}
					// booleans compared
					p1, ok1 := evalBool(fp, x.X, depth+1)
					p2, ok2 := evalBool(fp, x.Y, depth+1)
					if ok1 && ok2 && (x.Op == token.EQL || x.Op == token.NEQ) {
						return (p1 == p2) == (x.Op == token.EQL), true
					}
				case token.OR, token.AND:
					p1, ok1 := evalBool(fp, x.X, depth+1)
					p2, ok2 := evalBool(fp, x.Y, depth+1)
					if ok1 && ok2 {
						if x.Op == token.OR {
							return p1 || p2, true
						}
						return p1 && p2, true
					}
				}
			}
			return false, false
		}
		var chosen *fnPath
		for _, fp := range paths {
			if _, isRet := fp.exit.(*ssa.Return); !isRet {
				continue
			}
			holds := true
			for _, ec := range fp.conds {
				b, ok := evalBool(fp, ec.cond, 0)
				if !ok {
					problem = "a test that is neither a comparison of the recorded length, the new text's length and constants nor a type test of the recorded error: " + condText(ec.cond)
					holds = false
					break
				}
				if b != ec.taken {
					holds = false
					break
				}
			}
			if holds {
				chosen = fp
				break
			}
		}
		if chosen == nil {
			r.Oblige(false)
			if problem == "" {
				problem = "no path of the helper is taken for this class (it panics or its tests contradict each other)"
			}
			r.Undischarged(fmt.Sprintf("deepest-error helper %s, class [%s]", load.FuncName(helper), rw.name), p.RelPos(helper.Pos()), "%s", problem)
			continue
		}
		// outcome on that path
		replaced, known := false, false
		if !byPointer {
			ret := chosen.exit.(*ssa.Return)
			if len(ret.Results) == 2 {
				switch chosen.resolve(ret.Results[1]) {
				case ssa.Value(newErr):
					replaced, known = true, true
				case ssa.Value(curErr):
					replaced, known = false, true
				}
				// the length that goes with it
				if known {
					lv, ok := evalInt(chosen, ret.Results[0], 0)
					want := rw.d
					if replaced {
						want = t
					}
					if !ok || lv != want {
						known = false
					}
				}
			}
		} else {
			known = true
			errStored := false
			lenFinal := rw.d
			for _, b := range chosen.blocks {
				for _, ins := range b.Instrs {
					st, ok := ins.(*ssa.Store)
					if !ok {
						continue
					}
					switch st.Addr {
					case ssa.Value(pErr):
						if chosen.resolve(st.Val) == ssa.Value(newErr) {
							errStored = true
						} else {
							known = false
						}
					case ssa.Value(pLen):
						if lv, ok := evalInt(chosen, st.Val, 0); ok {
							lenFinal = lv
						} else {
							known = false
						}
					}
				}
			}
			replaced = errStored
			// the recorded length that goes with the surviving error
			wantLen := rw.d
			if replaced {
				wantLen = t
			}
			if lenFinal != wantLen {
				known = false
			}
		}
		want := rw.d == 0 || rw.d > t || (rw.d == t && rw.kind != nil && types.Identical(rw.kind, mismatch))
		ok := known && replaced == want
		r.Oblige(ok)
		if len(r.Samples) < 4 {
			r.Sample("%s, class [%s]: replaces=%v, rule says %v", load.FuncName(helper), rw.name, replaced, want)
		}
		if !ok {
			what := fmt.Sprintf("the helper %s the recorded error, the rule says it must %s it", map[bool]string{true: "replaces", false: "keeps"}[replaced], map[bool]string{true: "replace", false: "keep"}[want])
			if !known {
				what = "the helper returns / stores a pair that is neither (new length, new error) nor (recorded length, recorded error)"
			}
			r.Violation(fmt.Sprintf("deepest-error rule broken in %s for class [%s]", load.FuncName(helper), rw.name), p.RelPos(helper.Pos()),
				"%s: with several failing branches the error reported is then not the one of the step that got furthest (or not of the preferred kind at equal depth)", what)
		}
	}
	return r
}
