package rules

import (
	"fmt"
	"go/token"
	"go/types"
	"sort"
	"strings"
	"verif/checker/internal/cfgutil"

	"golang.org/x/tools/go/ssa"

	"verif/checker/internal/engine"
	"verif/checker/internal/load"
	"verif/checker/internal/peg"
	"verif/checker/internal/report"
)

func init() {
	engine.Register("N-ENTRY", ruleNEntry)
	engine.Register("R-ERR-PURE", ruleErrPure)
	engine.Register("P-NILRET", rulePNilRet)
	engine.Register("V-PARAM-ALWAYS", ruleVParamAlways)
	engine.Register("N-APPLY", ruleNApply)
	engine.Register("N-DELEGATE", ruleNDelegate)
	engine.Register("W-QUOTES", ruleWQuotes)
}

// generatedMethod returns the call of the generated parser's method `name` in fn (static callee
// declared in the generated file, receiver the parser type).
func generatedCalls(p *load.Program, fn *ssa.Function, name string) []*ssa.Call {
	var out []*ssa.Call
	for _, b := range fn.Blocks {
		for _, ins := range b.Instrs {
			if call, ok := ins.(*ssa.Call); ok {
				if sc := call.Call.StaticCallee(); sc != nil && sc.Name() == name && p.FuncIsGenerated(sc) {
					out = append(out, call)
				}
			}
		}
	}
	return out
}

// ruleNEntry: N-ENTRY — the two entry points hand their inputs on unchanged, and Parse runs the
// whole pipeline on every call:
//   - Retrieve calls the parsed function with its own source parameter (no unwrapping, decoding or
//     conversion of the document at the entry: what `$` sees is what the caller passed);
//   - the text given to the generated parser is Parse's path parameter itself (reported offsets
//     are offsets into the caller's string);
//   - (re-)initialisation, matching and action execution all run on every Parse, in that order.
func ruleNEntry(c *engine.Context) *report.Rule {
	r := report.NewRule("N-ENTRY", "Retrieve and Parse hand the document and the path on unchanged, and every Parse runs reset, matching and actions", 3)
	p := c.P
	parse, retrieve := p.Roles.Parse, p.Roles.Retrieve
	if parse == nil || retrieve == nil || parse.Blocks == nil || retrieve.Blocks == nil {
		r.InfraFail("anchor unresolved: Parse / Retrieve")
		return r
	}
	// (1) Retrieve: the call of the parsed function receives the src parameter itself
	var srcP *ssa.Parameter
	for _, pp := range retrieve.Params {
		if it, ok := pp.Type().Underlying().(*types.Interface); ok && it.NumMethods() == 0 {
			srcP = pp
		}
	}
	r.Instances++
	okSrc, seen := true, false
	var at ssa.Instruction
	for _, b := range retrieve.Blocks {
		for _, ins := range b.Instrs {
			call, ok := ins.(*ssa.Call)
			if !ok || call.Call.StaticCallee() != nil || call.Call.IsInvoke() {
				continue
			}
			if _, isB := call.Call.Value.(*ssa.Builtin); isB {
				continue
			}
			// a call of a function value: the parsed function
			seen = true
			if len(call.Call.Args) != 1 || call.Call.Args[0] != ssa.Value(srcP) {
				okSrc, at = false, call
			}
		}
	}
	if srcP != nil && srcP.Referrers() != nil {
		for _, ref := range *srcP.Referrers() {
			switch ref.(type) {
			case *ssa.Call, *ssa.DebugRef:
			default:
				okSrc, at = false, ref
			}
		}
	}
	r.Oblige(okSrc && seen)
	r.Sample("%s passes its source parameter to the parsed function unchanged: %v", load.FuncName(retrieve), okSrc && seen)
	if !(okSrc && seen) {
		pos := p.RelPos(retrieve.Pos())
		if at != nil {
			pos = p.RelPos(at.Pos())
		}
		f := r.Violation(load.FuncName(retrieve)+" does not hand its source on unchanged", pos,
			"%s inspects, converts or replaces the source value before evaluation: a value is then treated differently when it is the root than when a path reaches it (and differently from the function Parse returns)", load.FuncName(retrieve))
		engine.Restrict(f, "C01", "C08", "C20", "C04", "C03")
	}
	// (2)+(3) a must-analysis over Parse (and the package helpers it calls, with arguments mapped):
	// events B (the parser's text := the path as passed), I ((re-)initialisation), M (matcher),
	// X (actions). At M both B and I must have happened on every path, at X also M, at the normal
	// return also X.
	var pathP *ssa.Parameter
	for _, pp := range parse.Params {
		if isBasicKind(pp.Type(), types.String) {
			pathP = pp
		}
	}
	pe := &pipeEvents{p: p, problems: map[string]ssa.Instruction{}}
	final := pe.run(parse, pathP, 0, 0)
	if final&evX == 0 && len(pe.problems) == 0 {
		pe.problems["the actions do not run on every path to Parse's return"] = nil
	}
	if pe.seen&evB == 0 {
		pe.problems["no store of the path into the generated parser was found"] = nil
	}
	r.Instances += 2
	var bufProblems, pipeProblems []string
	var atB, atP ssa.Instruction
	for m, at := range pe.problems {
		if strings.Contains(m, "text") || strings.Contains(m, "path into") {
			bufProblems = append(bufProblems, m)
			atB = at
		} else {
			pipeProblems = append(pipeProblems, m)
			atP = at
		}
	}
	sort.Strings(bufProblems)
	sort.Strings(pipeProblems)
	r.Oblige(len(bufProblems) == 0)
	r.Sample("%s gives the generated parser its own path parameter before matching, on every path: %v", load.FuncName(parse), len(bufProblems) == 0)
	if len(bufProblems) > 0 {
		pos := p.RelPos(parse.Pos())
		if atB != nil {
			pos = p.RelPos(atB.Pos())
		}
		f := r.Violation(load.FuncName(parse)+" does not give the parser the path as passed", pos,
			"%s: positions and `near` texts of syntax errors are computed against the parser's text, so they no longer refer to the caller's string, or an earlier call's text is reused", strings.Join(bufProblems, "; "))
		engine.Restrict(f, "C17", "C19", "C02")
	}
	r.Oblige(len(pipeProblems) == 0)
	r.Sample("%s runs (re-)initialisation, matcher and actions on every call, in this order: %v", load.FuncName(parse), len(pipeProblems) == 0)
	if len(pipeProblems) > 0 {
		pos := p.RelPos(parse.Pos())
		if atP != nil {
			pos = p.RelPos(atP.Pos())
		}
		f := r.Violation(load.FuncName(parse)+" does not run the whole pipeline on every call", pos,
			"%s: what Parse returns then depends on what an earlier call left in the shared parser (token tree, memo table, text)", strings.Join(pipeProblems, "; "))
		engine.Restrict(f, "C19", "C02", "C17")
	}
	return r
}

const (
	evB = 1 << iota
	evI
	evM
	evX
)

type pipeEvents struct {
	p        *load.Program
	problems map[string]ssa.Instruction
	seen     int
}

// run: forward must-analysis of fn starting with the events `in`; pathV is the value in fn that
// holds the path as passed (nil if none). Returns the events guaranteed at fn's normal returns.
func (pe *pipeEvents) run(fn *ssa.Function, pathV ssa.Value, in int, depth int) int {
	p := pe.p
	out := map[*ssa.BasicBlock]int{}
	all := evB | evI | evM | evX
	for _, b := range fn.Blocks {
		out[b] = all
	}
	transfer := func(b *ssa.BasicBlock, st int, report bool) int {
		for _, ins := range b.Instrs {
			switch x := ins.(type) {
			case *ssa.Store:
				if !isBasicKind(x.Val.Type(), types.String) {
					continue
				}
				fa, ok := x.Addr.(*ssa.FieldAddr)
				if !ok {
					continue
				}
				pt, ok := fa.X.Type().(*types.Pointer)
				if !ok || p.Roles.ParserType == nil || !types.Identical(pt.Elem(), p.Roles.ParserType) {
					continue
				}
				pe.seen |= evB
				if pathV != nil && x.Val == pathV {
					st |= evB
				} else {
					st &^= evB
					if report {
						pe.problems["the text stored into the generated parser is not the path parameter itself"] = x
					}
				}
			case *ssa.Call:
				sc := x.Call.StaticCallee()
				if sc == nil {
					continue
				}
				if p.FuncIsGenerated(sc) {
					switch sc.Name() {
					case "Init", "Reset":
						st |= evI
					case "Parse":
						if report && st&evB == 0 {
							pe.problems["the matcher can run on a text that is not (on every path) the path of this call"] = x
						}
						if report && st&evI == 0 {
							pe.problems["the parser is not (re-)initialised on every path to the matcher"] = x
						}
						st |= evM
					case "Execute":
						if report && st&evM == 0 {
							pe.problems["the actions can run without the matcher having run in this call"] = x
						}
						st |= evX
					}
					continue
				}
				if p.InPkg(sc) && sc.Blocks != nil && depth < 2 && p.ParsePhase[sc] && sc != fn {
					// a helper: its own guaranteed events, with the path mapped through its parameters
					var sub ssa.Value
					for i, a := range x.Call.Args {
						if pathV != nil && a == pathV && i < len(sc.Params) {
							sub = sc.Params[i]
						}
					}
					touches := false
					for _, bb := range sc.Blocks {
						for _, y := range bb.Instrs {
							if c2, ok := y.(*ssa.Call); ok && c2.Call.StaticCallee() != nil && p.FuncIsGenerated(c2.Call.StaticCallee()) {
								touches = true
							}
							if s2, ok := y.(*ssa.Store); ok {
								if fa, ok := s2.Addr.(*ssa.FieldAddr); ok {
									if pt, ok := fa.X.Type().(*types.Pointer); ok && p.Roles.ParserType != nil && types.Identical(pt.Elem(), p.Roles.ParserType) {
										touches = true
									}
								}
							}
						}
					}
					if touches {
						st = pe.run(sc, sub, st, depth+1)
					}
				}
			}
		}
		return st
	}
	// fixpoint (the CFG of these functions is small; loops are not expected)
	for iter := 0; iter < 6; iter++ {
		changed := false
		for _, b := range fn.Blocks {
			st := all
			if len(b.Preds) == 0 {
				st = in
			} else {
				for _, pb := range b.Preds {
					st &= out[pb]
				}
			}
			ns := transfer(b, st, false)
			if ns != out[b] {
				out[b] = ns
				changed = true
			}
		}
		if !changed {
			break
		}
	}
	res := all
	nret := 0
	for _, b := range fn.Blocks {
		st := all
		if len(b.Preds) == 0 {
			st = in
		} else {
			for _, pb := range b.Preds {
				st &= out[pb]
			}
		}
		st = transfer(b, st, true)
		if _, ok := b.Instrs[len(b.Instrs)-1].(*ssa.Return); ok && b.Comment != "recover" {
			res &= st
			nret++
		}
	}
	if nret == 0 {
		return in
	}
	return res
}

// reachesOnlyThrough is a loose helper: a dominates b or they share the immediate dominator.
func reachesOnlyThrough(a, b *ssa.BasicBlock) bool {
	return a.Dominates(b) || (a.Idom() != nil && a.Idom().Dominates(b))
}

func dominatingCondsBetween(top, b *ssa.BasicBlock) []edgeCond {
	var out []edgeCond
	for _, dc := range dominatingConds(b) {
		if dc.at.Block() == top || top.Dominates(dc.at.Block()) {
			out = append(out, dc)
		}
	}
	return out
}

// ruleErrPure: R-ERR-PURE — the error values the library returns are read by the caller after the
// call and from any goroutine; their methods, and whatever those reach, only format: they write
// nothing but their own locals. (The per-node descriptor an error embeds is shared by every error
// that node ever raises.)
func ruleErrPure(c *engine.Context) *report.Rule {
	r := report.NewRule("R-ERR-PURE", "methods of the returned error types write no memory besides their own locals", 4)
	p := c.P
	var roots []*ssa.Function
	for _, l := range [][]*types.Named{p.Roles.RuntimeErrTypes, p.Roles.SyntaxErrTypes} {
		for _, T := range l {
			for _, t := range []types.Type{T, types.NewPointer(T)} {
				ms := p.Prog.MethodSets.MethodSet(t)
				for i := 0; i < ms.Len(); i++ {
					if fn := p.Prog.MethodValue(ms.At(i)); fn != nil && fn.Blocks != nil && p.InPkg(fn) {
						roots = append(roots, fn)
					}
				}
			}
		}
	}
	if len(roots) == 0 {
		r.InfraFail("anchor unresolved: methods of the documented error types")
		return r
	}
	seen := map[*ssa.Function]bool{}
	var order []*ssa.Function
	var walk func(fn *ssa.Function)
	walk = func(fn *ssa.Function) {
		if fn == nil || seen[fn] || fn.Blocks == nil || !p.InPkg(fn) {
			return
		}
		seen[fn] = true
		order = append(order, fn)
		for _, callee := range p.CG.Callees(fn) {
			walk(callee)
		}
		for _, a := range fn.AnonFuncs {
			walk(a)
		}
	}
	for _, fn := range roots {
		walk(fn)
	}
	sort.Slice(order, func(i, j int) bool { return load.FuncName(order[i]) < load.FuncName(order[j]) })
	var rootedAtLocal func(v ssa.Value, d int) bool
	rootedAtLocal = func(v ssa.Value, d int) bool {
		if d > 8 {
			return false
		}
		switch x := v.(type) {
		case *ssa.Alloc:
			return true
		case *ssa.FieldAddr:
			return rootedAtLocal(x.X, d+1)
		case *ssa.IndexAddr:
			if _, isArr := x.X.Type().Underlying().(*types.Pointer); isArr {
				return rootedAtLocal(x.X, d+1)
			}
			// element of a slice: local only if the slice is a fresh local allocation
			if sl, ok := x.X.(*ssa.Slice); ok {
				return rootedAtLocal(sl.X, d+1)
			}
			if _, ok := x.X.(*ssa.MakeSlice); ok {
				return true
			}
			return false
		}
		return false
	}
	for _, fn := range order {
		if seen2 := fn.Synthetic != ""; seen2 {
			continue
		}
		r.Instances++
		bad := ""
		var at ssa.Instruction
		for _, b := range fn.Blocks {
			for _, ins := range b.Instrs {
				switch x := ins.(type) {
				case *ssa.Store:
					if !rootedAtLocal(x.Addr, 0) {
						bad, at = "a store to memory that is not a local of the method", ins
					}
				case *ssa.MapUpdate:
					bad, at = "a map update", ins
				}
			}
		}
		r.Oblige(bad == "")
		r.Sample("%s writes only its own locals: %v", load.FuncName(fn), bad == "")
		if bad != "" {
			f := r.Violation(load.FuncName(fn)+" writes memory", p.RelPos(at.Pos()),
				"%s, which the caller runs on a returned error (possibly later and from several goroutines), performs %s: error values embed the per-node descriptor that every later error of the same node shares, so the write survives into later calls of the parsed function and races with concurrent readers", load.FuncName(fn), bad)
			engine.Restrict(f, "C05", "C06", "C15")
		}
	}
	return r
}

// rulePNilRet: P-NILRET — a package function whose pointer result is nil on some path is only
// dereferenced by evaluation code under a nil test.
func rulePNilRet(c *engine.Context) *report.Rule {
	r := report.NewRule("P-NILRET", "a pointer result that can be nil is tested before evaluation code dereferences it", 1)
	p := c.P
	mayNil := map[*ssa.Function]bool{}
	for _, fn := range p.Funcs {
		if fn.Blocks == nil || !p.InPkg(fn) || p.FuncIsGenerated(fn) || fn.Signature.Results().Len() != 1 {
			continue
		}
		if _, isPtr := fn.Signature.Results().At(0).Type().Underlying().(*types.Pointer); !isPtr {
			continue
		}
		for _, b := range fn.Blocks {
			if ret, ok := b.Instrs[len(b.Instrs)-1].(*ssa.Return); ok && len(ret.Results) == 1 {
				if cst, isC := ret.Results[0].(*ssa.Const); isC && cst.IsNil() {
					mayNil[fn] = true
				}
			}
		}
	}
	// all pointer-returning helpers used by evaluation code are instances (so the rule is not vacuous)
	for _, fn := range evalFuncs(c) {
		for _, b := range fn.Blocks {
			for _, ins := range b.Instrs {
				call, ok := ins.(*ssa.Call)
				if !ok || call.Call.StaticCallee() == nil || !p.InPkg(call.Call.StaticCallee()) {
					continue
				}
				if _, isPtr := call.Type().Underlying().(*types.Pointer); !isPtr {
					continue
				}
				r.Instances++
				if !mayNil[call.Call.StaticCallee()] {
					r.Oblige(true)
					continue
				}
				// every dereference of the result is dominated by result != nil
				bad := false
				var at ssa.Instruction
				for _, ref := range *call.Referrers() {
					deref := false
					switch x := ref.(type) {
					case *ssa.UnOp:
						deref = x.Op == token.MUL
					case *ssa.FieldAddr:
						deref = true
					case *ssa.IndexAddr:
						deref = true
					}
					if !deref {
						continue
					}
					guarded := false
					for _, dc := range dominatingConds(ref.Block()) {
						if bo, ok := dc.cond.(*ssa.BinOp); ok && (bo.Op == token.NEQ || bo.Op == token.EQL) {
							if (bo.X == ssa.Value(call) && isNilConstV(bo.Y)) || (bo.Y == ssa.Value(call) && isNilConstV(bo.X)) {
								if (bo.Op == token.NEQ) == dc.taken {
									guarded = true
								}
							}
						}
					}
					if !guarded {
						bad, at = true, ref
					}
				}
				r.Oblige(!bad)
				r.Sample("%s: result of %s (nil on some path) dereferenced only under a nil test: %v", load.FuncName(fn), call.Call.StaticCallee().Name(), !bad)
				if bad {
					r.Violation(fmt.Sprintf("%s dereferences the possibly nil result of %s", load.FuncName(fn), call.Call.StaticCallee().Name()), p.RelPos(at.Pos()),
						"%s returns nil on some path, and %s dereferences the result without testing it: evaluation panics with a nil pointer dereference for the inputs that take that path", load.FuncName(call.Call.StaticCallee()), load.FuncName(fn))
				}
			}
		}
	}
	return r
}

// ruleVParamAlways: V-PARAM-ALWAYS — a filter query with a single operand (the comparison
// parameter wrapper, the negation) evaluates that operand on every call, before it returns
// anything: functions inside the operand are called exactly as often as the filter is evaluated.
func ruleVParamAlways(c *engine.Context) *report.Rule {
	r := report.NewRule("V-PARAM-ALWAYS", "a one-operand filter query evaluates its operand on every call", 2)
	p := c.P
	nQuery := func(t types.Type) (int, *types.Struct) {
		if pt, ok := t.(*types.Pointer); ok {
			t = pt.Elem()
		}
		st, ok := t.Underlying().(*types.Struct)
		if !ok {
			return 0, nil
		}
		n := 0
		for i := 0; i < st.NumFields(); i++ {
			if types.Identical(st.Field(i).Type(), p.Roles.QueryIface) {
				n++
			}
		}
		return n, st
	}
	for fn := range queryComputeFuncs(p) {
		if fn.Signature.Recv() == nil || len(fn.Params) == 0 {
			continue
		}
		// the operand slots of the receiver: its own single query field, and the single query
		// field of every one-operand wrapper struct it points to (the comparison's two parameters)
		want := map[string]bool{}
		nOwn, st := nQuery(fn.Signature.Recv().Type())
		if st == nil {
			continue
		}
		for i := 0; i < st.NumFields(); i++ {
			if nOwn == 1 && types.Identical(st.Field(i).Type(), p.Roles.QueryIface) {
				want[fmt.Sprint([]int{i})] = true
			}
			if _, isPtr := st.Field(i).Type().(*types.Pointer); isPtr {
				if n2, st2 := nQuery(st.Field(i).Type()); n2 == 1 && st2.NumFields() <= 3 {
					for j := 0; j < st2.NumFields(); j++ {
						if types.Identical(st2.Field(j).Type(), p.Roles.QueryIface) {
							want[fmt.Sprint([]int{i, j})] = true
						}
					}
				}
			}
		}
		if len(want) == 0 {
			continue
		}
		pathOf := func(v ssa.Value) []int {
			var rev []int
			for i := 0; i < 6; i++ {
				ld, ok := v.(*ssa.UnOp)
				if !ok || ld.Op != token.MUL {
					return nil
				}
				fa, ok := ld.X.(*ssa.FieldAddr)
				if !ok {
					return nil
				}
				rev = append(rev, fa.Field)
				if fa.X == ssa.Value(fn.Params[0]) {
					out := make([]int, len(rev))
					for k := range rev {
						out[k] = rev[len(rev)-1-k]
					}
					return out
				}
				v = fa.X
			}
			return nil
		}
		var slots []string
		for k := range want {
			slots = append(slots, k)
		}
		sort.Strings(slots)
		for _, slot := range slots {
			r.Instances++
			// must-pass-through: on every path to a return this operand has been invoked
			has := map[*ssa.BasicBlock]bool{}
			ninv := 0
			for _, b := range fn.Blocks {
				for _, ins := range b.Instrs {
					if call, ok := ins.(*ssa.Call); ok && call.Call.IsInvoke() && types.Identical(call.Call.Value.Type(), p.Roles.QueryIface) {
						if fmt.Sprint(pathOf(call.Call.Value)) == slot {
							has[b] = true
							ninv++
						}
					}
				}
			}
			out := map[*ssa.BasicBlock]bool{}
			for _, b := range fn.Blocks {
				out[b] = true
			}
			for changed := true; changed; {
				changed = false
				for _, b := range fn.Blocks {
					v := len(b.Preds) > 0
					for _, pb := range b.Preds {
						if !out[pb] {
							v = false
						}
					}
					v = v || has[b]
					if v != out[b] {
						out[b] = v
						changed = true
					}
				}
			}
			ok2 := ninv > 0
			var at ssa.Instruction
			for _, b := range fn.Blocks {
				if ret, isRet := b.Instrs[len(b.Instrs)-1].(*ssa.Return); isRet && b != fn.Recover {
					if !out[b] {
						ok2, at = false, ret
					}
				}
			}
			r.Oblige(ok2)
			r.Sample("%s evaluates its operand (field path %s) before every return: %v", load.FuncName(fn), slot, ok2)
			if !ok2 {
				pos := p.RelPos(fn.Pos())
				if at != nil {
					pos = p.RelPos(at.Pos())
				}
				r.Violation(load.FuncName(fn)+" can return without evaluating its operand", pos,
					"%s has a path that returns without evaluating its operand (field path %s): a function inside the operand is then not called for some evaluations of the filter (e.g. on an empty container), while the same operand used as an existence test is", load.FuncName(fn), slot)
			}
		}
	}
	return r
}

var _ = strings.TrimSpace

// ruleNApply: N-APPLY — in the helpers of the basic node that either hand a selected value to the
// next step or emit it: when a next step exists it is applied, unconditionally, and its result is
// what the helper returns; a value is emitted only when there is no next step.
func ruleNApply(c *engine.Context) *report.Rule {
	r := report.NewRule("N-APPLY", "a selected value is handed to the next step whenever one exists, and emitted only at the end of the chain", 3)
	p := c.P
	bst, ok := p.Roles.BasicNode.Underlying().(*types.Struct)
	if !ok {
		r.InfraFail("anchor unresolved: basic node")
		return r
	}
	nextField := -1
	for i := 0; i < bst.NumFields(); i++ {
		if types.Identical(bst.Field(i).Type(), p.Roles.NodeIface) {
			nextField = i
		}
	}
	// a load of the `next` link of a basic node (the receiver itself in the forward-or-emit
	// helpers, the embedded basic node where such a helper is expanded into a node's own method)
	nextBase := func(v ssa.Value) ssa.Value {
		ld, ok := v.(*ssa.UnOp)
		if !ok || ld.Op != token.MUL {
			return nil
		}
		fa, ok := ld.X.(*ssa.FieldAddr)
		if !ok || fa.Field != nextField {
			return nil
		}
		if pt, isP := fa.X.Type().Underlying().(*types.Pointer); !isP || !types.Identical(pt.Elem(), p.Roles.BasicNode) {
			return nil
		}
		return fa.X
	}
	emits := findEmitSites(c)
	byFn := map[*ssa.Function][]*emitSite{}
	for _, es := range emits {
		byFn[es.fn] = append(byFn[es.fn], es)
	}
	var fns []*ssa.Function
	for fn := range byFn {
		fns = append(fns, fn)
	}
	sort.Slice(fns, func(i, j int) bool { return load.FuncName(fns[i]) < load.FuncName(fns[j]) })
	for _, fn := range fns {
		// the guards `next != nil` of this function: one forward-or-emit region each
		type region struct {
			guard      *ssa.If
			base       ssa.Value
			nonNilSucc *ssa.BasicBlock
			nilSucc    *ssa.BasicBlock
		}
		var regions []*region
		for _, b := range fn.Blocks {
			ifi, ok := b.Instrs[len(b.Instrs)-1].(*ssa.If)
			if !ok {
				continue
			}
			bo, ok := ifi.Cond.(*ssa.BinOp)
			if !ok || (bo.Op != token.NEQ && bo.Op != token.EQL) {
				continue
			}
			var other ssa.Value
			if isNilConstV(bo.Y) {
				other = bo.X
			} else if isNilConstV(bo.X) {
				other = bo.Y
			}
			if other == nil || nextBase(other) == nil {
				continue
			}
			rg := &region{guard: ifi, base: nextBase(other), nonNilSucc: b.Succs[0], nilSucc: b.Succs[1]}
			if bo.Op == token.EQL {
				rg.nonNilSucc, rg.nilSucc = b.Succs[1], b.Succs[0]
			}
			regions = append(regions, rg)
		}
		if len(regions) == 0 {
			r.Instances++
			r.Oblige(false)
			f := r.Violation(load.FuncName(fn)+" does not always apply the next step", p.RelPos(fn.Pos()), "%s emits a selected value without any test whether a next step exists", load.FuncName(fn))
			engine.Restrict(f, "C01", "C08", "C12", "C13", "C14")
			continue
		}
		var problems []string
		var at ssa.Instruction
		for _, rg := range regions {
			r.Instances++
			// with a next step present it is applied at once ...
			var inv *ssa.Call
			for _, ins := range rg.nonNilSucc.Instrs {
				if call, ok := ins.(*ssa.Call); ok {
					if call.Call.IsInvoke() && call.Call.Method.Name() == p.Roles.RetrieveName && nextBase(call.Call.Value) != nil && sameFieldPath(nextBase(call.Call.Value), rg.base) {
						inv = call
					}
					break // the first call of the block decides
				}
			}
			if inv == nil || len(rg.nonNilSucc.Preds) != 1 {
				problems, at = append(problems, "between finding that a next step exists and applying it, something else can happen (the step is not applied unconditionally)"), rg.guard
				continue
			}
			// ... and what it returns is what this region yields
			for _, b := range fn.Blocks {
				if !(b == rg.nonNilSucc || rg.nonNilSucc.Dominates(b)) {
					continue
				}
				if ret, isRet := b.Instrs[len(b.Instrs)-1].(*ssa.Return); isRet && len(ret.Results) == 1 && ret.Results[0] != ssa.Value(inv) {
					// a function with a defer returns through a spilled result variable: what is
					// stored into it on this side of the guard must be the step's result
					if spill := loadOfCell(ret.Results[0]); spill != nil {
						for _, ref := range *spill.Referrers() {
							if st, isSt := ref.(*ssa.Store); isSt && st.Addr == ssa.Value(spill) && (st.Block() == rg.nonNilSucc || rg.nonNilSucc.Dominates(st.Block())) && st.Val != ssa.Value(inv) {
								problems, at = append(problems, "with a next step present the helper can return something other than that step's result"), st
							}
						}
						continue
					}
					problems, at = append(problems, "with a next step present the helper can return something other than that step's result"), ret
				}
			}
			used := false
			for _, ref := range *inv.Referrers() {
				if _, isDbg := ref.(*ssa.DebugRef); !isDbg {
					used = true
				}
			}
			if !used {
				problems, at = append(problems, "the result of the next step is dropped"), inv
			}
		}
		// emission only where no next step exists
		for _, es := range byFn[fn] {
			nilKnown := false
			for _, rg := range regions {
				if es.block == rg.nilSucc && len(rg.nilSucc.Preds) == 1 || rg.nilSucc.Dominates(es.block) && len(rg.nilSucc.Preds) == 1 {
					nilKnown = true
				}
			}
			if !nilKnown {
				problems, at = append(problems, "a value is emitted on a path where a next step may exist (the step is never applied to it)"), es.call
			}
		}
		// a pure helper (one region, no loop): nothing before the test may report success silently
		if len(regions) == 1 && len(cfgutil.Loops(fn)) == 0 {
			guard := regions[0].guard
			for _, b := range fn.Blocks {
				if b == guard.Block() || guard.Block().Dominates(b) {
					continue
				}
				if ret, isRet := b.Instrs[len(b.Instrs)-1].(*ssa.Return); isRet && len(ret.Results) == 1 {
					if cst, isC := ret.Results[0].(*ssa.Const); isC && cst.IsNil() {
						problems, at = append(problems, "the helper can report success before it has looked at the next step or emitted anything"), ret
					}
				}
			}
		}
		problems = uniqSorted(problems)
		r.Oblige(len(problems) == 0)
		r.Sample("%s: next step applied whenever present (%d region(s)), emission only at the end of the chain: %v", load.FuncName(fn), len(regions), len(problems) == 0)
		if len(problems) > 0 {
			pos := p.RelPos(fn.Pos())
			if at != nil {
				pos = p.RelPos(at.Pos())
			}
			f := r.Violation(load.FuncName(fn)+" does not always apply the next step", pos, "%s: %s", load.FuncName(fn), strings.Join(problems, "; "))
			engine.Restrict(f, "C01", "C08", "C12", "C13", "C14")
		}
	}
	return r
}

// ruleNDelegate: N-DELEGATE — a composite node that hands its own `current` value to one of its
// member nodes does so only after it has established, by a successful type test of that value (or
// by passing the typed result of such a test), that the value is of a kind the composite itself
// navigates; otherwise the member node's type error — with the member's expected kind — is
// reported for a step that accepts other kinds as well.
func ruleNDelegate(c *engine.Context) *report.Rule {
	r := report.NewRule("N-DELEGATE", "a composite node delegates its current value to a member node only under a successful type test of that value", 1)
	p := c.P
	comp := compositeEdges(c)
	for _, fn := range evalFuncs(c) {
		if fn.Signature.Recv() == nil {
			continue
		}
		rt := fn.Signature.Recv().Type()
		if pt, ok := rt.(*types.Pointer); ok {
			rt = pt.Elem()
		}
		T, ok := rt.(*types.Named)
		if !ok || len(comp[T]) == 0 {
			continue
		}
		n := 0
		for _, b := range fn.Blocks {
			for _, ins := range b.Instrs {
				call, ok := ins.(*ssa.Call)
				if !ok {
					continue
				}
				var recv ssa.Value
				var args []ssa.Value
				if call.Call.IsInvoke() && call.Call.Method.Name() == p.Roles.RetrieveName {
					recv, args = call.Call.Value, call.Call.Args
				} else if sc := call.Call.StaticCallee(); sc != nil && sc.Name() == p.Roles.RetrieveName && len(call.Call.Args) == 4 {
					recv, args = call.Call.Args[0], call.Call.Args[1:]
				} else {
					continue
				}
				if !derivesFromMemberEdge(recv, T, comp[T], 0) || len(args) < 2 {
					continue
				}
				n++
				r.Instances++
				cur := args[1]
				ok2 := false
				how := ""
				// the typed result of a successful test
				if ex, isE := cur.(*ssa.Extract); isE && ex.Index == 0 {
					if _, isTA := ex.Tuple.(*ssa.TypeAssert); isTA {
						ok2, how = true, "the typed result of a type test"
					}
				}
				if mi, isMI := cur.(*ssa.MakeInterface); isMI && !ok2 {
					if _, isIface := mi.X.Type().Underlying().(*types.Interface); !isIface {
						ok2, how = true, "a value of a static container type"
					}
				}
				if !ok2 {
					for _, dc := range dominatingConds(b) {
						cond, neg := unwrapNot(dc.cond)
						if x, _, isTT := typeTestsOf(cond); isTT && x == cur && dc.taken != neg {
							ok2, how = true, "under a successful type test of the value"
						}
					}
				}
				r.Oblige(ok2)
				r.Sample("%s: delegation #%d to a member node passes %s: %v", load.FuncName(fn), n, map[bool]string{true: how, false: "the untested current value"}[ok2], ok2)
				if !ok2 {
					f := r.Violation(fmt.Sprintf("%s: delegation #%d of an untested value", load.FuncName(fn), n), p.RelPos(call.Pos()),
						"%s hands its current value to one of its member nodes without a successful type test of that value: for a value of another kind the member node's own type error is reported, whose expected kind describes the member and not this step (which accepts other kinds as well)", load.FuncName(fn))
					engine.Restrict(f, "C15", "C20")
				}
			}
		}
	}
	return r
}

// ---------------------------------------------------------------------------------------------
// W-QUOTES: wherever the grammar offers a single-quoted and a double-quoted spelling of the same
// thing (string literals in filters, quoted member names), the two alternatives are mirror images:
// equal after exchanging the two quote characters everywhere. An edit to one of the two breaks
// the equivalence of the spellings.

func swapQuotes(s peg.RuneSet) peg.RuneSet {
	hasS, hasD := s.Contains('\''), s.Contains('"')
	if hasS == hasD {
		return s
	}
	var out []peg.Interval
	remove := func(iv peg.Interval, c rune) []peg.Interval {
		if c < iv.Lo || c > iv.Hi {
			return []peg.Interval{iv}
		}
		var r []peg.Interval
		if c > iv.Lo {
			r = append(r, peg.Interval{Lo: iv.Lo, Hi: c - 1})
		}
		if c < iv.Hi {
			r = append(r, peg.Interval{Lo: c + 1, Hi: iv.Hi})
		}
		return r
	}
	for _, iv := range s {
		for _, a := range remove(iv, '\'') {
			out = append(out, remove(a, '"')...)
		}
	}
	if hasS {
		out = append(out, peg.Interval{Lo: '"', Hi: '"'})
	} else {
		out = append(out, peg.Interval{Lo: '\'', Hi: '\''})
	}
	return peg.NewSet(out...)
}

// mirrorString renders e with the two quote characters exchanged and actions dropped.
func mirrorString(e peg.Expr, swap bool) string {
	switch x := e.(type) {
	case *peg.Seq:
		var ss []string
		for _, it := range x.Items {
			if _, isA := it.(*peg.Action); isA {
				continue
			}
			ss = append(ss, mirrorString(it, swap))
		}
		return "(" + strings.Join(ss, " ") + ")"
	case *peg.Choice:
		var ss []string
		for _, a := range x.Alts {
			ss = append(ss, mirrorString(a, swap))
		}
		sort.Strings(ss) // alternatives of single-rune choices may be ordered differently by the generator
		return "(" + strings.Join(ss, " / ") + ")"
	case *peg.Star:
		return mirrorString(x.E, swap) + "*"
	case *peg.Plus:
		return mirrorString(x.E, swap) + "+"
	case *peg.Opt:
		return mirrorString(x.E, swap) + "?"
	case *peg.Not:
		return "!" + mirrorString(x.E, swap)
	case *peg.And:
		return "&" + mirrorString(x.E, swap)
	case *peg.Capture:
		return "<" + mirrorString(x.E, swap) + ">"
	case *peg.Named:
		return mirrorString(x.E, swap)
	case *peg.CharSet:
		if swap {
			return swapQuotes(x.Set).String()
		}
		return x.Set.String()
	case *peg.Action:
		return ""
	}
	return e.String()
}

func startsWithQuote(e peg.Expr) (rune, bool) {
	if c, ok := e.(*peg.Capture); ok {
		e = c.E
	}
	seq, ok := e.(*peg.Seq)
	if !ok || len(seq.Items) < 2 {
		return 0, false
	}
	ru, ok := singleRune(seq.Items[0])
	if !ok || (ru != '\'' && ru != '"') {
		return 0, false
	}
	return ru, true
}

func ruleWQuotes(c *engine.Context) *report.Rule {
	r := report.NewRule("W-QUOTES", "the single- and double-quoted alternatives of the grammar are mirror images of each other", 2)
	m := pegOf(c)
	if m.err != "" {
		r.InfraFail("%s", m.err)
		return r
	}
	requireRunning(r, m)
	type q struct {
		where string
		e     peg.Expr
	}
	var singles, doubles []q
	var collect func(rule string, e peg.Expr)
	collect = func(rule string, e peg.Expr) {
		if ru, ok := startsWithQuote(e); ok {
			if ru == '\'' {
				singles = append(singles, q{rule, e})
			} else {
				doubles = append(doubles, q{rule, e})
			}
			return
		}
		switch x := e.(type) {
		case *peg.Choice:
			for _, a := range x.Alts {
				collect(rule, a)
			}
		case *peg.Capture:
			collect(rule, x.E)
		case *peg.Named:
			collect(rule, x.E)
		}
	}
	for _, sr := range m.run.Rules {
		collect(sr.Name, peg.Normalize(sr.E))
	}
	used := map[int]bool{}
	for _, s := range singles {
		r.Instances++
		want := mirrorString(s.e, true)
		found := -1
		for i, d := range doubles {
			if !used[i] && mirrorString(d.e, false) == want {
				found = i
				break
			}
		}
		ok := found >= 0
		if ok {
			used[found] = true
		}
		r.Oblige(ok)
		r.Sample("single-quoted alternative in rule %s has a mirror-image double-quoted alternative: %v", s.where, ok)
		if !ok {
			f := r.Violation("single-quoted alternative in rule "+s.where+" has no mirror image", m.pegPos,
				"the single-quoted alternative in rule %s is %s; no double-quoted alternative of the grammar equals it with the quote characters exchanged: the two spellings of a literal / member name no longer accept the same texts", s.where, s.e.String())
			engine.Restrict(f, "C18", "C16")
		}
	}
	for i, d := range doubles {
		if !used[i] {
			r.Instances++
			r.Oblige(false)
			f := r.Violation("double-quoted alternative in rule "+d.where+" has no mirror image", m.pegPos,
				"the double-quoted alternative in rule %s is %s; no single-quoted alternative equals it with the quote characters exchanged", d.where, d.e.String())
			engine.Restrict(f, "C18", "C16")
		}
	}
	if len(singles) == 0 {
		r.InfraFail("anchor unresolved: no quoted alternatives found in the grammar")
	}
	return r
}

// nextGuardBase: cond compares the `next` link of a basic node with nil; returns the node value.
func nextGuardBase(p *load.Program, cond ssa.Value) ssa.Value {
	bst, ok := p.Roles.BasicNode.Underlying().(*types.Struct)
	if !ok {
		return nil
	}
	bo, ok := cond.(*ssa.BinOp)
	if !ok || (bo.Op != token.NEQ && bo.Op != token.EQL) {
		return nil
	}
	var other ssa.Value
	if isNilConstV(bo.Y) {
		other = bo.X
	} else if isNilConstV(bo.X) {
		other = bo.Y
	}
	ld, ok := other.(*ssa.UnOp)
	if !ok || ld.Op != token.MUL {
		return nil
	}
	fa, ok := ld.X.(*ssa.FieldAddr)
	if !ok {
		return nil
	}
	pt, isP := fa.X.Type().Underlying().(*types.Pointer)
	if !isP || !types.Identical(pt.Elem(), p.Roles.BasicNode) {
		return nil
	}
	if fa.Field >= bst.NumFields() || !types.Identical(bst.Field(fa.Field).Type(), p.Roles.NodeIface) {
		return nil
	}
	return fa.X
}

// sameFieldPath: a and b are the same value, or loads of the same field of the same base
// (recursively): `i.next` written twice re-loads the embedded node pointer.
func sameFieldPath(a, b ssa.Value) bool {
	for i := 0; i < 6; i++ {
		if a == b {
			return true
		}
		la, ok1 := a.(*ssa.UnOp)
		lb, ok2 := b.(*ssa.UnOp)
		if !ok1 || !ok2 || la.Op != token.MUL || lb.Op != token.MUL {
			return false
		}
		fa, ok1 := la.X.(*ssa.FieldAddr)
		fb, ok2 := lb.X.(*ssa.FieldAddr)
		if !ok1 || !ok2 || fa.Field != fb.Field {
			return false
		}
		a, b = fa.X, fb.X
	}
	return false
}
