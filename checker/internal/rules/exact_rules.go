package rules

import (
	"fmt"
	"go/token"
	"go/types"
	"math/big"
	"sort"
	"strings"
	"verif/checker/internal/cfgutil"

	"golang.org/x/tools/go/ssa"

	"verif/checker/internal/engine"
	"verif/checker/internal/intarith"
	"verif/checker/internal/load"
	"verif/checker/internal/report"
)

func init() {
	engine.Register("I-EXACT", ruleIExact)
}

// sliceRoles finds, for a slice subscript type, which struct field holds the start, end and step
// operand: builder parameter -> field (stores in the builder), builder argument -> pop ordinal in
// the grammar action (the value pushed first — the leftmost number of `start:end:step` — is popped last).
func sliceRoles(c *engine.Context, T *types.Named) (map[string]int, string) {
	p := c.P
	st, ok := T.Underlying().(*types.Struct)
	if !ok {
		return nil, "not a struct"
	}
	// builder: PARSE function allocating T and storing parameters into its fields
	var builder *ssa.Function
	paramField := map[int]int{}
	for _, fn := range p.Funcs {
		if fn.Blocks == nil || !p.ParsePhase[fn] || p.FuncIsGenerated(fn) {
			continue
		}
		pf := map[int]int{}
		for _, b := range fn.Blocks {
			for _, ins := range b.Instrs {
				s, ok := ins.(*ssa.Store)
				if !ok {
					continue
				}
				fa, ok := s.Addr.(*ssa.FieldAddr)
				if !ok {
					continue
				}
				al, ok := fa.X.(*ssa.Alloc)
				if !ok || !types.Identical(al.Type().(*types.Pointer).Elem(), T) {
					continue
				}
				if prm, ok := s.Val.(*ssa.Parameter); ok {
					for i, pp := range fn.Params {
						if pp == prm {
							pf[i] = fa.Field
						}
					}
				}
			}
		}
		if len(pf) >= 3 {
			if builder != nil {
				return nil, "more than one builder stores three parameters into " + T.Obj().Name()
			}
			builder, paramField = fn, pf
		}
	}
	if builder == nil {
		return nil, "no builder of " + T.Obj().Name() + " found"
	}
	_ = st
	blocks, _ := actionBlocksOf(c)
	roles := map[string]int{}
	names := []string{"step", "end", "start"} // by pop ordinal
	for k, bl := range blocks {
		_ = k
		pops := popCallsIn(c, bl)
		for _, b := range bl {
			for _, ins := range b.Instrs {
				call, ok := ins.(*ssa.Call)
				if !ok || call.Call.StaticCallee() != builder {
					continue
				}
				if len(pops) < 3 {
					return nil, "the action calling the builder does not pop three operands"
				}
				for ai, arg := range call.Call.Args {
					f, isOperand := paramField[ai]
					if !isOperand {
						continue
					}
					for pi := 0; pi < 3; pi++ {
						if derivesFromCall(arg, pops[pi], 0) {
							roles[names[pi]] = f
						}
					}
				}
			}
		}
	}
	if len(roles) != 3 {
		return nil, fmt.Sprintf("could not map the builder's arguments to the three popped operands (%d mapped)", len(roles))
	}
	return roles, ""
}

// ruleIExact: I-EXACT — the index list of a slice is exactly Python's: start and end normalised
// like slice.indices (negative values count from the end, then clamped to [0,len] for a positive
// step and to [-1,len-1] for a negative one, omitted bounds = the respective extreme), and the
// loop enumerates start, start+step, … while on the right side of end, storing each value once.
func ruleIExact(c *engine.Context) *report.Rule {
	r := report.NewRule("I-EXACT", "slice bounds are normalised exactly like Python's slice.indices on every path, and the loop enumerates start, start+step, … up to the bound", 8)
	p := c.P
	// the index operand type: subscript type with an int and a bool field
	var idxT *types.Named
	numF, omF := -1, -1
	for _, S := range p.Roles.SubscriptTypes {
		st, ok := S.Underlying().(*types.Struct)
		if !ok {
			continue
		}
		n, o := -1, -1
		for i := 0; i < st.NumFields(); i++ {
			if isBasicKind(st.Field(i).Type(), types.Int) {
				n = i
			}
			if isBasicKind(st.Field(i).Type(), types.Bool) {
				o = i
			}
		}
		if n >= 0 && o >= 0 {
			idxT, numF, omF = S, n, o
		}
	}
	if idxT == nil {
		// the encoding of a bound (number + "was omitted" flag) is what the conformity argument is
		// about: without it nothing can be concluded — reported as an open obligation, not as an
		// infrastructure problem
		r.Instances++
		r.Oblige(false)
		r.Undischarged("slice operands: number and omitted flag", "-", "no subscript type carries a number together with a separate `omitted` flag: an omitted bound is then encoded in the number itself (or not at all), and a written number can collide with that encoding; conformity of the slice bounds with Python's slicing cannot be established")
		return r
	}
	found := 0
	for _, T := range p.Roles.SubscriptTypes {
		st, ok := T.Underlying().(*types.Struct)
		if !ok {
			continue
		}
		nOps := 0
		for i := 0; i < st.NumFields(); i++ {
			if pt, ok := st.Field(i).Type().(*types.Pointer); ok && types.Identical(pt.Elem(), idxT) {
				nOps++
			}
		}
		if nOps < 3 {
			continue
		}
		found++
		fn := methodOf(p, T, p.Roles.IndexesMethod)
		if fn == nil || fn.Blocks == nil {
			r.Oblige(false)
			r.Undischarged(T.Obj().Name()+": index generator", "-", "no index generator body")
			continue
		}
		roles, why := sliceRoles(c, T)
		if roles == nil {
			r.Oblige(false)
			r.Undischarged(T.Obj().Name()+": operand roles", p.RelPos(fn.Pos()), "%s", why)
			continue
		}
		// premise of the per-type argument: which subscript type is built, and with which operands,
		// does not depend on the operands' numeric values beyond the sign of a number
		for _, site := range valueDependentConstruction(c, T, idxT, numF) {
			r.Instances++
			r.Oblige(false)
			r.Violation(T.Obj().Name()+": construction depends on operand values in "+load.FuncName(site.Parent()), p.RelPos(site.Pos()),
				"%s branches on the numeric values of the slice operands (more than a sign test): which subscript is built for `start:end:step` then depends on the numbers, and the per-type conformity with Python's slicing shown here no longer covers the selector as written", load.FuncName(site.Parent()))
		}
		sym := func(role string, f int) string { return fmt.Sprintf("field:recv.f%d.f%d", roles[role], f) }
		flag := func(role string) string { return fmt.Sprintf("recv.f%d.f%d", roles[role], omF) }
		les, skipped, problems, _ := intarith.Exactness(p, fn)
		for _, pr := range problems {
			r.Undischarged(T.Obj().Name()+": zone analysis: "+pr, p.RelPos(fn.Pos()), "%s", pr)
		}
		if len(les) == 0 {
			r.Oblige(false)
			r.Undischarged(T.Obj().Name()+": enumeration loop", p.RelPos(fn.Pos()), "no loop of the form `for i := S; i OP E; i += step` was found in %s", load.FuncName(fn))
			continue
		}
		fails := map[string]string{}
		checked := 0
		dir := ""
		for _, le := range les {
			if le.Infeasible() {
				continue
			}
			checked++
			r.Instances++
			asc := le.Op == token.LSS
			desc := le.Op == token.GTR
			d := map[bool]string{true: "ascending", false: "descending"}[asc]
			if dir == "" {
				dir = d
			}
			if !asc && !desc {
				fails["loop condition"] = "the enumeration loop continues under `i " + le.Op.String() + " bound`, neither `<` nor `>`"
				continue
			}
			ok := true
			// structure
			if !le.StoresInduction || !le.CounterOK {
				ok = false
				fails["loop body"] = "the loop does not store its induction value at consecutive positions 0,1,2,… of the buffer"
			}
			// step
			stepSym := sym("step", numF)
			if !le.StepOK {
				ok = false
				fails["step"] = "the increment of the loop is not a loop-invariant value with a known form"
			} else {
				sN := intarith.LinForm{Coef: map[string]int64{stepSym: 1}}
				lo, hi, has := le.Bounds(sN)
				switch {
				case asc && isForm(le.Step, stepSym, 1, "", 0, 0):
					if !has || lo.Sign() <= 0 {
						ok = false
						fails["step"] = "an ascending enumeration runs with a step that is not known to be positive"
					}
				case asc && isForm(le.Step, "L", 1, "", 0, 0):
					// clamped step: only allowed when the written step exceeds the length (then at most one more value fits either way)
					if b, hasD := le.DiffUpper("L", stepSym); !hasD || b > 0 {
						ok = false
						fails["step"] = "the step is replaced by the length although the written step is not known to be at least the length"
					}
				case desc && isForm(le.Step, stepSym, 1, "", 0, 0):
					if !has || hi.Sign() >= 0 {
						ok = false
						fails["step"] = "a descending enumeration runs with a step that is not known to be negative"
					}
				default:
					ok = false
					fails["step"] = "the increment of the loop is " + le.Step.String() + ", not the written step"
				}
			}
			// bounds
			for _, bd := range []struct {
				role string
				form intarith.LinForm
				has  bool
			}{{"start", le.Start, le.StartOK}, {"end", le.End, le.EndOK}} {
				if !bd.has {
					ok = false
					fails[bd.role] = "the " + bd.role + " of the enumeration has no exact linear form over the operands and the length"
					continue
				}
				om, tested := le.Flags[flag(bd.role)]
				if !tested {
					ok = false
					fails[bd.role] = "the " + bd.role + " of the enumeration is computed without consulting whether the bound was omitted"
					continue
				}
				N := sym(bd.role, numF)
				if why := boundConforms(le.Region, asc, bd.role, om, bd.form, N); why != "" {
					ok = false
					fails[bd.role+": "+bd.form.String()] = why
				}
			}
			r.Oblige(ok)
		}
		// partitions that skip the loop: only when the step has the wrong sign (nothing is selected)
		stepSym := sym("step", numF)
		for _, rg := range skipped {
			if rg.Infeasible() {
				continue
			}
			r.Instances++
			lo, hi, has := rg.Bounds(intarith.LinForm{Coef: map[string]int64{stepSym: 1}})
			ok := has && ((dir == "ascending" && hi.Sign() <= 0) || (dir == "descending" && lo.Sign() >= 0))
			if !ok {
				// or the range is empty: the values the loop would start and end with are the
				// conforming bounds, and the first one already fails the loop condition
				ok = emptyRangeSkip(p, fn, rg, dir == "ascending", func(role string) (string, string) { return sym(role, numF), flag(role) })
			}
			r.Oblige(ok)
			if !ok {
				fails["skipped enumeration"] = "a path returns without enumerating although the step is not known to have the wrong sign for this subscript"
			}
		}
		r.Sample("%s (%s): %d partitions of the enumeration loop checked against Python's slice.indices, %d without enumeration; roles start=f%d end=f%d step=f%d", T.Obj().Name(), dir, checked, len(skipped), roles["start"], roles["end"], roles["step"])
		var ks []string
		for k := range fails {
			ks = append(ks, k)
		}
		sort.Strings(ks)
		for i, k := range ks {
			if i >= 4 {
				break
			}
			r.Violation(fmt.Sprintf("%s: %s", T.Obj().Name(), strings.SplitN(k, ":", 2)[0]), p.RelPos(fn.Pos()), "%s (%s): %s", load.FuncName(fn), k, fails[k])
		}
	}
	if found < 2 {
		r.Oblige(false)
		r.Undischarged("slice subscript types", "-", "expected two slice subscript types (positive and negative step) built from three index operands, found %d", found)
	}
	// the single index: [value] for 0 <= value < len, [value+len] for -len <= value < 0, nothing otherwise
	if fn := methodOf(p, idxT, p.Roles.IndexesMethod); fn != nil && fn.Blocks != nil {
		N := fmt.Sprintf("field:recv.f%d", numF)
		les, regions, problems, _ := intarith.Exactness(p, fn)
		for _, pr := range problems {
			r.Undischarged(idxT.Obj().Name()+": zone analysis: "+pr, p.RelPos(fn.Pos()), "%s", pr)
		}
		if len(les) > 0 {
			r.Oblige(false)
			r.Undischarged(idxT.Obj().Name()+": shape", p.RelPos(fn.Pos()), "the single-index generator contains a loop")
		}
		fN := intarith.LinForm{Coef: map[string]int64{N: 1}}
		fNL := intarith.LinForm{Coef: map[string]int64{N: 1, "L": 1}}
		bad := ""
		n := 0
		for _, rg := range regions {
			if rg.Infeasible() {
				continue
			}
			n++
			r.Instances++
			loN, hiN, hasN := rg.Bounds(fN)
			loT, hiT, hasT := rg.Bounds(fNL)
			dLE := func(c int64) bool { b, ok := rg.DiffUpper(N, "L"); return ok && b <= c }
			dGE := func(c int64) bool { b, ok := rg.DiffUpper("L", N); return ok && b <= -c }
			em := rg.Emitted()
			ok := false
			switch len(em) {
			case 0:
				// nothing selected: the value must be out of range on both readings
				ok = (hasN && loN.Sign() >= 0 && dGE(0)) || (hasN && hiN.Cmp(big.NewInt(-1)) <= 0 && hasT && hiT.Cmp(big.NewInt(-1)) <= 0)
				// an empty array: every index is out of range (value >= 0 >= len, or value+len <= value <= -1)
				if _, hiL, hasL := rg.Bounds(intarith.LinForm{Coef: map[string]int64{"L": 1}}); hasL && hiL.Sign() <= 0 {
					ok = true
				}
				if !ok {
					bad = "a path selects nothing although the index is not known to be out of range"
				}
			case 1:
				if rg.EqualInRegion(em[0], fN) && hasN && loN.Sign() >= 0 && dLE(-1) {
					ok = true
				}
				if rg.EqualInRegion(em[0], fNL) && hasN && hiN.Cmp(big.NewInt(-1)) <= 0 && hasT && loT.Sign() >= 0 {
					ok = true
				}
				if !ok {
					bad = "a path selects " + em[0].String() + " on inputs where Python's a[value] would select another element or none"
				}
			default:
				bad = "a path selects more than one element for a single index"
			}
			r.Oblige(ok)
		}
		r.Sample("%s: %d partitions checked against Python's a[value]", idxT.Obj().Name(), n)
		if bad != "" {
			r.Violation(idxT.Obj().Name()+": single index", p.RelPos(fn.Pos()), "%s: %s", load.FuncName(fn), bad)
		}
	}
	return r
}

// isForm: f == c1*s1 (+ c2*s2) + k.
func isForm(f intarith.LinForm, s1 string, c1 int64, s2 string, c2 int64, k int64) bool {
	want := map[string]int64{}
	if s1 != "" && c1 != 0 {
		want[s1] = c1
	}
	if s2 != "" && c2 != 0 {
		want[s2] = c2
	}
	if f.Const != k || len(f.Coef) != len(want) {
		return false
	}
	for s, c := range want {
		if f.Coef[s] != c {
			return false
		}
	}
	return true
}

// boundConforms checks one normalised bound against Python's slice.indices; "" = conforms.
func boundConforms(le intarith.Region, asc bool, role string, omitted bool, F intarith.LinForm, N string) string {
	zero := big.NewInt(0)
	_ = zero
	fN := intarith.LinForm{Coef: map[string]int64{N: 1}}
	fNL := intarith.LinForm{Coef: map[string]int64{N: 1, "L": 1}}
	loN, hiN, hasN := le.Bounds(fN)
	loT, hiT, hasT := le.Bounds(fNL)
	ge := func(x *big.Int, has bool, c int64) bool { return has && x.Cmp(big.NewInt(c)) >= 0 }
	leq := func(x *big.Int, has bool, c int64) bool { return has && x.Cmp(big.NewInt(c)) <= 0 }
	diffLE := func(c int64) bool { b, ok := le.DiffUpper(N, "L"); return ok && b <= c }  // N - L <= c
	diffGE := func(c int64) bool { b, ok := le.DiffUpper("L", N); return ok && b <= -c } // N - L >= c
	mk := func(s1 string, c1 int64, s2 string, c2 int64, k int64) intarith.LinForm {
		f := intarith.LinForm{Coef: map[string]int64{}, Const: k}
		if s1 != "" && c1 != 0 {
			f.Coef[s1] = c1
		}
		if s2 != "" && c2 != 0 {
			f.Coef[s2] = c2
		}
		return f
	}
	// equality of forms is judged on the partition's inputs (2*len-1 is len-1 where len is 0)
	isForm := func(f intarith.LinForm, s1 string, c1 int64, s2 string, c2 int64, k int64) bool {
		return le.EqualInRegion(f, mk(s1, c1, s2, c2, k))
	}
	if omitted {
		var want string
		okF := false
		switch {
		case asc && role == "start":
			want, okF = "0", isForm(F, "", 0, "", 0, 0)
		case asc && role == "end":
			want, okF = "len", isForm(F, "L", 1, "", 0, 0)
		case !asc && role == "start":
			want, okF = "len-1", isForm(F, "L", 1, "", 0, -1)
		default:
			want, okF = "-1", isForm(F, "", 0, "", 0, -1)
		}
		if !okF {
			return fmt.Sprintf("with the %s omitted the enumeration uses %s, Python uses %s", role, F.String(), want)
		}
		return ""
	}
	type cand struct {
		e    intarith.LinForm
		cond bool
		what string
	}
	var cands []cand
	if asc {
		cands = []cand{
			{mk(N, 1, "", 0, 0), ge(loN, hasN, 0) && diffLE(0), "the written value (needs 0 ≤ value ≤ len)"},
			{mk("L", 1, "", 0, 0), ge(loN, hasN, 0) && diffGE(0), "len (needs value ≥ len)"},
			{mk(N, 1, "L", 1, 0), leq(hiN, hasN, -1) && ge(loT, hasT, 0), "value+len (needs value < 0 ≤ value+len)"},
			{mk("", 0, "", 0, 0), (leq(hiN, hasN, -1) && leq(hiT, hasT, 0)) || (ge(loN, hasN, 0) && leq(hiN, hasN, 0)), "0 (needs value < 0 and value+len ≤ 0)"},
		}
	} else {
		cands = []cand{
			{mk(N, 1, "", 0, 0), ge(loN, hasN, 0) && diffLE(-1), "the written value (needs 0 ≤ value ≤ len-1)"},
			{mk("L", 1, "", 0, -1), ge(loN, hasN, 0) && diffGE(-1), "len-1 (needs value ≥ len-1)"},
			{mk(N, 1, "L", 1, 0), leq(hiN, hasN, -1) && ge(loT, hasT, -1), "value+len (needs value < 0 and value+len ≥ -1)"},
			{mk("", 0, "", 0, -1), leq(hiN, hasN, -1) && leq(hiT, hasT, -1), "-1 (needs value < 0 and value+len ≤ -1)"},
		}
	}
	var near []string
	for _, cd := range cands {
		if le.EqualInRegion(F, cd.e) {
			if cd.cond {
				return ""
			}
			near = append(near, cd.what)
		}
	}
	if len(near) > 0 {
		return "the normalised " + role + " is " + F.String() + " on a path where the conditions Python attaches to that value are not established: " + strings.Join(near, "; ")
	}
	lim := "[0, len]"
	if !asc {
		lim = "[-1, len-1]"
	}
	return "the normalised " + role + " is " + F.String() + ", which is none of the values Python's slice.indices can give (value, value+len, or a limit of " + lim + ")"
}

// valueDependentConstruction lists the branch conditions in the builder of T, and in the grammar
// actions that call it, that read the number of an index operand other than through a comparison
// with the constant 0.
func valueDependentConstruction(c *engine.Context, T, idxT *types.Named, numF int) []ssa.Instruction {
	p := c.P
	var out []ssa.Instruction
	readsNumber := func(v ssa.Value) bool {
		var chk func(v ssa.Value, d int) bool
		chk = func(v ssa.Value, d int) bool {
			if d > 6 {
				return false
			}
			switch x := v.(type) {
			case *ssa.UnOp:
				if fa, ok := x.X.(*ssa.FieldAddr); ok && fa.Field == numF {
					if pt, ok := fa.X.Type().(*types.Pointer); ok && types.Identical(pt.Elem(), idxT) {
						return true
					}
				}
				return chk(x.X, d+1)
			case *ssa.BinOp:
				return chk(x.X, d+1) || chk(x.Y, d+1)
			case *ssa.Phi:
				for _, e := range x.Edges {
					if chk(e, d+1) {
						return true
					}
				}
			case *ssa.Convert:
				return chk(x.X, d+1)
			}
			return false
		}
		return chk(v, 0)
	}
	isNumberLoad := func(v ssa.Value) bool {
		ld, ok := v.(*ssa.UnOp)
		if !ok {
			return false
		}
		fa, ok := ld.X.(*ssa.FieldAddr)
		if !ok || fa.Field != numF {
			return false
		}
		pt, ok := fa.X.Type().(*types.Pointer)
		return ok && types.Identical(pt.Elem(), idxT)
	}
	scan := func(blocks []*ssa.BasicBlock) {
		for _, b := range blocks {
			ifi, ok := b.Instrs[len(b.Instrs)-1].(*ssa.If)
			if !ok {
				continue
			}
			bo, ok := ifi.Cond.(*ssa.BinOp)
			if !ok || !(readsNumber(bo.X) || readsNumber(bo.Y)) {
				continue
			}
			// allowed: number OP 0
			if cv, isC := cfgutilConst(bo.Y); isC && cv == 0 && isNumberLoad(bo.X) {
				continue
			}
			if cv, isC := cfgutilConst(bo.X); isC && cv == 0 && isNumberLoad(bo.Y) {
				continue
			}
			out = append(out, ifi)
		}
	}
	// the builder(s) of T
	var builders []*ssa.Function
	for _, fn := range p.Funcs {
		if fn.Blocks == nil || !p.ParsePhase[fn] || p.FuncIsGenerated(fn) {
			continue
		}
		for _, b := range fn.Blocks {
			for _, ins := range b.Instrs {
				if al, ok := ins.(*ssa.Alloc); ok && types.Identical(al.Type().(*types.Pointer).Elem(), T) {
					builders = append(builders, fn)
				}
			}
		}
	}
	for _, fn := range builders {
		scan(fn.Blocks)
	}
	blocks, _ := actionBlocksOf(c)
	for _, bl := range blocks {
		calls := false
		for _, b := range bl {
			for _, ins := range b.Instrs {
				if call, ok := ins.(*ssa.Call); ok {
					for _, fn := range builders {
						if call.Call.StaticCallee() == fn {
							calls = true
						}
					}
				}
			}
		}
		if calls {
			scan(bl)
		}
	}
	return out
}

// emptyRangeSkip: on a partition that returns without entering the enumeration loop, the values the
// loop would have started and ended with have conforming forms (same check as for the loop
// partitions) and the start already fails the loop's condition: nothing is selected, rightly.
func emptyRangeSkip(p *load.Program, fn *ssa.Function, rg intarith.Region, asc bool, names func(role string) (sym, flag string)) bool {
	var startV, endV ssa.Value
	for _, l := range cfgutil.Loops(fn) {
		h := l.Header
		ifi, ok := h.Instrs[len(h.Instrs)-1].(*ssa.If)
		if !ok {
			continue
		}
		bo, ok := ifi.Cond.(*ssa.BinOp)
		if !ok {
			continue
		}
		ph, ok := bo.X.(*ssa.Phi)
		if !ok || ph.Block() != h {
			continue
		}
		if (asc && bo.Op != token.LSS) || (!asc && bo.Op != token.GTR) {
			continue
		}
		for i, e := range ph.Edges {
			if !l.Blocks[h.Preds[i]] {
				startV = e
			}
		}
		endV = bo.Y
	}
	if startV == nil || endV == nil {
		return false
	}
	// the start fails the condition: asc: start >= end; desc: start <= end — either as a relation
	// between the two values, or through a variable that holds their exact difference (a buffer
	// helper that tests `end-start <= 0` and hands back no buffer)
	diffEmpty := func(hiV, loV ssa.Value) bool {
		fh, ok1 := rg.FormOf(hiV)
		fl, ok2 := rg.FormOf(loV)
		if !ok1 || !ok2 {
			return false
		}
		_, hi, has := rg.Bounds(fh.Sub(fl))
		return has && hi != nil && hi.Sign() <= 0
	}
	if asc && !rg.ValueLeq(endV, startV) && !diffEmpty(endV, startV) {
		return false
	}
	if !asc && !rg.ValueLeq(startV, endV) && !diffEmpty(startV, endV) {
		return false
	}
	for _, bd := range []struct {
		role string
		v    ssa.Value
	}{{"start", startV}, {"end", endV}} {
		form, ok := rg.FormOf(bd.v)
		if !ok {
			return false
		}
		N, fl := names(bd.role)
		om, tested := rg.Flags()[fl]
		if !tested {
			return false
		}
		if why := boundConforms(rg, asc, bd.role, om, form, N); why != "" {
			return false
		}
	}
	return true
}
