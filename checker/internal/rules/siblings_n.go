package rules

import (
	"fmt"
	"go/token"
	"go/types"
	"sort"
	"strings"

	"golang.org/x/tools/go/ssa"

	"verif/checker/internal/cfgutil"
	"verif/checker/internal/engine"
	"verif/checker/internal/load"
	"verif/checker/internal/report"
)

func init() {
	engine.Register("N-ACCESS", ruleNAccess)
	engine.Register("N-ACCFLAG", ruleNAccFlag)
	engine.Register("N-FUNCALL", ruleNFunCall)
	engine.Register("N-KIND", ruleNKind)
	engine.Register("N-DEEPEST", ruleNDeepest)
	engine.Register("N-FORWARD", ruleNForward)
	engine.Register("B-CHAIN", ruleBChain)
}

// ---------- emission sites ----------

// emitSite is one append to the sink's result field.
type emitSite struct {
	fn     *ssa.Function
	call   *ssa.Call // the append
	value  ssa.Value // the appended element (interface value)
	block  *ssa.BasicBlock
	guard  *ssa.If // the flag test that selects plain vs accessor branch (nil if none)
	onTrue bool    // this site is on the true edge of guard
}

func appendedElem(call *ssa.Call) ssa.Value {
	// append(x, varargs...) with varargs = slice of new [1]T with one store
	if len(call.Call.Args) != 2 {
		return nil
	}
	sl, ok := call.Call.Args[1].(*ssa.Slice)
	if !ok {
		return nil
	}
	al, ok := sl.X.(*ssa.Alloc)
	if !ok {
		return nil
	}
	var val ssa.Value
	n := 0
	for _, ref := range *al.Referrers() {
		if ia, ok := ref.(*ssa.IndexAddr); ok {
			for _, r2 := range *ia.Referrers() {
				if st, ok := r2.(*ssa.Store); ok && st.Addr == ssa.Value(ia) {
					val = st.Val
					n++
				}
			}
		}
	}
	if n != 1 {
		return nil
	}
	return val
}

// emitHelper describes a one-block helper `func(…, sink, value)` whose whole effect is
// sink.result = append(sink.result, value).
type emitHelper struct{ sink, val int }

func emitHelpers(c *engine.Context) map[*ssa.Function]emitHelper {
	return c.Memo("emitHelpers", func() interface{} {
		p := c.P
		out := map[*ssa.Function]emitHelper{}
		for _, fn := range p.Funcs {
			if fn.Blocks == nil || len(fn.Blocks) != 1 || !p.InPkg(fn) || fn.Signature.Results().Len() != 0 {
				continue
			}
			sink := sinkParam(p, fn)
			if sink == nil {
				continue
			}
			sinkIdx, valIdx := -1, -1
			okShape := true
			stores := 0
			for _, ins := range fn.Blocks[0].Instrs {
				switch x := ins.(type) {
				case *ssa.Store:
					stores++
					if ia, isIA := x.Addr.(*ssa.IndexAddr); isIA {
						if _, isAl := ia.X.(*ssa.Alloc); isAl {
							continue // the one-element varargs array of the append
						}
					}
					fa, isFA := x.Addr.(*ssa.FieldAddr)
					call, isCall := x.Val.(*ssa.Call)
					if !isFA || fa.X != ssa.Value(sink) || !isCall {
						okShape = false
						continue
					}
					bi, isB := call.Call.Value.(*ssa.Builtin)
					if !isB || bi.Name() != "append" {
						okShape = false
						continue
					}
					if el, isP := appendedElem(call).(*ssa.Parameter); isP {
						for i, pp := range fn.Params {
							if pp == el {
								valIdx = i
							}
							if pp == sink {
								sinkIdx = i
							}
						}
					} else {
						okShape = false
					}
				case *ssa.Call:
					if _, isB := x.Call.Value.(*ssa.Builtin); !isB {
						okShape = false
					}
				case *ssa.Panic, *ssa.Defer, *ssa.Go, *ssa.MapUpdate:
					okShape = false
				}
			}
			if okShape && stores == 2 && sinkIdx >= 0 && valIdx >= 0 {
				// stores: the element into the one-element varargs array, and the appended slice into sink.result
				out[fn] = emitHelper{sinkIdx, valIdx}
			}
		}
		return out
	}).(map[*ssa.Function]emitHelper)
}

func findEmitSites(c *engine.Context) []*emitSite {
	return c.Memo("emitSites", func() interface{} {
		p := c.P
		helpers := emitHelpers(c)
		var out []*emitSite
		for _, fn := range evalFuncs(c) {
			sink := sinkParam(p, fn)
			if sink == nil {
				continue
			}
			if _, isH := helpers[fn]; isH {
				continue // its append is accounted for at its call sites
			}
			for _, b := range fn.Blocks {
				for _, ins := range b.Instrs {
					call, ok := ins.(*ssa.Call)
					if !ok {
						continue
					}
					if sc := call.Call.StaticCallee(); sc != nil {
						if h, isH := helpers[sc]; isH && call.Call.Args[h.sink] == ssa.Value(sink) {
							es := &emitSite{fn: fn, call: call, block: b, value: call.Call.Args[h.val]}
							for _, dc := range dominatingConds(b) {
								if _, _, isBool := boolFieldLoad(dc.cond); isBool && es.guard == nil {
									es.guard, es.onTrue = dc.at, dc.taken
								}
							}
							out = append(out, es)
							continue
						}
					}
					bi, ok := call.Call.Value.(*ssa.Builtin)
					if !ok || bi.Name() != "append" {
						continue
					}
					// first arg: load of sink.result
					ld, ok := call.Call.Args[0].(*ssa.UnOp)
					if !ok {
						continue
					}
					fa, ok := ld.X.(*ssa.FieldAddr)
					if !ok || fa.X != ssa.Value(sink) {
						continue
					}
					es := &emitSite{fn: fn, call: call, block: b, value: appendedElem(call)}
					for _, dc := range dominatingConds(b) {
						if _, _, isBool := boolFieldLoad(dc.cond); isBool && es.guard == nil {
							es.guard, es.onTrue = dc.at, dc.taken
						}
					}
					out = append(out, es)
				}
			}
		}
		return out
	}).([]*emitSite)
}

// cellOfParam: the heap cell a captured parameter was spilled into (new T (name); *cell = param).
func cellOfParam(fn *ssa.Function, prm *ssa.Parameter) *ssa.Alloc {
	for _, ref := range *prm.Referrers() {
		if st, ok := ref.(*ssa.Store); ok && st.Val == ssa.Value(prm) {
			if al, ok := st.Addr.(*ssa.Alloc); ok {
				return al
			}
		}
	}
	return nil
}

func storesTo(al *ssa.Alloc) int {
	n := 0
	for _, ref := range *al.Referrers() {
		if st, ok := ref.(*ssa.Store); ok && st.Addr == ssa.Value(al) {
			n++
		}
	}
	return n
}

// loadOfCell: v is a load of cell al (or al's parameter itself when not spilled).
func loadOfCell(v ssa.Value) *ssa.Alloc {
	ld, ok := v.(*ssa.UnOp)
	if !ok || ld.Op != token.MUL {
		return nil
	}
	al, _ := ld.X.(*ssa.Alloc)
	return al
}

// locExpr describes a container element expression: container cell + key/index cell.
type locExpr struct {
	kind      string // "map", "list", "value"
	container ssa.Value
	key       ssa.Value
}

// readLoc recognises v as container[key] (map lookup or list element load) or a plain captured value.
func readLoc(v ssa.Value) *locExpr {
	switch x := v.(type) {
	case *ssa.Extract:
		if lk, ok := x.Tuple.(*ssa.Lookup); ok && x.Index == 0 {
			return &locExpr{"map", lk.X, lk.Index}
		}
	case *ssa.Lookup:
		if !x.CommaOk {
			return &locExpr{"map", x.X, x.Index}
		}
	case *ssa.UnOp:
		if x.Op == token.MUL {
			if ia, ok := x.X.(*ssa.IndexAddr); ok {
				return &locExpr{"list", ia.X, ia.Index}
			}
			return &locExpr{"value", x.X, nil}
		}
	case *ssa.Parameter:
		return &locExpr{"value", x, nil}
	}
	return nil
}

// varOf maps a value to the variable it reads: the parameter itself, or the cell a parameter/local lives in.
func varOf(v ssa.Value) ssa.Value {
	if al := loadOfCell(v); al != nil {
		return al
	}
	if fv, ok := v.(*ssa.FreeVar); ok {
		return fv
	}
	if ld, ok := v.(*ssa.UnOp); ok && ld.Op == token.MUL {
		if fv, ok := ld.X.(*ssa.FreeVar); ok {
			return fv
		}
	}
	return v
}

// ruleNAccess: N-ACCESS.
func ruleNAccess(c *engine.Context) *report.Rule {
	r := report.NewRule("N-ACCESS", "plain and accessor emission differ only by wrapping: Get re-reads and Set writes exactly container[key] of the emitted value", 3)
	p := c.P
	sites := findEmitSites(c)
	byFn := map[*ssa.Function][]*emitSite{}
	for _, s := range sites {
		byFn[s.fn] = append(byFn[s.fn], s)
	}
	var fns []*ssa.Function
	for f := range byFn {
		fns = append(fns, f)
	}
	sort.Slice(fns, func(i, j int) bool { return load.FuncName(fns[i]) < load.FuncName(fns[j]) })
	accessorT := p.Roles.Accessor
	for _, fn := range fns {
		ss := byFn[fn]
		construct := "emission in " + load.FuncName(fn)
		pos := p.RelPos(fn.Pos())
		r.Instances++
		var plain, acc *emitSite
		for _, s := range ss {
			if s.value == nil {
				continue
			}
			if mi, ok := s.value.(*ssa.MakeInterface); ok && types.Identical(mi.X.Type(), accessorT) {
				acc = s
			} else {
				plain = s
			}
		}
		if len(ss) != 2 || plain == nil || acc == nil || plain.guard == nil || plain.guard != acc.guard || plain.onTrue == acc.onTrue {
			r.Oblige(false)
			r.Undischarged(construct+": pairing", pos, "expected one plain and one accessor emission selected by the node's accessor flag (found %d emission sites)", len(ss))
			continue
		}
		// the guard is a bool field of the receiver (the node's own flag)
		base, flagField, _ := boolFieldLoad(plain.guard.Cond)
		if len(fn.Params) == 0 || !(base == ssa.Value(fn.Params[0]) || derivesFromReceiver(base, fn)) || !acc.onTrue {
			r.Oblige(false)
			r.Violation(construct+": flag", pos, "the accessor branch is not selected by the receiver's own accessor flag being true")
			continue
		}
		c.Memo("accessorFlagField", func() interface{} { return flagField })
		// accessor struct: stores to Get / Set fields
		mi := acc.value.(*ssa.MakeInterface)
		var accAlloc *ssa.Alloc
		if ld, ok := mi.X.(*ssa.UnOp); ok {
			accAlloc, _ = ld.X.(*ssa.Alloc)
		}
		if accAlloc == nil {
			r.Oblige(false)
			r.Undischarged(construct+": accessor value", pos, "accessor value is not a composite literal")
			continue
		}
		var getV, setV ssa.Value
		for _, ref := range *accAlloc.Referrers() {
			if fa, ok := ref.(*ssa.FieldAddr); ok {
				for _, r2 := range *fa.Referrers() {
					if st, ok := r2.(*ssa.Store); ok && st.Addr == ssa.Value(fa) {
						if fa.Field == 0 {
							getV = st.Val
						} else {
							setV = st.Val
						}
					}
				}
			}
		}
		pl := readLoc(plain.value)
		if pl == nil {
			r.Oblige(false)
			r.Undischarged(construct+": plain value", pos, "the plainly emitted value is not container[key] or a parameter")
			continue
		}
		ok := true
		var why []string
		fail := func(f string, a ...interface{}) { ok = false; why = append(why, fmt.Sprintf(f, a...)) }
		// what the accessors capture must not be assigned again after they were created: a loop
		// variable shared by all iterations would make every accessor address the last member
		for _, cv := range []ssa.Value{getV, setV} {
			mc, isMC := cv.(*ssa.MakeClosure)
			if !isMC {
				continue
			}
			for _, bnd := range mc.Bindings {
				cell, isCell := bnd.(*ssa.Alloc)
				if !isCell {
					continue
				}
				for _, ref := range *cell.Referrers() {
					if st, isSt := ref.(*ssa.Store); isSt && st.Addr == ssa.Value(cell) && reachesWithoutRealloc(mc, st, cell) {
						fail("an accessor captures variable %s, which is assigned again after the accessor was created (a loop variable shared by all iterations): accessors of earlier members then address a later member", cell.Comment)
					}
				}
			}
		}
		getFn := closureFn(getV)
		if getFn == nil {
			fail("Get is not a function literal")
		}
		// bindings: free variable i of closure ↔ binding value in the emitter
		bindOf := func(mc ssa.Value, fv ssa.Value) ssa.Value {
			m, isMC := mc.(*ssa.MakeClosure)
			f, _ := fv.(*ssa.FreeVar)
			if !isMC || f == nil {
				return nil
			}
			for i, x := range m.Fn.(*ssa.Function).FreeVars {
				if x == f && i < len(m.Bindings) {
					return m.Bindings[i]
				}
			}
			return nil
		}
		sameVarAs := func(mc ssa.Value, inClosure ssa.Value, inEmitter ssa.Value) bool {
			// inClosure: load of a free variable; inEmitter: load of the bound cell (or the parameter)
			cv := varOf(inClosure)
			ev := varOf(inEmitter)
			b := bindOf(mc, cv)
			if b == nil {
				return false
			}
			if b != ev {
				// a copy made for the accessor: a cell assigned exactly once, with the emitter's
				// variable as it stands (that variable is judged like a captured one below)
				al, isAl := b.(*ssa.Alloc)
				if !isAl || storesTo(al) != 1 || storedInLoopOutsideAlloc(al) {
					return false
				}
				var src ssa.Value
				for _, ref := range *al.Referrers() {
					if st, ok := ref.(*ssa.Store); ok && st.Addr == ssa.Value(al) {
						src = st.Val
					}
				}
				if src == nil || (varOf(src) != ev && src != inEmitter) {
					return false
				}
				if eal, ok := ev.(*ssa.Alloc); ok && (storesTo(eal) != 1 || storedInLoopOutsideAlloc(eal)) {
					return false
				}
				return true
			}
			if al, isAl := b.(*ssa.Alloc); isAl && (storesTo(al) != 1 || storedInLoopOutsideAlloc(al)) {
				fail("captured variable %s is reassigned after the accessor captured it (one variable shared by all iterations: every accessor would address the last value)", al.Comment)
				return false
			}
			return true
		}
		if getFn != nil {
			// Get: single return of the location read
			var ret *ssa.Return
			nret := 0
			for _, b := range getFn.Blocks {
				if x, ok := b.Instrs[len(b.Instrs)-1].(*ssa.Return); ok {
					ret = x
					nret++
				}
			}
			if nret != 1 || len(getFn.Blocks) != 1 || ret == nil || len(ret.Results) != 1 {
				fail("Get is not a single expression `return container[key]`")
			} else {
				gl := readLoc(ret.Results[0])
				switch {
				case gl == nil || gl.kind != pl.kind:
					fail("Get does not read the same kind of location (%s) that the plain branch emits", pl.kind)
				case pl.kind == "value":
					if !sameVarAs(getV, ret.Results[0], plain.value) {
						fail("Get does not return the emitted value")
					}
				default:
					if !sameVarAs(getV, gl.container, pl.container) || !sameVarAs(getV, gl.key, pl.key) {
						fail("Get does not re-read container[key] of the emitted value (it must capture the container and the key, not the value)")
					}
				}
			}
		}
		switch pl.kind {
		case "value":
			if cst, isC := setV.(*ssa.Const); !isC || !cst.IsNil() {
				fail("Set must be nil for results that are not locations of the document")
			}
		default:
			setFn := closureFn(setV)
			if setFn == nil {
				fail("Set is not a function literal for a document location")
				break
			}
			// exactly one effect: store of the parameter into container[key]
			effects := 0
			good := false
			for _, b := range setFn.Blocks {
				for _, ins := range b.Instrs {
					switch x := ins.(type) {
					case *ssa.MapUpdate:
						effects++
						if pl.kind == "map" && len(setFn.Params) == 1 && x.Value == ssa.Value(setFn.Params[0]) &&
							sameVarAs(setV, x.Map, pl.container) && sameVarAs(setV, x.Key, pl.key) {
							good = true
						}
					case *ssa.Store:
						effects++
						if ia, isIA := x.Addr.(*ssa.IndexAddr); isIA && pl.kind == "list" && len(setFn.Params) == 1 && x.Val == ssa.Value(setFn.Params[0]) &&
							sameVarAs(setV, ia.X, pl.container) && sameVarAs(setV, ia.Index, pl.key) {
							good = true
						}
					case *ssa.Call, *ssa.Go, *ssa.Defer:
						effects++
					}
				}
			}
			if effects != 1 || !good {
				fail("Set must be exactly one assignment container[key] = value on the captured container and key (effects found: %d)", effects)
			}
		}
		r.Oblige(ok)
		r.Nontrivial++
		r.Sample("%s: %s site; Get/Set address the emitted location: %v", load.FuncName(fn), pl.kind, ok)
		if !ok {
			r.Violation(construct+": accessor shape", p.RelPos(acc.call.Pos()), "%s", strings.Join(uniqSorted(why), "; "))
		}
	}
	return r
}

// ---------- N-FUNCALL (function nodes) ----------

// userFuncField returns the index of a function-typed field of node type T, or -1.
func userFuncField(T *types.Named) int {
	st, ok := T.Underlying().(*types.Struct)
	if !ok {
		return -1
	}
	for i := 0; i < st.NumFields(); i++ {
		if _, ok := st.Field(i).Type().Underlying().(*types.Signature); ok {
			return i
		}
	}
	return -1
}

func ruleNFunCall(c *engine.Context) *report.Rule {
	r := report.NewRule("N-FUNCALL", "function nodes call the user function exactly once per invocation with the selected value(s); array unwrapping only under the value-group test", 2)
	p := c.P
	for _, T := range p.Roles.NodeTypes {
		ff := userFuncField(T)
		if ff < 0 {
			continue
		}
		fn := methodOf(p, T, p.Roles.RetrieveName)
		if fn == nil || fn.Blocks == nil {
			continue
		}
		r.Instances++
		construct := "function node " + T.Obj().Name()
		loops := cfgutil.Loops(fn)
		var calls []*ssa.Call
		for _, b := range fn.Blocks {
			for _, ins := range b.Instrs {
				call, ok := ins.(*ssa.Call)
				if !ok || call.Call.IsInvoke() || call.Call.StaticCallee() != nil {
					continue
				}
				if _, isB := call.Call.Value.(*ssa.Builtin); isB {
					continue
				}
				if ld, ok := call.Call.Value.(*ssa.UnOp); ok {
					if fa, ok := ld.X.(*ssa.FieldAddr); ok && fa.Field == ff && fa.X == ssa.Value(fn.Params[0]) {
						calls = append(calls, call)
					}
				}
			}
		}
		if len(calls) != 1 {
			r.Oblige(false)
			r.Violation(construct+": call count", p.RelPos(fn.Pos()), "the user function must be called at exactly one site per invocation, found %d", len(calls))
			continue
		}
		call := calls[0]
		if cfgutil.InnermostLoop(loops, call.Block()) != nil {
			r.Oblige(false)
			r.Violation(construct+": call in loop", p.RelPos(call.Pos()), "the user function is called inside a loop (more than once per selected value)")
			continue
		}
		arg := call.Call.Args[0]
		sig := call.Call.Signature()
		ok := true
		var why string
		if isIfaceSliceT(sig.Params().At(0).Type()) {
			// aggregate: phi of (private sink list, array element 0 under the guard)
			priv := func(v ssa.Value) bool {
				// load of result field of a pooled sink acquired in this function
				ld, ok := v.(*ssa.UnOp)
				if !ok {
					return false
				}
				fa, ok := ld.X.(*ssa.FieldAddr)
				if !ok {
					return false
				}
				src := fa.X
				if l2, ok := src.(*ssa.UnOp); ok {
					if al, ok := l2.X.(*ssa.Alloc); ok {
						for _, ref := range *al.Referrers() {
							if st, ok := ref.(*ssa.Store); ok && st.Addr == ssa.Value(al) {
								src = st.Val
							}
						}
					}
				}
				return isPoolAcquired(c, src)
			}
			checkEdge := func(v ssa.Value, pred *ssa.BasicBlock) {
				if priv(v) {
					return
				}
				// array unwrapping: Extract #0 of typeassert,ok of element 0 of the private list
				ex, isEx := v.(*ssa.Extract)
				if !isEx || ex.Index != 0 {
					ok, why = false, "the aggregate receives something other than the private result list or its single array"
					return
				}
				ta, isTA := ex.Tuple.(*ssa.TypeAssert)
				if !isTA || !ta.CommaOk {
					ok, why = false, "array unwrapping without a checked type assertion"
					return
				}
				// guard: dominated by !param.isValueGroup() and ok
				hasVG, hasOK := false, false
				for _, dc := range append(dominatingConds(pred), edgeCondsOfPred(pred)...) {
					inner, neg := unwrapNot(dc.cond)
					if ic, isCall := inner.(*ssa.Call); isCall && ic.Call.IsInvoke() && types.Identical(ic.Call.Value.Type(), p.Roles.NodeIface) {
						if b, isB := ic.Type().Underlying().(*types.Basic); isB && b.Kind() == types.Bool {
							if (dc.taken != neg) == false {
								hasVG = true
							}
						}
					}
					if e2, isE := dc.cond.(*ssa.Extract); isE && e2.Tuple == ssa.Value(ta) && e2.Index == 1 && dc.taken {
						hasOK = true
					}
				}
				if !hasVG {
					ok, why = false, "the single array is unwrapped without testing that the parameter path is single-valued (value-group flag of the parameter)"
				}
				if !hasOK {
					ok, why = false, "the single array is unwrapped without a successful checked assertion"
				}
			}
			if ph, isPhi := arg.(*ssa.Phi); isPhi {
				for i, e := range ph.Edges {
					checkEdge(e, ph.Block().Preds[i])
				}
			} else {
				checkEdge(arg, call.Block())
			}
		} else {
			// filter function: argument is the node's own `current`
			if len(fn.Params) < 3 || arg != ssa.Value(fn.Params[2]) {
				ok, why = false, "the filter function is not called with the node's current value"
			}
		}
		// the result (component 0) is what is forwarded
		fwd := false
		for _, ref := range *call.Referrers() {
			if ex, isEx := ref.(*ssa.Extract); isEx && ex.Index == 0 {
				for _, u := range usesThroughCells(ex) {
					cl, isCall := u.user.(*ssa.Call)
					if !isCall {
						continue
					}
					if cl.Call.StaticCallee() != nil {
						fwd = true
					}
					// handed to the next step directly (the forward-or-emit helper may be expanded here)
					if cl.Call.IsInvoke() && cl.Call.Method.Name() == p.Roles.RetrieveName &&
						types.Identical(cl.Call.Value.Type(), p.Roles.NodeIface) && len(cl.Call.Args) > 1 && cl.Call.Args[1] == u.as {
						fwd = true
					}
				}
			}
		}
		if !fwd {
			ok, why = false, "the function's result is not forwarded to the next step"
		}
		r.Oblige(ok)
		r.Nontrivial++
		r.Sample("%s: one call site, outside loops, argument provenance ok=%v", T.Obj().Name(), ok)
		if !ok {
			r.Violation(construct+": argument", p.RelPos(call.Pos()), "%s", why)
		}
	}
	return r
}

// edgeCondsOfPred: if block b ends in an If, nothing is known; if b has a single predecessor ending in If, returns that edge fact.
func edgeCondsOfPred(b *ssa.BasicBlock) []edgeCond {
	var out []edgeCond
	if len(b.Preds) == 1 {
		pb := b.Preds[0]
		if ifi, ok := pb.Instrs[len(pb.Instrs)-1].(*ssa.If); ok {
			out = append(out, edgeCond{cond: ifi.Cond, taken: pb.Succs[0] == b, at: ifi})
		}
	}
	return out
}

// ---------- N-KIND ----------

type kindSite struct {
	fn       *ssa.Function
	alloc    ssa.Instruction
	nav      string // "map", "list", "map+list"
	expected string
	foundOK  bool
	nodeOK   bool
	why      []string
}

// kindExclusion is a forward must-analysis over fn: for every block, which container kinds the
// dynamic type of current is known NOT to be when the block is entered. A failed test for a
// type excludes that type's kind; a successful test for one kind excludes the other (the
// kinds are disjoint). Joins intersect, so the result holds on every path.
type kindFact struct{ notMap, notList bool }

func kindExclusion(fn *ssa.Function, current ssa.Value) map[*ssa.BasicBlock]kindFact {
	edge := func(from, to *ssa.BasicBlock, f kindFact) kindFact {
		ifi, ok := from.Instrs[len(from.Instrs)-1].(*ssa.If)
		if !ok || from.Succs[0] == from.Succs[1] {
			return f
		}
		taken := from.Succs[0] == to
		for _, dc := range append([]edgeCond{{cond: ifi.Cond, taken: taken, at: ifi}}, shortCircuitOperands(edgeCond{cond: ifi.Cond, taken: taken, at: ifi}, 0)...) {
			cond, neg := unwrapNot(dc.cond)
			x, ts, ok := typeTestsOf(cond)
			if !ok || x != current {
				continue
			}
			holds := dc.taken != neg
			anyMap, anyList, other := false, false, false
			for _, t := range ts {
				switch t.Underlying().(type) {
				case *types.Map:
					anyMap = true
				case *types.Slice:
					anyList = true
				default:
					other = true
				}
			}
			if holds {
				// the value has one of the tested types
				if !other {
					if !anyMap {
						f.notMap = true
					}
					if !anyList {
						f.notList = true
					}
				}
			} else {
				if anyMap {
					f.notMap = true
				}
				if anyList {
					f.notList = true
				}
			}
		}
		return f
	}
	in := map[*ssa.BasicBlock]kindFact{}
	for _, b := range fn.Blocks {
		in[b] = kindFact{true, true}
	}
	if len(fn.Blocks) > 0 {
		in[fn.Blocks[0]] = kindFact{}
	}
	for changed := true; changed; {
		changed = false
		for _, b := range fn.Blocks {
			if len(b.Preds) == 0 {
				continue
			}
			f := kindFact{true, true}
			for _, pb := range b.Preds {
				e := edge(pb, b, in[pb])
				f.notMap = f.notMap && e.notMap
				f.notList = f.notList && e.notList
			}
			if f != in[b] {
				in[b] = f
				changed = true
			}
		}
	}
	return in
}

// navSetOf: the container kinds excluded for some type-tested parameter whenever block b runs
// (what the node would have navigated into), and that parameter.
func navSetOf(fn *ssa.Function, b *ssa.BasicBlock) (current ssa.Value, hasMap, hasList bool) {
	seen := map[ssa.Value]bool{}
	for _, bb := range fn.Blocks {
		ifi, ok := bb.Instrs[len(bb.Instrs)-1].(*ssa.If)
		if !ok {
			continue
		}
		for _, dc := range append([]edgeCond{{cond: ifi.Cond, taken: true}}, shortCircuitOperands(edgeCond{cond: ifi.Cond, taken: true}, 0)...) {
			cond, _ := unwrapNot(dc.cond)
			x, _, ok := typeTestsOf(cond)
			if !ok || seen[x] {
				continue
			}
			if _, isP := x.(*ssa.Parameter); !isP {
				continue
			}
			seen[x] = true
			f := kindExclusion(fn, x)[b]
			if f.notMap || f.notList {
				current, hasMap, hasList = x, f.notMap, f.notList
			}
		}
	}
	return
}

func ruleNKind(c *engine.Context) *report.Rule {
	r := report.NewRule("N-KIND", "type-mismatch errors agree with what the node navigates: expected kind, found type of the same value (nil-guarded), own node reference", 6)
	p := c.P
	var tuT *types.Named
	for _, t := range p.Roles.RuntimeErrTypes {
		if st, ok := t.Underlying().(*types.Struct); ok && st.NumFields() == 3 {
			tuT = t
		}
	}
	if tuT == nil {
		r.InfraFail("anchor unresolved: the type-mismatch error type (three fields)")
		return r
	}
	st := tuT.Underlying().(*types.Struct)
	expIdx, foundIdx, nodeIdx := -1, -1, -1
	nStr := 0
	for i := 0; i < st.NumFields(); i++ {
		if b, ok := st.Field(i).Type().Underlying().(*types.Basic); ok && b.Kind() == types.String {
			if nStr == 0 {
				expIdx = i
			} else {
				foundIdx = i
			}
			nStr++
		} else {
			nodeIdx = i
		}
	}
	var sites []*kindSite
	// constructor helpers: a function that builds the error from its parameters only
	// (node descriptor, expected kind, the mismatching value); its call sites are the sites
	type ctorRoles struct{ node, exp, found int }
	ctors := map[*ssa.Function]ctorRoles{}
	ctorExp := map[*ssa.Function]string{}
	for _, fn := range evalFuncs(c) {
		if sinkParam(p, fn) != nil {
			continue
		}
		for _, b := range fn.Blocks {
			for _, ins := range b.Instrs {
				al, ok := ins.(*ssa.Alloc)
				if !ok || !types.Identical(al.Type().(*types.Pointer).Elem(), tuT) {
					continue
				}
				roles := ctorRoles{-1, -1, -1}
				good := true
				prmIdx := func(v ssa.Value) int {
					for i, pp := range fn.Params {
						if ssa.Value(pp) == v {
							return i
						}
					}
					return -1
				}
				for _, ref := range *al.Referrers() {
					fa, ok := ref.(*ssa.FieldAddr)
					if !ok {
						continue
					}
					for _, r2 := range *fa.Referrers() {
						stv, ok := r2.(*ssa.Store)
						if !ok || stv.Addr != ssa.Value(fa) {
							continue
						}
						switch fa.Field {
						case expIdx:
							roles.exp = prmIdx(stv.Val)
						case nodeIdx:
							roles.node = prmIdx(stv.Val)
							if roles.node < 0 && fn.Signature.Recv() != nil && derivesFromReceiver(stv.Val, fn) {
								roles.node = -2 // a method of the node: its own descriptor
							}
						case foundIdx:
							// phi(const, reflect.TypeOf(param).String()) under param != nil
							for i, pp := range fn.Params {
								if it, isI := pp.Type().Underlying().(*types.Interface); isI && it.NumMethods() == 0 {
									var why []string
									if foundTypeOK(p, stv.Val, pp, &why, stv.Block()) {
										roles.found = i
									}
								}
							}
						}
					}
				}
				if (roles.node < 0 && roles.node != -2) || roles.found < 0 {
					good = false
				}
				// the expected kind is a parameter, or a constant of the helper (a per-node-type helper)
				if roles.exp < 0 {
					roles.exp = -2
					for _, ref := range *al.Referrers() {
						if fa, ok := ref.(*ssa.FieldAddr); ok && fa.Field == expIdx {
							for _, r2 := range *fa.Referrers() {
								if stv, ok := r2.(*ssa.Store); ok {
									if _, isC := stv.Val.(*ssa.Const); !isC {
										good = false
									} else {
										ctorExp[fn] = stv.Val.(*ssa.Const).Value.ExactString()
									}
								}
							}
						}
					}
				}
				if good {
					ctors[fn] = roles
				}
			}
		}
	}
	for _, fn := range evalFuncs(c) {
		if len(ctors) == 0 || len(fn.Params) < 3 {
			continue
		}
		for _, b := range fn.Blocks {
			for _, ins := range b.Instrs {
				call, ok := ins.(*ssa.Call)
				if !ok || call.Call.StaticCallee() == nil {
					continue
				}
				roles, isCtor := ctors[call.Call.StaticCallee()]
				if !isCtor {
					continue
				}
				ks := &kindSite{fn: fn, alloc: call}
				sites = append(sites, ks)
				current, m, l := navSetOf(fn, b)
				if current == nil {
					ks.why = append(ks.why, "no failed type test of a parameter dominates the error")
					continue
				}
				switch {
				case m && l:
					ks.nav = "map+list"
				case m:
					ks.nav = "map"
				case l:
					ks.nav = "list"
				}
				if roles.exp == -2 {
					ks.expected = ctorExp[call.Call.StaticCallee()]
				} else if cst, ok := call.Call.Args[roles.exp].(*ssa.Const); ok && cst.Value != nil {
					ks.expected = cst.Value.ExactString()
				} else {
					ks.why = append(ks.why, "expected kind is not a constant")
				}
				ks.foundOK = call.Call.Args[roles.found] == current
				if !ks.foundOK {
					ks.why = append(ks.why, "the found type is computed from a value other than the one whose type test failed")
				}
				if roles.node == -2 {
					ks.nodeOK = len(fn.Params) > 0 && call.Call.Args[0] == ssa.Value(fn.Params[0])
				} else {
					ks.nodeOK = derivesFromReceiver(call.Call.Args[roles.node], fn)
				}
				if !ks.nodeOK {
					ks.why = append(ks.why, "the error does not reference the raising node's own descriptor")
				}
			}
		}
	}
	for _, fn := range evalFuncs(c) {
		if len(fn.Params) < 3 {
			continue
		}
		if _, isCtor := ctors[fn]; isCtor {
			continue
		}
		for _, b := range fn.Blocks {
			for _, ins := range b.Instrs {
				al, ok := ins.(*ssa.Alloc)
				if !ok || !types.Identical(al.Type().(*types.Pointer).Elem(), tuT) {
					continue
				}
				ks := &kindSite{fn: fn, alloc: al}
				sites = append(sites, ks)
				// current = the parameter that was type-tested
				current, m, l := navSetOf(fn, b)
				if current == nil {
					ks.why = append(ks.why, "no failed type test of a parameter dominates the error")
					continue
				}
				switch {
				case m && l:
					ks.nav = "map+list"
				case m:
					ks.nav = "map"
				case l:
					ks.nav = "list"
				}
				for _, ref := range *al.Referrers() {
					fa, ok := ref.(*ssa.FieldAddr)
					if !ok {
						continue
					}
					for _, r2 := range *fa.Referrers() {
						stv, ok := r2.(*ssa.Store)
						if !ok || stv.Addr != ssa.Value(fa) {
							continue
						}
						switch fa.Field {
						case expIdx:
							if cst, ok := stv.Val.(*ssa.Const); ok && cst.Value != nil {
								ks.expected = cst.Value.ExactString()
							} else {
								ks.why = append(ks.why, "expected kind is not a constant")
							}
						case foundIdx:
							ks.foundOK = foundTypeOK(p, stv.Val, current, &ks.why, stv.Block())
						case nodeIdx:
							// load of a field of the receiver (possibly through the embedded basic node)
							ks.nodeOK = derivesFromReceiver(stv.Val, fn)
							if !ks.nodeOK {
								ks.why = append(ks.why, "the error does not reference the raising node's own descriptor")
							}
						}
					}
				}
			}
		}
	}
	byNav := map[string]map[string]bool{}
	byExp := map[string]map[string]bool{}
	for _, ks := range sites {
		r.Instances++
		if byNav[ks.nav] == nil {
			byNav[ks.nav] = map[string]bool{}
		}
		byNav[ks.nav][ks.expected] = true
		if byExp[ks.expected] == nil {
			byExp[ks.expected] = map[string]bool{}
		}
		byExp[ks.expected][ks.nav] = true
	}
	for _, ks := range sites {
		ok := len(ks.why) == 0 && ks.foundOK && ks.nodeOK && ks.nav != "" && len(byNav[ks.nav]) == 1 && len(byExp[ks.expected]) == 1
		r.Oblige(ok)
		r.Sample("%s: navigates {%s}, expected kind %s, found-type ok=%v, own node ok=%v", load.FuncName(ks.fn), ks.nav, ks.expected, ks.foundOK, ks.nodeOK)
		if !ok {
			why := append([]string{}, ks.why...)
			if len(byNav[ks.nav]) != 1 || len(byExp[ks.expected]) != 1 {
				why = append(why, fmt.Sprintf("expected-kind text %s is used for nodes that navigate {%s}, but the mapping between navigated container kinds and kind texts is not one-to-one across nodes", ks.expected, ks.nav))
			}
			if !ks.foundOK && len(ks.why) == 0 {
				why = append(why, "found type is not computed from the mismatching value")
			}
			r.Violation("type-mismatch error in "+load.FuncName(ks.fn), p.RelPos(ks.alloc.Pos()), "%s", strings.Join(uniqSorted(why), "; "))
		}
	}
	if len(byNav) < 3 {
		r.Note("only %d distinct navigated-kind sets seen", len(byNav))
	}
	return r
}

// foundTypeOK: v = phi(const, reflect.TypeOf(current).String()) with the call under current != nil.
func foundTypeOK(p *load.Program, v ssa.Value, current ssa.Value, why *[]string, useBlock *ssa.BasicBlock) bool {
	// one source of the found-type text, judged where it is chosen: a constant needs the value
	// to be nil (or to be one alternative of a nil-guarded choice), the reflected type needs the
	// value to be non-nil
	nilFact := func(conds []edgeCond) int { // 1 nil, 0 non-nil, -1 unknown
		out := -1
		for _, dc := range conds {
			if bo, ok := dc.cond.(*ssa.BinOp); ok && (bo.Op == token.EQL || bo.Op == token.NEQ) {
				if (isNilConstV(bo.Y) && bo.X == current) || (isNilConstV(bo.X) && bo.Y == current) {
					if (bo.Op == token.EQL) == dc.taken {
						out = 1
					} else {
						out = 0
					}
				}
			}
		}
		return out
	}
	sawConst, sawType := false, false
	one := func(e ssa.Value, conds []edgeCond) bool {
		switch x := e.(type) {
		case *ssa.Const:
			sawConst = true
			return true
		case *ssa.Call:
			// invoke String on reflect.TypeOf(current)
			if !x.Call.IsInvoke() || x.Call.Method.Name() != "String" {
				*why = append(*why, "found type is not obtained by reflect.TypeOf(value).String()")
				return false
			}
			tc, ok := x.Call.Value.(*ssa.Call)
			if !ok || tc.Call.StaticCallee() == nil || tc.Call.StaticCallee().String() != "reflect.TypeOf" {
				*why = append(*why, "found type is not obtained by reflect.TypeOf(value).String()")
				return false
			}
			if tc.Call.Args[0] != current {
				*why = append(*why, "found type is computed from a different value than the one that failed the type test")
				return false
			}
			if nilFact(append(dominatingConds(x.Block()), conds...)) != 0 {
				*why = append(*why, "reflect.TypeOf(value).String() is not guarded by value != nil")
				return false
			}
			sawType = true
			return true
		}
		*why = append(*why, "found type has an unrecognised source")
		return false
	}
	if ph, ok := v.(*ssa.Phi); ok {
		for i, e := range ph.Edges {
			if !one(e, edgeCondsOfPred(ph.Block().Preds[i])) {
				return false
			}
		}
		return sawConst && sawType
	}
	// a single source: the error is built separately for the nil and the non-nil value
	var at *ssa.BasicBlock
	if ins, isIns := v.(ssa.Instruction); isIns {
		at = ins.Block()
	}
	if _, isC := v.(*ssa.Const); isC {
		// the constant text stands for "no value": the value must be known nil where it is stored
		if useBlock != nil && nilFact(dominatingConds(useBlock)) == 1 {
			return true
		}
		*why = append(*why, "a constant found type is used on a path where the value is not known to be nil")
		return false
	}
	if at == nil || !one(v, nil) {
		if at == nil {
			*why = append(*why, "found type has an unrecognised source")
		}
		return false
	}
	return sawType
}

func derivesFromReceiver(v ssa.Value, fn *ssa.Function) bool {
	for i := 0; i < 6; i++ {
		switch x := v.(type) {
		case *ssa.UnOp:
			v = x.X
		case *ssa.FieldAddr:
			v = x.X
		case *ssa.Parameter:
			return len(fn.Params) > 0 && x == fn.Params[0]
		default:
			return false
		}
	}
	return false
}

// ---------- N-DEEPEST ----------

func ruleNDeepest(c *engine.Context) *report.Rule {
	r := report.NewRule("N-DEEPEST", "inside fan-out loops a branch error is only accumulated through the deepest-error helper; nothing else decides which error survives", 4)
	p := c.P
	// the helper: method of the basic node returning (int, runtime error)
	var helper *ssa.Function
	byPointer := false // the helper updates the accumulators through pointer parameters
	isPtrTo := func(t types.Type, elem func(types.Type) bool) bool {
		pt, ok := t.(*types.Pointer)
		return ok && elem(pt.Elem())
	}
	isRtErr := func(t types.Type) bool { return types.Identical(t, p.Roles.RuntimeErrIface) }
	for _, fn := range evalFuncs(c) {
		if sinkParam(p, fn) != nil {
			continue
		}
		res := fn.Signature.Results()
		nErr, nInt, nPErr, nPInt := 0, 0, 0, 0
		for _, prm := range fn.Params {
			switch {
			case isRtErr(prm.Type()):
				nErr++
			case isIntT(prm.Type()):
				nInt++
			case isPtrTo(prm.Type(), isRtErr):
				nPErr++
			case isPtrTo(prm.Type(), isIntT):
				nPInt++
			}
		}
		byValue := res.Len() == 2 && isIntT(res.At(0).Type()) && isRtErr(res.At(1).Type()) && nErr == 2 && nInt == 1
		byPtr := res.Len() == 0 && nErr == 1 && nPErr == 1 && nPInt == 1
		if byValue || byPtr {
			if helper != nil {
				r.InfraFail("anchor ambiguous: deepest-error helper (%s, %s)", helper.Name(), fn.Name())
			}
			helper = fn
			byPointer = byPtr
		}
	}
	if helper == nil {
		r.InfraFail("anchor unresolved: deepest-error helper")
		return r
	}
	if byPointer {
		// the accumulator is a local variable whose address goes to the helper: nothing else may
		// store into it once the fan-out loop runs
		for _, fn := range retrieveFamily(c) {
			loops := cfgutil.Loops(fn)
			for _, b := range fn.Blocks {
				for _, ins := range b.Instrs {
					al, ok := ins.(*ssa.Alloc)
					if !ok || !isRtErr(al.Type().(*types.Pointer).Elem()) {
						continue
					}
					handed := false
					for _, ref := range *al.Referrers() {
						if call, isCall := ref.(*ssa.Call); isCall && call.Call.StaticCallee() == helper {
							handed = true
						}
					}
					if !handed {
						continue
					}
					r.Instances++
					ok2 := true
					for _, ref := range *al.Referrers() {
						st, isSt := ref.(*ssa.Store)
						if !isSt || st.Addr != ssa.Value(al) {
							continue
						}
						for _, l := range loops {
							if l.Blocks[st.Block()] {
								ok2 = false
							}
						}
					}
					r.Oblige(ok2)
					r.Sample("%s: error accumulator (by address) updated only by %s inside loops: %v", load.FuncName(fn), helper.Name(), ok2)
					if !ok2 {
						r.Violation(fmt.Sprintf("error accumulator of %s", load.FuncName(fn)), p.RelPos(fn.Pos()),
							"the error kept across iterations is updated by something other than the deepest-error helper %s: the deepest / preferred-kind tie rule is bypassed", helper.Name())
					}
				}
			}
		}
	}
	for _, fn := range retrieveFamily(c) {
		for _, l := range cfgutil.Loops(fn) {
			// accumulator phis in the header: of runtime-error type
			for _, ins := range l.Header.Instrs {
				ph, ok := ins.(*ssa.Phi)
				if !ok || !types.Identical(ph.Type(), p.Roles.RuntimeErrIface) {
					continue
				}
				r.Instances++
				ok2 := true
				// every value that flows back into the accumulator from inside the loop is the
				// accumulator itself, the helper's result, or a phi (branch merge, inner loop) of such
				// values; a fresh accumulator started inside the loop and merged by hand is not
				seenV := map[ssa.Value]bool{ph: true}
				var fromInside func(e ssa.Value) bool
				fromInside = func(e ssa.Value) bool {
					if seenV[e] {
						return true
					}
					seenV[e] = true
					if ip, isPhi := e.(*ssa.Phi); isPhi && l.Blocks[ip.Block()] {
						for _, e2 := range ip.Edges {
							if !fromInside(e2) {
								return false
							}
						}
						return true
					}
					if ex, isEx := e.(*ssa.Extract); isEx {
						if call, isCall := ex.Tuple.(*ssa.Call); isCall && call.Call.StaticCallee() == helper {
							return true
						}
					}
					return false
				}
				for i, e := range ph.Edges {
					if !l.Blocks[l.Header.Preds[i]] {
						continue // initial value
					}
					if !fromInside(e) {
						ok2 = false
					}
				}
				r.Oblige(ok2)
				r.Sample("%s: error accumulator of loop #%d updated only by %s: %v", load.FuncName(fn), loopOrdinal(fn, l), helper.Name(), ok2)
				if !ok2 {
					r.Violation(fmt.Sprintf("error accumulator in loop #%d of %s", loopOrdinal(fn, l), load.FuncName(fn)), p.RelPos(fn.Pos()),
						"the error kept across iterations is updated by something other than the deepest-error helper %s: the deepest / preferred-kind tie rule is bypassed", helper.Name())
				}
			}
		}
	}
	// (2) no branch error is dropped before the ranking: from the `err != nil` edge of a step inside a
	// fan-out loop, every path to the next iteration hands err to the helper, or skips it only because
	// the sink already holds results
	for _, fn := range retrieveFamily(c) {
		sink := sinkParam(p, fn)
		for _, l := range cfgutil.Loops(fn) {
			for b := range l.Blocks {
				ifi, ok := b.Instrs[len(b.Instrs)-1].(*ssa.If)
				if !ok {
					continue
				}
				bo, ok := ifi.Cond.(*ssa.BinOp)
				if !ok || bo.Op != token.NEQ {
					continue
				}
				var errV ssa.Value
				if cst, isC := bo.Y.(*ssa.Const); isC && cst.IsNil() {
					errV = bo.X
				} else if cst, isC := bo.X.(*ssa.Const); isC && cst.IsNil() {
					errV = bo.Y
				}
				if errV == nil || !types.Identical(errV.Type(), p.Roles.RuntimeErrIface) {
					continue
				}
				// the error of a step taken inside the loop: the step's call itself, or (where the
				// forward-or-emit helper is expanded) the merge of its outcomes
				var isBranchErr func(v ssa.Value, depth int) bool
				isBranchErr = func(v ssa.Value, depth int) bool {
					if depth > 3 {
						return false
					}
					switch x := v.(type) {
					case *ssa.Call:
						return l.Blocks[x.Block()]
					case *ssa.Phi:
						if !l.Blocks[x.Block()] || x.Block() == l.Header {
							return false
						}
						for _, e := range x.Edges {
							if isBranchErr(e, depth+1) {
								return true
							}
						}
					}
					return false
				}
				if !isBranchErr(errV, 0) {
					continue
				}
				r.Instances++
				bad := ""
				var badAt ssa.Instruction
				seen := map[*ssa.BasicBlock]bool{}
				var walk func(x *ssa.BasicBlock)
				walk = func(x *ssa.BasicBlock) {
					if seen[x] || bad != "" {
						return
					}
					seen[x] = true
					if x == l.Header || !l.Blocks[x] {
						return // next iteration / loop left: only reachable here through an allowed skip or after the helper
					}
					for _, ins := range x.Instrs {
						if call, isCall := ins.(*ssa.Call); isCall && call.Call.StaticCallee() == helper {
							for _, a := range call.Call.Args {
								if a == errV {
									return
								}
							}
						}
					}
					last := x.Instrs[len(x.Instrs)-1]
					switch t := last.(type) {
					case *ssa.If:
						if !isSinkLenTest(p, t.Cond, sink) {
							bad, badAt = "the error is handed to the ranking only under an additional condition", t
							return
						}
						// only the "sink still empty" edge must reach the helper
						emptyEdge := 0
						if bo := t.Cond.(*ssa.BinOp); bo.Op != token.EQL {
							emptyEdge = 1
						}
						walk(x.Succs[emptyEdge])
					case *ssa.Jump:
						// straight on without the helper
						if x.Succs[0] == l.Header {
							bad, badAt = "the error is discarded", last
							return
						}
						walk(x.Succs[0])
					case *ssa.Return, *ssa.Panic:
					}
				}
				walk(b.Succs[0])
				r.Oblige(bad == "")
				if bad != "" {
					r.Violation(fmt.Sprintf("branch error of loop #%d in %s does not always reach the ranking", loopOrdinal(fn, l), load.FuncName(fn)), p.RelPos(badAt.Pos()),
						"after a failed step inside the fan-out loop %s: every branch error must be ranked by %s (unless results already exist), otherwise the reported step is not the deepest failing one", bad, helper.Name())
				}
			}
		}
	}
	return r
}

// isSinkLenTest: cond compares len(sink.result) with 0.
func isSinkLenTest(p *load.Program, cond ssa.Value, sink *ssa.Parameter) bool {
	bo, ok := cond.(*ssa.BinOp)
	if !ok {
		return false
	}
	for _, side := range []ssa.Value{bo.X, bo.Y} {
		if x, isLen := lenArg(side); isLen {
			if ld, isLd := x.(*ssa.UnOp); isLd {
				if fa, isFA := ld.X.(*ssa.FieldAddr); isFA && (sink == nil || fa.X == ssa.Value(sink)) {
					return true
				}
			}
		}
	}
	return false
}

func isIntT(t types.Type) bool {
	b, ok := t.Underlying().(*types.Basic)
	return ok && b.Kind() == types.Int
}

// ---------- N-FORWARD ----------

func ruleNForward(c *engine.Context) *report.Rule {
	r := report.NewRule("N-FORWARD", "every step hands the next step the same root, the same sink and the child it selected", 12)
	p := c.P
	_ = findPoolAccess(c)
	rootParam := func(fn *ssa.Function) *ssa.Parameter {
		// first empty-interface parameter after the receiver
		for i, prm := range fn.Params {
			if i == 0 && fn.Signature.Recv() != nil {
				continue
			}
			if it, ok := prm.Type().Underlying().(*types.Interface); ok && it.NumMethods() == 0 {
				return prm
			}
		}
		return nil
	}
	isRetrieveInvoke := func(call *ssa.Call) bool {
		return call.Call.IsInvoke() && call.Call.Method.Name() == p.Roles.RetrieveName && types.Identical(call.Call.Value.Type(), p.Roles.NodeIface)
	}
	for _, fn := range evalFuncs(c) {
		if fn.Parent() != nil && fn != p.EvalClosure {
			continue
		}
		root := rootParam(fn)
		sink := sinkParam(p, fn)
		for _, b := range fn.Blocks {
			for _, ins := range b.Instrs {
				call, ok := ins.(*ssa.Call)
				if !ok {
					continue
				}
				var aRoot, aCur, aSink ssa.Value
				switch {
				case isRetrieveInvoke(call):
					aRoot, aCur, aSink = call.Call.Args[0], call.Call.Args[1], call.Call.Args[2]
				case call.Call.StaticCallee() != nil && isEmitHelper(c, call.Call.StaticCallee()):
					continue // an emission, not a step
				case call.Call.StaticCallee() != nil && c.P.InPkg(call.Call.StaticCallee()) && sinkParam(p, call.Call.StaticCallee()) != nil && call.Call.StaticCallee().Signature.Recv() != nil:
					// helper of the retrieve family: (recv, root, ..., sink)
					callee := call.Call.StaticCallee()
					for i, prm := range callee.Params {
						if prm == rootParam(callee) {
							aRoot = call.Call.Args[i]
						}
						if prm == sinkParam(p, callee) {
							aSink = call.Call.Args[i]
						}
					}
				default:
					continue
				}
				r.Instances++
				construct := fmt.Sprintf("%s → %s", load.FuncName(fn), calleeLabel(call))
				ok2 := true
				var why []string
				// root
				if fn == p.EvalClosure {
					if aRoot != ssa.Value(fn.Params[0]) || (aCur != nil && aCur != ssa.Value(fn.Params[0])) {
						ok2 = false
						why = append(why, "evaluation does not start with root = current = the source argument")
					}
				} else if aRoot != nil && (root == nil || !sameParamVar(fn, aRoot, root)) {
					ok2 = false
					why = append(why, "the root argument is not the caller's own root")
				}
				// sink
				if aSink != nil {
					sv := aSink
					privateSink := false
					if ld, isLd := sv.(*ssa.UnOp); isLd {
						if al, isAl := ld.X.(*ssa.Alloc); isAl {
							for _, ref := range *al.Referrers() {
								if st, isSt := ref.(*ssa.Store); isSt && st.Addr == ssa.Value(al) {
									sv = st.Val
								}
							}
						}
					}
					if isPoolAcquired(c, sv) {
						privateSink = true
					}
					if !privateSink && fn != p.EvalClosure && (sink == nil || !sameParamVar(fn, aSink, sink)) {
						ok2 = false
						why = append(why, "results are collected into a sink that is neither the caller's own nor a private pooled one")
					}
				}
				r.Oblige(ok2)
				if len(r.Samples) < 8 {
					r.Sample("%s: root and sink forwarded unchanged: %v", construct, ok2)
				}
				if !ok2 {
					r.Violation(construct, p.RelPos(call.Pos()), "%s", strings.Join(why, "; "))
				}
			}
		}
	}
	// emitters forward exactly container[key]
	for _, es := range findEmitSites(c) {
		_ = es
	}
	// the three emitter helpers: the value passed to next is the value emitted in the plain branch
	byFn := map[*ssa.Function][]*emitSite{}
	for _, s := range findEmitSites(c) {
		byFn[s.fn] = append(byFn[s.fn], s)
	}
	for fn, ss := range byFn {
		var plain ssa.Value
		for _, s := range ss {
			if s.value != nil {
				if _, isMI := s.value.(*ssa.MakeInterface); !isMI {
					plain = s.value
				}
			}
		}
		for _, b := range fn.Blocks {
			for _, ins := range b.Instrs {
				call, ok := ins.(*ssa.Call)
				if !ok || !isRetrieveInvoke(call) {
					continue
				}
				// only steps into the emitter's own sink forward "the" child; a step into a private
				// sink (a function node evaluating its parameter path) is judged by N-FUNCALL
				if sk := sinkParam(p, fn); sk != nil && !sameParamVar(fn, call.Call.Args[2], sk) {
					continue
				}
				r.Instances++
				same := plain != nil && sameLocValue(call.Call.Args[1], plain)
				r.Oblige(same)
				r.Sample("%s: the child passed to next is the value emitted when there is no next: %v", load.FuncName(fn), same)
				if !same {
					r.Violation("emitter "+load.FuncName(fn)+": forwarded child", p.RelPos(call.Pos()), "the value handed to the next step differs from the value this step emits as a result")
				}
			}
		}
	}
	return r
}

func sameLocValue(a, b ssa.Value) bool {
	if a == b {
		return true
	}
	la, lb := readLoc(a), readLoc(b)
	if la == nil || lb == nil || la.kind != lb.kind {
		return false
	}
	if la.kind == "value" {
		return varOf(a) == varOf(b)
	}
	return varOf(la.container) == varOf(lb.container) && varOf(la.key) == varOf(lb.key)
}

func calleeLabel(call *ssa.Call) string {
	if call.Call.IsInvoke() {
		return "next." + call.Call.Method.Name()
	}
	if sc := call.Call.StaticCallee(); sc != nil {
		return load.FuncName(sc)
	}
	return "call"
}

// ---------- B-CHAIN ----------

// ruleBChain: in the chain builder's loop over the collected steps, the "last step" variable always
// designates the step just processed (every in-loop update derives from the current range element).
func ruleBChain(c *engine.Context) *report.Rule {
	r := report.NewRule("B-CHAIN", "the chain builder links every new step behind the step processed just before it", 1)
	p := c.P
	linkName := ""
	// the link method: node-interface method taking a node and returning nothing (setNext)
	it := p.Roles.NodeIface.Underlying().(*types.Interface)
	for i := 0; i < it.NumMethods(); i++ {
		m := it.Method(i)
		sig := m.Type().(*types.Signature)
		if sig.Params().Len() == 1 && sig.Results().Len() == 0 && types.Identical(sig.Params().At(0).Type(), p.Roles.NodeIface) {
			linkName = m.Name()
		}
	}
	if linkName == "" {
		r.InfraFail("anchor unresolved: link method of the node interface")
		return r
	}
	for _, fn := range p.Funcs {
		if fn.Blocks == nil || !p.ParsePhase[fn] || p.FuncIsGenerated(fn) {
			continue
		}
		for _, l := range cfgutil.Loops(fn) {
			ind := cfgutil.Classify(l)
			if ind.Kind != cfgutil.LoopAscending && ind.Kind != cfgutil.LoopAscendingFrom {
				continue
			}
			// loop-carried node phis used as receiver of the link method
			for _, ins := range l.Header.Instrs {
				ph, ok := ins.(*ssa.Phi)
				if !ok || !types.Identical(ph.Type(), p.Roles.NodeIface) {
					continue
				}
				usedAsLinkRecv := false
				for _, ref := range *ph.Referrers() {
					if call, ok := ref.(*ssa.Call); ok && call.Call.IsInvoke() && call.Call.Method.Name() == linkName && call.Call.Value == ssa.Value(ph) {
						usedAsLinkRecv = true
					}
				}
				if !usedAsLinkRecv {
					continue
				}
				r.Instances++
				// the current element: load of IndexAddr(slice, idx)
				ok2 := true
				for i, e := range ph.Edges {
					if !l.Blocks[l.Header.Preds[i]] {
						continue
					}
					if !derivesFromElem(e, ind.Index, 0) {
						ok2 = false
					}
				}
				r.Oblige(ok2)
				r.Sample("%s: the link target variable is re-assigned from the current element on every iteration: %v", load.FuncName(fn), ok2)
				if !ok2 {
					r.Violation("chain builder "+load.FuncName(fn)+": last step", p.RelPos(fn.Pos()),
						"on some iteration the variable that receives the next link is not updated to the step just processed: following steps would be appended to the wrong node")
				}
			}
		}
	}
	return r
}

// derivesFromElem: v is (a type assertion / interface conversion of) the slice element at index idx.
func derivesFromElem(v ssa.Value, idx ssa.Value, depth int) bool {
	if depth > 6 {
		return false
	}
	switch x := v.(type) {
	case *ssa.TypeAssert:
		return derivesFromElem(x.X, idx, depth+1)
	case *ssa.Extract:
		return derivesFromElem(x.Tuple, idx, depth+1)
	case *ssa.MakeInterface:
		return derivesFromElem(x.X, idx, depth+1)
	case *ssa.ChangeInterface:
		return derivesFromElem(x.X, idx, depth+1)
	case *ssa.Phi:
		for _, e := range x.Edges {
			if !derivesFromElem(e, idx, depth+1) {
				return false
			}
		}
		return true
	case *ssa.UnOp:
		if ia, ok := x.X.(*ssa.IndexAddr); ok {
			return ia.Index == idx
		}
	}
	return false
}

// ---------- N-ACCFLAG ----------

type retrieveEdge struct {
	T        *types.Named
	field    int
	sameSink bool
	fn       *ssa.Function
}

// fieldOrigin: v derives from a load of field f of the receiver of fn (through range element, address-of, load).
func fieldOrigin(v ssa.Value, fn *ssa.Function, depth int) (int, bool) {
	if depth > 8 || len(fn.Params) == 0 {
		return 0, false
	}
	switch x := v.(type) {
	case *ssa.UnOp:
		return fieldOrigin(x.X, fn, depth+1)
	case *ssa.IndexAddr:
		return fieldOrigin(x.X, fn, depth+1)
	case *ssa.FieldAddr:
		if x.X == ssa.Value(fn.Params[0]) {
			return x.Field, true
		}
		return fieldOrigin(x.X, fn, depth+1)
	case *ssa.Field:
		return fieldOrigin(x.X, fn, depth+1)
	}
	return 0, false
}

func findRetrieveEdges(c *engine.Context) []*retrieveEdge {
	p := c.P
	var out []*retrieveEdge
	seen := map[string]bool{}
	for _, fn := range evalFuncs(c) {
		if fn.Signature.Recv() == nil {
			continue
		}
		rt := fn.Signature.Recv().Type()
		if pt, ok := rt.(*types.Pointer); ok {
			rt = pt.Elem()
		}
		T, ok := rt.(*types.Named)
		if !ok {
			continue
		}
		sink := sinkParam(p, fn)
		for _, b := range fn.Blocks {
			for _, ins := range b.Instrs {
				call, ok := ins.(*ssa.Call)
				if !ok {
					continue
				}
				var recv, aSink ssa.Value
				if call.Call.IsInvoke() && call.Call.Method.Name() == p.Roles.RetrieveName && types.Identical(call.Call.Value.Type(), p.Roles.NodeIface) {
					recv, aSink = call.Call.Value, call.Call.Args[2]
				} else if sc := call.Call.StaticCallee(); sc != nil && sc.Name() == p.Roles.RetrieveName && sc.Signature.Recv() != nil && p.Roles.IsNodeType(sc.Signature.Recv().Type()) {
					recv, aSink = call.Call.Args[0], call.Call.Args[len(call.Call.Args)-1]
				} else {
					continue
				}
				f, ok := fieldOrigin(recv, fn, 0)
				if !ok {
					continue
				}
				key := fmt.Sprintf("%s.%d", T.Obj().Name(), f)
				if seen[key] {
					continue
				}
				seen[key] = true
				out = append(out, &retrieveEdge{T: T, field: f, sameSink: sink != nil && sameParamVar(fn, aSink, sink), fn: fn})
			}
		}
	}
	sort.Slice(out, func(i, j int) bool {
		if out[i].T.Obj().Name() != out[j].T.Obj().Name() {
			return out[i].T.Obj().Name() < out[j].T.Obj().Name()
		}
		return out[i].field < out[j].field
	})
	return out
}

func fieldName(T *types.Named, i int) string {
	if st, ok := T.Underlying().(*types.Struct); ok && i < st.NumFields() {
		return T.Obj().Name() + "." + st.Field(i).Name()
	}
	return fmt.Sprintf("%s.#%d", T.Obj().Name(), i)
}

func ruleNAccFlag(c *engine.Context) *report.Rule {
	r := report.NewRule("N-ACCFLAG", "the accessor flag is cleared on every node that can emit on behalf of a function argument or filter operand", 5)
	p := c.P
	// flag field + setter method of the basic node
	bst := p.Roles.BasicNode.Underlying().(*types.Struct)
	flagField := -1
	for _, es := range findEmitSites(c) {
		if es.guard != nil {
			if base, f, ok := boolFieldLoad(es.guard.Cond); ok {
				if pt, isP := base.Type().Underlying().(*types.Pointer); isP && types.Identical(pt.Elem(), p.Roles.BasicNode) {
					flagField = f
				}
			}
		}
	}
	if flagField < 0 {
		r.InfraFail("anchor unresolved: accessor flag field")
		return r
	}
	setterName := ""
	nextField := -1
	getNextName := ""
	for i := 0; i < bst.NumFields(); i++ {
		if types.Identical(bst.Field(i).Type(), p.Roles.NodeIface) {
			nextField = i
		}
	}
	for _, fn := range p.Funcs {
		if fn.Signature.Recv() == nil || fn.Blocks == nil || len(fn.Blocks) != 1 {
			continue
		}
		if pt, ok := fn.Signature.Recv().Type().(*types.Pointer); !ok || !types.Identical(pt.Elem(), p.Roles.BasicNode) {
			continue
		}
		for _, ins := range fn.Blocks[0].Instrs {
			switch x := ins.(type) {
			case *ssa.Store:
				if fa, ok := x.Addr.(*ssa.FieldAddr); ok && fa.Field == flagField && fa.X == ssa.Value(fn.Params[0]) && len(fn.Params) == 2 && x.Val == ssa.Value(fn.Params[1]) {
					setterName = fn.Name()
				}
			case *ssa.Return:
				if len(x.Results) == 1 && len(fn.Params) == 1 {
					if ld, ok := x.Results[0].(*ssa.UnOp); ok {
						if fa, ok := ld.X.(*ssa.FieldAddr); ok && fa.Field == nextField && fa.X == ssa.Value(fn.Params[0]) {
							getNextName = fn.Name()
						}
					}
				}
			}
		}
	}
	if setterName == "" || getNextName == "" {
		r.InfraFail("anchor unresolved: accessor flag setter / next getter (setter=%q getter=%q)", setterName, getNextName)
		return r
	}
	isSetterCall := func(ins ssa.Instruction) (recv ssa.Value, arg ssa.Value, ok bool) {
		call, isCall := ins.(*ssa.Call)
		if !isCall {
			return nil, nil, false
		}
		if call.Call.IsInvoke() && call.Call.Method.Name() == setterName {
			return call.Call.Value, call.Call.Args[0], true
		}
		if sc := call.Call.StaticCallee(); sc != nil && sc.Name() == setterName && len(call.Call.Args) == 2 {
			return call.Call.Args[0], call.Call.Args[1], true
		}
		return nil, nil, false
	}
	// the passes: loops of hand-written PARSE functions that walk a node chain through its next
	// links while setting the flag on the walk variable. A pass may be a function of its own
	// (node and mode are parameters) or written out where a chain is attached (mode is a constant).
	type passT struct {
		fn   *ssa.Function
		walk *cfgutil.Loop
		W    *ssa.Phi
		mode ssa.Value // the value the walk variable's flag is set to
	}
	var passes []*passT
	for _, fn := range p.Funcs {
		if fn.Blocks == nil || !p.ParsePhase[fn] || p.FuncIsGenerated(fn) {
			continue
		}
		for _, l := range cfgutil.Loops(fn) {
			for _, ins := range l.Header.Instrs {
				ph, ok := ins.(*ssa.Phi)
				if !ok || !types.Identical(ph.Type(), p.Roles.NodeIface) {
					continue
				}
				advances := false
				for i, e := range ph.Edges {
					if l.Blocks[l.Header.Preds[i]] {
						if call, ok := e.(*ssa.Call); ok && call.Call.IsInvoke() && call.Call.Method.Name() == getNextName && call.Call.Value == ssa.Value(ph) {
							advances = true
						}
					}
				}
				if !advances {
					continue
				}
				for b := range l.Blocks {
					for _, x := range b.Instrs {
						if recv, arg, ok := isSetterCall(x); ok && recv == ssa.Value(ph) {
							passes = append(passes, &passT{fn: fn, walk: l, W: ph, mode: arg})
						}
					}
				}
			}
		}
	}
	sort.Slice(passes, func(i, j int) bool { return passes[i].W.Pos() < passes[j].W.Pos() })
	if len(passes) == 0 {
		r.Oblige(false)
		r.Violation("flag-clearing pass", "-", "no function walks a node chain through its next links while setting the accessor flag")
		return r
	}
	edges := findRetrieveEdges(c)
	setters := nodeSetters(p)
	for _, ps := range passes {
		pass, walk, W := ps.fn, ps.walk, ps.W
		everyIteration := func(ins ssa.Instruction) bool {
			if !walk.Blocks[ins.Block()] {
				return false
			}
			for _, latch := range walk.Latch {
				if !(ins.Block() == latch || ins.Block().Dominates(latch)) {
					return false
				}
			}
			return true
		}
		// (1) the walk variable itself gets the flag on every iteration
		r.Instances++
		selfOK := false
		for _, b := range pass.Blocks {
			for _, x := range b.Instrs {
				if recv, arg, ok := isSetterCall(x); ok && recv == ssa.Value(W) && (arg == ps.mode || sameConst(arg, ps.mode)) && everyIteration(x) {
					selfOK = true
				}
			}
		}
		r.Oblige(selfOK)
		r.Sample("%s: flag set on the walk variable on every iteration: %v", load.FuncName(pass), selfOK)
		if !selfOK {
			r.Violation("flag-clearing pass "+load.FuncName(pass)+": chain nodes", p.RelPos(pass.Pos()),
				"the pass does not set the flag on every node it walks over (only some position of the chain): an inner node that emits results keeps accessor mode")
		}
		// (2) same-sink retrieve edges other than next must be covered
		for _, e := range edges {
			if !e.sameSink {
				continue
			}
			// next edge of the basic node: covered by the walk
			if st, ok := e.T.Underlying().(*types.Struct); ok {
				ft := st.Field(e.field).Type()
				if pt, isPtr := ft.(*types.Pointer); isPtr && types.Identical(pt.Elem(), p.Roles.BasicNode) {
					continue // promoted access to the embedded basic node (its next)
				}
			}
			if types.Identical(e.T, p.Roles.BasicNode) {
				continue
			}
			r.Instances++
			covered := false
			why := "no flag update reaches the nodes stored in this field (directly in the pass, or in a helper the pass hands the node to), or only under an extra condition"
			// the type test of the walk variable to *T inside the loop, then the shared propagation check (N-WALK)
			for _, b := range pass.Blocks {
				if !walk.Blocks[b] {
					continue
				}
				for _, x := range b.Instrs {
					ta, isTA := x.(*ssa.TypeAssert)
					if !isTA || !ta.CommaOk || ta.X != ssa.Value(W) {
						continue
					}
					if pt, isPtr := ta.AssertedType.(*types.Pointer); !isPtr || !types.Identical(pt.Elem(), e.T) {
						continue
					}
					for _, ref := range *ta.Referrers() {
						ex, isE := ref.(*ssa.Extract)
						if !isE || ex.Index != 0 {
							continue
						}
						if edgesPropagated(p, pass, ex, setterName, setters, evalEdgeGuards(c, e.T), ps.mode, W)[e.field] {
							covered = true
						}
					}
				}
			}
			r.Oblige(covered)
			r.Sample("retrieve edge %s (same sink): covered by the flag-clearing pass in %s: %v", fieldName(e.T, e.field), load.FuncName(pass), covered)
			if !covered {
				r.Violation("flag-clearing pass "+load.FuncName(pass)+": edge "+fieldName(e.T, e.field), p.RelPos(pass.Pos()),
					"nodes reachable through %s emit into the same result list as their parent (see %s), but %s: in accessor mode they hand Accessor structs to functions / filter operands",
					fieldName(e.T, e.field), load.FuncName(e.fn), why)
			}
		}
	}
	isFalse := func(v ssa.Value) bool {
		cst, isC := v.(*ssa.Const)
		return isC && cst.Value != nil && cst.Value.String() == "false"
	}
	// (3) attach points: stores to private-sink edge fields are accompanied by a pass with mode=false
	for _, e := range edges {
		if e.sameSink {
			continue
		}
		for _, fn := range p.Funcs {
			if fn.Blocks == nil || !p.ParsePhase[fn] || p.FuncIsGenerated(fn) {
				continue
			}
			for _, b := range fn.Blocks {
				for _, ins := range b.Instrs {
					st, ok := ins.(*ssa.Store)
					if !ok {
						continue
					}
					fa, ok := st.Addr.(*ssa.FieldAddr)
					if !ok || fa.Field != e.field {
						continue
					}
					pt, ok := fa.X.Type().Underlying().(*types.Pointer)
					if !ok || !types.Identical(pt.Elem(), e.T) {
						continue
					}
					r.Instances++
					okAttach := false
					isAttached := func(v ssa.Value) bool {
						if v == st.Val {
							return true
						}
						if ld, isLd := v.(*ssa.UnOp); isLd {
							if fa2, isFA := ld.X.(*ssa.FieldAddr); isFA && fa2.Field == e.field && fa2.X == fa.X {
								return true
							}
						}
						return false
					}
					// (ii) re-assignment from a helper applied to the field's own value
					if call, isCall := st.Val.(*ssa.Call); isCall {
						for _, a := range call.Call.Args {
							if ld, isLd := a.(*ssa.UnOp); isLd {
								if fa2, isFA := ld.X.(*ssa.FieldAddr); isFA && fa2.Field == e.field && fa2.X == fa.X {
									okAttach = true
								}
							}
						}
					}
					for _, ps := range passes {
						// (i) a pass function is called in the same function on the stored value (or a load of the field) with mode=false
						if mp, isParam := ps.mode.(*ssa.Parameter); isParam && mp.Parent() == ps.fn {
							for _, bb := range fn.Blocks {
								for _, x := range bb.Instrs {
									call, isCall := x.(*ssa.Call)
									if !isCall || call.Call.StaticCallee() != ps.fn {
										continue
									}
									var nodeArg, modeArg ssa.Value
									for i, prm := range ps.fn.Params {
										if types.Identical(prm.Type(), p.Roles.NodeIface) {
											nodeArg = call.Call.Args[i]
										}
										if prm == mp {
											modeArg = call.Call.Args[i]
										}
									}
									if isFalse(modeArg) && nodeArg != nil && isAttached(nodeArg) {
										okAttach = true
									}
								}
							}
						}
						// (iii) the pass is written out in this function: it starts at the attached value and clears the flag
						if ps.fn == fn && isFalse(ps.mode) {
							for i, e0 := range ps.W.Edges {
								if !ps.walk.Blocks[ps.walk.Header.Preds[i]] && isAttached(e0) {
									okAttach = true
								}
							}
						}
					}
					r.Oblige(okAttach)
					r.Sample("%s attaches a chain to %s: flag cleared there: %v", load.FuncName(fn), fieldName(e.T, e.field), okAttach)
					if !okAttach {
						r.Violation("attach point "+fieldName(e.T, e.field)+" in "+load.FuncName(fn), p.RelPos(st.Pos()),
							"a node chain is attached as function argument / filter operand (%s) without clearing accessor mode on it: in accessor mode the function or comparison receives Accessor structs instead of values", fieldName(e.T, e.field))
					}
				}
			}
		}
	}
	return r
}

// fieldOfAsserted: v derives (loads, element access, address-of, value field selection) from field f of base.
func fieldOfAsserted(v ssa.Value, depth int) (int, ssa.Value, bool) {
	if depth > 8 {
		return 0, nil, false
	}
	switch x := v.(type) {
	case *ssa.UnOp:
		return fieldOfAsserted(x.X, depth+1)
	case *ssa.IndexAddr:
		return fieldOfAsserted(x.X, depth+1)
	case *ssa.Field:
		return fieldOfAsserted(x.X, depth+1)
	case *ssa.FieldAddr:
		if _, isEx := x.X.(*ssa.Extract); isEx {
			return x.Field, x.X, true
		}
		return fieldOfAsserted(x.X, depth+1)
	}
	return 0, nil, false
}

// storedInLoopOutsideAlloc: the cell is assigned inside a loop that does not contain its allocation
// (a variable declared outside the loop, or a pre-Go-1.22 loop variable, re-assigned per iteration).
func storedInLoopOutsideAlloc(al *ssa.Alloc) bool {
	loops := cfgutil.Loops(al.Parent())
	for _, ref := range *al.Referrers() {
		st, ok := ref.(*ssa.Store)
		if !ok || st.Addr != ssa.Value(al) {
			continue
		}
		for _, l := range loops {
			if l.Blocks[st.Block()] && !l.Blocks[al.Block()] {
				return true
			}
		}
	}
	return false
}

func isEmitHelper(c *engine.Context, fn *ssa.Function) bool {
	_, ok := emitHelpers(c)[fn]
	return ok
}

// isPoolAcquired: v is a pooled object fresh from its pool: the result of an acquire accessor, or
// of (*sync.Pool).Get (possibly through the type assertion that gives it its type).
func isPoolAcquired(c *engine.Context, v ssa.Value) bool {
	for i := 0; i < 4; i++ {
		switch x := v.(type) {
		case *ssa.TypeAssert:
			v = x.X
			continue
		case *ssa.Extract:
			v = x.Tuple
			continue
		case *ssa.Call:
			sc := x.Call.StaticCallee()
			if sc == nil {
				return false
			}
			return findPoolAccess(c).acquire[sc] || sc.String() == "(*sync.Pool).Get"
		}
		return false
	}
	return false
}

type cellUse struct {
	user ssa.Instruction
	as   ssa.Value // the value the user sees (v itself, or a load of the cell holding it)
}

// usesThroughCells: the instructions that use v, directly or as a load of a local cell (a
// captured variable) into which v is the only value stored.
func usesThroughCells(v ssa.Value) []cellUse {
	var out []cellUse
	seen := map[ssa.Value]bool{}
	work := []ssa.Value{v}
	for len(work) > 0 {
		cur := work[len(work)-1]
		work = work[:len(work)-1]
		if seen[cur] || cur.Referrers() == nil {
			continue
		}
		seen[cur] = true
		for _, ref := range *cur.Referrers() {
			out = append(out, cellUse{ref, cur})
			switch x := ref.(type) {
			case *ssa.Phi:
				// a merge with the outcomes of other paths (the error path yields nil): the value
				// goes on under the phi's name
				work = append(work, x)
			case *ssa.Store:
				if x.Val != cur {
					continue
				}
				al, ok := x.Addr.(*ssa.Alloc)
				if !ok {
					continue
				}
				only := true
				for _, r2 := range *al.Referrers() {
					if s2, isSt := r2.(*ssa.Store); isSt && s2.Addr == ssa.Value(al) && s2 != x {
						only = false
					}
				}
				if !only {
					continue
				}
				for _, r2 := range *al.Referrers() {
					if ld, isLd := r2.(*ssa.UnOp); isLd && ld.Op == token.MUL {
						work = append(work, ld)
					}
				}
			}
		}
	}
	return out
}

// sameParamVar: v is the parameter, or a load of the cell the parameter was spilled into (a
// parameter captured by a closure) when nothing else is stored into that cell.
func sameParamVar(fn *ssa.Function, v ssa.Value, prm *ssa.Parameter) bool {
	if v == ssa.Value(prm) {
		return true
	}
	cell := cellOfParam(fn, prm)
	if cell == nil || storesTo(cell) != 1 {
		return false
	}
	return loadOfCell(v) == cell
}

// reachesWithoutRealloc: control can flow from a to the store st into cell without allocating the
// cell anew on the way (a variable declared inside a loop body is a new cell in every iteration).
func reachesWithoutRealloc(a ssa.Instruction, st *ssa.Store, cell *ssa.Alloc) bool {
	ab := cell.Block()
	// the store follows the allocation in the allocation's own block: entering that block again
	// makes a new cell
	allocFirst := func(b *ssa.BasicBlock) bool {
		if b != ab {
			return false
		}
		for _, ins := range b.Instrs {
			if ins == ssa.Instruction(cell) {
				return true
			}
			if ins == ssa.Instruction(st) {
				return false
			}
		}
		return false
	}
	if a.Block() == st.Block() && instrBefore(a, st) {
		return true
	}
	seen := map[*ssa.BasicBlock]bool{}
	var walk func(x *ssa.BasicBlock) bool
	walk = func(x *ssa.BasicBlock) bool {
		for _, s := range x.Succs {
			if s == st.Block() {
				if !allocFirst(s) {
					return true
				}
				continue
			}
			if s == ab {
				continue // allocates a fresh cell; whatever follows stores into that one
			}
			if !seen[s] {
				seen[s] = true
				if walk(s) {
					return true
				}
			}
		}
		return false
	}
	return walk(a.Block())
}
