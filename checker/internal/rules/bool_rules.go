package rules

import (
	"fmt"
	"go/token"
	"go/types"
	"os"
	"sort"
	"strings"

	"golang.org/x/tools/go/ssa"

	"verif/checker/internal/cfgutil"
	"verif/checker/internal/engine"
	"verif/checker/internal/load"
	"verif/checker/internal/regions"
	"verif/checker/internal/report"
)

func init() {
	engine.Register("V-INPUT-PURE", ruleVInputPure)
	engine.Register("V-BOOL", ruleVBool)
	engine.Register("V-TWO-CURRENT", ruleVTwoCurrent)
	engine.Register("N-PRESENCE", ruleNPresence)
	engine.Register("L-CLASS", ruleLClass)
	engine.Register("V-SELECT", ruleVSelect)
}

// queryFamily: functions whose receiver type is a query, comparator or validator type
// (the code that evaluates a filter expression over a member list).
func queryFamily(p *load.Program) map[*ssa.Function]bool {
	fam := map[*types.Named]bool{}
	for _, l := range [][]*types.Named{p.Roles.QueryTypes, p.Roles.ComparatorTypes, p.Roles.ValidatorTypes} {
		for _, t := range l {
			fam[t] = true
		}
	}
	out := map[*ssa.Function]bool{}
	for _, fn := range p.Funcs {
		if fn.Blocks == nil || fn.Signature.Recv() == nil {
			continue
		}
		rt := fn.Signature.Recv().Type()
		if pt, ok := rt.(*types.Pointer); ok {
			rt = pt.Elem()
		}
		if nt, ok := rt.(*types.Named); ok && fam[nt] {
			out[fn] = true
		}
	}
	return out
}

// queryComputeFuncs: the implementations of the query interface's method, with the index of the
// member-list parameter (the last []interface{} parameter).
func queryComputeFuncs(p *load.Program) map[*ssa.Function]*ssa.Parameter {
	out := map[*ssa.Function]*ssa.Parameter{}
	if p.Roles.QueryIface == nil {
		return out
	}
	it, ok := p.Roles.QueryIface.Underlying().(*types.Interface)
	if !ok || it.NumMethods() == 0 {
		return out
	}
	var mname string
	for i := 0; i < it.NumMethods(); i++ {
		m := it.Method(i)
		sig := m.Type().(*types.Signature)
		if sig.Results().Len() == 1 && isIfaceSliceT(sig.Results().At(0).Type()) {
			mname = m.Name()
		}
	}
	for _, qt := range p.Roles.QueryTypes {
		fn := methodOf(p, qt, mname)
		if fn == nil || fn.Blocks == nil {
			continue
		}
		var list *ssa.Parameter
		for _, prm := range fn.Params {
			if isIfaceSliceT(prm.Type()) {
				list = prm
			}
		}
		if list != nil {
			out[fn] = list
		}
	}
	return out
}

// returnsParamDirectly: some return operand of fn is the parameter itself (through phi / slice / conversions).
func returnsParamDirectly(fn *ssa.Function, prm *ssa.Parameter) *ssa.Return {
	var trace func(v ssa.Value, seen map[ssa.Value]bool) bool
	trace = func(v ssa.Value, seen map[ssa.Value]bool) bool {
		if seen[v] {
			return false
		}
		seen[v] = true
		switch x := v.(type) {
		case *ssa.Parameter:
			return x == prm
		case *ssa.Phi:
			for _, e := range x.Edges {
				if trace(e, seen) {
					return true
				}
			}
		case *ssa.Slice:
			return trace(x.X, seen)
		case *ssa.ChangeType:
			return trace(x.X, seen)
		case *ssa.Convert:
			return trace(x.X, seen)
		}
		return false
	}
	for _, b := range fn.Blocks {
		if ret, ok := b.Instrs[len(b.Instrs)-1].(*ssa.Return); ok {
			for _, res := range ret.Results {
				if trace(res, map[ssa.Value]bool{}) {
					return ret
				}
			}
		}
	}
	return nil
}

// ruleVInputPure: V-INPUT-PURE — operands of a logical operator are evaluated over the same
// member list, so no query may write into the list it was given: the verdict lists that the
// operators, comparators and validators blank in place must be allocations of the sub-query
// that produced them, never the member list itself.
func ruleVInputPure(c *engine.Context) *report.Rule {
	r := report.NewRule("V-INPUT-PURE", "filter queries never write into the member list they were given (sibling operands see the same members)", 6)
	a := regionsOf(c)
	p := c.P
	comp := queryComputeFuncs(p)
	fam := queryFamily(p)
	if len(comp) == 0 {
		r.InfraFail("no implementation of the query interface found")
		return r
	}
	// member lists: what the list parameter of any query may point to
	inputs := map[*regions.Object]bool{}
	for fn, prm := range comp {
		_ = fn
		if n := a.ValueNode(prm); n != nil {
			for _, o := range n.Pts() {
				inputs[o.Root()] = true
			}
		}
	}
	exempt := sentinelExempt(c, a, r)
	// writers of the family into a member list
	type wr struct {
		e *regions.Effect
		t *regions.Object
	}
	var writers []wr
	for _, e := range a.Effects {
		if !fam[e.Fn] {
			continue
		}
		for _, t := range e.Targets {
			if inputs[t.Root()] {
				if _, ex := exempt[t.Root()]; ex {
					continue
				}
				if t.Root().Fn == e.Fn {
					continue // the function fills a list it allocates itself
				}
				writers = append(writers, wr{e, t})
				break
			}
		}
	}
	var fns []*ssa.Function
	for fn := range comp {
		fns = append(fns, fn)
	}
	sort.Slice(fns, func(i, j int) bool { return load.FuncName(fns[i]) < load.FuncName(fns[j]) })
	r.Instances = len(fns)
	var wdesc []string
	for _, w := range writers {
		wdesc = append(wdesc, fmt.Sprintf("%s in %s", describeStore(p, w.e.Instr), load.FuncName(w.e.Fn)))
	}
	wdesc = uniqSorted(wdesc)
	origins := 0
	var aliasing []*ssa.Function
	for _, fn := range fns {
		prm := comp[fn]
		// does the result of fn alias its own input?
		alias := false
		var aliasObj *regions.Object
		in := map[*regions.Object]bool{}
		if n := a.ValueNode(prm); n != nil {
			for _, o := range n.Pts() {
				in[o.Root()] = true
			}
		}
		var resNode *regions.Node
		for _, rn := range a.ResultNodes(fn) {
			if rn == nil {
				continue
			}
			for _, o := range rn.Pts() {
				if in[o.Root()] {
					alias, aliasObj, resNode = true, o, rn
				}
			}
		}
		direct := returnsParamDirectly(fn, prm)
		ok := !alias || len(writers) == 0
		r.Oblige(ok)
		r.Sample("%s: result may be the member list it was given: %v (returned directly: %v); writers into member lists: %d", load.FuncName(fn), alias, direct != nil, len(writers))
		if alias {
			aliasing = append(aliasing, fn)
		}
		if ok || direct == nil {
			continue
		}
		origins++
		f := r.Violation(load.FuncName(fn)+" returns its member list", p.RelPos(direct.Pos()),
			"%s returns the member list it was given as its verdict list; verdict lists are blanked in place (%s), so a sibling operand evaluated afterwards sees markers or operand values instead of the members: `A || B` / `A && B` stop being union / intersection", load.FuncName(fn), strings.Join(wdesc, "; "))
		if resNode != nil && aliasObj != nil {
			f.Witness = a.Witness(resNode, aliasObj)
		}
	}
	if len(aliasing) > 0 && len(writers) > 0 && origins == 0 {
		// aliasing found by points-to but not as a direct return: report it on the writers
		var names []string
		for _, fn := range aliasing {
			names = append(names, load.FuncName(fn))
		}
		r.Violation("member list reaches a verdict list", p.RelPos(writers[0].e.Instr.Pos()),
			"the result of %s may be the member list it was given, and verdict lists are blanked in place (%s)", strings.Join(names, ", "), strings.Join(wdesc, "; "))
	}
	return r
}

// ---------------------------------------------------------------------------------------------
// V-BOOL: the logical operators realise AND / OR / NOT member by member.
//
// Every logical node evaluates its operand queries over the member list it was given and merges
// the verdict lists. A verdict list is either a whole-match list (length 1: marker = false for
// every member, anything else = true for every member) or a per-member list (marker = false).
// The rule executes the compute method symbolically: for every path, and for every path through
// the merge loop, the truth value of the returned list at a member is a function of the operands'
// truth values (l, r) at that member; it must equal the operator's truth table on every row the
// path conditions allow.

type boolShape int

const (
	shUnknown boolShape = iota
	shOne
	shNotOne
)

type boolFacts struct {
	shape [2]boolShape
	all   [2]int // -1 unknown, 0 every member false, 1 every member true (whole-match lists)
	elem  [2]int // within one iteration: -1 unknown, 0 member false, 1 member true
}

func newBoolFacts() boolFacts {
	return boolFacts{all: [2]int{-1, -1}, elem: [2]int{-1, -1}}
}

// rows enumerates the (l, r) rows compatible with the facts.
func (f boolFacts) rows(arity int) [][2]bool {
	var out [][2]bool
	for l := 0; l < 2; l++ {
		for r := 0; r < 2; r++ {
			if arity == 1 && r == 1 {
				continue
			}
			v := [2]int{l, r}
			ok := true
			for k := 0; k < arity; k++ {
				if f.all[k] >= 0 && f.all[k] != v[k] {
					ok = false
				}
				if f.elem[k] >= 0 && f.elem[k] != v[k] {
					ok = false
				}
			}
			if ok {
				out = append(out, [2]bool{l == 1, r == 1})
			}
		}
	}
	return out
}

// truth of a returned list at one member as a function of the row.
type boolRes struct {
	kind int // 0 const false, 1 const true, 2 operand k
	k    int
}

func (b boolRes) eval(row [2]bool) bool {
	switch b.kind {
	case 0:
		return false
	case 1:
		return true
	}
	return row[b.k]
}

func (b boolRes) String() string {
	switch b.kind {
	case 0:
		return "false"
	case 1:
		return "true"
	}
	return []string{"left", "right"}[b.k]
}

type boolAnalysis struct {
	p        *load.Program
	fn       *ssa.Function
	arity    int
	list     *ssa.Parameter
	operand  map[ssa.Value]int // operand call value -> operand index
	problems []string          // shape not recognised (undischarged)
	failures []string          // truth table / guard violations
	checked  int               // rows checked
	scen     int               // scenarios (paths x iteration paths)
	// summary of the merge loop (own, or of a helper analysed on behalf of a caller)
	iters       []*boolIter
	loopOver    int
	iterProblem bool
	hasLoop     bool
	returnsFlag bool // helper with a bool result: every return yields the loop's result flag
}

func (ba *boolAnalysis) problem(format string, a ...interface{}) {
	ba.problems = append(ba.problems, fmt.Sprintf(format, a...))
}
func (ba *boolAnalysis) fail(format string, a ...interface{}) {
	ba.failures = append(ba.failures, fmt.Sprintf(format, a...))
}

// operandOf resolves a list value to an operand index.
func (ba *boolAnalysis) operandOf(v ssa.Value) (int, bool) {
	// a conversion between a list and a named type of the same list (`queryVerdict(list)`) is the
	// same list
	for i := 0; i < 4; i++ {
		if ct, isCT := v.(*ssa.ChangeType); isCT {
			if _, known := ba.operand[v]; !known {
				v = ct.X
				continue
			}
		}
		break
	}
	if k, ok := ba.operand[v]; ok {
		return k, true
	}
	if ph, ok := v.(*ssa.Phi); ok {
		k0 := -1
		for _, e := range ph.Edges {
			k, ok := ba.operand[e]
			if !ok || (k0 >= 0 && k != k0) {
				return 0, false
			}
			k0 = k
		}
		if k0 >= 0 {
			return k0, true
		}
	}
	return 0, false
}

// elemOf: v is a load of X[idx] with X an operand list.
func (ba *boolAnalysis) elemOf(v ssa.Value) (k int, idx ssa.Value, ok bool) {
	ld, isLd := v.(*ssa.UnOp)
	if !isLd || ld.Op.String() != "*" {
		return 0, nil, false
	}
	ia, isIA := ld.X.(*ssa.IndexAddr)
	if !isIA {
		return 0, nil, false
	}
	k, ok = ba.operandOf(ia.X)
	return k, ia.Index, ok
}

// markerTest: cond is `X[idx] == marker` (neg for !=) or a call of a marker predicate helper.
func (ba *boolAnalysis) markerTest(cond ssa.Value) (k int, idx ssa.Value, neg bool, ok bool) {
	cond, outerNeg := unwrapNot(cond)
	switch c := cond.(type) {
	case *ssa.BinOp:
		if c.Op.String() != "==" && c.Op.String() != "!=" {
			return
		}
		var e ssa.Value
		if isMarkerValue(ba.p, c.Y) {
			e = c.X
		} else if isMarkerValue(ba.p, c.X) {
			e = c.Y
		} else {
			return
		}
		k, idx, ok = ba.elemOf(e)
		neg = (c.Op.String() == "!=") != outerNeg
		return
	case *ssa.Call:
		if sc := c.Call.StaticCallee(); sc != nil && len(c.Call.Args) == 1 {
			if n, isPred := markerPredicate(ba.p, sc); isPred {
				k, idx, ok = ba.elemOf(c.Call.Args[0])
				neg = n != outerNeg
				return
			}
		}
	}
	return
}

// lenIsOne: cond is len(X) == 1 (neg for !=).
func (ba *boolAnalysis) lenIsOne(cond ssa.Value) (k int, neg bool, ok bool) {
	cond, outerNeg := unwrapNot(cond)
	// through a one-block predicate helper `func(list) bool { return len(list) == 1 }`
	if call, isCall := cond.(*ssa.Call); isCall {
		if sc := call.Call.StaticCallee(); sc != nil && len(sc.Blocks) == 1 && len(call.Call.Args) >= 1 {
			if ret, isRet := sc.Blocks[0].Instrs[len(sc.Blocks[0].Instrs)-1].(*ssa.Return); isRet && len(ret.Results) == 1 {
				if bo, isBo := ret.Results[0].(*ssa.BinOp); isBo && (bo.Op.String() == "==" || bo.Op.String() == "!=") {
					var lv ssa.Value
					if c, isC := cfgutilConst(bo.Y); isC && c == 1 {
						lv = bo.X
					} else if c, isC := cfgutilConst(bo.X); isC && c == 1 {
						lv = bo.Y
					}
					if lv != nil {
						if x, isLen := lenArg(lv); isLen {
							for i, pp := range sc.Params {
								if ssa.Value(pp) == x && i < len(call.Call.Args) {
									if kk, isOp := ba.operandOf(call.Call.Args[i]); isOp {
										return kk, (bo.Op.String() == "!=") != outerNeg, true
									}
								}
							}
						}
					}
				}
			}
		}
		return
	}
	bo, isBo := cond.(*ssa.BinOp)
	if !isBo || (bo.Op.String() != "==" && bo.Op.String() != "!=") {
		return
	}
	var lv ssa.Value
	if c, isC := cfgutilConst(bo.Y); isC && c == 1 {
		lv = bo.X
	} else if c, isC := cfgutilConst(bo.X); isC && c == 1 {
		lv = bo.Y
	} else {
		return
	}
	x, isLen := lenArg(lv)
	if !isLen {
		return
	}
	k, ok = ba.operandOf(x)
	neg = (bo.Op.String() == "!=") != outerNeg
	return
}

// lenIsZero: cond compares the length of an operand list with a constant such that one edge
// means "no element"; empty reports whether the edge taken is that one.
func (ba *boolAnalysis) lenIsZero(cond ssa.Value, taken bool) (k int, empty bool, ok bool) {
	cond, neg := unwrapNot(cond)
	bo, isBo := cond.(*ssa.BinOp)
	if !isBo {
		return
	}
	op, x, y := bo.Op, bo.X, bo.Y
	if _, isLen := lenArg(x); !isLen {
		if _, isLen2 := lenArg(y); !isLen2 {
			return
		}
		x, y = y, x
		op = mirrorOp(op)
	}
	lx, _ := lenArg(x)
	kk, isOp := ba.operandOf(lx)
	if !isOp {
		return
	}
	c, isC := cfgutilConst(y)
	if !isC {
		return
	}
	// emptyOnTrue: the true edge means len == 0
	var emptyOnTrue bool
	switch {
	case op == token.EQL && c == 0, op == token.LSS && c == 1, op == token.LEQ && c == 0:
		emptyOnTrue = true
	case op == token.NEQ && c == 0, op == token.GTR && c == 0, op == token.GEQ && c == 1:
		emptyOnTrue = false
	default:
		return
	}
	return kk, (taken != neg) == emptyOnTrue, true
}

func (ba *boolAnalysis) sentinel(v ssa.Value) (boolRes, bool) {
	ld, ok := v.(*ssa.UnOp)
	if !ok || ld.Op.String() != "*" {
		return boolRes{}, false
	}
	switch ld.X {
	case ssa.Value(ba.p.Roles.MarkerList):
		return boolRes{kind: 0}, true
	case ssa.Value(ba.p.Roles.FullList):
		return boolRes{kind: 1}, true
	}
	return boolRes{}, false
}

type boolIter struct {
	facts   boolFacts
	final   map[int]boolRes // operand list -> truth of its element after the iteration
	flagSet int             // 1 set true, 0 unchanged, -1 unknown
	desc    string
}

func opTable(op string, row [2]bool) bool {
	switch op {
	case "and":
		return row[0] && row[1]
	case "or":
		return row[0] || row[1]
	}
	return !row[0]
}

func rowString(arity int, row [2]bool) string {
	if arity == 1 {
		return fmt.Sprintf("operand=%v", row[0])
	}
	return fmt.Sprintf("left=%v right=%v", row[0], row[1])
}

// analyseBoolNode runs the symbolic execution of one logical node's compute method.
func analyseBoolNode(p *load.Program, fn *ssa.Function, list *ssa.Parameter, arity int, op string) *boolAnalysis {
	return analyseBoolNodeWith(p, fn, list, arity, op, nil, newBoolFacts(), 0)
}

// analyseBoolNodeWith: pre != nil analyses a helper to which the node delegates the merge: its
// parameters stand for the operands' verdict lists and init holds what the caller established.
func analyseBoolNodeWith(p *load.Program, fn *ssa.Function, list *ssa.Parameter, arity int, op string, pre map[ssa.Value]int, init boolFacts, depth int) *boolAnalysis {
	ba := &boolAnalysis{p: p, fn: fn, arity: arity, list: list, operand: map[ssa.Value]int{}}
	for v, k := range pre {
		ba.operand[v] = k
	}
	var recv ssa.Value
	if len(fn.Params) > 0 {
		recv = fn.Params[0]
	}
	var root *ssa.Parameter
	for _, prm := range fn.Params[1:] {
		if prm != list {
			root = prm
		}
	}
	// operand calls
	for _, b := range fn.Blocks {
		for _, ins := range b.Instrs {
			call, ok := ins.(*ssa.Call)
			if !ok || !isIfaceSliceT(call.Type()) {
				continue
			}
			if _, isB := call.Call.Value.(*ssa.Builtin); isB {
				continue
			}
			// receiver: load of a field of recv
			var rv ssa.Value
			var args []ssa.Value
			if call.Call.IsInvoke() {
				rv, args = call.Call.Value, call.Call.Args
			} else if len(call.Call.Args) > 0 {
				rv, args = call.Call.Args[0], call.Call.Args[1:]
			}
			ld, isLd := rv.(*ssa.UnOp)
			var fa *ssa.FieldAddr
			if isLd {
				fa, _ = ld.X.(*ssa.FieldAddr)
			}
			if fa == nil || fa.X != recv || fa.Field >= arity {
				// a helper of the package that is handed operand lists and returns the merged list: analysed where it is returned
				if sc := call.Call.StaticCallee(); sc != nil && p.InPkg(sc) && sc.Blocks != nil && depth == 0 {
					handsOperand := false
					for _, a := range call.Call.Args {
						if _, isOp := ba.operandOf(a); isOp {
							handsOperand = true
						}
					}
					if handsOperand {
						continue
					}
				}
				ba.problem("call %s producing a list is not an evaluation of one of the node's operand fields", call.String())
				continue
			}
			okArgs := len(args) == 2
			if okArgs {
				for _, a := range args {
					if a != ssa.Value(root) && a != ssa.Value(list) {
						okArgs = false
					}
				}
			}
			if !okArgs {
				ba.fail("operand %s is evaluated over something other than the node's own (root, member list): the operands of one operator must see the same members", []string{"left", "right"}[fa.Field])
				continue
			}
			ba.operand[call] = fa.Field
		}
	}
	seen := map[int]bool{}
	for _, k := range ba.operand {
		seen[k] = true
	}
	for k := 0; k < arity && pre == nil; k++ {
		if !seen[k] {
			ba.problem("operand field %d is never evaluated", k)
		}
	}
	loops := cfgutil.Loops(fn)
	if len(loops) > 1 {
		ba.problem("more than one loop")
		return ba
	}
	var loop *cfgutil.Loop
	var ind *cfgutil.Induction
	var flag *ssa.Phi
	loopOver := -1
	// what the tests that dominate the merge loop say about the shape of operand k's list
	shapeAtLoop := func(k int) boolShape {
		if loop == nil {
			return shUnknown
		}
		out := shUnknown
		for _, dc := range dominatingConds(loop.Header) {
			if k2, n2, ok2 := ba.lenIsOne(dc.cond); ok2 && k2 == k {
				if dc.taken != n2 {
					out = shOne
				} else {
					out = shNotOne
				}
			}
		}
		return out
	}
	if len(loops) == 1 {
		loop = loops[0]
		ind = cfgutil.Classify(loop)
		if ind.Kind != cfgutil.LoopAscending {
			ba.problem("the merge loop is not a complete ascending index loop")
			return ba
		}
		x, ok := lenArg(ind.Bound)
		if !ok {
			ba.problem("the merge loop is not bounded by the length of a verdict list")
			return ba
		}
		k, ok := ba.operandOf(x)
		if !ok {
			ba.problem("the merge loop is not bounded by the length of an operand's verdict list")
			return ba
		}
		loopOver = k
		for _, e := range loop.Exits {
			if e.From != loop.Header {
				// an exit guarded by a shape test that the tests before the loop already decided
				// the other way can never be taken
				if ifi, isIf := e.From.Instrs[len(e.From.Instrs)-1].(*ssa.If); isIf {
					if kk, negL, okL := ba.lenIsOne(ifi.Cond); okL && shapeAtLoop(kk) != shUnknown {
						one := (e.From.Succs[0] == e.To) != negL
						if (shapeAtLoop(kk) == shOne) != one {
							continue
						}
					}
				}
				ba.fail("the merge loop can be left before every member was merged")
			}
		}
		for _, ins := range loop.Header.Instrs {
			if ph, ok := ins.(*ssa.Phi); ok && ph != ind.Phi {
				if b, ok := ph.Type().Underlying().(*types.Basic); ok && b.Kind() == types.Bool {
					flag = ph
				}
			}
		}
	}
	// iteration summaries
	var iters []*boolIter
	iterProblem := false
	if loop != nil {
		body := loop.Header.Succs[0]
		if !loop.Blocks[body] {
			body = loop.Header.Succs[1]
		}
		var trail []*ssa.BasicBlock
		resolveOnTrail := func(v ssa.Value) ssa.Value {
			for i := 0; i < 8; i++ {
				ph, ok := v.(*ssa.Phi)
				if !ok || ph == flag {
					return v
				}
				found := false
				for k := len(trail) - 1; k >= 1; k-- {
					if trail[k] == ph.Block() {
						for ei, pb := range ph.Block().Preds {
							if pb == trail[k-1] {
								v, found = ph.Edges[ei], true
							}
						}
						break
					}
				}
				if !found {
					return v
				}
			}
			return v
		}
		var walk func(b *ssa.BasicBlock, it boolIter, on map[*ssa.BasicBlock]bool)
		walk = func(b *ssa.BasicBlock, it boolIter, on map[*ssa.BasicBlock]bool) {
			trail = append(trail, b)
			defer func() { trail = trail[:len(trail)-1] }()
			// copy
			nf := map[int]boolRes{}
			for k, v := range it.final {
				nf[k] = v
			}
			it.final = nf
			for _, ins := range b.Instrs {
				st, ok := ins.(*ssa.Store)
				if !ok {
					continue
				}
				ia, isIA := st.Addr.(*ssa.IndexAddr)
				if !isIA {
					continue
				}
				k, isOp := ba.operandOf(ia.X)
				if !isOp {
					if isIfaceSliceT(ia.X.Type()) {
						ba.problem("store into a list that is not an operand's verdict list")
						iterProblem = true
					}
					continue
				}
				if ia.Index != ind.Index {
					ba.problem("store at an index other than the loop index")
					iterProblem = true
					continue
				}
				switch {
				case isMarkerValue(p, st.Val):
					it.final[k] = boolRes{kind: 0}
				default:
					if k2, idx2, isElem := ba.elemOf(st.Val); isElem && idx2 == ind.Index {
						// value of the other list at this member (as it was when loaded: loads precede stores of the same list in these bodies)
						if r, has := it.final[k2]; has {
							it.final[k] = r
						} else {
							it.final[k] = boolRes{kind: 2, k: k2}
						}
					} else if mi, isMI := st.Val.(*ssa.MakeInterface); isMI {
						if _, isC := mi.X.(*ssa.Const); isC && !types.Identical(mi.X.Type(), p.Roles.Marker.Type().(*types.Pointer).Elem()) {
							it.final[k] = boolRes{kind: 1}
						} else {
							ba.problem("store of a value that is neither the marker, a constant nor the other operand's member verdict")
							iterProblem = true
						}
					} else {
						ba.problem("store of a value that is neither the marker, a constant nor the other operand's member verdict")
						iterProblem = true
					}
				}
			}
			last := b.Instrs[len(b.Instrs)-1]
			next := func(s *ssa.BasicBlock, it boolIter) {
				if s == loop.Header {
					// latch: flag edge
					it.flagSet = 0
					if flag != nil {
						for ei, pb := range loop.Header.Preds {
							if pb == b {
								ev := resolveOnTrail(flag.Edges[ei])
								if ev == ssa.Value(flag) {
									it.flagSet = 0
								} else if c, isC := ev.(*ssa.Const); isC && c.Value != nil && c.Value.String() == "true" {
									it.flagSet = 1
								} else {
									it.flagSet = -1
								}
							}
						}
					}
					c := it
					iters = append(iters, &c)
					return
				}
				if !loop.Blocks[s] || on[s] {
					return
				}
				on[s] = true
				walk(s, it, on)
				delete(on, s)
			}
			if ifi, ok := last.(*ssa.If); ok {
				k, idx, neg, isM := ba.markerTest(ifi.Cond)
				for i, s := range b.Succs {
					n := it
					if isM && idx == ind.Index {
						isMarker := (i == 0) != neg
						// the test reads the current content of the list at this member
						cur, has := it.final[k]
						if has && cur.kind != 2 {
							// content already determined on this path: infeasible edge?
							if (cur.kind == 0) != isMarker {
								continue
							}
						} else {
							kk := k
							if has {
								kk = cur.k
							}
							want := 1
							if isMarker {
								want = 0
							}
							if n.facts.elem[kk] >= 0 && n.facts.elem[kk] != want {
								continue // infeasible
							}
							n.facts.elem[kk] = want
						}
						n.desc += fmt.Sprintf(" %s[i]%smarker", []string{"left", "right"}[k], map[bool]string{true: "==", false: "!="}[isMarker])
					} else if kk, negL, okL := ba.lenIsOne(ifi.Cond); okL && shapeAtLoop(kk) != shUnknown {
						// a repeated shape test inside the loop is decided by the tests that dominate the loop
						one := (i == 0) != negL
						if (shapeAtLoop(kk) == shOne) != one {
							continue // infeasible edge
						}
					} else {
						ba.problem("condition in the merge loop that is not a marker test of an operand's member verdict")
						iterProblem = true
					}
					next(s, n)
				}
				return
			}
			for _, s := range b.Succs {
				next(s, it)
			}
		}
		walk(body, boolIter{facts: newBoolFacts(), final: map[int]boolRes{}}, map[*ssa.BasicBlock]bool{body: true})
	}
	ba.iters, ba.loopOver, ba.iterProblem, ba.hasLoop = iters, loopOver, iterProblem, loop != nil
	// a helper that merges in place and reports whether anything is selected
	if res := fn.Signature.Results(); res.Len() == 1 {
		if b, isB := res.At(0).Type().Underlying().(*types.Basic); isB && b.Kind() == types.Bool {
			ba.returnsFlag = flag != nil
			for _, b := range fn.Blocks {
				if ret, isRet := b.Instrs[len(b.Instrs)-1].(*ssa.Return); isRet {
					if ret.Results[0] != ssa.Value(flag) {
						ba.returnsFlag = false
					}
				}
			}
			return ba
		}
	}
	// skeleton paths
	paths, complete := enumPaths(fn, 400)
	if !complete {
		ba.problem("too many paths")
	}
	for _, fp := range paths {
		ret, isRet := fp.exit.(*ssa.Return)
		if !isRet {
			ba.fail("the method can panic explicitly")
			continue
		}
		curIters, curLoopOver, curIterProblem := iters, loopOver, iterProblem
		facts := init
		flagFact := -1
		feasible := true
		contradiction := false
		throughLoop := false
		for _, b := range fp.blocks {
			if loop != nil && b == loop.Header {
				throughLoop = true
			}
		}
		desc := ""
		for _, ec := range fp.conds {
			if contradiction {
				break // contradictory facts: nothing further on this path is reachable
			}
			if loop != nil && ec.at == ind.Cond {
				continue
			}
			// a short-circuit `a && b` / `a || b` used as a condition is a bool phi: on this path it
			// stands for the operand that decided it
			if ph, isPhi := ec.cond.(*ssa.Phi); isPhi && !(flag != nil && ph == flag) {
				rv := fp.resolveAt(ph, ec.at.Block())
				if cst, isC := rv.(*ssa.Const); isC && cst.Value != nil {
					if (cst.Value.String() == "true") != ec.taken {
						feasible, contradiction = false, true
					}
					continue
				}
				ec.cond = rv
			}
			if flag != nil && ec.cond == ssa.Value(flag) {
				flagFact = 0
				if ec.taken {
					flagFact = 1
				}
				continue
			}
			// the merge is delegated to a helper that works in place and returns the result flag
			if inner, neg := unwrapNot(ec.cond); depth == 0 {
				if call, isCall := inner.(*ssa.Call); isCall {
					if sc := call.Call.StaticCallee(); sc != nil && p.InPkg(sc) && sc.Blocks != nil && sc.Signature.Results().Len() == 1 {
						pre2 := map[ssa.Value]int{}
						for i, a := range call.Call.Args {
							if k, isOp := ba.operandOf(a); isOp && i < len(sc.Params) {
								pre2[sc.Params[i]] = k
							}
						}
						if len(pre2) > 0 {
							sub := analyseBoolNodeWith(p, sc, nil, arity, op, pre2, facts, depth+1)
							if sub.returnsFlag && sub.hasLoop {
								for _, m := range sub.failures {
									ba.fail("in %s: %s", load.FuncName(sc), m)
								}
								for _, m := range sub.problems {
									ba.problem("in %s: %s", load.FuncName(sc), m)
								}
								curIters, curLoopOver, curIterProblem = sub.iters, sub.loopOver, sub.iterProblem
								throughLoop = true
								flagFact = 0
								if ec.taken != neg {
									flagFact = 1
								}
								continue
							}
						}
					}
				}
			}
			if k, neg, ok := ba.lenIsOne(ec.cond); ok {
				one := ec.taken != neg
				s := shNotOne
				if one {
					s = shOne
				}
				if facts.shape[k] != shUnknown && facts.shape[k] != s {
					feasible, contradiction = false, true
				}
				facts.shape[k] = s
				desc += fmt.Sprintf(" len(%s)%s1", []string{"left", "right"}[k], map[bool]string{true: "==", false: "!="}[one])
				continue
			}
			if k, empty, ok := ba.lenIsZero(ec.cond, ec.taken); ok {
				if empty {
					// the operand list has no element: there is no member whose verdict could be
					// wrong (the shape of what is returned is L-CLASS's business); nothing to check
					// on this path
					feasible = false
					desc += fmt.Sprintf(" len(%s)==0", []string{"left", "right"}[k])
				}
				continue
			}
			if k, idx, neg, ok := ba.markerTest(ec.cond); ok {
				if c, isC := cfgutilConst(idx); isC && c == 0 {
					if facts.shape[k] != shOne {
						if os.Getenv("VERIF_DEBUG_VBOOL") != "" {
							for _, e2 := range fp.conds {
								fmt.Fprintf(os.Stderr, "  cond %s = %s taken=%v at block %d\n", e2.cond.Name(), e2.cond.String(), e2.taken, e2.at.Block().Index)
							}
							fmt.Fprintf(os.Stderr, "  blocks %v desc=%s\n", fp.blocks, desc)
						}
						ba.fail("%s[0] is tested for the marker on a path where the list is not known to have length 1: the whole-match reading is applied to a per-member list (or an empty list is indexed)", []string{"left", "right"}[k])
						feasible = false
						continue
					}
					isMarker := ec.taken != neg
					v := 1
					if isMarker {
						v = 0
					}
					if facts.all[k] >= 0 && facts.all[k] != v {
						feasible, contradiction = false, true
					}
					facts.all[k] = v
					desc += fmt.Sprintf(" %s[0]%smarker", []string{"left", "right"}[k], map[bool]string{true: "==", false: "!="}[isMarker])
					continue
				}
			}
			ba.problem("condition outside the merge loop that is neither a length-1 test nor a whole-match marker test of an operand's verdict list (%s: %s)", condText(ec.cond), ec.cond.String())
			feasible = false
		}
		if !feasible || len(ret.Results) != 1 {
			continue
		}
		rv := fp.resolve(ret.Results[0])
		check := func(what string, f boolFacts, res boolRes) {
			ba.scen++
			for _, row := range f.rows(arity) {
				ba.checked++
				if got, want := res.eval(row), opTable(op, row); got != want {
					ba.fail("on the path [%s ]%s the returned list says %v (= %s) for a member with %s; `%s` requires %v", strings.TrimSpace(desc), what, got, res, rowString(arity, row), op, want)
				}
			}
		}
		if !throughLoop {
			if res, ok := ba.sentinel(rv); ok {
				check("", facts, res)
			} else if k, ok := ba.operandOf(rv); ok {
				check("", facts, boolRes{kind: 2, k: k})
			} else if sub := ba.delegate(rv, facts, op, depth); sub != nil {
				for _, m := range sub.failures {
					ba.fail("in %s: %s", load.FuncName(sub.fn), m)
				}
				for _, m := range sub.problems {
					ba.problem("in %s: %s", load.FuncName(sub.fn), m)
				}
				ba.scen += sub.scen
				ba.checked += sub.checked
			} else {
				ba.problem("returned value is neither an operand's verdict list nor one of the two one-element lists")
			}
			continue
		}
		if curIterProblem {
			continue
		}
		// merge loop on the path: the lists indexed must be per-member lists
		need := map[int]bool{curLoopOver: true}
		for _, it := range curIters {
			for k := range it.final {
				need[k] = true
			}
			for k := 0; k < arity; k++ {
				if it.facts.elem[k] >= 0 {
					need[k] = true
				}
			}
		}
		for k := range need {
			if facts.shape[k] != shNotOne {
				ba.fail("the merge loop indexes the %s verdict list member by member on a path where it may be a one-element whole-match list (index out of range, or a write into a shared one-element list)", []string{"left", "right"}[k])
			}
		}
		if res, ok := ba.sentinel(rv); ok {
			// returned after the loop without a per-member list: legitimate only when no iteration set the flag
			if flagFact != 0 {
				ba.problem("a one-element list is returned after the merge loop on a path not guarded by the result flag")
				continue
			}
			for _, it := range curIters {
				if it.flagSet == 1 {
					continue
				}
				if it.flagSet == -1 {
					ba.problem("result flag update not recognised")
					continue
				}
				f := facts
				f.elem = it.facts.elem
				check(" / iteration ["+strings.TrimSpace(it.desc)+" ] without setting the result flag, then returning the no-match list", f, res)
			}
			// zero iterations: nothing to check (no member)
			continue
		}
		k, ok := ba.operandOf(rv)
		if !ok {
			ba.problem("returned value after the merge loop is not an operand's verdict list")
			continue
		}
		for _, it := range curIters {
			f := facts
			f.elem = it.facts.elem
			res, has := it.final[k]
			if !has {
				res = boolRes{kind: 2, k: k}
			}
			check(" / iteration ["+strings.TrimSpace(it.desc)+" ]", f, res)
		}
	}
	return ba
}

// logicalNodeOps maps the logical node types to the operator the grammar wires them to:
// binary nodes through the `&&` / `||` token -> action -> builder -> allocated type chain,
// the unary node as the one-operand query type.
func logicalNodeOps(c *engine.Context, r *report.Rule) map[*types.Named]string {
	p := c.P
	out := map[*types.Named]string{}
	pm := pegOf(c)
	if pm.err != "" {
		r.InfraFail("%s", pm.err)
		return out
	}
	requireRunning(r, pm)
	isBinary := func(nt *types.Named) bool {
		st, ok := nt.Underlying().(*types.Struct)
		if !ok || st.NumFields() != 2 {
			return false
		}
		for i := 0; i < 2; i++ {
			if !types.Identical(st.Field(i).Type(), p.Roles.QueryIface) {
				return false
			}
		}
		return true
	}
	blocks, _ := actionBlocksOf(c)
	ta := tokenActions(pm.run, []string{"||", "&&"})
	for tok, op := range map[string]string{"&&": "and", "||": "or"} {
		acts := ta[tok]
		if len(acts) != 1 {
			r.Undischarged("token `"+tok+"`: actions", pm.pegPos, "expected exactly one grammar alternative `%s … action`, found %d", tok, len(acts))
			continue
		}
		// node types allocated by the builder(s) the action calls
		found := map[*types.Named]bool{}
		for _, b := range blocks[acts[0]] {
			for _, ins := range b.Instrs {
				call, ok := ins.(*ssa.Call)
				if !ok {
					continue
				}
				sc := call.Call.StaticCallee()
				if sc == nil || sc.Blocks == nil {
					continue
				}
				for _, bb := range sc.Blocks {
					for _, i2 := range bb.Instrs {
						if al, ok := i2.(*ssa.Alloc); ok {
							if nt, ok := al.Type().(*types.Pointer).Elem().(*types.Named); ok && isBinary(nt) {
								found[nt] = true
							}
						}
					}
				}
			}
		}
		if len(found) != 1 {
			r.Undischarged("token `"+tok+"`: node type", pm.pegPos, "the action of `%s` builds %d binary query node types (expected 1)", tok, len(found))
			continue
		}
		for nt := range found {
			if prev, dup := out[nt]; dup && prev != op {
				r.Violation("tokens `&&` and `||` build the same node type "+nt.Obj().Name(), pm.pegPos, "both logical tokens build %s", nt.Obj().Name())
			}
			out[nt] = op
		}
	}
	for _, qt := range p.Roles.QueryTypes {
		if isNotNode(p, qt) {
			out[qt] = "not"
		}
	}
	return out
}

// ruleVBool: V-BOOL.
func ruleVBool(c *engine.Context) *report.Rule {
	r := report.NewRule("V-BOOL", "the logical nodes compute AND / OR / NOT of their operands' verdicts for every member on every path (truth-table check of the symbolic execution)", 3)
	p := c.P
	ops := logicalNodeOps(c, r)
	comp := queryComputeFuncs(p)
	var types_ []*types.Named
	for nt := range ops {
		types_ = append(types_, nt)
	}
	sort.Slice(types_, func(i, j int) bool { return types_[i].Obj().Name() < types_[j].Obj().Name() })
	seenOp := map[string]bool{}
	for _, nt := range types_ {
		op := ops[nt]
		seenOp[op] = true
		r.Instances++
		var fn *ssa.Function
		var list *ssa.Parameter
		for f, l := range comp {
			rt := f.Signature.Recv().Type()
			if pt, ok := rt.(*types.Pointer); ok {
				rt = pt.Elem()
			}
			if types.Identical(rt, nt) {
				fn, list = f, l
			}
		}
		if fn == nil {
			r.Oblige(false)
			r.Undischarged(nt.Obj().Name()+": evaluation method", "-", "no evaluation method found for logical node %s", nt.Obj().Name())
			continue
		}
		arity := 2
		if op == "not" {
			arity = 1
		}
		ba := analyseBoolNode(p, fn, list, arity, op)
		ok := len(ba.problems) == 0 && len(ba.failures) == 0 && ba.checked > 0
		r.Oblige(ok)
		r.Nontrivial++
		r.Sample("%s realises `%s`: %d scenarios, %d truth-table rows checked, failures %d, unrecognised %d", load.FuncName(fn), op, ba.scen, ba.checked, len(ba.failures), len(ba.problems))
		fails := uniqSorted(ba.failures)
		for i, m := range fails {
			if i >= 3 {
				break
			}
			f := r.Violation(fmt.Sprintf("%s is not `%s` (%d)", load.FuncName(fn), op, i+1), p.RelPos(fn.Pos()), "%s", m)
			engine.Restrict(f, boolProps(m)...)
		}
		probs := uniqSorted(ba.problems)
		for i, m := range probs {
			if i >= 2 {
				break
			}
			r.Undischarged(fmt.Sprintf("%s: shape (%d)", load.FuncName(fn), i+1), p.RelPos(fn.Pos()), "the evaluation method of the `%s` node has a shape the truth-table check does not understand: %s", op, m)
		}
		if len(fails) == 0 && len(probs) == 0 && ba.checked == 0 {
			r.Undischarged(load.FuncName(fn)+": nothing checked", p.RelPos(fn.Pos()), "no truth-table row could be checked")
		}
	}
	for _, op := range []string{"and", "or", "not"} {
		if !seenOp[op] {
			r.Oblige(false)
			r.Undischarged("operator `"+op+"`: node", "-", "no node type found for the `%s` operator", op)
		}
	}
	return r
}

// boolProps: which properties a V-BOOL failure concerns.
func boolProps(msg string) []string {
	props := []string{"C09"}
	if strings.Contains(msg, "index out of range") || strings.Contains(msg, "empty list is indexed") {
		props = append(props, "C03")
	}
	if strings.Contains(msg, "shared one-element list") {
		props = append(props, "C03", "C05", "C06", "C19")
	}
	return props
}

// ---------------------------------------------------------------------------------------------
// V-TWO-CURRENT: evaluation compares every left member against right[0] only, so a comparison
// whose two operands are both per-member (`@`-rooted) must be rejected at parse time, for every
// comparator. The guard is the panic in a grammar action that is dominated by exactly: "the query
// is a comparison", "its left operand is per-member", "its right operand is per-member".

// perMemberOperandTypes: query types with a node field whose evaluation uses the member list.
func perMemberOperandTypes(p *load.Program) map[*types.Named]bool {
	out := map[*types.Named]bool{}
	for fn, list := range queryComputeFuncs(p) {
		rt := fn.Signature.Recv().Type()
		if pt, ok := rt.(*types.Pointer); ok {
			rt = pt.Elem()
		}
		nt, ok := rt.(*types.Named)
		if !ok {
			continue
		}
		st, ok := nt.Underlying().(*types.Struct)
		if !ok {
			continue
		}
		hasNode := false
		for i := 0; i < st.NumFields(); i++ {
			if p.Roles.NodeIface != nil && types.Identical(st.Field(i).Type(), p.Roles.NodeIface) {
				hasNode = true
			}
		}
		if hasNode && list.Referrers() != nil && len(*list.Referrers()) > 0 {
			out[nt] = true
		}
	}
	return out
}

func ruleVTwoCurrent(c *engine.Context) *report.Rule {
	r := report.NewRule("V-TWO-CURRENT", "a comparison of two per-member operands is rejected at parse time for every comparator (evaluation reads only right[0])", 1)
	p := c.P
	sh := findCompareQueryShape(c)
	if sh == nil {
		r.InfraFail("anchor unresolved: compare query shape")
		return r
	}
	per := perMemberOperandTypes(p)
	if len(per) == 0 {
		r.InfraFail("anchor unresolved: per-member operand query type")
		return r
	}
	blocks, execute := actionBlocksOf(c)
	if execute == nil {
		r.InfraFail("anchor unresolved: Execute")
		return r
	}
	// classify a condition: which of the three guard facts it is (0 none, 1 is-comparison, 2 left per-member, 3 right per-member)
	classify := func(cond ssa.Value) int {
		ex, ok := cond.(*ssa.Extract)
		if !ok || ex.Index != 1 {
			return 0
		}
		ta, ok := ex.Tuple.(*ssa.TypeAssert)
		if !ok || !ta.CommaOk {
			return 0
		}
		pt, ok := ta.AssertedType.(*types.Pointer)
		if !ok {
			return 0
		}
		nt, ok := pt.Elem().(*types.Named)
		if !ok {
			return 0
		}
		if types.Identical(nt, sh.Q) {
			return 1
		}
		if !per[nt] {
			return 0
		}
		// X = load(field j of load(field i of cq))
		ld, ok := ta.X.(*ssa.UnOp)
		if !ok {
			return 0
		}
		fa, ok := ld.X.(*ssa.FieldAddr)
		if !ok {
			return 0
		}
		ld2, ok := fa.X.(*ssa.UnOp)
		if !ok {
			return 0
		}
		fa2, ok := ld2.X.(*ssa.FieldAddr)
		if !ok {
			return 0
		}
		switch fa2.Field {
		case sh.leftField:
			return 2
		case sh.rightField:
			return 3
		}
		return 0
	}
	found := 0
	var ks []int
	for k := range blocks {
		ks = append(ks, k)
	}
	sort.Ints(ks)
	for _, k := range ks {
		inAct := map[*ssa.BasicBlock]bool{}
		for _, b := range blocks[k] {
			inAct[b] = true
		}
		for _, b := range blocks[k] {
			if _, isPanic := b.Instrs[len(b.Instrs)-1].(*ssa.Panic); !isPanic {
				continue
			}
			have := map[int]bool{}
			var extra []string
			for _, dc := range dominatingConds(b) {
				if !inAct[dc.at.Block()] {
					continue
				}
				cl := classify(dc.cond)
				if cl != 0 && dc.taken {
					have[cl] = true
					continue
				}
				extra = append(extra, fmt.Sprintf("%s is %v", condText(dc.cond), dc.taken))
			}
			if !(have[2] && have[3]) {
				continue
			}
			found++
			r.Instances++
			ok := have[1] && len(extra) == 0
			r.Oblige(ok)
			r.Sample("action %d: panic guarded by is-comparison=%v left-per-member=%v right-per-member=%v, additional conditions: %d", k, have[1], have[2], have[3], len(extra))
			if !ok {
				r.Violation(fmt.Sprintf("action %d: two-per-member-operands guard is conditional", k), p.RelPos(b.Instrs[len(b.Instrs)-1].Pos()),
					"the parse-time rejection of a comparison between two per-member operands additionally depends on: %s — for the other cases such a comparison is built, and evaluation compares every member against the first member's right value only (type assertion panic when that is the absence marker)", strings.Join(extra, "; "))
			}
		}
	}
	if found == 0 {
		r.Oblige(false)
		r.Violation("no parse-time guard against two per-member operands", p.RelPos(execute.Pos()),
			"no grammar action rejects a comparison whose left and right operands are both per-member queries; evaluation reads only right[0]")
	}
	return r
}

func condText(v ssa.Value) string {
	switch x := v.(type) {
	case *ssa.Extract:
		if ta, ok := x.Tuple.(*ssa.TypeAssert); ok {
			return "type test for " + types.TypeString(ta.AssertedType, func(*types.Package) string { return "" })
		}
	case *ssa.BinOp:
		return "comparison " + x.Op.String()
	case *ssa.Call:
		return "call " + x.Call.String()
	}
	return v.String()
}

// ---------------------------------------------------------------------------------------------
// N-PRESENCE: a member that is present with the value null is still a member. Evaluation code
// decides presence of a key in a document object only with the comma-ok form of the lookup; the
// value of a plain lookup is never compared with nil (that conflates `{"a":null}` with `{}` and
// makes a name list differ from the concatenation of its single names).
func ruleNPresence(c *engine.Context) *report.Rule {
	r := report.NewRule("N-PRESENCE", "presence of a member in a document object is decided by the comma-ok lookup, never by comparing the looked-up value with nil", 3)
	p := c.P
	isDocMap := func(t types.Type) bool {
		m, ok := t.Underlying().(*types.Map)
		if !ok {
			return false
		}
		it, ok := m.Elem().Underlying().(*types.Interface)
		return ok && it.NumMethods() == 0
	}
	for _, fn := range p.Funcs {
		if fn.Blocks == nil || !p.Eval[fn] {
			continue
		}
		n := 0
		for _, b := range fn.Blocks {
			for _, ins := range b.Instrs {
				lk, ok := ins.(*ssa.Lookup)
				if !ok || !isDocMap(lk.X.Type()) {
					continue
				}
				n++
				r.Instances++
				if lk.CommaOk {
					r.Oblige(true)
					r.Sample("%s: lookup #%d uses comma-ok", load.FuncName(fn), n)
					continue
				}
				// plain lookup: the value must not be compared with nil
				bad := nilComparisonOf(lk, map[ssa.Value]bool{})
				r.Oblige(bad == nil)
				r.Sample("%s: plain lookup #%d, value compared with nil: %v", load.FuncName(fn), n, bad != nil)
				if bad != nil {
					r.Violation(fmt.Sprintf("%s: lookup #%d decides presence by nil comparison", load.FuncName(fn), n), p.RelPos(bad.Pos()),
						"%s looks a key up in a document object without the comma-ok form and compares the value with nil: a member that is present with the value null is treated as absent (a name list then differs from its single names, and the member cannot be addressed)", load.FuncName(fn))
				}
			}
		}
	}
	// the same for a value a step selected: whether a step selected anything is what the step
	// returned (its error) or how many results its sink holds — an element of the sink that is
	// null was selected all the same
	for _, fn := range p.Funcs {
		if fn.Blocks == nil || !p.Eval[fn] {
			continue
		}
		n := 0
		for _, b := range fn.Blocks {
			for _, ins := range b.Instrs {
				ld, ok := ins.(*ssa.UnOp)
				if !ok || ld.Op != token.MUL {
					continue
				}
				ia, ok := ld.X.(*ssa.IndexAddr)
				if !ok {
					continue
				}
				sl, ok := ia.X.(*ssa.UnOp)
				if !ok || sinkResultVar(p, sl.X) == nil {
					continue
				}
				n++
				r.Instances++
				bad := nilComparisonOf(ld, map[ssa.Value]bool{})
				r.Oblige(bad == nil)
				if bad != nil {
					r.Violation(fmt.Sprintf("%s: selected value #%d compared with nil", load.FuncName(fn), n), p.RelPos(bad.Pos()),
						"%s takes a value a step has selected out of the result sink and compares it with nil to decide whether anything was selected: a selected null is then treated as nothing (an operand that is present with the value null behaves like a missing one)", load.FuncName(fn))
				}
			}
		}
	}
	return r
}

// nilComparisonOf finds a comparison of v (through phis and interface copies) with the nil constant.
func nilComparisonOf(v ssa.Value, seen map[ssa.Value]bool) ssa.Instruction {
	if seen[v] || v.Referrers() == nil {
		return nil
	}
	seen[v] = true
	for _, ref := range *v.Referrers() {
		switch x := ref.(type) {
		case *ssa.BinOp:
			if x.Op.String() == "==" || x.Op.String() == "!=" {
				other := x.X
				if other == v {
					other = x.Y
				}
				if cst, ok := other.(*ssa.Const); ok && cst.IsNil() {
					return x
				}
			}
		case *ssa.Phi:
			if ins := nilComparisonOf(x, seen); ins != nil {
				return ins
			}
		case *ssa.ChangeInterface:
			if ins := nilComparisonOf(x, seen); ins != nil {
				return ins
			}
		}
	}
	return nil
}

// ---------------------------------------------------------------------------------------------
// L-CLASS: every verdict list a filter query returns has length 1 or the length of the member
// list it was given. Inductive over the query family: each implementation returns one of the two
// one-element package lists, a one-element literal, a list made with the member list's length, the
// member list itself, a copy of a stored one-element list, or what a sub-query returned for the
// same member list (or for a one-element list). The filter qualifier's `result[0]` read is then
// safe where it is guarded by "length differs from the member count".

type listClass int

const (
	lcOne listClass = 1 << iota
	lcN
	lcSub
	lcOther
)

func (c listClass) String() string {
	var s []string
	if c&lcOne != 0 {
		s = append(s, "one-element")
	}
	if c&lcN != 0 {
		s = append(s, "member-count")
	}
	if c&lcSub != 0 {
		s = append(s, "sub-query result")
	}
	if c&lcOther != 0 {
		s = append(s, "unknown length")
	}
	return strings.Join(s, "|")
}

type lclassCtx struct {
	p     *load.Program
	comp  map[*ssa.Function]*ssa.Parameter
	why   string
	depth int
	bind  map[*ssa.Parameter]listClass // parameters of a helper being followed -> class of the argument
}

func (lc *lclassCtx) classify(fn *ssa.Function, list *ssa.Parameter, v ssa.Value, seen map[ssa.Value]bool) listClass {
	if seen[v] {
		return 0
	}
	seen[v] = true
	p := lc.p
	switch x := v.(type) {
	case *ssa.Parameter:
		if x == list {
			return lcN
		}
		if c, ok := lc.bind[x]; ok {
			return c
		}
	case *ssa.Phi:
		var c listClass
		for _, e := range x.Edges {
			c |= lc.classify(fn, list, e, seen)
		}
		return c
	case *ssa.ChangeType:
		// a conversion to or from a named type of the same list
		return lc.classify(fn, list, x.X, seen)
	case *ssa.Slice:
		if al, ok := x.X.(*ssa.Alloc); ok && x.Low == nil {
			if at, ok := al.Type().(*types.Pointer).Elem().(*types.Array); ok {
				// a composite literal of one element, or make([]T, 1) (an array of one sliced [:1])
				hv, hasC := int64(-1), false
				if x.High != nil {
					hv, hasC = cfgutilConst(x.High)
				}
				if at.Len() == 1 && (x.High == nil || (hasC && hv == 1)) {
					return lcOne
				}
			}
		}
	case *ssa.MakeSlice:
		if a, ok := lenArg(x.Len); ok {
			if list != nil && a == ssa.Value(list) {
				return lcN
			}
			// as long as another list: that list's class
			return lc.classify(fn, list, a, seen)
		}
		if cv, isC := cfgutilConst(x.Len); isC && cv == 1 {
			return lcOne
		}
	case *ssa.UnOp:
		if x.Op != token.MUL {
			break
		}
		switch a := x.X.(type) {
		case *ssa.Global:
			if a == p.Roles.MarkerList || a == p.Roles.FullList {
				return lcOne
			}
		case *ssa.Alloc:
			// a local (e.g. the spilled result of a function with defers): union over its stores
			var c listClass
			n := 0
			for _, ref := range *a.Referrers() {
				if st, ok := ref.(*ssa.Store); ok && st.Addr == ssa.Value(a) {
					c |= lc.classify(fn, list, st.Val, seen)
					n++
				}
			}
			if n > 0 {
				return c
			}
		case *ssa.FieldAddr:
			// a list stored in a node of the parsed tree: every store into that field, anywhere
			pt, ok := a.X.Type().(*types.Pointer)
			if !ok {
				break
			}
			var c listClass
			n := 0
			for _, f2 := range p.Funcs {
				for _, b := range f2.Blocks {
					for _, ins := range b.Instrs {
						st, ok := ins.(*ssa.Store)
						if !ok {
							continue
						}
						fa, ok := st.Addr.(*ssa.FieldAddr)
						if !ok || fa.Field != a.Field || !types.Identical(fa.X.Type(), pt) {
							continue
						}
						n++
						c |= lc.classify(f2, nil, st.Val, map[ssa.Value]bool{})
					}
				}
			}
			if n > 0 {
				return c
			}
		}
	case *ssa.Call:
		if bi, ok := x.Call.Value.(*ssa.Builtin); ok {
			if bi.Name() == "append" && len(x.Call.Args) == 2 {
				if cst, isC := x.Call.Args[0].(*ssa.Const); isC && cst.IsNil() {
					if _, isSl := x.Call.Args[1].Type().Underlying().(*types.Slice); isSl {
						return lc.classify(fn, list, x.Call.Args[1], seen) // a copy has the length of its source
					}
				}
			}
			break
		}
		// evaluation of a sub-query
		var args []ssa.Value
		isCompute := false
		if x.Call.IsInvoke() && types.Identical(x.Call.Value.Type(), p.Roles.QueryIface) {
			isCompute, args = true, x.Call.Args
		} else if sc := x.Call.StaticCallee(); sc != nil {
			if _, ok := lc.comp[sc]; ok {
				isCompute, args = true, x.Call.Args[1:]
			}
		}
		// a package helper that is handed lists and returns one: the classes of what it returns,
		// with its list parameters standing for the arguments
		if sc := x.Call.StaticCallee(); sc != nil && !isCompute && p.InPkg(sc) && sc.Blocks != nil && lc.depth < 2 && isIfaceSliceT(x.Type()) {
			sub := &lclassCtx{p: p, comp: lc.comp, depth: lc.depth + 1, bind: map[*ssa.Parameter]listClass{}}
			for i, a := range x.Call.Args {
				if i < len(sc.Params) && isIfaceSliceT(a.Type()) {
					sub.bind[sc.Params[i]] = lc.classify(fn, list, a, map[ssa.Value]bool{})
				}
			}
			var c listClass
			for _, b := range sc.Blocks {
				if ret, ok := b.Instrs[len(b.Instrs)-1].(*ssa.Return); ok && len(ret.Results) == 1 && b.Comment != "recover" {
					c |= sub.classify(sc, nil, ret.Results[0], map[ssa.Value]bool{})
				}
			}
			if c != 0 {
				if c&lcOther != 0 && lc.why == "" {
					lc.why = sub.why
				}
				return c
			}
		}
		if isCompute && len(args) == 2 {
			ac := lc.classify(fn, list, args[1], map[ssa.Value]bool{})
			switch {
			case ac == lcN:
				return lcSub
			case ac == lcOne:
				return lcOne
			case ac&lcOther == 0 && ac != 0:
				return lcSub // one-element or the member list: the result is one-element or member-count
			}
		}
	}
	if lc.why == "" {
		lc.why = fmt.Sprintf("%s in %s", v.String(), load.FuncName(fn))
	}
	return lcOther
}

func ruleLClass(c *engine.Context) *report.Rule {
	r := report.NewRule("L-CLASS", "every verdict list of a filter query has length 1 or the member count; the filter reads result[0] only where the length differs from the member count", 6)
	p := c.P
	comp := queryComputeFuncs(p)
	var fns []*ssa.Function
	for fn := range comp {
		fns = append(fns, fn)
	}
	sort.Slice(fns, func(i, j int) bool { return load.FuncName(fns[i]) < load.FuncName(fns[j]) })
	for _, fn := range fns {
		list := comp[fn]
		r.Instances++
		var all listClass
		lc := &lclassCtx{p: p, comp: comp}
		for _, b := range fn.Blocks {
			if b.Comment == "recover" {
				continue
			}
			ret, ok := b.Instrs[len(b.Instrs)-1].(*ssa.Return)
			if !ok || len(ret.Results) != 1 {
				continue
			}
			all |= lc.classify(fn, list, ret.Results[0], map[ssa.Value]bool{})
		}
		ok := all != 0 && all&lcOther == 0
		r.Oblige(ok)
		r.Nontrivial++
		r.Sample("%s returns: %s", load.FuncName(fn), all)
		if !ok {
			r.Violation(load.FuncName(fn)+" may return a list of another length", p.RelPos(fn.Pos()),
				"%s can return a list that is not shown to have one element or as many elements as the member list it was given (%s): the logical operators merge verdict lists index by index and the filter reads result[0] / result[i] by that convention — an index out of range panic, or members matched against the wrong verdicts", load.FuncName(fn), lc.why)
		}
	}
	// the consumers outside the query family: reads of element 0 of a compute result
	for _, fn := range evalFuncs(c) {
		if _, isQ := comp[fn]; isQ {
			continue
		}
		for _, b := range fn.Blocks {
			for _, ins := range b.Instrs {
				ia, ok := ins.(*ssa.IndexAddr)
				if !ok {
					continue
				}
				call, ok := ia.X.(*ssa.Call)
				if !ok || !call.Call.IsInvoke() || !types.Identical(call.Call.Value.Type(), p.Roles.QueryIface) {
					continue
				}
				cv, isC := cfgutilConst(ia.Index)
				if !isC || cv != 0 {
					continue
				}
				r.Instances++
				guarded := false
				for _, dc := range dominatingConds(b) {
					cond, neg := unwrapNot(dc.cond)
					bo, ok := cond.(*ssa.BinOp)
					if !ok || (bo.Op != token.EQL && bo.Op != token.NEQ) {
						continue
					}
					lx, okx := lenArg(bo.X)
					_, oky := lenArg(bo.Y)
					if !okx || !oky || lx != ssa.Value(call) {
						if ly, ok2 := lenArg(bo.Y); !(ok2 && ly == ssa.Value(call) && okx) {
							continue
						}
					}
					equal := (bo.Op == token.EQL) == (dc.taken != neg)
					if !equal {
						guarded = true
					}
				}
				// the flag form: isEach := len(v) == len(m); if !isEach { v[0] }
				if !guarded {
					for _, dc := range dominatingConds(b) {
						cond, neg := unwrapNot(dc.cond)
						if bo, ok := cond.(*ssa.BinOp); ok && (bo.Op == token.EQL || bo.Op == token.NEQ) {
							lx, okx := lenArg(bo.X)
							ly, oky := lenArg(bo.Y)
							if okx && oky && (lx == ssa.Value(call) || ly == ssa.Value(call)) {
								equal := (bo.Op == token.EQL) == (dc.taken != neg)
								if !equal {
									guarded = true
								}
							}
						}
					}
				}
				r.Oblige(guarded)
				r.Sample("%s reads element 0 of a verdict list under `length differs from the member count`: %v", load.FuncName(fn), guarded)
				if !guarded {
					r.Violation(load.FuncName(fn)+" reads element 0 of a verdict list unguarded", p.RelPos(ia.Pos()),
						"%s reads element 0 of the list a filter query returned without having established that its length differs from the member count (a per-member list can be empty when the container is empty)", load.FuncName(fn))
				}
			}
		}
	}
	return r
}

// ---------------------------------------------------------------------------------------------
// V-SELECT: the filter qualifier selects exactly the members whose verdict is true. For a
// per-member verdict list (length = member count) member i is handed to the next step iff
// verdict[i] is not the marker — same index for member and verdict; for a whole-match list
// either every member is handed on (verdict[0] not the marker) or the step fails without
// handing on any (verdict[0] is the marker).
func ruleVSelect(c *engine.Context) *report.Rule {
	r := report.NewRule("V-SELECT", "the filter hands member i to the next step exactly when its verdict is true (per-member list: verdict[i]; whole-match list: verdict[0])", 2)
	p := c.P
	found := 0
	for _, fn := range retrieveFamily(c) {
		// the verdict list: result of invoking the query interface
		var V *ssa.Call
		for _, b := range fn.Blocks {
			for _, ins := range b.Instrs {
				if call, ok := ins.(*ssa.Call); ok && call.Call.IsInvoke() && types.Identical(call.Call.Value.Type(), p.Roles.QueryIface) {
					V = call
				}
			}
		}
		if V == nil {
			continue
		}
		found++
		r.Instances++
		name := load.FuncName(fn)
		// isEach: len(V) == len(X)
		isEachCond := func(v ssa.Value) (neg bool, ok bool) {
			v, n := unwrapNot(v)
			bo, isBo := v.(*ssa.BinOp)
			if !isBo || (bo.Op != token.EQL && bo.Op != token.NEQ) {
				return false, false
			}
			lx, okx := lenArg(bo.X)
			ly, oky := lenArg(bo.Y)
			if !okx || !oky || !(lx == ssa.Value(V) || ly == ssa.Value(V)) {
				return false, false
			}
			return n != (bo.Op == token.NEQ), true
		}
		markerOf := func(v ssa.Value) (idx ssa.Value, neg bool, ok bool) {
			v, n := unwrapNot(v)
			var elem ssa.Value
			switch x := v.(type) {
			case *ssa.BinOp:
				if x.Op != token.EQL && x.Op != token.NEQ {
					return nil, false, false
				}
				if isMarkerValue(p, x.Y) {
					elem = x.X
				} else if isMarkerValue(p, x.X) {
					elem = x.Y
				} else {
					return nil, false, false
				}
				n = n != (x.Op == token.NEQ)
			case *ssa.Call:
				sc := x.Call.StaticCallee()
				if sc == nil || len(x.Call.Args) != 1 {
					return nil, false, false
				}
				pn, isPred := markerPredicate(p, sc)
				if !isPred {
					return nil, false, false
				}
				elem = x.Call.Args[0]
				n = n != pn
			default:
				return nil, false, false
			}
			ld, isLd := elem.(*ssa.UnOp)
			if !isLd {
				return nil, false, false
			}
			ia, isIA := ld.X.(*ssa.IndexAddr)
			if !isIA || ia.X != ssa.Value(V) {
				return nil, false, false
			}
			return ia.Index, n, true
		}
		var problems []string
		// whole-match false: !isEach and V[0]==marker leads to a failing return
		wholeOK := false
		for _, b := range fn.Blocks {
			ifi, ok := b.Instrs[len(b.Instrs)-1].(*ssa.If)
			if !ok {
				continue
			}
			idx, neg, isM := markerOf(ifi.Cond)
			if !isM {
				continue
			}
			if cv, isC := cfgutilConst(idx); !isC || cv != 0 {
				continue
			}
			markerSucc := b.Succs[0]
			if neg {
				markerSucc = b.Succs[1]
			}
			notEach := false
			for _, dc := range dominatingConds(b) {
				if n, isE := isEachCond(dc.cond); isE && (dc.taken == n) {
					notEach = true
				}
			}
			if ret, isRet := markerSucc.Instrs[len(markerSucc.Instrs)-1].(*ssa.Return); isRet && notEach && len(ret.Results) == 1 {
				if cst, isC := ret.Results[0].(*ssa.Const); !isC || !cst.IsNil() {
					wholeOK = true
				}
			}
		}
		if !wholeOK {
			problems = append(problems, "no path that fails without handing on any member when the whole-match verdict is false (verdict[0] is the marker and the length differs from the member count)")
		}
		// the member loop
		loopsSeen := 0
		for _, l := range cfgutil.Loops(fn) {
			ind := cfgutil.Classify(l)
			if ind.Kind != cfgutil.LoopAscending {
				continue
			}
			// the step call in the loop
			var step *ssa.Call
			for b := range l.Blocks {
				for _, ins := range b.Instrs {
					if call, ok := ins.(*ssa.Call); ok {
						if sc := call.Call.StaticCallee(); sc != nil && sinkParam(p, sc) != nil && call != V {
							step = call
						}
						if call.Call.IsInvoke() && call.Call.Method.Name() == p.Roles.RetrieveName {
							step = call
						}
					}
				}
			}
			// where the forward-or-emit helper is expanded into the loop, handling of the member
			// starts where it is looked up (object) or where the next link is tested (array)
			stop := map[*ssa.BasicBlock]bool{}
			if step != nil {
				stop[step.Block()] = true
			}
			derivedFromParams := map[ssa.Value]bool{}
			for _, prm := range fn.Params {
				for v := range cfgutil.Derived(prm) {
					derivedFromParams[v] = true
				}
			}
			for b := range l.Blocks {
				for _, ins := range b.Instrs {
					if lk, isLk := ins.(*ssa.Lookup); isLk && lk.X != ssa.Value(V) && derivedFromParams[resolveCell(lk.X)] {
						if _, isMap := lk.X.Type().Underlying().(*types.Map); isMap {
							stop[b] = true
						}
					}
				}
				if ifi, isIf := b.Instrs[len(b.Instrs)-1].(*ssa.If); isIf && nextGuardBase(p, ifi.Cond) != nil {
					stop[b] = true
				}
			}
			// keep only the first stop block on every path: a stop block dominated by another is inside the handling
			for b := range stop {
				for b2 := range stop {
					if b != b2 && b2.Dominates(b) {
						delete(stop, b)
					}
				}
			}
			handles := step != nil
			for b := range l.Blocks {
				if ifi, isIf := b.Instrs[len(b.Instrs)-1].(*ssa.If); isIf && nextGuardBase(p, ifi.Cond) != nil {
					handles = true
				}
			}
			if len(stop) == 0 || !handles {
				continue
			}
			loopsSeen++
			body := l.Header.Succs[0]
			if !l.Blocks[body] {
				body = l.Header.Succs[1]
			}
			type fact struct{ each, marker int } // -1 unknown, 0 false, 1 true
			var walk func(b *ssa.BasicBlock, f fact, on map[*ssa.BasicBlock]bool)
			walk = func(b *ssa.BasicBlock, f fact, on map[*ssa.BasicBlock]bool) {
				if stop[b] {
					if !(f.each == 0 || (f.each == 1 && f.marker == 0)) {
						problems = append(problems, fmt.Sprintf("a member can be handed to the next step on a path where it is not established that the list is a whole-match list or that the member's own verdict is true (per-member list known: %s, verdict is marker: %s)", tri(f.each), tri(f.marker)))
					}
					return
				}
				if b == l.Header {
					if !(f.each == 1 && f.marker == 1) {
						problems = append(problems, fmt.Sprintf("a member can be skipped on a path where its verdict is not known to be false (per-member list known: %s, verdict is marker: %s)", tri(f.each), tri(f.marker)))
					}
					return
				}
				if !l.Blocks[b] || on[b] {
					return
				}
				on[b] = true
				defer delete(on, b)
				ifi, ok := b.Instrs[len(b.Instrs)-1].(*ssa.If)
				if !ok {
					for _, s := range b.Succs {
						walk(s, f, on)
					}
					return
				}
				if n, isE := isEachCond(ifi.Cond); isE {
					for i, s := range b.Succs {
						g := f
						if (i == 0) != n {
							g.each = 1
						} else {
							g.each = 0
						}
						walk(s, g, on)
					}
					return
				}
				if idx, n, isM := markerOf(ifi.Cond); isM {
					if idx != ind.Index {
						problems = append(problems, "the verdict tested is not the one at the member's own index")
					}
					for i, s := range b.Succs {
						g := f
						if (i == 0) != n {
							g.marker = 1
						} else {
							g.marker = 0
						}
						walk(s, g, on)
					}
					return
				}
				// `index < len(verdicts)` is true for every index of the member loop once the verdict
				// list is known to be as long as the member list: a redundant bound check
				if bo, isBo := ifi.Cond.(*ssa.BinOp); isBo && f.each == 1 {
					op, x, y := bo.Op, bo.X, bo.Y
					if lx, isLen := lenArg(x); isLen && lx == ssa.Value(V) {
						x, y = y, x
						op = mirrorOp(op)
					}
					if ly, isLen := lenArg(y); isLen && ly == ssa.Value(V) && resolveCell(x) == ind.Index {
						switch op {
						case token.LSS:
							walk(b.Succs[0], f, on)
							return
						case token.GEQ:
							walk(b.Succs[1], f, on)
							return
						}
					}
				}
				problems = append(problems, "a condition other than the list-kind test and the member's verdict decides whether a member is handed on ("+condText(ifi.Cond)+")")
			}
			walk(body, fact{-1, -1}, map[*ssa.BasicBlock]bool{})
			// member index = verdict index
			usesIdx := false
			if step != nil {
				for _, a := range step.Call.Args {
					if a == ind.Index {
						usesIdx = true
					}
					if ld, ok := a.(*ssa.UnOp); ok {
						if ia, ok := ld.X.(*ssa.IndexAddr); ok && ia.Index == ind.Index {
							usesIdx = true // key list element at the same index
						}
					}
				}
			}
			// expanded form: the member itself is read at the loop's index (array element, or the
			// object member under the key at that index of the key list)
			for b := range l.Blocks {
				for _, ins := range b.Instrs {
					switch x := ins.(type) {
					case *ssa.IndexAddr:
						if resolveCell(x.Index) == ind.Index && x.X != ssa.Value(V) && derivedFromParams[resolveCell(x.X)] && isIfaceSliceT(x.X.Type()) {
							usesIdx = true
						}
					case *ssa.Lookup:
						if ld, ok := resolveCell(x.Index).(*ssa.UnOp); ok && derivedFromParams[resolveCell(x.X)] {
							if ia, ok := ld.X.(*ssa.IndexAddr); ok && resolveCell(ia.Index) == ind.Index {
								usesIdx = true
							}
						}
					}
				}
			}
			if !usesIdx {
				problems = append(problems, "the member handed on is not the one at the index whose verdict was tested")
			}
		}
		if loopsSeen != 1 {
			problems = append(problems, fmt.Sprintf("expected one member loop that hands members to the next step, found %d", loopsSeen))
		}
		problems = uniqSorted(problems)
		r.Oblige(len(problems) == 0)
		r.Nontrivial++
		r.Sample("%s: selection follows the verdict list: %v", name, len(problems) == 0)
		for i, pr := range problems {
			if i >= 3 {
				break
			}
			r.Violation(fmt.Sprintf("%s: selection (%d)", name, i+1), p.RelPos(fn.Pos()), "%s: %s", name, pr)
		}
	}
	if found < 2 {
		r.InfraFail("anchor unresolved: expected the object and the array branch of the filter qualifier, found %d", found)
	}
	return r
}

func tri(v int) string {
	switch v {
	case 0:
		return "false"
	case 1:
		return "true"
	}
	return "unknown"
}

// delegate: v is the result of a package helper that receives operand verdict lists; analyse the
// helper with its parameters bound to the operands and the caller's path facts as initial facts.
func (ba *boolAnalysis) delegate(v ssa.Value, facts boolFacts, op string, depth int) *boolAnalysis {
	if depth > 0 {
		return nil
	}
	call, ok := v.(*ssa.Call)
	if !ok {
		return nil
	}
	sc := call.Call.StaticCallee()
	if sc == nil || !ba.p.InPkg(sc) || sc.Blocks == nil || !isIfaceSliceT(call.Type()) {
		return nil
	}
	pre := map[ssa.Value]int{}
	for i, a := range call.Call.Args {
		if k, isOp := ba.operandOf(a); isOp && i < len(sc.Params) {
			pre[sc.Params[i]] = k
		}
	}
	if len(pre) == 0 {
		return nil
	}
	return analyseBoolNodeWith(ba.p, sc, nil, ba.arity, op, pre, facts, depth+1)
}

// resolveCell: a load of a local cell (a variable captured by a closure) into which exactly one
// value is stored is that value.
func resolveCell(v ssa.Value) ssa.Value {
	for i := 0; i < 4; i++ {
		al := loadOfCell(v)
		if al == nil {
			return v
		}
		var only ssa.Value
		n := 0
		for _, ref := range *al.Referrers() {
			if st, ok := ref.(*ssa.Store); ok && st.Addr == ssa.Value(al) {
				only = st.Val
				n++
			}
		}
		if n != 1 {
			return v
		}
		v = only
	}
	return v
}
