package rules

import (
	"fmt"
	"go/types"
	"sort"
	"strings"

	"golang.org/x/tools/go/ssa"

	"verif/checker/internal/engine"
	"verif/checker/internal/load"
	"verif/checker/internal/regions"
	"verif/checker/internal/report"
)

func init() {
	engine.Register("V-INPUT-PURE", ruleVInputPure)
}

// queryFamily: functions whose receiver type is a query, comparator or validator type
// (the code that evaluates a filter expression over a member list).
func queryFamily(p *load.Program) map[*ssa.Function]bool {
	fam := map[*types.Named]bool{}
	for _, l := range [][]*types.Named{p.Roles.QueryTypes, p.Roles.ComparatorTypes, p.Roles.ValidatorTypes} {
		for _, t := range l {
			fam[t] = true
		}
	}
	out := map[*ssa.Function]bool{}
	for _, fn := range p.Funcs {
		if fn.Blocks == nil || fn.Signature.Recv() == nil {
			continue
		}
		rt := fn.Signature.Recv().Type()
		if pt, ok := rt.(*types.Pointer); ok {
			rt = pt.Elem()
		}
		if nt, ok := rt.(*types.Named); ok && fam[nt] {
			out[fn] = true
		}
	}
	return out
}

// queryComputeFuncs: the implementations of the query interface's method, with the index of the
// member-list parameter (the last []interface{} parameter).
func queryComputeFuncs(p *load.Program) map[*ssa.Function]*ssa.Parameter {
	out := map[*ssa.Function]*ssa.Parameter{}
	if p.Roles.QueryIface == nil {
		return out
	}
	it, ok := p.Roles.QueryIface.Underlying().(*types.Interface)
	if !ok || it.NumMethods() == 0 {
		return out
	}
	var mname string
	for i := 0; i < it.NumMethods(); i++ {
		m := it.Method(i)
		sig := m.Type().(*types.Signature)
		if sig.Results().Len() == 1 && isIfaceSliceT(sig.Results().At(0).Type()) {
			mname = m.Name()
		}
	}
	for _, qt := range p.Roles.QueryTypes {
		fn := methodOf(p, qt, mname)
		if fn == nil || fn.Blocks == nil {
			continue
		}
		var list *ssa.Parameter
		for _, prm := range fn.Params {
			if isIfaceSliceT(prm.Type()) {
				list = prm
			}
		}
		if list != nil {
			out[fn] = list
		}
	}
	return out
}

// returnsParamDirectly: some return operand of fn is the parameter itself (through phi / slice / conversions).
func returnsParamDirectly(fn *ssa.Function, prm *ssa.Parameter) *ssa.Return {
	var trace func(v ssa.Value, seen map[ssa.Value]bool) bool
	trace = func(v ssa.Value, seen map[ssa.Value]bool) bool {
		if seen[v] {
			return false
		}
		seen[v] = true
		switch x := v.(type) {
		case *ssa.Parameter:
			return x == prm
		case *ssa.Phi:
			for _, e := range x.Edges {
				if trace(e, seen) {
					return true
				}
			}
		case *ssa.Slice:
			return trace(x.X, seen)
		case *ssa.ChangeType:
			return trace(x.X, seen)
		case *ssa.Convert:
			return trace(x.X, seen)
		}
		return false
	}
	for _, b := range fn.Blocks {
		if ret, ok := b.Instrs[len(b.Instrs)-1].(*ssa.Return); ok {
			for _, res := range ret.Results {
				if trace(res, map[ssa.Value]bool{}) {
					return ret
				}
			}
		}
	}
	return nil
}

// ruleVInputPure: V-INPUT-PURE — operands of a logical operator are evaluated over the same
// member list, so no query may write into the list it was given: the verdict lists that the
// operators, comparators and validators blank in place must be allocations of the sub-query
// that produced them, never the member list itself.
func ruleVInputPure(c *engine.Context) *report.Rule {
	r := report.NewRule("V-INPUT-PURE", "filter queries never write into the member list they were given (sibling operands see the same members)", 6)
	a := regionsOf(c)
	p := c.P
	comp := queryComputeFuncs(p)
	fam := queryFamily(p)
	if len(comp) == 0 {
		r.InfraFail("no implementation of the query interface found")
		return r
	}
	// member lists: what the list parameter of any query may point to
	inputs := map[*regions.Object]bool{}
	for fn, prm := range comp {
		_ = fn
		if n := a.ValueNode(prm); n != nil {
			for _, o := range n.Pts() {
				inputs[o.Root()] = true
			}
		}
	}
	exempt := sentinelExempt(c, a, r)
	// writers of the family into a member list
	type wr struct {
		e *regions.Effect
		t *regions.Object
	}
	var writers []wr
	for _, e := range a.Effects {
		if !fam[e.Fn] {
			continue
		}
		for _, t := range e.Targets {
			if inputs[t.Root()] {
				if _, ex := exempt[t.Root()]; ex {
					continue
				}
				if t.Root().Fn == e.Fn {
					continue // the function fills a list it allocates itself
				}
				writers = append(writers, wr{e, t})
				break
			}
		}
	}
	var fns []*ssa.Function
	for fn := range comp {
		fns = append(fns, fn)
	}
	sort.Slice(fns, func(i, j int) bool { return load.FuncName(fns[i]) < load.FuncName(fns[j]) })
	r.Instances = len(fns)
	var wdesc []string
	for _, w := range writers {
		wdesc = append(wdesc, fmt.Sprintf("%s in %s", describeStore(p, w.e.Instr), load.FuncName(w.e.Fn)))
	}
	wdesc = uniqSorted(wdesc)
	origins := 0
	var aliasing []*ssa.Function
	for _, fn := range fns {
		prm := comp[fn]
		// does the result of fn alias its own input?
		alias := false
		var aliasObj *regions.Object
		in := map[*regions.Object]bool{}
		if n := a.ValueNode(prm); n != nil {
			for _, o := range n.Pts() {
				in[o.Root()] = true
			}
		}
		var resNode *regions.Node
		for _, rn := range a.ResultNodes(fn) {
			if rn == nil {
				continue
			}
			for _, o := range rn.Pts() {
				if in[o.Root()] {
					alias, aliasObj, resNode = true, o, rn
				}
			}
		}
		direct := returnsParamDirectly(fn, prm)
		ok := !alias || len(writers) == 0
		r.Oblige(ok)
		r.Sample("%s: result may be the member list it was given: %v (returned directly: %v); writers into member lists: %d", load.FuncName(fn), alias, direct != nil, len(writers))
		if alias {
			aliasing = append(aliasing, fn)
		}
		if ok || direct == nil {
			continue
		}
		origins++
		f := r.Violation(load.FuncName(fn)+" returns its member list", p.RelPos(direct.Pos()),
			"%s returns the member list it was given as its verdict list; verdict lists are blanked in place (%s), so a sibling operand evaluated afterwards sees markers or operand values instead of the members: `A || B` / `A && B` stop being union / intersection", load.FuncName(fn), strings.Join(wdesc, "; "))
		if resNode != nil && aliasObj != nil {
			f.Witness = a.Witness(resNode, aliasObj)
		}
	}
	if len(aliasing) > 0 && len(writers) > 0 && origins == 0 {
		// aliasing found by points-to but not as a direct return: report it on the writers
		var names []string
		for _, fn := range aliasing {
			names = append(names, load.FuncName(fn))
		}
		r.Violation("member list reaches a verdict list", p.RelPos(writers[0].e.Instr.Pos()),
			"the result of %s may be the member list it was given, and verdict lists are blanked in place (%s)", strings.Join(names, ", "), strings.Join(wdesc, "; "))
	}
	return r
}
