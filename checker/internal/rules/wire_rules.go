package rules

import (
	"fmt"
	"go/token"
	"go/types"
	"sort"
	"strconv"
	"strings"

	"golang.org/x/tools/go/ssa"

	"verif/checker/internal/engine"
	"verif/checker/internal/load"
	"verif/checker/internal/peg"
	"verif/checker/internal/report"
	"verif/checker/internal/stackty"
)

func init() {
	engine.Register("V-WIRE", ruleVWire)
	engine.Register("V-PREC", ruleVPrec)
	engine.Register("P-RESTRICT", rulePRestrict)
}

// actionBlocksOf returns the SSA blocks of each action body in Execute.
func actionBlocksOf(c *engine.Context) (map[int][]*ssa.BasicBlock, *ssa.Function) {
	type res struct {
		m map[int][]*ssa.BasicBlock
		f *ssa.Function
	}
	v := c.Memo("actionBlocks", func() interface{} {
		p := c.P
		pm := pegOf(c)
		var execute *ssa.Function
		for _, fn := range p.Funcs {
			if fn.Name() == "Execute" && p.FuncIsGenerated(fn) && fn.Signature.Recv() != nil {
				execute = fn
			}
		}
		vals := map[int]int64{}
		if pm.gen != nil {
			for i, name := range pm.gen.RuleNames {
				if strings.HasPrefix(name, "Action") {
					if k, err := strconv.Atoi(strings.TrimPrefix(name, "Action")); err == nil {
						vals[k] = int64(i)
					}
				}
			}
		}
		return res{stackty.ActionBlocks(execute, vals), execute}
	}).(res)
	return v.m, v.f
}

// tokenActions finds, in the grammar, sequences "token … action" for the given token spellings.
func tokenActions(g *peg.Grammar, toks []string) map[string][]int {
	out := map[string][]int{}
	isTok := map[string]bool{}
	for _, t := range toks {
		isTok[t] = true
	}
	var walk func(e peg.Expr)
	walk = func(e peg.Expr) {
		switch x := e.(type) {
		case *peg.Seq:
			for i := 0; i < len(x.Items); i++ {
				if ru, ok := singleRune(x.Items[i]); ok {
					tok := string(ru)
					j := i
					for j+1 < len(x.Items) {
						r2, ok2 := singleRune(x.Items[j+1])
						if !ok2 {
							break
						}
						tok += string(r2)
						j++
					}
					if isTok[tok] {
						for k := j + 1; k < len(x.Items); k++ {
							if a, ok := x.Items[k].(*peg.Action); ok {
								out[tok] = append(out[tok], a.Index)
								break
							}
						}
					}
					i = j
					continue
				}
				// a reference to a pure token rule (blanks token blanks)
				if ref, ok := x.Items[i].(*peg.Ref); ok {
					if rr := g.ByName[ref.Name]; rr != nil {
						for _, t := range tokenRuns(peg.Normalize(rr.E)) {
							if isTok[t] {
								for k := i + 1; k < len(x.Items); k++ {
									if a, ok := x.Items[k].(*peg.Action); ok {
										out[t] = append(out[t], a.Index)
										break
									}
								}
							}
						}
					}
				}
				walk(x.Items[i])
			}
		case *peg.Choice:
			for _, a := range x.Alts {
				walk(a)
			}
		case *peg.Star:
			walk(x.E)
		case *peg.Opt:
			walk(x.E)
		case *peg.Capture:
			walk(x.E)
		}
	}
	for _, r := range g.Rules {
		walk(peg.Normalize(r.E))
	}
	return out
}

// popsIn lists the pop calls of an action body in execution order (block order within the case is sequential for straight-line actions).
func popCallsIn(c *engine.Context, blocks []*ssa.BasicBlock) []*ssa.Call {
	sm := stackOf(c)
	var out []*ssa.Call
	if sm.m == nil {
		return out
	}
	for _, b := range blocks {
		for _, ins := range b.Instrs {
			if call, ok := ins.(*ssa.Call); ok {
				if sc := call.Call.StaticCallee(); sc != nil && sm.m.IsPop(sc) {
					out = append(out, call)
				}
			}
		}
	}
	return out
}

func derivesFromCall(v ssa.Value, call *ssa.Call, depth int) bool {
	if depth > 5 {
		return false
	}
	switch x := v.(type) {
	case *ssa.Call:
		return x == call
	case *ssa.TypeAssert:
		return derivesFromCall(x.X, call, depth+1)
	case *ssa.Extract:
		return derivesFromCall(x.Tuple, call, depth+1)
	case *ssa.ChangeInterface:
		return derivesFromCall(x.X, call, depth+1)
	case *ssa.MakeInterface:
		return derivesFromCall(x.X, call, depth+1)
	}
	return false
}

// ruleVWire: grammar half of V-OPS.
func ruleVWire(c *engine.Context) *report.Rule {
	r := report.NewRule("V-WIRE", "each comparison / logical token of the grammar runs the builder of its own operator with (left, right) in source order", 8)
	pm := pegOf(c)
	if pm.err != "" {
		r.InfraFail("%s", pm.err)
		return r
	}
	p := c.P
	requireRunning(r, pm)
	ruleVOps(c) // fills builderMeanings
	meanings, _ := c.Memo("builderMeanings", func() interface{} { return map[*ssa.Function]token.Token{} }).(map[*ssa.Function]token.Token)
	blocks, _ := actionBlocksOf(c)
	toks := []string{"==", "!=", "<=", "<", ">=", ">", "||", "&&"}
	ta := tokenActions(pm.run, toks)
	want := map[string]token.Token{"<=": token.LEQ, "<": token.LSS, ">=": token.GEQ, ">": token.GTR}
	seenBuilder := map[string]*ssa.Function{}
	for _, tok := range toks {
		acts := ta[tok]
		r.Instances++
		if len(acts) != 1 {
			r.Oblige(false)
			r.Undischarged("token `"+tok+"`: actions", pm.pegPos, "expected exactly one grammar alternative `%s … action`, found %d", tok, len(acts))
			continue
		}
		k := acts[0]
		bl := blocks[k]
		pops := popCallsIn(c, bl)
		// the builder call: a static call with two arguments deriving from the two pops
		var builder *ssa.Function
		okOrder := false
		for _, b := range bl {
			for _, ins := range b.Instrs {
				call, ok := ins.(*ssa.Call)
				if !ok || call.Call.StaticCallee() == nil || len(call.Call.Args) != 3 || len(pops) != 2 {
					continue
				}
				a1, a2 := call.Call.Args[1], call.Call.Args[2]
				if derivesFromCall(a1, pops[1], 0) && derivesFromCall(a2, pops[0], 0) {
					builder, okOrder = call.Call.StaticCallee(), true
				} else if derivesFromCall(a1, pops[0], 0) && derivesFromCall(a2, pops[1], 0) {
					builder = call.Call.StaticCallee()
				}
			}
		}
		if builder == nil {
			r.Oblige(false)
			r.Undischarged(fmt.Sprintf("token `%s` (action %d): builder call", tok, k), pm.pegPos, "the action does not pass its two popped operands to a builder")
			continue
		}
		ok := okOrder
		why := ""
		if !okOrder {
			why = "the operands are passed in reversed order (the value popped first is the right operand)"
		}
		if w, isOrd := want[tok]; isOrd {
			m, known := meanings[builder]
			if !known {
				ok, why = false, "the builder called is not one of the ordering builders"
			} else if m != w {
				ok, why = false, fmt.Sprintf("the token `%s` runs a builder that realises `left %s right`", tok, m)
			}
		}
		if prev, dup := seenBuilder[load.FuncName(builder)]; dup && prev == builder {
			ok, why = false, "two different tokens run the same builder"
		}
		seenBuilder[load.FuncName(builder)] = builder
		r.Oblige(ok)
		r.Sample("`%s` → action %d → %s(left = 2nd pop, right = 1st pop): %v", tok, k, load.FuncName(builder), ok)
		if !ok {
			r.Violation(fmt.Sprintf("token `%s` is wired to %s", tok, load.FuncName(builder)), p.RelPos(bl[0].Instrs[0].Pos()), "%s", why)
		}
	}
	return r
}

// ruleVPrec: V-PREC.
func ruleVPrec(c *engine.Context) *report.Rule {
	r := report.NewRule("V-PREC", "`||` binds looser than `&&`, which binds looser than comparison, parentheses and `!`", 3)
	pm := pegOf(c)
	if pm.err != "" {
		r.InfraFail("%s", pm.err)
		return r
	}
	requireRunning(r, pm)
	g := pm.run
	hasTok := func(name, tok string) bool {
		rr := g.ByName[name]
		if rr == nil {
			return false
		}
		ta := tokenRuns(peg.Normalize(rr.E))
		for _, t := range ta {
			if t == tok {
				return true
			}
		}
		return false
	}
	// shape: R <- X (T X action)*
	chainOf := func(rr *peg.Rule, tok string) (string, bool) {
		seq, ok := peg.Normalize(rr.E).(*peg.Seq)
		if !ok || len(seq.Items) != 2 {
			return "", false
		}
		x, ok1 := seq.Items[0].(*peg.Ref)
		st, ok2 := seq.Items[1].(*peg.Star)
		if !ok1 || !ok2 {
			return "", false
		}
		in, ok := st.E.(*peg.Seq)
		if !ok || len(in.Items) != 3 {
			return "", false
		}
		t, ok1 := in.Items[0].(*peg.Ref)
		x2, ok2 := in.Items[1].(*peg.Ref)
		_, ok3 := in.Items[2].(*peg.Action)
		if !ok1 || !ok2 || !ok3 || x2.Name != x.Name || !hasTok(t.Name, tok) {
			return "", false
		}
		return x.Name, true
	}
	var orRule, andRule, basic string
	for _, rr := range g.Rules {
		if x, ok := chainOf(rr, "||"); ok {
			orRule, andRule = rr.Name, x
		}
	}
	r.Instances = 3
	if orRule == "" {
		r.Oblige(false)
		r.Violation("`||` level", pm.pegPos, "no rule of the shape `X (`||` X action)*` found")
		return r
	}
	r.Oblige(true)
	ar := g.ByName[andRule]
	if x, ok := chainOf(ar, "&&"); ok {
		basic = x
		r.Oblige(true)
	} else {
		r.Oblige(false)
		r.Violation("`&&` level", pm.pegPos, "the operands of `||` (rule %s) are not `Y (`&&` Y action)*`: `&&` would not bind tighter than `||`", andRule)
		return r
	}
	// basic: alternatives: ( orRule ) | comparator | !? path
	br := g.ByName[basic]
	ch, ok := peg.Normalize(br.E).(*peg.Choice)
	okBasic := false
	if ok {
		for _, a := range ch.Alts {
			if s, isS := a.(*peg.Seq); isS && len(s.Items) == 3 {
				if mid, isRef := s.Items[1].(*peg.Ref); isRef && mid.Name == orRule {
					okBasic = true
				}
			}
		}
		// no alternative of the basic level may contain `||` or `&&` outside parentheses
		for _, a := range ch.Alts {
			for _, t := range tokenRuns(a) {
				if t == "||" || t == "&&" {
					okBasic = false
				}
			}
		}
	}
	r.Oblige(okBasic)
	r.Sample("%s <- %s (`||` %s)* ; %s <- %s (`&&` %s)* ; %s has a parenthesised %s alternative: %v", orRule, andRule, andRule, andRule, basic, basic, basic, orRule, okBasic)
	if !okBasic {
		r.Violation("comparison level "+basic, pm.pegPos, "the operands of `&&` (rule %s) do not consist of a parenthesised %s, a comparison or a (negated) path", basic, orRule)
	}
	return r
}

// tokenRuns lists maximal runs of single-rune literals in an expression (not descending into references).
func tokenRuns(e peg.Expr) []string {
	var out []string
	var walk func(e peg.Expr)
	walk = func(e peg.Expr) {
		switch x := e.(type) {
		case *peg.Seq:
			for i := 0; i < len(x.Items); i++ {
				if ru, ok := singleRune(x.Items[i]); ok {
					tok := string(ru)
					j := i
					for j+1 < len(x.Items) {
						r2, ok2 := singleRune(x.Items[j+1])
						if !ok2 {
							break
						}
						tok += string(r2)
						j++
					}
					out = append(out, tok)
					i = j
					continue
				}
				walk(x.Items[i])
			}
		case *peg.Choice:
			for _, a := range x.Alts {
				walk(a)
			}
		case *peg.Star:
			walk(x.E)
		case *peg.Opt:
			walk(x.E)
		case *peg.Capture:
			walk(x.E)
		case *peg.CharSet:
			if ru, ok := singleRune(x); ok {
				out = append(out, string(ru))
			}
		}
	}
	walk(e)
	return out
}

// rulePRestrict: P-RESTRICT.
func rulePRestrict(c *engine.Context) *report.Rule {
	r := report.NewRule("P-RESTRICT", "the documented semantic restrictions (script, unknown function, value-group operand, two current-node operands) are enforced where the construct is built", 4)
	p := c.P
	sm := stackOf(c)
	if sm.err != "" {
		r.InfraFail("%s", sm.err)
		return r
	}
	blocks, _ := actionBlocksOf(c)
	typeNamed := func(name string) *types.Named {
		for _, t := range p.Roles.SyntaxErrTypes {
			if t.Obj().Name() == name {
				return t
			}
		}
		return nil
	}
	// panic types reachable from an action (its own blocks and the helpers it calls)
	var panicTypes func(fn *ssa.Function, seen map[*ssa.Function]bool) []types.Type
	blockPanics := func(bs []*ssa.BasicBlock, seen map[*ssa.Function]bool) []types.Type {
		var out []types.Type
		for _, b := range bs {
			for _, ins := range b.Instrs {
				switch x := ins.(type) {
				case *ssa.Panic:
					switch v := x.X.(type) {
					case *ssa.MakeInterface:
						out = append(out, v.X.Type())
					case *ssa.Call:
						if sc := v.Call.StaticCallee(); sc != nil {
							ts, _ := concreteReturnTypes(sc, 0, 0, map[*ssa.Function]bool{})
							out = append(out, ts...)
						}
					case *ssa.ChangeInterface:
						if call, ok := v.X.(*ssa.Call); ok && call.Call.StaticCallee() != nil {
							ts, _ := concreteReturnTypes(call.Call.StaticCallee(), 0, 0, map[*ssa.Function]bool{})
							out = append(out, ts...)
						}
					}
				case *ssa.Call:
					if sc := x.Call.StaticCallee(); sc != nil && p.InPkg(sc) && !p.FuncIsGenerated(sc) {
						out = append(out, panicTypes(sc, seen)...)
					}
				}
			}
		}
		return out
	}
	panicTypes = func(fn *ssa.Function, seen map[*ssa.Function]bool) []types.Type {
		if seen[fn] || fn.Blocks == nil {
			return nil
		}
		seen[fn] = true
		return blockPanics(fn.Blocks, seen)
	}
	// (1) script: an action all of whose paths panic with ErrorNotSupported
	notSup := typeNamed("ErrorNotSupported")
	found := false
	var ks []int
	for k := range sm.m.Actions {
		ks = append(ks, k)
	}
	sort.Ints(ks)
	for _, k := range ks {
		paths := sm.m.Actions[k]
		all := len(paths) > 0
		for _, pa := range paths {
			if !pa.Panics {
				all = false
			}
		}
		if !all {
			continue
		}
		ts := blockPanics(blocks[k], map[*ssa.Function]bool{})
		only := len(ts) > 0
		for _, t := range ts {
			if !types.Identical(t, notSup) {
				only = false
			}
		}
		if only {
			found = true
		}
	}
	r.Instances++
	r.Oblige(found)
	r.Sample("an action whose every path panics with ErrorNotSupported exists (script qualifier): %v", found)
	if !found {
		r.Violation("script qualifier is not rejected", "-", "no grammar action panics with ErrorNotSupported on every path: a script qualifier `[(...)]` would be accepted")
	}
	// (2) function lookup order
	r.Instances++
	okLookup := false
	whyLookup := "no function looks up both function tables"
	for _, fn := range parseFuncs(c, true) {
		var lookups []*ssa.Lookup
		for _, b := range fn.Blocks {
			for _, ins := range b.Instrs {
				if lk, ok := ins.(*ssa.Lookup); ok && lk.CommaOk {
					if mt, ok := lk.X.Type().Underlying().(*types.Map); ok {
						if _, isFn := mt.Elem().Underlying().(*types.Signature); isFn {
							lookups = append(lookups, lk)
						}
					}
				}
			}
		}
		if len(lookups) != 2 {
			continue
		}
		isFilterMap := func(lk *ssa.Lookup) bool {
			sig := lk.X.Type().Underlying().(*types.Map).Elem().Underlying().(*types.Signature)
			_, isSlice := sig.Params().At(0).Type().Underlying().(*types.Slice)
			return !isSlice
		}
		first, second := lookups[0], lookups[1]
		if !instrDominates(first, second) {
			first, second = second, first
		}
		switch {
		case !isFilterMap(first) || isFilterMap(second):
			whyLookup = "aggregate functions are looked up before filter functions"
		default:
			// the second lookup is on the failed edge of the first; FunctionNotFound on the failed edge of the second
			secondOnFail := false
			for _, dc := range dominatingConds(second.Block()) {
				if ex, ok := dc.cond.(*ssa.Extract); ok && ex.Tuple == ssa.Value(first) && ex.Index == 1 && !dc.taken {
					secondOnFail = true
				}
			}
			panicOnFail := false
			nf := typeNamed("ErrorFunctionNotFound")
			for _, b := range fn.Blocks {
				if pn, ok := b.Instrs[len(b.Instrs)-1].(*ssa.Panic); ok {
					if mi, ok := pn.X.(*ssa.MakeInterface); ok && types.Identical(mi.X.Type(), nf) {
						for _, dc := range dominatingConds(b) {
							if ex, ok := dc.cond.(*ssa.Extract); ok && ex.Tuple == ssa.Value(second) && ex.Index == 1 && !dc.taken {
								panicOnFail = true
							}
						}
					}
				}
			}
			if secondOnFail && panicOnFail {
				okLookup = true
			} else {
				whyLookup = "the second table is not consulted exactly when the first lookup fails, or a miss in both does not panic with ErrorFunctionNotFound"
			}
		}
	}
	r.Oblige(okLookup)
	r.Sample("function names: filter table first, then aggregate table, else ErrorFunctionNotFound: %v", okLookup)
	if !okLookup {
		r.Violation("function lookup order", "-", "%s", whyLookup)
	}
	// (3) value-group operand and (4) two current-node operands: panics with ErrorInvalidSyntax guarded by the tests
	invSyn := typeNamed("ErrorInvalidSyntax")
	vgGuard, twoCurrent := false, false
	for _, k := range ks {
		for _, b := range blocks[k] {
			pn, ok := b.Instrs[len(b.Instrs)-1].(*ssa.Panic)
			if !ok {
				continue
			}
			ts := blockPanics([]*ssa.BasicBlock{b}, map[*ssa.Function]bool{})
			isInv := len(ts) > 0
			for _, t := range ts {
				if !types.Identical(t, invSyn) {
					isInv = false
				}
			}
			if !isInv {
				continue
			}
			_ = pn
			conds := dominatingConds(b)
			nAssertTrue := 0
			for _, dc := range conds {
				if !dc.taken {
					continue
				}
				switch x := dc.cond.(type) {
				case *ssa.Call:
					// invoke of a bool method on a popped interface value: the value-group test
					if x.Call.IsInvoke() && len(x.Call.Args) == 0 {
						if _, isIface := x.Call.Value.Type().Underlying().(*types.Interface); isIface {
							// the constructor of the compare parameter must be on the other edge
							other := dc.at.Block().Succs[1]
							for _, ins := range other.Instrs {
								if call, ok := ins.(*ssa.Call); ok && call.Call.StaticCallee() != nil && len(call.Call.Args) >= 2 {
									vgGuard = true
								}
							}
						}
					}
				case *ssa.Extract:
					if ta, ok := x.Tuple.(*ssa.TypeAssert); ok && x.Index == 1 {
						if pt, ok := ta.AssertedType.(*types.Pointer); ok {
							if nt, ok := pt.Elem().(*types.Named); ok {
								for _, q := range p.Roles.QueryTypes {
									if q == nt {
										nAssertTrue++
									}
								}
							}
						}
					}
				}
			}
			if nAssertTrue >= 2 {
				twoCurrent = true
			}
		}
	}
	r.Instances += 2
	r.Oblige(vgGuard)
	r.Oblige(twoCurrent)
	r.Sample("value-group operand rejected before the compare parameter is built: %v; two current-node operands rejected: %v", vgGuard, twoCurrent)
	if !vgGuard {
		r.Violation("value-group operand is not rejected", "-", "no action panics with ErrorInvalidSyntax on the value-group test of a path operand before building the compare parameter")
	}
	if !twoCurrent {
		r.Violation("two current-node operands are not rejected", "-", "no action panics with ErrorInvalidSyntax when both operands of a comparison are current-node paths")
	}
	return r
}
