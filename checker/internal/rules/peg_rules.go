package rules

import (
	"go/types"

	"golang.org/x/tools/go/ssa"

	"bytes"
	"crypto/sha256"
	"fmt"
	"go/ast"
	"go/parser"
	"go/printer"
	"go/token"
	"os"
	"path/filepath"
	"sort"
	"strconv"
	"strings"

	"verif/checker/internal/engine"
	"verif/checker/internal/peg"
	"verif/checker/internal/report"
)

func init() {
	engine.Register("TV-RULES", func(c *engine.Context) *report.Rule { return ruleTVRules(c, false) })
	engine.Register("TV-IDENT", func(c *engine.Context) *report.Rule { return ruleTVRules(c, true) })
	engine.Register("TV-ACTIONS", ruleTVActions)
	engine.Register("TV-WF", ruleTVWF)
	engine.Register("TV-CATCHALL", ruleTVCatchAll)
	engine.Register("TV-ENGINE", ruleTVEngine)
	engine.Register("W-SPACE", ruleWSpace)
	engine.Register("W-CAPTURE", ruleWCapture)
}

// pegModel is the parsed grammar plus the decompiled generated parser.
type pegModel struct {
	src         *peg.Grammar // the published grammar
	gen         *peg.Generated
	run         *peg.Grammar // the grammar the generated parser actually runs (decompiled); falls back to src
	runOK       bool
	runProblems []string
	runFacts    *peg.Facts
	facts       *peg.Facts
	err         string
	pegPos      string
}

func pegOf(c *engine.Context) *pegModel {
	return c.Memo("peg", func() interface{} {
		m := &pegModel{}
		p := c.P
		// the grammar file: the single *.peg file next to the generated parser
		matches, _ := filepath.Glob(filepath.Join(p.Dir, "*.peg"))
		if len(matches) != 1 {
			m.err = fmt.Sprintf("expected exactly one *.peg grammar file in %s, found %d", p.Dir, len(matches))
			return m
		}
		m.pegPos = filepath.Base(matches[0])
		b, err := os.ReadFile(matches[0])
		if err != nil {
			m.err = err.Error()
			return m
		}
		g, err := peg.ParseSource(string(b))
		if err != nil {
			m.err = "cannot read the grammar: " + err.Error()
			return m
		}
		m.src = g
		m.gen = peg.Decompile(p.GenFile)
		m.facts = peg.NewFacts(g)
		rg, problems := m.gen.AsGrammar()
		if len(problems) == 0 && len(rg.Rules) > 0 {
			m.run, m.runOK = rg, true
		} else {
			m.run, m.runProblems = g, problems
		}
		m.runFacts = peg.NewFacts(m.run)
		return m
	}).(*pegModel)
}

// normalisedActions: the case clauses of the generated Execute in the normalised source, by
// action number.
func normalisedActions(c *engine.Context) map[int]*ast.CaseClause {
	return c.Memo("peg-normalised-actions", func() interface{} {
		out := map[int]*ast.CaseClause{}
		for _, f := range c.P.Files {
			if !c.P.GenFiles[f] || f == c.P.GenFile {
				continue
			}
			for _, d := range f.Decls {
				fd, ok := d.(*ast.FuncDecl)
				if !ok || fd.Name.Name != "Execute" || fd.Body == nil {
					continue
				}
				ast.Inspect(fd.Body, func(n ast.Node) bool {
					cc, ok := n.(*ast.CaseClause)
					if !ok || len(cc.List) != 1 {
						return true
					}
					if id, ok := cc.List[0].(*ast.Ident); ok && strings.HasPrefix(id.Name, "ruleAction") {
						if k, err := strconv.Atoi(strings.TrimPrefix(id.Name, "ruleAction")); err == nil {
							out[k] = cc
						}
					}
					return true
				})
			}
		}
		return out
	}).(map[int]*ast.CaseClause)
}

// ruleTVRules: TV-RULES.
func ruleTVRules(c *engine.Context, identOnly bool) *report.Rule {
	r := report.NewRule("TV-RULES", "every rule of the published grammar is implemented by the generated matcher (decompiled and compared rule by rule)", 40)
	if identOnly {
		r = report.NewRule("TV-IDENT", "the member-name rules of the published grammar (character classes, escape alternatives) are implemented by the generated matcher", 4)
	}
	m := pegOf(c)
	p := c.P
	if m.err != "" {
		r.InfraFail("%s", m.err)
		return r
	}
	var only map[string]bool
	if identOnly {
		only = identifierRules(c, m)
		if len(only) == 0 {
			r.InfraFail("anchor unresolved: grammar rules that construct member names")
			return r
		}
	}
	for _, e := range m.gen.Errors {
		r.Undischarged("generated parser structure", p.FileOf(p.GenFile.Pos()), "%s", e)
	}
	genFile := p.FileOf(p.GenFile.Pos())
	seenGen := map[string]bool{}
	for _, sr := range m.src.Rules {
		if only != nil && !only[sr.Name] {
			continue
		}
		r.Instances++
		ns := peg.Normalize(sr.E)
		construct := "grammar rule " + sr.Name
		pos := fmt.Sprintf("%s:%d", m.pegPos, sr.Line)
		seenGen[sr.Name] = true
		if gr := m.gen.Rules[sr.Name]; gr != nil {
			if gr.Err != "" {
				r.Oblige(false)
				r.Undischarged(construct+": generated code outside the generator's templates", p.RelPos(gr.Pos), "%s", gr.Err)
				continue
			}
			if gr.E == nil {
				r.Oblige(false)
				r.Undischarged(construct+": not decompiled", p.RelPos(gr.Pos), "rule function could not be decompiled")
				continue
			}
			ok, why := m.facts.Equivalent(ns, peg.Normalize(gr.E))
			r.Oblige(ok)
			r.Nontrivial++
			r.Sample("%s  ≡  %s", sr.Name+" <- "+ns.String(), "decompiled "+genFile)
			if !ok {
				r.Violation(construct+" differs from the generated parser", p.RelPos(gr.Pos), "the generated matcher does not implement the published rule: %s", why)
			}
			// inlined copies too
			for _, e := range m.gen.Inlined[sr.Name] {
				if ok2, why2 := m.facts.Equivalent(ns, peg.Normalize(e)); !ok2 {
					r.Violation(construct+" differs in an inlined copy", p.RelPos(gr.Pos), "an inlined copy of the rule differs from the published rule: %s", why2)
				}
			}
			continue
		}
		copies := m.gen.Inlined[sr.Name]
		if len(copies) == 0 {
			r.Oblige(false)
			r.Violation(construct+" missing from the generated parser", pos, "the rule exists in the grammar but neither as a function nor as an inlined copy in the generated parser")
			continue
		}
		if !m.gen.NilSlots[sr.Name] {
			r.Oblige(false)
			r.Undischarged(construct+": slot", pos, "rule has neither a function nor a nil slot")
			continue
		}
		allOK := true
		for _, e := range copies {
			if ok, why := m.facts.Equivalent(ns, peg.Normalize(e)); !ok {
				allOK = false
				r.Violation(construct+" differs from the generated parser", genFile, "an inlined copy of the rule in the generated matcher does not implement the published rule: %s", why)
				break
			}
		}
		r.Oblige(allOK)
		r.Nontrivial++
	}
	if identOnly {
		return r
	}
	// no extra rules in the generated parser; every called rule has a function
	for name := range m.gen.Rules {
		if m.src.ByName[name] == nil {
			r.Violation("generated rule "+name+" not in the grammar", genFile, "the generated parser has a rule function %s that the published grammar does not define", name)
		}
	}
	var refCheck func(e peg.Expr, in string)
	refCheck = func(e peg.Expr, in string) {
		switch x := e.(type) {
		case *peg.Seq:
			for _, y := range x.Items {
				refCheck(y, in)
			}
		case *peg.Choice:
			for _, y := range x.Alts {
				refCheck(y, in)
			}
		case *peg.Star:
			refCheck(x.E, in)
		case *peg.Opt:
			refCheck(x.E, in)
		case *peg.Not:
			refCheck(x.E, in)
		case *peg.And:
			refCheck(x.E, in)
		case *peg.Capture:
			refCheck(x.E, in)
		case *peg.Named:
			refCheck(x.E, in)
		case *peg.Ref:
			if m.gen.Rules[x.Name] == nil {
				r.Violation("call of rule "+x.Name+" without a function", genFile, "rule %s calls _rules[rule%s], whose slot is nil: a nil-function call would panic", in, x.Name)
			}
		}
	}
	for name, gr := range m.gen.Rules {
		if gr.E != nil {
			refCheck(gr.E, name)
		}
	}
	return r
}

func printStmts(fset *token.FileSet, stmts []ast.Stmt) string {
	var b bytes.Buffer
	cfg := printer.Config{Mode: printer.RawFormat}
	for _, s := range stmts {
		cfg.Fprint(&b, fset, s)
		b.WriteByte('\n')
	}
	// normalise whitespace
	return strings.Join(strings.Fields(b.String()), " ")
}

// ruleTVActions: TV-ACTIONS.
func ruleTVActions(c *engine.Context) *report.Rule {
	r := report.NewRule("TV-ACTIONS", "every action of the published grammar is the code the generated parser executes for it", 30)
	m := pegOf(c)
	p := c.P
	if m.err != "" {
		r.InfraFail("%s", m.err)
		return r
	}
	for _, a := range m.src.Actions {
		r.Instances++
		construct := fmt.Sprintf("action %d", a.Index)
		cc := m.gen.Actions[a.Index]
		if cc == nil {
			r.Oblige(false)
			r.Violation(construct+" missing from Execute", p.FileOf(p.GenFile.Pos()), "the generated Execute has no case for action %d of the grammar", a.Index)
			continue
		}
		fset := token.NewFileSet()
		f, err := parser.ParseFile(fset, "action.go", "package p\nfunc _() {\n"+a.Code+"\n}\n", 0)
		if err != nil {
			r.Oblige(false)
			r.Undischarged(construct+": grammar action does not parse", m.pegPos, "%v", err)
			continue
		}
		srcTxt := printStmts(fset, f.Decls[0].(*ast.FuncDecl).Body.List)
		genTxt := printStmts(p.Fset, cc.Body)
		ok := srcTxt == genTxt
		r.Oblige(ok)
		if a.Index < 3 {
			r.Sample("action %d: %s", a.Index, trunc(srcTxt, 120))
		}
		if !ok {
			r.Violation(construct+" differs between grammar and generated parser", p.RelPos(cc.Pos()),
				"grammar: %s | generated: %s", trunc(srcTxt, 200), trunc(genTxt, 200))
		}
	}
	for k := range m.gen.Actions {
		if k >= len(m.src.Actions) {
			r.Violation(fmt.Sprintf("generated action %d not in the grammar", k), p.FileOf(p.GenFile.Pos()), "Execute has a case for an action the grammar does not contain")
		}
	}
	return r
}

func trunc(s string, n int) string {
	if len(s) > n {
		return s[:n] + "…"
	}
	return s
}

// ruleTVWF: TV-WF.
func ruleTVWF(c *engine.Context) *report.Rule {
	r := report.NewRule("TV-WF", "the grammar is well-formed: no left recursion, no repetition of a nullable expression, no undefined rule (matching terminates)", 40)
	m := pegOf(c)
	if m.err != "" {
		r.InfraFail("%s", m.err)
		return r
	}
	requireRunning(r, m)
	r.Instances = len(m.run.Rules)
	errs := m.runFacts.WellFormed()
	if m.runOK {
		// the published grammar must be well-formed too
		errs = append(errs, m.facts.WellFormed()...)
		errs = uniqSorted(errs)
	}
	r.Obligations = len(m.run.Rules)
	r.Discharged = len(m.run.Rules) - len(errs)
	if r.Discharged < 0 {
		r.Discharged = 0
	}
	r.Sample("%d rules of the running (decompiled) grammar checked for left recursion and nullable repetition", len(m.run.Rules))
	for _, e := range errs {
		r.Violation("grammar well-formedness: "+e, m.pegPos, "%s: packrat matching may not terminate", e)
	}
	return r
}

// ruleTVCatchAll: TV-CATCHALL.
func ruleTVCatchAll(c *engine.Context) *report.Rule {
	r := report.NewRule("TV-CATCHALL", "the start rule is total: its last alternative matches every input and reports the rest after the longest path prefix", 1)
	m := pegOf(c)
	if m.err != "" {
		r.InfraFail("%s", m.err)
		return r
	}
	requireRunning(r, m)
	r.Instances = 1
	start := m.run.Rules[0]
	ok := false
	why := "the start rule is not a choice"
	if ch, isC := peg.Normalize(start.E).(*peg.Choice); isC && len(ch.Alts) >= 2 {
		last, isS := ch.Alts[len(ch.Alts)-1].(*peg.Seq)
		first, isF := ch.Alts[0].(*peg.Seq)
		why = "the last alternative is not `X? <.*> END action`"
		if isS && isF && len(last.Items) == 4 && len(first.Items) >= 2 {
			opt, o1 := last.Items[0].(*peg.Opt)
			cp, o2 := last.Items[1].(*peg.Capture)
			end, o3 := last.Items[2].(*peg.Ref)
			_, o4 := last.Items[3].(*peg.Action)
			if o1 && o2 && o3 && o4 {
				st, isStar := cp.E.(*peg.Star)
				_, isDot := interface{}(nil).(*peg.Dot)
				if isStar {
					_, isDot = st.E.(*peg.Dot)
				}
				endRule := m.run.ByName[end.Name]
				endOK := false
				if endRule != nil {
					if nt, isNot := peg.Normalize(endRule.E).(*peg.Not); isNot {
						_, endOK = nt.E.(*peg.Dot)
					}
				}
				sameX := false
				if x1, okx := opt.E.(*peg.Ref); okx {
					if x0, ok0 := first.Items[0].(*peg.Ref); ok0 && x0.Name == x1.Name {
						sameX = true
					}
				}
				switch {
				case !isStar || !isDot:
					why = "the captured rest is not `.*`"
				case !endOK:
					why = "the end rule is not `!.`"
				case !sameX:
					why = "the optional prefix of the catch-all is not the path rule of the first alternative"
				default:
					ok = true
				}
			}
		}
	}
	// the generated parse() starts at rule 1 = the first rule of the grammar
	if len(m.gen.RuleNames) < 2 || m.gen.RuleNames[1] != start.Name {
		ok = false
		why = "the generated parser's default start rule is not the grammar's first rule"
	}
	r.Oblige(ok)
	r.Sample("start rule %s: last alternative `path? <.*> END action` (total): %v", start.Name, ok)
	if !ok {
		r.Violation("start rule "+start.Name+" is not total", m.pegPos, "%s: the generated Parse() can then return an error that jsonpath.Parse ignores, and the reported position is no longer the end of the longest accepted prefix", why)
	}
	return r
}

// boilerplatePieces extracts the grammar-independent parts of the generated file.
func boilerplatePieces(c *engine.Context) map[string]string {
	p := c.P
	out := map[string]string{}
	pr := func(n ast.Node) string {
		var b bytes.Buffer
		printer.Fprint(&b, p.Fset, n)
		return strings.Join(strings.Fields(b.String()), " ")
	}
	for _, decl := range p.GenFile.Decls {
		switch d := decl.(type) {
		case *ast.FuncDecl:
			name := d.Name.Name
			if d.Recv != nil && len(d.Recv.List) == 1 {
				name = pr(d.Recv.List[0].Type) + "." + name
			}
			switch name {
			case "*pegJSONPathParser.Init", "*tokens32.Add", "*tokens32.Trim", "*tokens32.Tokens", "*pegJSONPathParser.Parse", "*pegJSONPathParser.Reset", "*pegJSONPathParser.Execute":
			default:
				if !(strings.HasSuffix(name, ".Init") || strings.HasSuffix(name, ".Execute") || strings.HasSuffix(name, ".Add") || strings.HasSuffix(name, ".Trim") || strings.HasSuffix(name, ".Tokens") || strings.HasSuffix(name, ".Parse") || strings.HasSuffix(name, ".Reset")) {
					continue
				}
			}
			short := name[strings.LastIndex(name, ".")+1:]
			// copy with rules / actions elided
			txt := pr(d.Body)
			if short == "Init" {
				// elide the _rules literal
				var lit *ast.CompositeLit
				ast.Inspect(d.Body, func(n ast.Node) bool {
					if as, ok := n.(*ast.AssignStmt); ok && len(as.Lhs) == 1 && pr(as.Lhs[0]) == "_rules" && as.Tok == token.ASSIGN {
						if cl, ok := as.Rhs[0].(*ast.CompositeLit); ok {
							lit = cl
						}
					}
					return true
				})
				if lit != nil {
					litTxt := pr(lit)
					txt = strings.Replace(txt, litTxt, "RULES", 1)
				}
			}
			if short == "Execute" {
				// elide action case bodies
				ast.Inspect(d.Body, func(n ast.Node) bool {
					cc, ok := n.(*ast.CaseClause)
					if ok && len(cc.List) == 1 && strings.HasPrefix(pr(cc.List[0]), "ruleAction") {
						full := pr(cc)
						txt = strings.Replace(txt, full, "case ACTION:", 1)
					}
					return true
				})
			}
			out[short] = txt
		case *ast.GenDecl:
			if d.Tok == token.CONST {
				for _, sp := range d.Specs {
					vs := sp.(*ast.ValueSpec)
					if len(vs.Names) == 1 && vs.Names[0].Name == "endSymbol" {
						out["endSymbol"] = pr(vs)
					}
				}
			}
		}
	}
	return out
}

// expectedBoilerplate: SHA-256 of the normalised text of each grammar-independent piece of a
// parser generated by `peg -inline -switch` (recorded from the pinned tree; DESIGN.md TV-ENGINE:
// the one deliberate shape comparison — the file is generated and carries DO NOT EDIT).
var expectedBoilerplate = map[string]string{
	"Add":       "bbb99cf2a3428fd0",
	"Execute":   "037d1bfa5aaaf7fc",
	"Init":      "6bc08b8a083ef440",
	"Parse":     "3513e6600f6ecce6",
	"Reset":     "bac8136324d2145b",
	"Tokens":    "afc0f86a9a283ff8",
	"Trim":      "cd3d5ec9f819269b",
	"endSymbol": "11e0e1addcc94989",
}

func hashText(s string) string {
	h := sha256.Sum256([]byte(s))
	return fmt.Sprintf("%x", h[:8])
}

// ruleTVEngine: TV-ENGINE.
func ruleTVEngine(c *engine.Context) *report.Rule {
	r := report.NewRule("TV-ENGINE", "the grammar-independent engine of the generated parser (reset, parse, add, memoize, matchDot, Execute loop, token tree) is the generator's unmodified boilerplate", 6)
	pieces := boilerplatePieces(c)
	var names []string
	for k := range pieces {
		names = append(names, k)
	}
	sort.Strings(names)
	if os.Getenv("VERIF_RECORD_BOILERPLATE") != "" {
		for _, k := range names {
			fmt.Printf("\t%q: %q,\n", k, hashText(pieces[k]))
		}
	}
	for k, want := range expectedBoilerplate {
		r.Instances++
		got, ok := pieces[k]
		if !ok {
			r.Oblige(false)
			r.Undischarged("generated engine piece "+k+" missing", c.P.FileOf(c.P.GenFile.Pos()), "the generated parser lacks %s", k)
			continue
		}
		same := hashText(got) == want
		r.Oblige(same)
		if !same {
			r.Undischarged("generated engine piece "+k+" differs from the generator's boilerplate", c.P.FileOf(c.P.GenFile.Pos()),
				"the grammar-independent part %s of the generated parser was changed by hand (it decides memoisation, token discarding in predicates, the end-symbol sentinel and the order actions run in); it cannot be validated against the grammar", k)
		}
	}
	r.Sample("pieces compared: %s", strings.Join(names, ", "))
	return r
}

// ---------- W-SPACE ----------

type tokPolicy struct {
	tok           string
	before, after bool
	what          string
}

var spacePolicy = []tokPolicy{
	{"[", false, true, "after `[`"},
	{"]", true, false, "before `]`"},
	{",", true, true, "around `,`"},
	{":", true, true, "around `:`"},
	{"==", true, true, "around `==`"},
	{"!=", true, true, "around `!=`"},
	{"<=", true, true, "around `<=`"},
	{"<", true, true, "around `<`"},
	{">=", true, true, "around `>=`"},
	{">", true, true, "around `>`"},
	{"=~", true, true, "around `=~`"},
	{"||", true, true, "around `||`"},
	{"&&", true, true, "around `&&`"},
	{"!", false, true, "after `!`"},
	{"?(", false, true, "after `?(`"},
	{"(", false, true, "after `(`"},
	{")", true, false, "before `)`"},
}

func singleRune(e peg.Expr) (rune, bool) {
	cs, ok := e.(*peg.CharSet)
	if !ok || len(cs.Set) != 1 || cs.Set[0].Lo != cs.Set[0].Hi {
		return 0, false
	}
	return cs.Set[0].Lo, true
}

func ruleWSpace(c *engine.Context) *report.Rule {
	r := report.NewRule("W-SPACE", "optional blanks are accepted on the stated side(s) of every bracket, separator, comparison and logical token, and around a whole path", 20)
	m := pegOf(c)
	if m.err != "" {
		r.InfraFail("%s", m.err)
		return r
	}
	requireRunning(r, m)
	// the space rule: body is ' '*
	spaceName := ""
	for _, sr := range m.run.Rules {
		if st, ok := peg.Normalize(sr.E).(*peg.Star); ok {
			if ru, ok := singleRune(st.E); ok && ru == ' ' {
				spaceName = sr.Name
			}
		}
	}
	if spaceName == "" {
		r.InfraFail("anchor unresolved: the rule matching optional blanks (' '*)")
		return r
	}
	isSpace := func(e peg.Expr) bool {
		ref, ok := e.(*peg.Ref)
		return ok && ref.Name == spaceName
	}
	// startsWithSpace / endsWithSpace through references (a path operand begins with blanks itself)
	var startsSp, endsSp func(e peg.Expr, depth int) bool
	startsSp = func(e peg.Expr, depth int) bool {
		if depth > 6 {
			return false
		}
		switch x := e.(type) {
		case *peg.Ref:
			if x.Name == spaceName {
				return true
			}
			if rr := m.run.ByName[x.Name]; rr != nil {
				return startsSp(peg.Normalize(rr.E), depth+1)
			}
		case *peg.Seq:
			for _, it := range x.Items {
				if _, isA := it.(*peg.Action); isA {
					continue
				}
				return startsSp(it, depth+1)
			}
		case *peg.Choice:
			for _, a := range x.Alts {
				if !startsSp(a, depth+1) {
					return false
				}
			}
			return true
		case *peg.Capture:
			return startsSp(x.E, depth+1)
		}
		return false
	}
	endsSp = func(e peg.Expr, depth int) bool {
		if depth > 6 {
			return false
		}
		switch x := e.(type) {
		case *peg.Ref:
			if x.Name == spaceName {
				return true
			}
			if rr := m.run.ByName[x.Name]; rr != nil {
				return endsSp(peg.Normalize(rr.E), depth+1)
			}
		case *peg.Seq:
			for i := len(x.Items) - 1; i >= 0; i-- {
				if _, isA := x.Items[i].(*peg.Action); isA {
					continue
				}
				return endsSp(x.Items[i], depth+1)
			}
		case *peg.Choice:
			for _, a := range x.Alts {
				if !endsSp(a, depth+1) {
					return false
				}
			}
			return true
		case *peg.Capture:
			return endsSp(x.E, depth+1)
		}
		return false
	}
	type occ struct {
		rule          string
		tok           string
		before, after bool
	}
	var occs []occ
	var walk func(rule string, e peg.Expr, before, after bool)
	walk = func(rule string, e peg.Expr, before, after bool) {
		switch x := e.(type) {
		case *peg.Seq:
			// effective items without actions
			var items []peg.Expr
			for _, it := range x.Items {
				if _, isA := it.(*peg.Action); !isA {
					items = append(items, it)
				}
			}
			for i := 0; i < len(items); i++ {
				b := before
				if i > 0 {
					b = isSpace(items[i-1]) || endsSp(items[i-1], 0)
				}
				// token: maximal run of single-rune literals starting here
				if ru, ok := singleRune(items[i]); ok {
					tok := string(ru)
					j := i
					for j+1 < len(items) {
						r2, ok2 := singleRune(items[j+1])
						if !ok2 {
							break
						}
						tok += string(r2)
						j++
					}
					a := after
					if j+1 < len(items) {
						a = isSpace(items[j+1]) || startsSp(items[j+1], 0)
					}
					occs = append(occs, occ{rule, tok, b, a})
					i = j
					continue
				}
				a := after
				if i+1 < len(items) {
					a = isSpace(items[i+1]) || startsSp(items[i+1], 0)
				}
				walk(rule, items[i], b, a)
			}
		case *peg.Choice:
			for _, alt := range x.Alts {
				walk(rule, alt, before, after)
			}
		case *peg.Capture:
			walk(rule, x.E, before, after)
		case *peg.Star:
			walk(rule, x.E, false, false)
		case *peg.Opt:
			walk(rule, x.E, before, after)
		case *peg.Not, *peg.And:
			// predicates consume nothing; tokens inside them are lookahead only
		case *peg.CharSet:
			if ru, ok := singleRune(x); ok {
				occs = append(occs, occ{rule, string(ru), before, after})
			}
		}
	}
	for _, sr := range m.run.Rules {
		walk(sr.Name, peg.Normalize(sr.E), false, false)
	}
	for _, pol := range spacePolicy {
		found := 0
		for _, o := range occs {
			if o.tok != pol.tok {
				continue
			}
			found++
			r.Instances++
			ok := (!pol.before || o.before) && (!pol.after || o.after)
			r.Oblige(ok)
			if !ok {
				side := ""
				if pol.before && !o.before {
					side = "before"
				}
				if pol.after && !o.after {
					if side != "" {
						side += " and "
					}
					side += "after"
				}
				r.Violation(fmt.Sprintf("blanks %s in rule %s", pol.what, o.rule), m.pegPos,
					"the grammar does not accept optional blanks %s the token `%s` in rule %s: spellings that differ only in insignificant spaces are no longer equivalent", side, pol.tok, o.rule)
			}
		}
		if found == 0 {
			r.Oblige(false)
			r.Undischarged("token `"+pol.tok+"` not found in the grammar", m.pegPos, "the whitespace policy entry %s has no occurrence in the grammar", pol.what)
		} else {
			r.Sample("`%s`: %d occurrence(s), blanks accepted %s", pol.tok, found, pol.what)
		}
	}
	// separated lists: `E (S E)* !X` — the closing lookahead decides whether the list alternative is
	// committed; it must look for the separator exactly as the list itself does (blanks included)
	var lists func(rule string, e peg.Expr)
	lists = func(rule string, e peg.Expr) {
		switch x := e.(type) {
		case *peg.Seq:
			var items []peg.Expr
			for _, it := range x.Items {
				if _, isA := it.(*peg.Action); !isA {
					items = append(items, it)
				}
			}
			for i := 0; i+1 < len(items); i++ {
				st, ok1 := items[i].(*peg.Star)
				nt, ok2 := items[i+1].(*peg.Not)
				if !ok1 || !ok2 {
					continue
				}
				in, ok := peg.Normalize(st.E).(*peg.Seq)
				if !ok || len(in.Items) < 2 {
					continue
				}
				sepE := in.Items[0]
				if !(isSpace(sepE) || startsSp(sepE, 0)) {
					continue
				}
				r.Instances++
				same := peg.Normalize(nt.E).String() == peg.Normalize(sepE).String()
				r.Oblige(same)
				r.Sample("rule %s: list separated by %s closes with !%s: %v", rule, sepE.String(), nt.E.String(), same)
				if !same {
					r.Violation(fmt.Sprintf("closing lookahead of the separated list in rule %s", rule), m.pegPos,
						"the list in rule %s is separated by %s (blanks allowed before the separator) but its closing lookahead is !%s: with a blank before the separator the lookahead does not see it, the list alternative commits early and spellings that differ only in insignificant spaces are no longer equivalent", rule, sepE.String(), nt.E.String())
				}
			}
			for _, it := range x.Items {
				lists(rule, it)
			}
		case *peg.Choice:
			for _, a := range x.Alts {
				lists(rule, a)
			}
		case *peg.Capture:
			lists(rule, x.E)
		case *peg.Star:
			lists(rule, x.E)
		case *peg.Opt:
			lists(rule, x.E)
		}
	}
	for _, sr := range m.run.Rules {
		lists(sr.Name, peg.Normalize(sr.E))
	}
	// around a whole path: every rule of the shape `space X continued` — the path rules — starts with blanks and ends with blanks
	paths := 0
	for _, sr := range m.run.Rules {
		seq, ok := peg.Normalize(sr.E).(*peg.Seq)
		if !ok || len(seq.Items) < 3 {
			continue
		}
		last, isRef := seq.Items[len(seq.Items)-1].(*peg.Ref)
		if !isRef {
			continue
		}
		lr := m.run.ByName[last.Name]
		if lr == nil || !strings.Contains(strings.ToLower(sr.Name), "path") {
			continue
		}
		paths++
		r.Instances++
		ok2 := isSpace(seq.Items[0]) && endsSp(peg.Normalize(lr.E), 0)
		r.Oblige(ok2)
		r.Sample("path rule %s accepts leading and trailing blanks: %v", sr.Name, ok2)
		if !ok2 {
			r.Violation("blanks around a path in rule "+sr.Name, m.pegPos, "rule %s does not accept optional blanks before its first step and after its last step", sr.Name)
		}
	}
	if paths == 0 {
		r.Undischarged("path rules", m.pegPos, "no path rule of the shape `space first-step continuation` found")
	}
	return r
}

// ruleWCapture: W-CAPTURE.
func ruleWCapture(c *engine.Context) *report.Rule {
	r := report.NewRule("W-CAPTURE", "captures whose text becomes a number, name, function name or regular expression cannot contain optional blanks", 5)
	m := pegOf(c)
	if m.err != "" {
		r.InfraFail("%s", m.err)
		return r
	}
	requireRunning(r, m)
	spaceName := ""
	for _, sr := range m.run.Rules {
		if st, ok := peg.Normalize(sr.E).(*peg.Star); ok {
			if ru, ok := singleRune(st.E); ok && ru == ' ' {
				spaceName = sr.Name
			}
		}
	}
	var hasSpace func(e peg.Expr, seen map[string]bool) bool
	hasSpace = func(e peg.Expr, seen map[string]bool) bool {
		switch x := e.(type) {
		case *peg.Ref:
			if x.Name == spaceName {
				return true
			}
			if seen[x.Name] {
				return false
			}
			seen[x.Name] = true
			if rr := m.run.ByName[x.Name]; rr != nil {
				return hasSpace(rr.E, seen)
			}
		case *peg.Seq:
			for _, it := range x.Items {
				if hasSpace(it, seen) {
					return true
				}
			}
		case *peg.Choice:
			for _, a := range x.Alts {
				if hasSpace(a, seen) {
					return true
				}
			}
		case *peg.Star:
			return hasSpace(x.E, seen)
		case *peg.Plus:
			return hasSpace(x.E, seen)
		case *peg.Opt:
			return hasSpace(x.E, seen)
		case *peg.Capture:
			return hasSpace(x.E, seen)
		}
		return false
	}
	// semantic use: the captured text (or a copy or substring of it) passed as an argument to a
	// call in the action that follows the capture, unless the callee only records it for display
	// (set…Text, the function node's text, the syntax-error constructor). The action is read
	// from the normalised Execute (TV-ACTIONS ties it to the grammar), where helpers the tree
	// did not have are expanded: what such a helper does with the text is judged, not its name.
	normActs := normalisedActions(c)
	semanticBody := func(body []ast.Stmt) (bool, string) {
		taint := map[string]bool{"text": true}
		var isText func(e ast.Expr) bool
		isText = func(e ast.Expr) bool {
			switch x := e.(type) {
			case *ast.Ident:
				return taint[x.Name]
			case *ast.ParenExpr:
				return isText(x.X)
			case *ast.SliceExpr:
				// a constant one-character prefix/suffix probe is not the text
				if lit, ok := x.High.(*ast.BasicLit); ok && x.Low != nil {
					if lo, ok := x.Low.(*ast.BasicLit); ok && lo.Value == "0" && lit.Value == "1" {
						return false
					}
				}
				return isText(x.X)
			}
			return false
		}
		for changed := true; changed; {
			changed = false
			for _, st := range body {
				ast.Inspect(st, func(n ast.Node) bool {
					switch x := n.(type) {
					case *ast.AssignStmt:
						if len(x.Lhs) == len(x.Rhs) {
							for i, rhs := range x.Rhs {
								if id, ok := x.Lhs[i].(*ast.Ident); ok && id.Name != "_" && isText(rhs) && !taint[id.Name] {
									taint[id.Name] = true
									changed = true
								}
							}
						}
					case *ast.ValueSpec:
						if len(x.Names) == len(x.Values) {
							for i, rhs := range x.Values {
								if x.Names[i].Name != "_" && isText(rhs) && !taint[x.Names[i].Name] {
									taint[x.Names[i].Name] = true
									changed = true
								}
							}
						}
					}
					return true
				})
			}
		}
		sem, callee := false, ""
		for _, st := range body {
			ast.Inspect(st, func(n ast.Node) bool {
				call, ok := n.(*ast.CallExpr)
				if !ok {
					return true
				}
				for i, a := range call.Args {
					if isText(a) {
						name := nodeStr(call.Fun)
						display := strings.Contains(name, "setLastNodeText") || (strings.Contains(name, "pushFunction") && i == 0) || strings.Contains(name, "pushScriptQualifier")
						if name == "len" || name == "string" {
							display = true
						}
						if !display {
							sem, callee = true, name
						}
					}
				}
				return true
			})
		}
		return sem, callee
	}
	semantic := func(a *peg.Action) (bool, string) {
		if cc := normActs[a.Index]; cc != nil {
			return semanticBody(cc.Body)
		}
		fset := token.NewFileSet()
		f, err := parser.ParseFile(fset, "a.go", "package p\nfunc _() {\n"+a.Code+"\n}\n", 0)
		if err != nil {
			return true, "unparsable action"
		}
		return semanticBody(f.Decls[0].(*ast.FuncDecl).Body.List)
	}
	var walk func(rule string, e peg.Expr)
	walk = func(rule string, e peg.Expr) {
		switch x := e.(type) {
		case *peg.Seq:
			for i, it := range x.Items {
				if cp, ok := it.(*peg.Capture); ok {
					// the next action in this sequence
					for j := i + 1; j < len(x.Items); j++ {
						if a, ok := x.Items[j].(*peg.Action); ok {
							if sem, callee := semantic(a); sem {
								r.Instances++
								bad := hasSpace(cp.E, map[string]bool{})
								r.Oblige(!bad)
								r.Sample("rule %s: capture feeding %s contains no optional blanks: %v", rule, callee, !bad)
								if bad {
									r.Violation(fmt.Sprintf("capture in rule %s feeding %s", rule, callee), m.pegPos,
										"the captured text is converted by %s but the capture can contain optional blanks: `[ 1 ]`-style spellings would change or break the value", callee)
								}
							}
							break
						}
					}
				}
				walk(rule, it)
			}
		case *peg.Choice:
			for _, a := range x.Alts {
				walk(rule, a)
			}
		case *peg.Star:
			walk(rule, x.E)
		case *peg.Plus:
			walk(rule, x.E)
		case *peg.Opt:
			walk(rule, x.E)
		case *peg.Capture:
			walk(rule, x.E)
		}
	}
	for _, sr := range m.run.Rules {
		walk(sr.Name, sr.E)
	}
	return r
}

func nodeStr(n ast.Node) string {
	var b bytes.Buffer
	printer.Fprint(&b, token.NewFileSet(), n)
	return b.String()
}

// identifierRules: rules whose actions build single member names, and the rules they reference.
func identifierRules(c *engine.Context, m *pegModel) map[string]bool {
	p := c.P
	// the constructor: hand-written parser function that stores its string parameter into a node's string field used as lookup key
	ctors := map[*ssa.Function]bool{}
	for _, fn := range parseFuncs(c, true) {
		for _, b := range fn.Blocks {
			for _, ins := range b.Instrs {
				st, ok := ins.(*ssa.Store)
				if !ok {
					continue
				}
				fa, ok := st.Addr.(*ssa.FieldAddr)
				if !ok {
					continue
				}
				pt, ok := fa.X.Type().Underlying().(*types.Pointer)
				if !ok || !p.Roles.IsNodeType(pt.Elem()) {
					continue
				}
				if _, isParam := st.Val.(*ssa.Parameter); isParam && isStringT(st.Val.Type()) {
					if nt, ok := pt.Elem().(*types.Named); ok && nt != p.Roles.BasicNode {
						ctors[fn] = true
					}
				}
			}
		}
	}
	blocks, _ := actionBlocksOf(c)
	acts := map[int]bool{}
	for k, bs := range blocks {
		for _, b := range bs {
			for _, ins := range b.Instrs {
				if call, ok := ins.(*ssa.Call); ok && call.Call.StaticCallee() != nil && ctors[call.Call.StaticCallee()] {
					acts[k] = true
				}
			}
		}
	}
	out := map[string]bool{}
	var hasAct func(e peg.Expr) bool
	hasAct = func(e peg.Expr) bool {
		found := false
		walkExpr(e, func(x peg.Expr) {
			if a, ok := x.(*peg.Action); ok && acts[a.Index] {
				found = true
			}
		})
		return found
	}
	var addRefs func(name string)
	addRefs = func(name string) {
		if out[name] {
			return
		}
		out[name] = true
		if rr := m.src.ByName[name]; rr != nil {
			walkExpr(rr.E, func(x peg.Expr) {
				if ref, ok := x.(*peg.Ref); ok {
					addRefs(ref.Name)
				}
			})
		}
	}
	for _, sr := range m.src.Rules {
		if hasAct(sr.E) {
			addRefs(sr.Name)
		}
	}
	return out
}

func walkExpr(e peg.Expr, f func(peg.Expr)) {
	f(e)
	switch x := e.(type) {
	case *peg.Seq:
		for _, it := range x.Items {
			walkExpr(it, f)
		}
	case *peg.Choice:
		for _, a := range x.Alts {
			walkExpr(a, f)
		}
	case *peg.Star:
		walkExpr(x.E, f)
	case *peg.Plus:
		walkExpr(x.E, f)
	case *peg.Opt:
		walkExpr(x.E, f)
	case *peg.Not:
		walkExpr(x.E, f)
	case *peg.And:
		walkExpr(x.E, f)
	case *peg.Capture:
		walkExpr(x.E, f)
	case *peg.Named:
		walkExpr(x.E, f)
	}
}

// requireRunning reports when the running grammar could not be reconstructed from the generated code.
func requireRunning(r *report.Rule, m *pegModel) {
	if !m.runOK {
		r.Undischarged("running grammar not reconstructed", m.pegPos, "the grammar the generated parser runs could not be reconstructed (%s); the rule was evaluated on the published grammar instead, which is only meaningful if translation validation (TV-RULES) passes", strings.Join(m.runProblems, "; "))
	}
}
