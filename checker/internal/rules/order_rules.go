package rules

import (
	"fmt"
	"go/token"
	"go/types"
	"strings"

	"golang.org/x/tools/go/ssa"

	"verif/checker/internal/cfgutil"
	"verif/checker/internal/engine"
	"verif/checker/internal/load"
	"verif/checker/internal/regions"
	"verif/checker/internal/report"
)

func init() {
	engine.Register("O-MAPRANGE", ruleMapRange)
	engine.Register("O-KEYSOURCE", ruleKeySource)
	engine.Register("O-POOL", rulePool)
	engine.Register("O-LIFO", ruleLifo)
	engine.Register("O-SEQ", ruleSeq)
}

// evalFuncs: package functions reachable during evaluation (engine call graph), with bodies.
func evalFuncs(c *engine.Context) []*ssa.Function {
	a := regionsOf(c)
	var out []*ssa.Function
	for _, f := range load.SortedFuncs(a.EvalReach) {
		if c.P.InPkg(f) && f.Blocks != nil && f.Synthetic == "" {
			out = append(out, f)
		}
	}
	return out
}

// byteWiseSort reports whether the call sorts a string slice in ascending byte-wise order.
func byteWiseSort(call *ssa.Call) (arg ssa.Value, ok bool) {
	sc := call.Call.StaticCallee()
	if sc == nil {
		return nil, false
	}
	switch sc.String() {
	case "(sort.StringSlice).Sort", "(*sort.StringSlice).Sort", "sort.Strings":
		return call.Call.Args[0], true
	case "sort.Sort", "sort.Stable":
		// only with a sort.StringSlice dynamic type
		if mi, isMI := call.Call.Args[0].(*ssa.MakeInterface); isMI {
			if nt, isN := mi.X.Type().(*types.Named); isN && nt.Obj().Pkg() != nil && nt.Obj().Pkg().Path() == "sort" && nt.Obj().Name() == "StringSlice" {
				return mi.X, true
			}
		}
	}
	if strings.HasPrefix(sc.String(), "slices.Sort[") && strings.Contains(sc.String(), "string") && !strings.Contains(sc.String(), "Func") {
		return call.Call.Args[0], true
	}
	return nil, false
}

// cellOf: if v is (a conversion/slice of) a load from pointer cell c, returns c.
func cellOf(v ssa.Value) ssa.Value {
	for i := 0; i < 6; i++ {
		switch x := v.(type) {
		case *ssa.UnOp:
			if x.Op == token.MUL {
				return x.X
			}
			return nil
		case *ssa.ChangeType:
			v = x.X
		case *ssa.Convert:
			v = x.X
		case *ssa.Slice:
			v = x.X
		case *ssa.MakeInterface:
			v = x.X
		default:
			return nil
		}
	}
	return nil
}

type keyAccessor struct {
	fn   *ssa.Function
	rng  *ssa.Range
	cell ssa.Value
}

// ruleMapRange: O-MAPRANGE (+ O-POOL(d)).
func ruleMapRange(c *engine.Context) *report.Rule {
	r := report.NewRule("O-MAPRANGE", "map iteration during evaluation only collects keys that are byte-wise sorted before any use", 1)
	p := c.P
	for _, fn := range evalFuncs(c) {
		loops := cfgutil.Loops(fn)
		for _, b := range fn.Blocks {
			for _, ins := range b.Instrs {
				rg, ok := ins.(*ssa.Range)
				if !ok {
					continue
				}
				if _, isMap := rg.X.Type().Underlying().(*types.Map); !isMap {
					continue
				}
				r.Instances++
				construct := "map range in " + load.FuncName(fn)
				pos := p.RelPos(rg.Pos())
				// locate the loop
				var loop *cfgutil.Loop
				var next *ssa.Next
				for _, l := range loops {
					ind := cfgutil.Classify(l)
					if ind.Range == rg {
						loop = l
						for _, x := range l.Header.Instrs {
							if n, ok := x.(*ssa.Next); ok {
								next = n
							}
						}
					}
				}
				if loop == nil || next == nil {
					r.Oblige(false)
					r.Undischarged(construct, pos, "map range whose loop shape is not recognised")
					continue
				}
				// order-neutral form: the body only copies entries into another map under the same key
				// (writes under distinct keys commute; nothing else happens in the loop)
				copyForm, updates := true, 0
				for blk := range loop.Blocks {
					for _, x := range blk.Instrs {
						switch y := x.(type) {
						case *ssa.MapUpdate:
							k, isK := y.Key.(*ssa.Extract)
							v, isV := y.Value.(*ssa.Extract)
							if !isK || !isV || k.Tuple != ssa.Value(next) || k.Index != 1 || v.Tuple != ssa.Value(next) || v.Index != 2 || y.Map == rg.X || loop.Blocks[blockOf(y.Map)] {
								copyForm = false
							}
							updates++
						case *ssa.Call, *ssa.Defer, *ssa.Go, *ssa.Send, *ssa.Panic, *ssa.Store:
							copyForm = false
						}
					}
				}
				if copyForm && updates > 0 {
					r.Oblige(true)
					r.Sample("%s: range over %s only copies entries into another map under the same key (order-neutral)", load.FuncName(fn), rg.X.Name())
					continue
				}
				// body: only stores of the key into elements of one slice held in cell C
				var cell ssa.Value
				var idxPhi *ssa.Phi
				valueForm := false
				bodyOK := true
				why := ""
				for blk := range loop.Blocks {
					for _, x := range blk.Instrs {
						switch y := x.(type) {
						case *ssa.Call, *ssa.Defer, *ssa.Go, *ssa.MapUpdate, *ssa.Send, *ssa.Panic:
							if cl, isCall := y.(*ssa.Call); isCall {
								if bi, isB := cl.Call.Value.(*ssa.Builtin); isB && (bi.Name() == "len" || bi.Name() == "cap") {
									continue
								}
							}
							bodyOK = false
							why = "the loop body does more than collecting keys: " + x.String()
						case *ssa.Store:
							ia, isIA := y.Addr.(*ssa.IndexAddr)
							if !isIA {
								bodyOK = false
								why = "store to something other than a slice element: " + x.String()
								continue
							}
							cl := cellOf(ia.X)
							if cl == nil {
								// a local slice value filled in place (defined before the loop)
								if bx := blockOf(ia.X); bx != nil && !loop.Blocks[bx] {
									cl = ia.X
									valueForm = true
								}
							}
							if cl == nil {
								bodyOK = false
								why = "key stored into a slice that is neither held in a cell nor a local slice defined before the loop"
								continue
							}
							if cell != nil && cell != cl {
								bodyOK = false
								why = "keys stored into two different slices"
							}
							cell = cl
							// stored value must be the key
							ex, isEx := y.Val.(*ssa.Extract)
							if !isEx || ex.Tuple != ssa.Value(next) || ex.Index != 1 {
								bodyOK = false
								why = "stored value is not the map key"
							}
							if ph, isPhi := ia.Index.(*ssa.Phi); isPhi {
								idxPhi = ph
							} else {
								bodyOK = false
								why = "store index is not a simple counter"
							}
						}
					}
				}
				// the value component of the range must be unused
				for _, ref := range *next.Referrers() {
					if ex, ok := ref.(*ssa.Extract); ok && ex.Index == 2 && len(*ex.Referrers()) > 0 {
						bodyOK = false
						why = "the map value is used inside the iteration"
					}
				}
				if cell == nil && bodyOK {
					bodyOK = false
					why = "the loop does not collect the keys"
				}
				if !bodyOK {
					r.Oblige(false)
					r.Violation(construct, pos, "iteration over a map in randomised order can influence the result: %s", why)
					continue
				}
				// counter: phi(0, phi+1), incremented once per iteration (O-POOL(d))
				counterOK := false
				if idxPhi != nil && idxPhi.Block() == loop.Header && len(idxPhi.Edges) == 2 {
					var z, inc bool
					for i, e := range idxPhi.Edges {
						if !loop.Blocks[loop.Header.Preds[i]] {
							if cv, ok := cfgutil.ConstInt(e); ok && cv == 0 {
								z = true
							}
						} else if bo, ok := e.(*ssa.BinOp); ok && bo.Op == token.ADD && bo.X == ssa.Value(idxPhi) {
							if cv, ok := cfgutil.ConstInt(bo.Y); ok && cv == 1 {
								inc = true
							}
						}
					}
					counterOK = z && inc
				}
				r.Oblige(counterOK)
				if !counterOK {
					r.Violation(construct+": key counter", pos, "keys are not stored at consecutive indices 0,1,2,…: stale keys of a recycled buffer could remain")
				}
				// the slice in the cell was resliced to len(map) before the loop
				resliceOK := false
				if valueForm {
					if sl, ok := cell.(*ssa.Slice); ok && sl.Low == nil && sl.High != nil {
						if m, ok := lenArg(sl.High); ok && m == rg.X {
							resliceOK = true
						}
					}
				}
				for _, blk := range fn.Blocks {
					for _, x := range blk.Instrs {
						st, ok := x.(*ssa.Store)
						if !ok || st.Addr != cell {
							continue
						}
						if sl, ok := st.Val.(*ssa.Slice); ok && sl.Low == nil && sl.High != nil {
							if m, ok := lenArg(sl.High); ok && m == rg.X && blk.Dominates(rg.Block()) {
								resliceOK = true
							}
						}
					}
				}
				r.Oblige(resliceOK)
				if !resliceOK {
					r.Violation(construct+": slice length", pos, "the key slice is not resliced to len(map) before the keys are collected: its length may include stale keys of a recycled buffer or be too short")
				}
				// after the loop: every path to a return sorts (byte-wise) or passes the false edge of len(map) > 1
				var exitBlk *ssa.BasicBlock
				for _, e := range loop.Exits {
					exitBlk = e.To
				}
				ok2, reason := sortedOnAllPaths(fn, exitBlk, cell, rg.X)
				r.Oblige(ok2)
				r.Nontrivial++
				r.Sample("%s: keys of %s collected into a cell, counter ok=%v, resliced to len(map)=%v, byte-wise sort on every path to return=%v", load.FuncName(fn), rg.X.Name(), counterOK, resliceOK, ok2)
				if !ok2 {
					r.Violation(construct+": sort", pos, "the collected keys can reach the caller without an ascending byte-wise sort: %s", reason)
				}
				if valueForm {
					// the sorted local must be what the function hands out: stored into the returned cell
					handed := false
					for _, blk := range fn.Blocks {
						for _, x := range blk.Instrs {
							if st, ok := x.(*ssa.Store); ok && st.Val == cell {
								for _, b2 := range fn.Blocks {
									if ret, ok := b2.Instrs[len(b2.Instrs)-1].(*ssa.Return); ok {
										for _, rv := range ret.Results {
											if rv == st.Addr {
												handed = true
												cell = st.Addr
											}
										}
									}
								}
							}
						}
					}
					r.Oblige(handed)
					if !handed {
						r.Violation(construct+": hand-out", pos, "the sorted local key slice is not the one stored into the returned buffer")
					}
				}
				c.Memo("keyaccessor:"+load.FuncName(fn), func() interface{} { return &keyAccessor{fn: fn, rng: rg, cell: cell} })
			}
		}
	}
	return r
}

func lenArg(v ssa.Value) (ssa.Value, bool) {
	cl, ok := v.(*ssa.Call)
	if !ok {
		return nil, false
	}
	if bi, ok := cl.Call.Value.(*ssa.Builtin); ok && bi.Name() == "len" {
		return cl.Call.Args[0], true
	}
	return nil, false
}

// sortedOnAllPaths: from block start, every path to a Return passes a byte-wise
// sort of the slice held in cell, or the false edge of a guard len(m) > 1.
func sortedOnAllPaths(fn *ssa.Function, start *ssa.BasicBlock, cell ssa.Value, m ssa.Value) (bool, string) {
	if start == nil {
		return false, "loop exit not found"
	}
	seen := map[*ssa.BasicBlock]bool{}
	var bad string
	var visit func(b *ssa.BasicBlock) bool
	visit = func(b *ssa.BasicBlock) bool {
		if seen[b] {
			return true
		}
		seen[b] = true
		for _, ins := range b.Instrs {
			switch x := ins.(type) {
			case *ssa.Call:
				if arg, ok := byteWiseSort(x); ok {
					if cellOf(arg) == cell || arg == cell {
						return true // sorted on this path
					}
				}
				if sc := x.Call.StaticCallee(); sc != nil && strings.HasPrefix(sc.String(), "sort.") || (sc != nil && strings.Contains(sc.String(), "sort.")) {
					bad = "the keys are ordered by " + sc.String() + ", which is not the ascending byte-wise string sort"
					return false
				}
			case *ssa.Return:
				if bad == "" {
					bad = "a path from the end of the key collection to the return applies no sort"
				}
				return false
			}
		}
		if ifi, ok := b.Instrs[len(b.Instrs)-1].(*ssa.If); ok {
			switch trivialLenEdge(ifi.Cond, m) {
			case -1:
				// false edge: at most one key, trivially sorted
				return visit(b.Succs[0])
			case 1:
				return visit(b.Succs[1])
			}
		}
		for _, s := range b.Succs {
			if !visit(s) {
				return false
			}
		}
		return true
	}
	ok := visit(start)
	return ok, bad
}

// trivialLenEdge: cond compares len(m) with a constant; +1 when the true edge implies at most one
// key (trivially sorted), -1 when the false edge does, 0 otherwise.
func trivialLenEdge(cond ssa.Value, m ssa.Value) int {
	bo, ok := cond.(*ssa.BinOp)
	if !ok {
		return 0
	}
	isLen := func(v ssa.Value) bool {
		x, ok := lenArg(v)
		return ok && x == m
	}
	op, x, y := bo.Op, bo.X, bo.Y
	if !isLen(x) && isLen(y) {
		x, y = y, x
		op = mirrorOp(op)
	}
	if !isLen(x) {
		return 0
	}
	cv, ok := cfgutil.ConstInt(y)
	if !ok || cv < 0 {
		return 0
	}
	switch op {
	case token.GTR: // false: len <= c
		if cv <= 1 {
			return -1
		}
	case token.GEQ: // false: len < c
		if cv <= 2 {
			return -1
		}
	case token.LSS: // true: len < c
		if cv <= 2 {
			return 1
		}
	case token.LEQ: // true: len <= c
		if cv <= 1 {
			return 1
		}
	case token.EQL:
		if cv <= 1 {
			return 1
		}
	case token.NEQ:
		if cv <= 1 {
			return -1
		}
	}
	return 0
}

// poolAccess describes acquire/release functions of the two pools.
type poolAccess struct {
	acquire map[*ssa.Function]bool // functions whose result is a Pool.Get result
	release map[*ssa.Function]int  // functions that Put their parameter #k
}

func findPoolAccess(c *engine.Context) *poolAccess {
	return c.Memo("poolaccess", func() interface{} {
		p := c.P
		pa := &poolAccess{acquire: map[*ssa.Function]bool{}, release: map[*ssa.Function]int{}}
		for _, fn := range p.Funcs {
			if fn.Blocks == nil {
				continue
			}
			for _, b := range fn.Blocks {
				for _, ins := range b.Instrs {
					call, ok := ins.(*ssa.Call)
					if !ok {
						continue
					}
					sc := call.Call.StaticCallee()
					if sc == nil {
						continue
					}
					switch sc.String() {
					case "(*sync.Pool).Get":
						// result (through type assertion) returned?
						d := cfgutil.Derived(call)
						for _, bb := range fn.Blocks {
							for _, x := range bb.Instrs {
								if ret, ok := x.(*ssa.Return); ok {
									for _, rv := range ret.Results {
										if d[rv] {
											pa.acquire[fn] = true
										}
									}
								}
							}
						}
					case "(*sync.Pool).Put":
						arg := call.Call.Args[1]
						if mi, ok := arg.(*ssa.MakeInterface); ok {
							arg = mi.X
						}
						for k, prm := range fn.Params {
							if arg == ssa.Value(prm) {
								pa.release[fn] = k
							}
						}
					}
				}
			}
		}
		return pa
	}).(*poolAccess)
}

// rulePool: O-POOL.
func rulePool(c *engine.Context) *report.Rule {
	r := report.NewRule("O-POOL", "pooled objects are used only between acquire and release, never escape, and result sinks are truncated on release", 4)
	p := c.P
	a := regionsOf(c)
	pa := findPoolAccess(c)
	// accessor functions are optional: pools may be used directly at every site (floors below)
	isAcquire := func(ins ssa.Instruction) (*ssa.Call, bool) {
		call, ok := ins.(*ssa.Call)
		if !ok {
			return nil, false
		}
		sc := call.Call.StaticCallee()
		if sc == nil {
			return nil, false
		}
		if pa.acquire[sc] {
			return call, true
		}
		if sc.String() == "(*sync.Pool).Get" && !pa.acquire[ins.Parent()] {
			return call, true
		}
		return nil, false
	}
	releaseArg := func(ins ssa.Instruction) (ssa.Value, bool) {
		ci, ok := ins.(ssa.CallInstruction)
		if !ok {
			return nil, false
		}
		sc := ci.Common().StaticCallee()
		if sc == nil {
			return nil, false
		}
		if k, ok := pa.release[sc]; ok && k < len(ci.Common().Args) {
			return ci.Common().Args[k], true
		}
		if sc.String() == "(*sync.Pool).Put" && pa.release[ins.Parent()] == 0 {
			if _, isRel := pa.release[ins.Parent()]; !isRel {
				arg := ci.Common().Args[1]
				if mi, ok := arg.(*ssa.MakeInterface); ok {
					arg = mi.X
				}
				return arg, true
			}
		}
		return nil, false
	}
	acquires, releases := 0, 0
	for _, fn := range p.Funcs {
		if fn.Blocks == nil || !(a.EvalReach[fn] || a.ParseReach[fn]) {
			continue
		}
		for _, b := range fn.Blocks {
			for _, ins := range b.Instrs {
				acq, ok := isAcquire(ins)
				if !ok {
					continue
				}
				acquires++
				r.Instances++
				construct := fmt.Sprintf("pooled object acquired in %s (#%d)", load.FuncName(fn), ordinalOfCall(acq))
				derived := cfgutil.Derived(acq)
				// cells holding the pointer (captured variables): Alloc cells that store acq
				cells := map[ssa.Value]bool{}
				for _, bb := range fn.Blocks {
					for _, x := range bb.Instrs {
						if st, ok := x.(*ssa.Store); ok && derived[st.Val] && pointerLike(st.Val.Type()) {
							if al, ok := st.Addr.(*ssa.Alloc); ok {
								cells[al] = true
							}
						}
					}
				}
				// releases: direct calls, or deferred closures capturing a cell
				var direct []ssa.Instruction
				deferred := false
				for _, bb := range fn.Blocks {
					for _, x := range bb.Instrs {
						if arg, ok := releaseArg(x); ok && derived[arg] {
							if _, isDefer := x.(*ssa.Defer); isDefer {
								deferred = true
							} else {
								direct = append(direct, x)
							}
						}
						if d, ok := x.(*ssa.Defer); ok {
							if cf := closureFn(d.Call.Value); cf != nil {
								if mc, ok := d.Call.Value.(*ssa.MakeClosure); ok {
									for bi, bind := range mc.Bindings {
										if cells[bind] || derived[bind] {
											// the closure must release the captured object on every path
											if closureReleases(cf, bi, releaseArg) {
												deferred = true
											}
										}
									}
								}
							}
						}
					}
				}
				released := deferred || len(direct) > 0
				if pa.acquire[fn] {
					// an accessor hands the object to its caller; release is the caller's business
					released = true
				}
				r.Oblige(released)
				if !released {
					r.Violation(construct+": never released", p.RelPos(acq.Pos()), "pooled object is acquired but not returned to its pool on this path (no release call, no deferred release)")
				}
				releases += len(direct)
				if deferred {
					releases++
				}
				// (a) no use after a direct release
				for _, rel := range direct {
					for _, x := range cfgutil.ReachableAfter(rel, acq) {
						for _, op := range x.Operands(nil) {
							if *op != nil && derived[*op] {
								r.Oblige(false)
								upos := p.RelPos(x.Pos())
								if upos == "-" {
									upos = p.RelPos(rel.Pos())
								}
								fnd := r.Violation(construct+": used after release", upos,
									"%s uses the pooled object (or a slice loaded from it) after it was handed back to the pool at %s: another evaluation may overwrite it meanwhile", x.String(), p.RelPos(rel.Pos()))
								if hasMapRange(acq.Call.StaticCallee()) {
									engine.Restrict(fnd, "C05", "C06", "C07") // sorted-key buffer
								} else {
									engine.Restrict(fnd, "C05", "C06", "C14") // result sink
								}
								goto nextRelease
							}
						}
					}
					r.Oblige(true)
				nextRelease:
				}
				r.Sample("%s: acquire %s; direct releases=%d deferred=%v", load.FuncName(fn), acq.Call.StaticCallee().Name(), len(direct), deferred)
			}
		}
	}
	if acquires < 3 {
		r.InfraFail("only %d pool acquire sites found (floor 3)", acquires)
	}
	// (b) escape: a pointer to a POOL-class object is stored only into local cells of evaluation code or the pool
	for _, e := range a.Effects {
		if !(a.EvalReach[e.Fn] || a.ParseReach[e.Fn]) {
			continue
		}
		for _, v := range e.Values {
			if a.Class(v) != regions.ClsPOOL || v.Parent != nil {
				continue
			}
			for _, t := range e.Targets {
				cls := a.Class(t)
				ok := cls == regions.ClsEVAL
				if ok {
					// must be a variable cell (Alloc), not a heap structure that outlives the call... EVAL class is per-call anyway
				}
				r.Oblige(ok)
				if !ok {
					r.Violation("pooled object escapes into "+cls+" memory via "+instrKey(e.Instr, e.What), p.RelPos(e.Instr.Pos()),
						"%s in %s stores a pointer to pooled object %s into %s (%s): it stays reachable after release", describeStore(p, e.Instr), load.FuncName(e.Fn), v, t.Root(), cls)
				}
			}
		}
	}
	// arrays held by the pooled key cell must not be stored elsewhere or returned
	// (c) every Put of a sink is preceded by truncation of its result field
	for _, fn := range p.Funcs {
		if fn.Blocks == nil {
			continue
		}
		for _, b := range fn.Blocks {
			for _, ins := range b.Instrs {
				call, ok := ins.(*ssa.Call)
				if !ok {
					continue
				}
				sc := call.Call.StaticCallee()
				if sc == nil || sc.String() != "(*sync.Pool).Put" {
					continue
				}
				arg := call.Call.Args[1]
				if mi, ok := arg.(*ssa.MakeInterface); ok {
					arg = mi.X
				}
				pt, ok := arg.Type().(*types.Pointer)
				if !ok || !types.Identical(pt.Elem(), p.Roles.SinkType) {
					continue
				}
				r.Instances++
				trunc := false
				for _, bb := range fn.Blocks {
					for _, x := range bb.Instrs {
						st, ok := x.(*ssa.Store)
						if !ok {
							continue
						}
						fa, ok := st.Addr.(*ssa.FieldAddr)
						if !ok || (fa.X != arg && varOf(fa.X) != varOf(arg)) {
							continue
						}
						sl, ok := st.Val.(*ssa.Slice)
						if !ok || sl.High == nil {
							continue
						}
						if hv, ok := cfgutil.ConstInt(sl.High); ok && hv == 0 && instrDominates(st, call) {
							trunc = true
						}
					}
				}
				r.Oblige(trunc)
				r.Sample("%s: Put of a result sink preceded by truncation to [:0]: %v", load.FuncName(fn), trunc)
				if !trunc {
					r.Violation("result sink returned to the pool without truncation in "+load.FuncName(fn), p.RelPos(call.Pos()),
						"the result buffer is put back into the pool still holding results: the next evaluation that acquires it starts non-empty")
				}
			}
		}
	}
	_ = releases
	return r
}

func ordinalOfCall(call *ssa.Call) int {
	n := 0
	for _, b := range call.Parent().Blocks {
		for _, ins := range b.Instrs {
			if c2, ok := ins.(*ssa.Call); ok && c2.Call.StaticCallee() == call.Call.StaticCallee() {
				n++
				if c2 == call {
					return n
				}
			}
		}
	}
	return 0
}

// closureReleases: closure cf releases (on every path to return) the object held in free variable #bi.
func closureReleases(cf *ssa.Function, bi int, releaseArg func(ssa.Instruction) (ssa.Value, bool)) bool {
	if bi >= len(cf.FreeVars) {
		return false
	}
	fv := cf.FreeVars[bi]
	d := cfgutil.Derived(fv)
	// must-analysis: on every path to a return the object was released, or was found to be nil
	has := map[*ssa.BasicBlock]bool{}
	any := false
	for _, b := range cf.Blocks {
		for _, x := range b.Instrs {
			if arg, ok := releaseArg(x); ok && d[arg] {
				has[b] = true
				any = true
			}
		}
	}
	if !any {
		return false
	}
	nilEdge := func(from, to *ssa.BasicBlock) bool {
		ifi, ok := from.Instrs[len(from.Instrs)-1].(*ssa.If)
		if !ok || from.Succs[0] == from.Succs[1] {
			return false
		}
		bo, isBo := ifi.Cond.(*ssa.BinOp)
		if !isBo || (bo.Op != token.EQL && bo.Op != token.NEQ) {
			return false
		}
		if !(isNilConstV(bo.Y) && d[bo.X] || isNilConstV(bo.X) && d[bo.Y]) {
			return false
		}
		return (bo.Op == token.EQL) == (from.Succs[0] == to)
	}
	out := map[*ssa.BasicBlock]bool{}
	for _, b := range cf.Blocks {
		out[b] = true
	}
	for changed := true; changed; {
		changed = false
		for _, b := range cf.Blocks {
			v := len(b.Preds) > 0
			for _, pb := range b.Preds {
				if !(out[pb] || nilEdge(pb, b)) {
					v = false
				}
			}
			v = v || has[b]
			if v != out[b] {
				out[b] = v
				changed = true
			}
		}
	}
	for _, b := range cf.Blocks {
		if _, isRet := b.Instrs[len(b.Instrs)-1].(*ssa.Return); isRet && b != cf.Recover && !out[b] {
			return false
		}
	}
	return true
}

// ruleKeySource: O-KEYSOURCE.
func ruleKeySource(c *engine.Context) *report.Rule {
	r := report.NewRule("O-KEYSOURCE", "member loops iterate the sorted key slice itself, untouched between accessor return and loop end", 1)
	p := c.P
	pa := findPoolAccess(c)
	// key accessors: acquire functions that contain a map range
	for _, fn := range evalFuncs(c) {
		for _, b := range fn.Blocks {
			for _, ins := range b.Instrs {
				call, ok := ins.(*ssa.Call)
				if !ok {
					continue
				}
				sc := call.Call.StaticCallee()
				if sc == nil || !pa.acquire[sc] || !hasMapRange(sc) {
					continue
				}
				r.Instances++
				construct := fmt.Sprintf("sorted keys used in %s (#%d)", load.FuncName(fn), ordinalOfCall(call))
				ok2 := true
				// uses of the returned cell pointer: loads and release only
				for _, ref := range *call.Referrers() {
					switch x := ref.(type) {
					case *ssa.UnOp:
						// the loaded slice: only len / index reads
						for _, r2 := range *x.Referrers() {
							switch y := r2.(type) {
							case *ssa.IndexAddr:
								for _, r3 := range *y.Referrers() {
									if st, isSt := r3.(*ssa.Store); isSt && st.Addr == ssa.Value(y) {
										ok2 = false
										r.Violation(construct+": written", p.RelPos(st.Pos()), "the sorted key slice is modified by the caller")
									}
								}
							case *ssa.Call:
								if bi, isB := y.Call.Value.(*ssa.Builtin); isB && (bi.Name() == "len" || bi.Name() == "cap") {
									continue
								}
								ok2 = false
								r.Violation(construct+": passed on", p.RelPos(y.Pos()), "the sorted key slice is passed to %s between the sort and the member loop (it could be re-ordered)", y.Call.Value.Name())
							case *ssa.Slice, *ssa.Phi, *ssa.DebugRef, *ssa.Index:
							default:
								_ = y
							}
						}
					case *ssa.Call:
						if k, isRel := pa.release[x.Call.StaticCallee()]; isRel && x.Call.Args[k] == ssa.Value(call) {
							continue
						}
						ok2 = false
						r.Violation(construct+": passed on", p.RelPos(x.Pos()), "the sorted key cell is passed to %s (it could be re-ordered before the member loop)", x.Call.Value.Name())
					case *ssa.Store:
						if x.Val == ssa.Value(call) {
							if _, isAlloc := x.Addr.(*ssa.Alloc); !isAlloc {
								ok2 = false
								r.Violation(construct+": stored", p.RelPos(x.Pos()), "the sorted key cell is stored outside a local variable")
							}
						}
					case *ssa.DebugRef, *ssa.Defer:
					}
				}
				// keys read from the slice index the same map that was handed to the accessor
				mapArg := call.Call.Args[0]
				used := false
				for _, ref := range *call.Referrers() {
					ld, ok := ref.(*ssa.UnOp)
					if !ok {
						continue
					}
					for _, r2 := range *ld.Referrers() {
						ia, ok := r2.(*ssa.IndexAddr)
						if !ok {
							continue
						}
						for _, r3 := range *ia.Referrers() {
							kl, ok := r3.(*ssa.UnOp)
							if !ok {
								continue
							}
							for _, cu := range usesThroughCells(kl) {
								r4 := cu.user
								switch y := r4.(type) {
								case *ssa.Lookup:
									used = true
									if !sameVar(y.X, mapArg) {
										ok2 = false
										r.Violation(construct+": other map", p.RelPos(y.Pos()), "a key of the sorted slice indexes a different map than the one whose keys were sorted")
									}
								case *ssa.Call:
									used = true
									found := false
									for _, arg := range y.Call.Args {
										if sameVar(arg, mapArg) {
											found = true
										}
									}
									if !found {
										ok2 = false
										r.Violation(construct+": other map", p.RelPos(y.Pos()), "a key of the sorted slice is passed on without the map whose keys were sorted")
									}
								}
							}
						}
					}
				}
				if !used {
					ok2 = false
					r.Undischarged(construct+": unused", p.RelPos(call.Pos()), "sorted keys are acquired but no member access through them was recognised")
				}
				r.Oblige(ok2)
				r.Sample("%s: keys of %s: read-only until release, index the same map: %v", load.FuncName(fn), mapArg.Name(), ok2)
			}
		}
	}
	return r
}

func hasMapRange(fn *ssa.Function) bool {
	for _, b := range fn.Blocks {
		for _, ins := range b.Instrs {
			if rg, ok := ins.(*ssa.Range); ok {
				if _, isMap := rg.X.Type().Underlying().(*types.Map); isMap {
					return true
				}
			}
		}
	}
	return false
}

// retrieveFamily: functions with a sink parameter returning the runtime-error interface.
func retrieveFamily(c *engine.Context) []*ssa.Function {
	p := c.P
	var out []*ssa.Function
	for _, fn := range evalFuncs(c) {
		if sinkParam(p, fn) != nil && fn.Signature.Results().Len() == 1 && types.Identical(fn.Signature.Results().At(0).Type(), p.Roles.RuntimeErrIface) {
			out = append(out, fn)
		}
	}
	return out
}

func sinkParam(p *load.Program, fn *ssa.Function) *ssa.Parameter {
	for _, prm := range fn.Params {
		if pt, ok := prm.Type().(*types.Pointer); ok && types.Identical(pt.Elem(), p.Roles.SinkType) {
			return prm
		}
	}
	return nil
}

// invariantFieldLoad: v is a load of a field of a struct reached from a parameter of fn, and no
// function of the evaluation phase stores into that field of that struct type: re-reading it in
// every iteration yields the same slice.
func invariantFieldLoad(c *engine.Context, fn *ssa.Function, v ssa.Value) bool {
	ld, ok := v.(*ssa.UnOp)
	if !ok || ld.Op != token.MUL {
		return false
	}
	addr := ld.X
	// an element of an array-valued field, at a constant position, is part of the field
	if ia, ok := addr.(*ssa.IndexAddr); ok {
		if _, isC := ia.Index.(*ssa.Const); isC {
			if pt, ok := ia.X.Type().Underlying().(*types.Pointer); ok {
				if _, isArr := pt.Elem().Underlying().(*types.Array); isArr {
					addr = ia.X
				}
			}
		}
	}
	fa, ok := addr.(*ssa.FieldAddr)
	if !ok {
		return false
	}
	base := fa.X
	for {
		if f2, ok := base.(*ssa.FieldAddr); ok {
			base = f2.X
			continue
		}
		if l2, ok := base.(*ssa.UnOp); ok && l2.Op == token.MUL {
			if f2, ok := l2.X.(*ssa.FieldAddr); ok {
				base = f2.X
				continue
			}
		}
		break
	}
	if _, isP := base.(*ssa.Parameter); !isP {
		return false
	}
	st := fa.X.Type().Underlying().(*types.Pointer).Elem()
	for _, g := range evalFuncs(c) {
		for _, b := range g.Blocks {
			for _, ins := range b.Instrs {
				sto, ok := ins.(*ssa.Store)
				if !ok {
					continue
				}
				if f2, ok := sto.Addr.(*ssa.FieldAddr); ok && f2.Field == fa.Field {
					if pt, ok := f2.X.Type().Underlying().(*types.Pointer); ok && types.Identical(pt.Elem(), st) {
						return false
					}
				}
			}
		}
	}
	return true
}

// ruleSeq: O-SEQ (+ the single-exit part of N-FANOUT).
func ruleSeq(c *engine.Context) *report.Rule {
	r := report.NewRule("O-SEQ", "member / selector / index loops are complete ascending (or the worklist's descending) loops with no early exit", 7)
	p := c.P
	fam := retrieveFamily(c)
	for _, fn := range fam {
		for _, l := range cfgutil.Loops(fn) {
			r.Instances++
			ind := cfgutil.Classify(l)
			construct := fmt.Sprintf("loop #%d in %s", loopOrdinal(fn, l), load.FuncName(fn))
			pos := p.RelPos(l.Header.Instrs[0].Pos())
			if !pos2valid(pos) {
				for _, x := range l.Header.Instrs {
					if x.Pos().IsValid() {
						pos = p.RelPos(x.Pos())
						break
					}
				}
			}
			kind := map[cfgutil.LoopKind]string{cfgutil.LoopAscending: "ascending", cfgutil.LoopDescending: "descending", cfgutil.LoopMapRange: "map-range", cfgutil.LoopWorklist: "worklist", cfgutil.LoopUnknown: "unknown", cfgutil.LoopStringRange: "string-range"}[ind.Kind]
			okKind := ind.Kind == cfgutil.LoopAscending || ind.Kind == cfgutil.LoopDescending || ind.Kind == cfgutil.LoopWorklist
			complete := true
			why := ""
			switch ind.Kind {
			case cfgutil.LoopAscending:
				// bound must be len(X) of a loop-invariant slice, or a value defined outside the loop
				if x, ok := lenArg(ind.Bound); ok {
					x = resolveCell(x) // a parameter captured by a closure is re-read from its cell
					if ins, isIns := x.(ssa.Instruction); isIns && l.Blocks[ins.Block()] && !invariantFieldLoad(c, fn, x) {
						complete, why = false, "the bound's slice changes inside the loop"
					}
				} else if ins, isIns := ind.Bound.(ssa.Instruction); isIns && l.Blocks[ins.Block()] {
					complete, why = false, "the bound is recomputed inside the loop"
				}
			case cfgutil.LoopDescending:
				// start must be len(X)-1
				bo, ok := ind.Bound.(*ssa.BinOp)
				if !ok || bo.Op != token.SUB {
					complete, why = false, "descending loop does not start at len-1"
				} else if cv, okc := cfgutil.ConstInt(bo.Y); !okc || cv != 1 {
					complete, why = false, "descending loop does not start at len-1"
				} else if _, okl := lenArg(bo.X); !okl {
					complete, why = false, "descending loop does not start at len-1"
				}
			}
			// single exit from the header
			single := true
			for _, e := range l.Exits {
				if e.From != l.Header {
					if redundantBoundExit(ind, e.From, e.To) {
						continue // `if index >= len(x) { break }` inside `for index := range x`: never taken
					}
					single = false
					why = fmt.Sprintf("an edge leaves the loop body early (block %d → %d: break/return/goto)", e.From.Index, e.To.Index)
				}
			}
			ok := okKind && complete && single
			r.Oblige(ok)
			r.Sample("%s: %s, complete=%v, single exit=%v", construct, kind, complete, single)
			if !okKind {
				f := r.Undischarged(construct+": shape", pos, "loop in an evaluation step whose iteration scheme is not recognised (%s)", kind)
				if ind.Kind == cfgutil.LoopMapRange {
					// a range over a map terminates and stays in bounds; what is open is the order of its iterations
					engine.Restrict(f, "C07", "C08")
				}
			} else if !ok {
				r.Violation(construct+": "+map[bool]string{true: "early exit", false: "incomplete"}[!single], pos, "a member/selector loop must visit every element in order: %s", why)
			}
		}
	}
	return r
}

func pos2valid(s string) bool { return s != "-" }

func loopOrdinal(fn *ssa.Function, l *cfgutil.Loop) int {
	n := 0
	for _, x := range cfgutil.Loops(fn) {
		n++
		if x.Header == l.Header {
			return n
		}
	}
	return 0
}

// ruleLifo: O-LIFO.
func ruleLifo(c *engine.Context) *report.Rule {
	r := report.NewRule("O-LIFO", "recursive descent pops the last worklist element and pushes children in descending order after visiting the parent", 1)
	p := c.P
	for _, fn := range retrieveFamily(c) {
		loops := cfgutil.Loops(fn)
		for _, l := range loops {
			ind := cfgutil.Classify(l)
			if ind.Kind != cfgutil.LoopWorklist {
				continue
			}
			r.Instances++
			W := ind.Phi
			construct := "worklist in " + load.FuncName(fn)
			pos := p.RelPos(fn.Pos())
			// pop: element = W[len(W)-1]; W' = W[:len(W)-1]
			popOK, shrinkOK := false, false
			for blk := range l.Blocks {
				for _, ins := range blk.Instrs {
					switch x := ins.(type) {
					case *ssa.IndexAddr:
						if x.X == ssa.Value(W) {
							if isLenMinus1(x.Index, W) {
								popOK = true
							} else {
								r.Violation(construct+": pop position", p.RelPos(x.Pos()), "the worklist element taken is not the last one (W[len(W)-1]): traversal is not LIFO")
							}
						}
					case *ssa.Slice:
						if x.X == ssa.Value(W) {
							if x.Low == nil && x.High != nil && isLenMinus1(x.High, W) {
								shrinkOK = true
							} else {
								r.Violation(construct+": shrink", p.RelPos(x.Pos()), "the worklist is not shrunk by dropping its last element (W[:len(W)-1])")
							}
						}
					}
				}
			}
			r.Oblige(popOK && shrinkOK)
			if !popOK || !shrinkOK {
				r.Violation(construct+": pop", pos, "worklist pop not recognised as W[len(W)-1] / W[:len(W)-1] (pop=%v shrink=%v)", popOK, shrinkOK)
			}
			// push loops: inner loops that append to the worklist
			pushLoops := 0
			var pushes []ssa.Instruction
			for _, il := range loops {
				if il == l || !l.Blocks[il.Header] {
					continue
				}
				appends := false
				for blk := range il.Blocks {
					for _, ins := range blk.Instrs {
						if call, ok := ins.(*ssa.Call); ok {
							if bi, isB := call.Call.Value.(*ssa.Builtin); isB && bi.Name() == "append" && types.Identical(call.Type(), W.Type()) {
								appends = true
								pushes = append(pushes, call)
							}
							// a helper that returns the worklist it was given, possibly with one more element
							if sc := call.Call.StaticCallee(); sc != nil && isPushHelper(p, sc, W.Type()) {
								appends = true
								pushes = append(pushes, call)
							}
						}
					}
				}
				if !appends {
					continue
				}
				pushLoops++
				r.Instances++
				iind := cfgutil.Classify(il)
				ok := iind.Kind == cfgutil.LoopDescending
				if ok {
					bo, isBo := iind.Bound.(*ssa.BinOp)
					ok = isBo && bo.Op == token.SUB
					if ok {
						_, ok = lenArg(bo.X)
					}
				}
				r.Oblige(ok)
				r.Sample("%s: push loop #%d descending from len-1 to 0: %v", load.FuncName(fn), loopOrdinal(fn, il), ok)
				if !ok {
					r.Violation(fmt.Sprintf("%s: push loop #%d order", construct, pushLoops), p.RelPos(il.Header.Instrs[0].Pos()),
						"children are not pushed in descending order (from len-1 down to 0): with a LIFO worklist they would be visited in reverse document order")
				}
			}
			if pushLoops < 2 {
				r.Undischarged(construct+": push loops", pos, "expected push loops for both container kinds, found %d", pushLoops)
			}
			// parent before descendants: within one iteration no next-step call is reachable after a push
			for _, push := range pushes {
				for _, x := range cfgutil.ReachableAfter(push, l.Header.Instrs[0]) {
					if !l.Blocks[x.Block()] {
						continue
					}
					if call, ok := x.(*ssa.Call); ok && call.Call.IsInvoke() && call.Call.Method.Name() == p.Roles.RetrieveName {
						r.Oblige(false)
						r.Violation(construct+": parent after children", p.RelPos(call.Pos()), "within one worklist iteration the next step is applied to the current container after its children were pushed")
					}
				}
			}
			// every popped container is offered to the next step and expanded: the only conditions
			// inside one iteration (outside the push loops) are the container-kind tests of the popped
			// value and its children, the receiver's requirement flags, and the error / result tests
			// after the step — nothing else may skip a container
			inner := map[*ssa.BasicBlock]bool{}
			for _, il := range loops {
				if il != l && l.Blocks[il.Header] {
					inner[il.Header] = true
				}
			}
			sink := sinkParam(p, fn)
			nskip := 0
			for blk := range l.Blocks {
				ifi, ok := blk.Instrs[len(blk.Instrs)-1].(*ssa.If)
				if !ok || blk == l.Header || inner[blk] {
					continue
				}
				cond, _ := unwrapNot(ifi.Cond)
				allowed := false
				if _, _, isTT := typeTestsOf(cond); isTT {
					allowed = true
				}
				switch x := cond.(type) {
				case *ssa.Extract:
					if _, isTA := x.Tuple.(*ssa.TypeAssert); isTA {
						allowed = true
					}
				case *ssa.UnOp:
					if base, _, isBool := boolFieldLoad(x); isBool && len(fn.Params) > 0 && base == ssa.Value(fn.Params[0]) {
						allowed = true
					}
					// a flag kept as an element, at a constant position, of an array field of the receiver
					if x.Op == token.MUL && isBasicKind(x.Type().Underlying(), types.Bool) {
						if ia, ok := x.X.(*ssa.IndexAddr); ok {
							if _, isC := ia.Index.(*ssa.Const); isC {
								if fa, ok := ia.X.(*ssa.FieldAddr); ok && len(fn.Params) > 0 && fa.X == ssa.Value(fn.Params[0]) {
									if pt, ok := fa.Type().Underlying().(*types.Pointer); ok {
										if _, isArr := pt.Elem().Underlying().(*types.Array); isArr {
											allowed = true
										}
									}
								}
							}
						}
					}
				case *ssa.BinOp:
					if isSinkLenTest(p, x, sink) {
						allowed = true
					}
					for _, side := range []ssa.Value{x.X, x.Y} {
						if cst, isC := side.(*ssa.Const); isC && cst.IsNil() {
							other := x.X
							if other == side {
								other = x.Y
							}
							if types.Identical(other.Type(), p.Roles.RuntimeErrIface) {
								allowed = true
							}
						}
					}
				}
				if !allowed {
					nskip++
					r.Oblige(false)
					f := r.Violation(fmt.Sprintf("%s: conditional skip #%d", construct, nskip), p.RelPos(ifi.Cond.Pos()),
						"inside one iteration of the descent a condition other than the container kind, the step's requirement flags and the step's error / result tests decides what happens to the popped container (%s): some containers of the document may be neither offered to the following step nor expanded", condText(ifi.Cond))
					engine.Restrict(f, "C08")
				}
			}
			r.Oblige(true)
			r.Nontrivial++
		}
	}
	return r
}

func isLenMinus1(v ssa.Value, W ssa.Value) bool {
	bo, ok := v.(*ssa.BinOp)
	if !ok || bo.Op != token.SUB {
		return false
	}
	if cv, okc := cfgutil.ConstInt(bo.Y); !okc || cv != 1 {
		return false
	}
	x, ok := lenArg(bo.X)
	return ok && x == W
}

// sameVar: identical SSA values, or loads of the same single-assignment local cell.
func sameVar(x, y ssa.Value) bool {
	if x == y {
		return true
	}
	lx, ok1 := x.(*ssa.UnOp)
	ly, ok2 := y.(*ssa.UnOp)
	if !ok1 || !ok2 || lx.Op != token.MUL || ly.Op != token.MUL || lx.X != ly.X {
		return false
	}
	al, ok := lx.X.(*ssa.Alloc)
	if !ok {
		return false
	}
	stores := 0
	for _, ref := range *al.Referrers() {
		if st, ok := ref.(*ssa.Store); ok && st.Addr == ssa.Value(al) {
			stores++
		}
	}
	return stores == 1
}

// isPushHelper: fn(list, …) returns, on every path, the list it was given or that list with
// elements appended (a conditional push).
func isPushHelper(p *load.Program, fn *ssa.Function, listT types.Type) bool {
	if fn == nil || fn.Blocks == nil || !p.InPkg(fn) || len(fn.Params) == 0 || fn.Signature.Results().Len() != 1 {
		return false
	}
	if !types.Identical(fn.Signature.Results().At(0).Type(), listT) {
		return false
	}
	var lp *ssa.Parameter
	for _, pp := range fn.Params {
		if types.Identical(pp.Type(), listT) {
			lp = pp
			break
		}
	}
	if lp == nil {
		return false
	}
	var okV func(v ssa.Value, d int) bool
	okV = func(v ssa.Value, d int) bool {
		if d > 4 {
			return false
		}
		switch x := v.(type) {
		case *ssa.Parameter:
			return x == lp
		case *ssa.Call:
			if bi, isB := x.Call.Value.(*ssa.Builtin); isB && bi.Name() == "append" {
				return okV(x.Call.Args[0], d+1)
			}
		case *ssa.Phi:
			for _, e := range x.Edges {
				if !okV(e, d+1) {
					return false
				}
			}
			return true
		}
		return false
	}
	n := 0
	for _, b := range fn.Blocks {
		if ret, ok := b.Instrs[len(b.Instrs)-1].(*ssa.Return); ok {
			n++
			if !okV(ret.Results[0], 0) {
				return false
			}
		}
	}
	return n > 0
}

func pointerLike(t types.Type) bool {
	switch t.Underlying().(type) {
	case *types.Pointer, *types.Interface:
		return true
	}
	return false
}

// redundantBoundExit: the edge from -> to leaves an ascending loop under the condition that the
// loop's own index has reached the loop's own bound — which the loop condition already excludes.
func redundantBoundExit(ind *cfgutil.Induction, from, to *ssa.BasicBlock) bool {
	if ind == nil || ind.Kind != cfgutil.LoopAscending || ind.Bound == nil {
		return false
	}
	ifi, ok := from.Instrs[len(from.Instrs)-1].(*ssa.If)
	if !ok {
		return false
	}
	bo, ok := ifi.Cond.(*ssa.BinOp)
	if !ok {
		return false
	}
	sameBound := func(v ssa.Value) bool {
		if v == ind.Bound {
			return true
		}
		a, ok1 := lenArg(v)
		b, ok2 := lenArg(ind.Bound)
		return ok1 && ok2 && resolveCell(a) == resolveCell(b)
	}
	op, x, y := bo.Op, bo.X, bo.Y
	if sameBound(x) {
		x, y = y, x
		op = mirrorOp(op)
	}
	if resolveCell(x) != ind.Index || !sameBound(y) {
		return false
	}
	exitOnTrue := from.Succs[0] == to
	switch op {
	case token.GEQ: // index >= bound: true edge infeasible
		return exitOnTrue
	case token.LSS: // index < bound: false edge infeasible
		return !exitOnTrue
	}
	return false
}
