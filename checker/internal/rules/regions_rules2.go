package rules

import (
	"fmt"
	"go/constant"
	"go/types"
	"sort"
	"strings"

	"golang.org/x/tools/go/ssa"

	"verif/checker/internal/engine"
	"verif/checker/internal/load"
	"verif/checker/internal/regions"
	"verif/checker/internal/report"
)

func init() {
	engine.Register("R-LOCK", ruleLock)
	engine.Register("R-RESET", ruleReset)
	engine.Register("R-PEGRESET", rulePegReset)
	engine.Register("R-CONFIG", ruleConfig)
	engine.Register("R-TREE-CLOSED", ruleTreeClosed)
}

func instrIndex(ins ssa.Instruction) int {
	for i, x := range ins.Block().Instrs {
		if x == ins {
			return i
		}
	}
	return -1
}

// instrDominates: a executes before b on every path reaching b.
func instrDominates(a, b ssa.Instruction) bool {
	if a.Block() == b.Block() {
		return instrIndex(a) < instrIndex(b)
	}
	return a.Block().Dominates(b.Block())
}

func staticCalleeName(ins ssa.Instruction) string {
	ci, ok := ins.(ssa.CallInstruction)
	if !ok {
		return ""
	}
	if sc := ci.Common().StaticCallee(); sc != nil {
		return sc.String()
	}
	return ""
}

// mutexCall recognises (*sync.Mutex).Lock/Unlock on the package mutex.
func mutexCall(p *load.Program, ins ssa.Instruction, method string) bool {
	ci, ok := ins.(ssa.CallInstruction)
	if !ok {
		return false
	}
	c := ci.Common()
	sc := c.StaticCallee()
	if sc == nil || sc.Name() != method || len(c.Args) == 0 {
		return false
	}
	if sc.Signature.Recv() == nil {
		return false
	}
	rt := sc.Signature.Recv().Type().String()
	if !strings.Contains(rt, "sync.Mutex") && !strings.Contains(rt, "sync.RWMutex") {
		return false
	}
	return c.Args[0] == ssa.Value(p.Roles.Mutex)
}

func deferredClosures(fn *ssa.Function) []*ssa.Defer {
	var out []*ssa.Defer
	for _, b := range fn.Blocks {
		for _, ins := range b.Instrs {
			if d, ok := ins.(*ssa.Defer); ok {
				out = append(out, d)
			}
		}
	}
	return out
}

func closureFn(v ssa.Value) *ssa.Function {
	switch x := v.(type) {
	case *ssa.MakeClosure:
		return x.Fn.(*ssa.Function)
	case *ssa.Function:
		return x
	}
	return nil
}

// parserOwned reports whether o belongs to the parser's persistent memory:
// the parser global's own storage, or anything allocated by generated code.
func parserOwned(p *load.Program, a *regions.Analysis, o *regions.Object) bool {
	r := o.Root()
	if r == a.GlobalObj(p.Roles.ParserGlobal) {
		return true
	}
	if r.Kind == regions.KAlloc && r.Fn != nil && engineFunc(p, r.Fn) && a.ParseReach[r.Fn] {
		return true
	}
	return false
}

// reachFrom: objects reachable from roots through loads, not entering objects for which stop is true.
func reachFrom(a *regions.Analysis, roots []*regions.Object, stop func(*regions.Object) bool) map[*regions.Object]bool {
	seen := map[*regions.Object]bool{}
	var work []*regions.Object
	push := func(o *regions.Object) {
		if o == nil || seen[o] || (stop != nil && stop(o)) {
			return
		}
		seen[o] = true
		work = append(work, o)
	}
	for _, r := range roots {
		push(r)
	}
	for len(work) > 0 {
		o := work[len(work)-1]
		work = work[:len(work)-1]
		for _, s := range a.Subs(o) {
			push(s)
		}
		if m := a.MemOf(o); m != nil {
			for _, x := range m.Pts() {
				push(x)
			}
		}
	}
	return seen
}

// ruleLock: R-LOCK.
func ruleLock(c *engine.Context) *report.Rule {
	r := report.NewRule("R-LOCK", "the global parser is touched only inside Parse between Lock and the deferred Unlock", 3)
	p := c.P
	a := regionsOf(c)
	parse := p.Roles.Parse

	// (a1) the Lock call
	var lock ssa.Instruction
	nLock, nUnlock := 0, 0
	var unlockFns []*ssa.Function
	for _, fn := range p.Funcs {
		for _, b := range fn.Blocks {
			for _, ins := range b.Instrs {
				if mutexCall(p, ins, "Lock") {
					nLock++
					if fn == parse {
						lock = ins
					} else {
						r.Violation("Lock of the parser mutex outside Parse in "+load.FuncName(fn), p.RelPos(ins.Pos()), "the parser mutex is locked outside Parse")
					}
				}
				if mutexCall(p, ins, "Unlock") {
					nUnlock++
					unlockFns = append(unlockFns, fn)
				}
				if d, isDefer := ins.(*ssa.Defer); isDefer {
					if sc := d.Call.StaticCallee(); sc != nil && sc.Name() == "Unlock" && len(d.Call.Args) > 0 && d.Call.Args[0] == ssa.Value(p.Roles.Mutex) {
						nUnlock++
						unlockFns = append(unlockFns, fn)
					}
				}
			}
		}
	}
	r.Instances++
	if lock == nil || nLock != 1 {
		r.Oblige(false)
		r.Violation("Parse does not lock the parser mutex exactly once", p.RelPos(parse.Pos()), "found %d Lock calls on the parser mutex (need exactly one, in Parse)", nLock)
		return r
	}
	r.Oblige(lock.Block() == parse.Blocks[0])
	if lock.Block() != parse.Blocks[0] {
		r.Violation("Lock is not in Parse's entry block", p.RelPos(lock.Pos()), "the Lock call is conditional")
	}
	// (a2) the defer with Unlock comes right after Lock
	var theDefer *ssa.Defer
	var deferFn *ssa.Function
	directUnlock := false
	for _, d := range deferredClosures(parse) {
		if sc := d.Call.StaticCallee(); sc != nil && sc.Name() == "Unlock" && len(d.Call.Args) > 0 && d.Call.Args[0] == ssa.Value(p.Roles.Mutex) {
			theDefer, directUnlock = d, true
			continue
		}
		if f := closureFn(d.Call.Value); f != nil && f.Blocks != nil {
			for _, b := range f.Blocks {
				for _, ins := range b.Instrs {
					if mutexCall(p, ins, "Unlock") {
						theDefer, deferFn = d, f
					}
				}
			}
		}
	}
	r.Instances++
	if theDefer == nil {
		r.Oblige(false)
		r.Violation("Parse has no deferred closure that unlocks the parser mutex", p.RelPos(parse.Pos()), "no deferred Unlock: a panic in an action would leak the lock")
		return r
	}
	okOrder := theDefer.Block() == lock.Block() && instrIndex(lock) < instrIndex(theDefer)
	if okOrder {
		for _, ins := range lock.Block().Instrs[instrIndex(lock)+1 : instrIndex(theDefer)] {
			switch ins.(type) {
			case *ssa.MakeClosure, *ssa.Alloc, *ssa.Defer:
			default:
				okOrder = false
				r.Violation("instruction between Lock and the deferred Unlock registration in Parse", p.RelPos(ins.Pos()),
					"%s executes after Lock and before the defer that unlocks: a panic here leaks the lock", ins.String())
			}
		}
	} else {
		r.Violation("deferred Unlock is not registered directly after Lock in Parse", p.RelPos(theDefer.Pos()), "the defer containing Unlock must follow Lock in the entry block")
	}
	r.Oblige(okOrder)
	// Unlock only inside that closure (a directly deferred Unlock is an instruction of Parse itself)
	for _, f := range unlockFns {
		if f != deferFn && !(directUnlock && f == parse) {
			r.Violation("Unlock of the parser mutex outside Parse's deferred closure in "+load.FuncName(f), p.RelPos(f.Pos()), "the parser mutex is unlocked in %s", load.FuncName(f))
		}
	}
	// (a3) everything in Parse that calls or mentions the parser is dominated by Lock
	parserG := ssa.Value(p.Roles.ParserGlobal)
	for _, b := range parse.Blocks {
		if b == parse.Recover {
			continue
		}
		for _, ins := range b.Instrs {
			if ins == lock {
				continue
			}
			mentions := false
			for _, op := range ins.Operands(nil) {
				if *op == parserG {
					mentions = true
				}
			}
			_, isCall := ins.(ssa.CallInstruction)
			if !mentions && !isCall {
				continue
			}
			r.Instances++
			ok := instrDominates(lock, ins)
			r.Oblige(ok)
			if !ok {
				r.Violation("parser access in Parse not dominated by Lock: "+instrKey(ins, "instr"), p.RelPos(ins.Pos()), "%s may execute before the mutex is locked", ins.String())
			}
		}
	}
	// (a4) in the deferred closure: Unlock dominates every return; nothing that can panic precedes it
	// (a directly deferred Unlock runs in any case, also when another deferred function panics)
	var unlock ssa.Instruction
	if directUnlock {
		deferFn = &ssa.Function{}
	}
	for _, b := range deferFn.Blocks {
		for _, ins := range b.Instrs {
			if mutexCall(p, ins, "Unlock") {
				unlock = ins
			}
		}
	}
	for _, b := range deferFn.Blocks {
		for _, ins := range b.Instrs {
			if ret, ok := ins.(*ssa.Return); ok {
				r.Instances++
				ok2 := instrDominates(unlock, ret)
				r.Oblige(ok2)
				if !ok2 {
					r.Violation("a return of Parse's deferred closure is not preceded by Unlock", p.RelPos(ret.Pos()), "a path through the deferred closure returns without unlocking the parser mutex")
				}
			}
			// instructions that may execute before Unlock and may panic
			if ins != unlock && !instrDominates(unlock, ins) {
				bad := ""
				switch x := ins.(type) {
				case *ssa.Call:
					if _, ok := x.Call.Value.(*ssa.Builtin); ok {
						break // recover, len, cap, append, delete ...: cannot panic
					}
					// calls to reset helpers of the action state are allowed if they cannot panic: require tiny leaf functions
					if sc := x.Call.StaticCallee(); sc != nil && p.InPkg(sc) && isPanicFreeLeaf(sc) {
						break
					}
					bad = "call " + x.String()
				case *ssa.Panic:
					bad = "panic"
				case *ssa.TypeAssert:
					if !x.CommaOk {
						bad = "unchecked type assertion"
					}
				}
				if bad != "" {
					r.Oblige(false)
					r.Violation("possible panic before Unlock in Parse's deferred closure: "+bad, p.RelPos(ins.Pos()), "%s may panic before the mutex is released and the parser reset", bad)
				}
			}
		}
	}

	// (b) functions holding parser-owned memory are reachable only through Parse
	touch := map[*ssa.Function][]string{}
	for _, fn := range p.Funcs {
		if fn.Blocks == nil {
			continue
		}
		seenV := map[ssa.Value]bool{}
		check := func(v ssa.Value) {
			if v == nil || seenV[v] {
				return
			}
			seenV[v] = true
			n := a.ValueNode(v)
			if n == nil {
				return
			}
			for _, o := range n.Pts() {
				if parserOwned(p, a, o) {
					touch[fn] = append(touch[fn], o.Root().String())
					return
				}
			}
		}
		// In a user entry point the parameters (and what is derived from them) carry user
		// values when it runs outside Parse; the context-insensitive points-to sets of such
		// functions also contain what in-package callers under the lock pass in.
		_, blindSet := outsideParse(c)
		blindFn := blindSet[fn]
		if !blindFn {
			for _, prm := range fn.Params {
				check(prm)
			}
			for _, fv := range fn.FreeVars {
				check(fv)
			}
		}
		for _, b := range fn.Blocks {
			for _, ins := range b.Instrs {
				if v, ok := ins.(ssa.Value); ok && !blindFn {
					check(v)
				}
				for _, op := range ins.Operands(nil) {
					if g, ok := (*op).(*ssa.Global); ok && g == p.Roles.ParserGlobal {
						touch[fn] = append(touch[fn], "G(parser)")
					}
				}
			}
		}
	}
	nonParse, _ := outsideParse(c)
	initFn := p.SSA.Members["init"].(*ssa.Function)
	var touchFns []*ssa.Function
	for fn := range touch {
		touchFns = append(touchFns, fn)
	}
	sort.Slice(touchFns, func(i, j int) bool { return load.FuncName(touchFns[i]) < load.FuncName(touchFns[j]) })
	for _, fn := range touchFns {
		if fn == parse || fn == initFn {
			continue
		}
		r.Instances++
		ok := !nonParse[fn]
		r.Oblige(ok)
		if len(r.Samples) < 6 {
			r.Sample("%s holds parser memory (%s); reachable outside Parse: %v", load.FuncName(fn), touch[fn][0], !ok)
		}
		if !ok {
			r.Violation("parser memory reachable outside the lock in "+load.FuncName(fn), p.RelPos(fn.Pos()),
				"%s can hold %s and is reachable from an entry point without passing through Parse (no lock held)", load.FuncName(fn), touch[fn][0])
		}
	}
	r.Nontrivial = len(touchFns)
	return r
}

// isPanicFreeLeaf: a function consisting only of stores of constants / zero values, field addressing and returns.
func isPanicFreeLeaf(fn *ssa.Function) bool {
	if fn.Blocks == nil {
		return false
	}
	for _, b := range fn.Blocks {
		for _, ins := range b.Instrs {
			switch x := ins.(type) {
			case *ssa.FieldAddr, *ssa.Store, *ssa.Return, *ssa.Jump, *ssa.If, *ssa.Alloc, *ssa.Phi, *ssa.DebugRef:
			case *ssa.UnOp, *ssa.BinOp, *ssa.Slice:
				_ = x
			default:
				return false
			}
		}
	}
	return true
}

func isZeroConst(v ssa.Value) bool {
	c, ok := v.(*ssa.Const)
	if !ok {
		return false
	}
	if c.Value == nil {
		return true // nil / zero aggregate
	}
	switch c.Value.Kind() {
	case constant.Bool:
		return !constant.BoolVal(c.Value)
	case constant.Int, constant.Float:
		return constant.Sign(c.Value) == 0
	case constant.String:
		return constant.StringVal(c.Value) == ""
	}
	return false
}

// actionStateObj returns the sub-object of the parser global holding the action-state struct.
func actionStateIndex(p *load.Program) int {
	st := p.Roles.ParserType.Underlying().(*types.Struct)
	for i := 0; i < st.NumFields(); i++ {
		if types.Identical(st.Field(i).Type(), p.Roles.ActionState) {
			return i
		}
	}
	return -1
}

// ruleReset: R-RESET.
func ruleReset(c *engine.Context) *report.Rule {
	r := report.NewRule("R-RESET", "all action state of the global parser is reset on every exit of Parse, also on panic", 5)
	p := c.P
	a := regionsOf(c)
	parse := p.Roles.Parse
	asIdx := actionStateIndex(p)
	if asIdx < 0 {
		r.InfraFail("anchor unresolved: action-state field of the parser type")
		return r
	}
	pg := a.GlobalObj(p.Roles.ParserGlobal)
	asObj := a.SubIfExists(pg, regions.FieldKey(asIdx))
	if asObj == nil {
		r.InfraFail("anchor unresolved: no access to the action-state struct of the parser global was seen")
		return r
	}
	ast := p.Roles.ActionState.Underlying().(*types.Struct)
	fieldOf := func(o *regions.Object) int {
		// first-level field of the action state that o lies under; -1 whole struct; -2 not under
		if o == asObj {
			return -1
		}
		for x := o; x != nil; x = x.Parent {
			if x.Parent == asObj {
				var i int
				fmt.Sscanf(x.Key, "f%d", &i)
				return i
			}
		}
		return -2
	}
	// fields written by PARSE functions (anything but the reset closure chain and init)
	var theDeferFn *ssa.Function
	var deferFns []*ssa.Function
	for _, d := range deferredClosures(parse) {
		if f := closureFn(d.Call.Value); f != nil && f.Blocks != nil {
			theDeferFn = f
			deferFns = append(deferFns, f)
		}
	}
	if theDeferFn == nil {
		r.Violation("Parse has no deferred closure", p.RelPos(parse.Pos()), "no deferred reset of the parser")
		return r
	}
	// must-execute stores of the deferred closure (including unconditional static callees)
	resetFields := map[int]bool{}
	whole := false
	var collect func(fn *ssa.Function, depth int)
	mustExec := func(fn *ssa.Function, ins ssa.Instruction) bool {
		for _, b := range fn.Blocks {
			for _, x := range b.Instrs {
				if ret, ok := x.(*ssa.Return); ok {
					if !instrDominates(ins, ret) {
						return false
					}
				}
			}
		}
		return true
	}
	resetFns := map[*ssa.Function]bool{}
	collect = func(fn *ssa.Function, depth int) {
		if depth > 3 || fn.Blocks == nil {
			return
		}
		resetFns[fn] = true
		for _, b := range fn.Blocks {
			for _, ins := range b.Instrs {
				switch x := ins.(type) {
				case *ssa.Store:
					if !mustExec(fn, x) || !isZeroConst(x.Val) {
						continue
					}
					n := a.ValueNode(x.Addr)
					if n == nil {
						continue
					}
					objs := n.Pts()
					if len(objs) != 1 {
						continue
					}
					switch f := fieldOf(objs[0]); {
					case f == -1:
						whole = true
					case f >= 0 && objs[0].Parent == asObj:
						resetFields[f] = true
					}
				case *ssa.Call:
					if sc := x.Call.StaticCallee(); sc != nil && p.InPkg(sc) && mustExec(fn, x) {
						collect(sc, depth+1)
					}
				}
			}
		}
	}
	for _, f := range deferFns {
		collect(f, 0)
	}

	written := map[int][]string{}
	immutableSrc := map[int]bool{}
	for _, e := range a.Effects {
		if resetFns[e.Fn] || e.Fn.Name() == "init" {
			continue
		}
		for _, t := range e.Targets {
			f := fieldOf(t)
			if f == -2 {
				continue
			}
			if f == -1 {
				for i := 0; i < ast.NumFields(); i++ {
					written[i] = append(written[i], load.FuncName(e.Fn))
				}
				continue
			}
			written[f] = append(written[f], load.FuncName(e.Fn))
			// value provenance: load of an immutable global
			if st, ok := e.Instr.(*ssa.Store); ok && t.Parent == asObj {
				if ld, ok := st.Val.(*ssa.UnOp); ok {
					if g, ok := ld.X.(*ssa.Global); ok && g != p.Roles.ParserGlobal {
						if _, seen := immutableSrc[f]; !seen {
							immutableSrc[f] = true
						}
						continue
					}
				}
			}
			immutableSrc[f] = false
		}
	}
	for i := 0; i < ast.NumFields(); i++ {
		ws := uniqSorted(written[i])
		if len(ws) == 0 {
			continue
		}
		r.Instances++
		ok := whole || resetFields[i]
		exempt := false
		if !ok && immutableSrc[i] {
			// every write stores the current value of a package-level variable that is immutable after init
			exempt = true
		}
		r.Oblige(ok || exempt)
		r.Sample("action-state field %s: written by %d function(s); reset on every exit: %v%s", ast.Field(i).Name(), len(ws), ok, map[bool]string{true: " (exempt: only ever assigned from an immutable global)", false: ""}[exempt])
		if !ok && !exempt {
			r.Violation("action-state field "+ast.Field(i).Name()+" not reset on every exit of Parse", p.RelPos(theDeferFn.Pos()),
				"field %s of the global parser's action state is written during Parse (by %s) but the deferred closure does not reset it on every path: state survives into the next Parse", ast.Field(i).Name(), strings.Join(ws, ", "))
		}
	}
	r.Note("whole-struct zeroing in the deferred closure: %v; field-wise resets: %d", whole, len(resetFields))
	return r
}

// rulePegReset: R-PEGRESET.
func rulePegReset(c *engine.Context) *report.Rule {
	r := report.NewRule("R-PEGRESET", "the PEG matcher's reset re-initialises every variable its rule closures write", 4)
	p := c.P
	a := regionsOf(c)
	// Init = the generated method that stores closures into the parser's reset/parse fields.
	pst := p.Roles.ParserType.Underlying().(*types.Struct)
	var initFn, resetFn, parseFn *ssa.Function
	for _, fn := range p.Funcs {
		if !p.FuncIsGenerated(fn) || fn.Parent() != nil {
			continue
		}
		for _, b := range fn.Blocks {
			for _, ins := range b.Instrs {
				st, ok := ins.(*ssa.Store)
				if !ok {
					continue
				}
				fa, ok := st.Addr.(*ssa.FieldAddr)
				if !ok {
					continue
				}
				pt, ok := fa.X.Type().Underlying().(*types.Pointer)
				if !ok || !types.Identical(pt.Elem(), p.Roles.ParserType) {
					continue
				}
				cf := closureFn(st.Val)
				if cf == nil {
					continue
				}
				ft := pst.Field(fa.Field).Type().Underlying().(*types.Signature)
				if ft.Params().Len() == 0 && ft.Results().Len() == 0 {
					initFn, resetFn = fn, cf
				} else if ft.Results().Len() == 1 {
					parseFn = cf
				}
			}
		}
	}
	if initFn == nil || resetFn == nil || parseFn == nil {
		r.InfraFail("anchor unresolved: generated Init / reset / parse closures")
		return r
	}
	// cells: heap Allocs of Init
	mustExec := func(fn *ssa.Function, ins ssa.Instruction) bool {
		for _, b := range fn.Blocks {
			for _, x := range b.Instrs {
				if ret, ok := x.(*ssa.Return); ok && !instrDominates(ins, ret) {
					return false
				}
			}
		}
		return true
	}
	type cellInfo struct {
		obj     *regions.Object
		writers map[string]bool
		reset   bool
		name    string
	}
	cells := map[*regions.Object]*cellInfo{}
	for _, o := range a.Objects() {
		if o.Kind == regions.KAlloc && o.Fn == initFn && o.Parent == nil {
			if al, ok := o.Site.(*ssa.Alloc); ok && al.Heap {
				cells[o] = &cellInfo{obj: o, writers: map[string]bool{}, name: al.Comment}
			}
		}
	}
	for _, e := range a.Effects {
		for _, t := range e.AddrObjects() {
			ci := cells[t.Root()]
			if ci == nil {
				continue
			}
			if e.Fn == resetFn {
				if t == ci.obj && mustExec(resetFn, e.Instr) {
					ci.reset = true
				}
				continue
			}
			if e.Fn == initFn {
				continue
			}
			ci.writers[load.FuncName(e.Fn)] = true
		}
	}
	// the token tree exception: Trim(tokenIndex) on the success path of parse
	trimOK := false
	for _, b := range parseFn.Blocks {
		for _, ins := range b.Instrs {
			if call, ok := ins.(*ssa.Call); ok {
				if sc := call.Call.StaticCallee(); sc != nil && p.FuncIsGenerated(sc) && len(call.Call.Args) == 2 {
					// (*tokens32).Trim(&p.tokens32, tokenIndex): second arg is a load of an Init cell
					if ld, ok := call.Call.Args[1].(*ssa.UnOp); ok {
						if n := a.ValueNode(ld.X); n != nil {
							for _, o := range n.Pts() {
								if cells[o] != nil {
									// callee reslices its receiver's slice field
									trimOK = true
								}
							}
						}
					}
				}
			}
		}
	}
	var names []*cellInfo
	for _, ci := range cells {
		names = append(names, ci)
	}
	sort.Slice(names, func(i, j int) bool { return names[i].name < names[j].name })
	for _, ci := range names {
		if len(ci.writers) == 0 {
			continue
		}
		r.Instances++
		ok := ci.reset
		exc := ""
		if !ok {
			// token tree: struct cell whose only pointer-like field is a slice of tokens; stale suffix cut by Trim
			if st, isSt := ci.obj.Typ.Underlying().(*types.Struct); isSt && st.NumFields() == 1 && trimOK {
				if _, isSl := st.Field(0).Type().Underlying().(*types.Slice); isSl {
					ok = true
					exc = " (token tree: overwritten from index 0, stale suffix cut by Trim on the success path)"
				}
			}
		}
		r.Oblige(ok)
		var ws []string
		for w := range ci.writers {
			ws = append(ws, w)
		}
		sort.Strings(ws)
		r.Sample("matcher variable %q: %d writer closure(s); assigned in reset on every path: %v%s", ci.name, len(ws), ci.reset, exc)
		if !ok {
			r.Violation("matcher variable "+ci.name+" is not re-initialised by reset", p.RelPos(resetFn.Pos()),
				"variable %q captured by the rule closures is written during matching (e.g. by %s) but the reset closure does not assign it on every path: matcher state survives into the next Parse", ci.name, ws[0])
		}
	}
	return r
}

// ruleConfig: R-CONFIG.
func ruleConfig(c *engine.Context) *report.Rule {
	r := report.NewRule("R-CONFIG", "configuration memory is only copied into the action state of the current Parse and never retained", 1)
	p := c.P
	a := regionsOf(c)
	asIdx := actionStateIndex(p)
	pg := a.GlobalObj(p.Roles.ParserGlobal)
	asObj := a.SubIfExists(pg, regions.FieldKey(asIdx))
	// every store whose value may be CFG memory targets the action state (reset on exit) or a local
	for _, e := range a.Effects {
		hasCFG := false
		for _, v := range e.Values {
			if a.Class(v) == regions.ClsCFG {
				hasCFG = true
			}
		}
		if !hasCFG {
			continue
		}
		if a.Class(targetsRootOr(e, nil)) == regions.ClsCFG && (e.Fn.Object() != nil && e.Fn.Object().Exported()) && e.Fn.Signature.Recv() != nil {
			continue // Config's own setters write Config memory
		}
		for _, t := range e.Targets {
			r.Instances++
			cls := a.Class(t)
			ok := (asObj != nil && regions.Under(t, asObj)) || cls == regions.ClsCFG
			if !ok {
				// a local variable cell of a PARSE function that does not escape: Alloc not Heap
				if al, isAl := t.Root().Site.(*ssa.Alloc); isAl && !al.Heap {
					ok = true
				}
			}
			r.Oblige(ok)
			r.Sample("%s in %s stores configuration memory into %s", describeStore(p, e.Instr), load.FuncName(e.Fn), t)
			if !ok {
				r.Violation("configuration memory retained in "+t.Root().String()+" by "+instrKey(e.Instr, e.What), p.RelPos(e.Instr.Pos()),
					"%s in %s stores a pointer to the caller's Config (its maps) into %s (class %s), which is not reset at the end of Parse: a later Parse or later Config changes can be observed", describeStore(p, e.Instr), load.FuncName(e.Fn), t, cls)
			}
		}
	}
	// EVAL never holds CFG memory
	for _, fn := range load.SortedFuncs(a.EvalReach) {
		if fn.Blocks == nil || !p.InPkg(fn) {
			continue
		}
		for _, b := range fn.Blocks {
			for _, ins := range b.Instrs {
				v, ok := ins.(ssa.Value)
				if !ok {
					continue
				}
				n := a.ValueNode(v)
				if n == nil {
					continue
				}
				for _, o := range n.Pts() {
					if a.Class(o) == regions.ClsCFG {
						r.Oblige(false)
						r.Violation("evaluation holds configuration memory in "+load.FuncName(fn), p.RelPos(ins.Pos()),
							"%s in %s may point to the caller's Config during evaluation", v.Name(), load.FuncName(fn))
					}
				}
			}
		}
	}
	return r
}

func targetsRootOr(e *regions.Effect, def *regions.Object) *regions.Object {
	if len(e.Targets) > 0 {
		return e.Targets[0]
	}
	return def
}

// ruleTreeClosed: R-TREE-CLOSED.
func ruleTreeClosed(c *engine.Context) *report.Rule {
	r := report.NewRule("R-TREE-CLOSED", "the returned function reaches neither parser-owned memory, Config maps nor pooled objects, and no persistent parser state reaches the tree", 10)
	p := c.P
	a := regionsOf(c)
	// TREE = objects reachable from the evaluation closure's free variables
	tree := map[*regions.Object]bool{}
	var frontier []*regions.Object
	for _, n := range a.FreeNodes(p.EvalClosure) {
		if n == nil {
			continue
		}
		for _, o := range n.Pts() {
			if !tree[o] {
				tree[o] = true
				frontier = append(frontier, o)
			}
		}
	}
	for _, o := range append([]*regions.Object(nil), frontier...) {
		for _, x := range regions.ReachableObjects(a, o) {
			tree[x] = true
		}
	}
	r.Instances = len(tree)
	pg := a.GlobalObj(p.Roles.ParserGlobal)
	bad := 0
	for o := range tree {
		cls := a.Class(o)
		viol := ""
		switch {
		case cls == regions.ClsCFG:
			viol = "the caller's Config (its maps)"
		case cls == regions.ClsPOOL:
			viol = "a pooled scratch object"
		case o.Root() == pg:
			viol = "the global parser's storage"
		case o.Root().Kind == regions.KAlloc && o.Root().Fn != nil && engineFunc(p, o.Root().Fn):
			viol = "memory allocated by the generated parser"
		}
		r.Oblige(viol == "")
		if viol != "" {
			bad++
			r.Violation("returned function reaches "+o.Root().String(), "-", "the function returned by Parse can reach %s (%s): later Parse calls or Config changes can alter its behaviour", viol, o.Root())
		}
	}
	r.Sample("objects reachable from the returned function: %d; forbidden: %d", len(tree), bad)
	// (b) persistent parser state must not reach the tree: parser global fields outside the action state + generated Init cells
	asIdx := actionStateIndex(p)
	var roots []*regions.Object
	for _, s := range a.Subs(pg) {
		if s.Key != regions.FieldKey(asIdx) {
			roots = append(roots, s)
		}
	}
	for _, o := range a.Objects() {
		if o.Kind == regions.KAlloc && o.Parent == nil && o.Fn != nil && engineFunc(p, o.Fn) {
			roots = append(roots, o)
		}
	}
	asObj := a.SubIfExists(pg, regions.FieldKey(asIdx))
	persistent := reachFrom(a, roots, func(o *regions.Object) bool { return asObj != nil && regions.Under(o, asObj) })
	seenBad := map[*regions.Object]bool{}
	for x := range persistent {
		// node objects = hand-written PARSE allocations that are part of a returned tree
		if tree[x] && x.Root().Kind == regions.KAlloc && x.Root().Fn != nil && !engineFunc(p, x.Root().Fn) && !seenBad[x.Root()] {
			seenBad[x.Root()] = true
			r.Violation("persistent parser state reaches tree object "+x.Root().String(), "-",
				"memory of the global parser that persists across Parse calls can point to %s, part of a tree handed to a caller: a later Parse could modify an earlier function", x.Root())
		}
	}
	r.Oblige(len(seenBad) == 0)
	r.Note("persistent parser roots examined: %d", len(roots))
	return r
}

// userCallable: exported package-level function, or exported method of an exported type.
func userCallable(fn *ssa.Function) bool {
	if fn.Object() == nil || !fn.Object().Exported() || fn.Parent() != nil {
		return false
	}
	recv := fn.Signature.Recv()
	if recv == nil {
		return true
	}
	t := recv.Type()
	if pt, ok := t.(*types.Pointer); ok {
		t = pt.Elem()
	}
	if nt, ok := t.(*types.Named); ok {
		return nt.Obj().Exported()
	}
	return false
}

// outsideParse returns the package functions reachable from user entry points
// without passing through Parse (user-callable functions, the evaluation
// closure, accessor closures, closures created by user-callable functions),
// and the subset of entry points whose parameters can only carry user values.
func outsideParse(c *engine.Context) (map[*ssa.Function]bool, map[*ssa.Function]bool) {
	type res struct{ a, b map[*ssa.Function]bool }
	v := c.Memo("outsideParse", func() interface{} {
		p := c.P
		a := regionsOf(c)
		parse := p.Roles.Parse
		nonParse := map[*ssa.Function]bool{}
		blind := map[*ssa.Function]bool{}
		var walk func(f *ssa.Function)
		walk = func(f *ssa.Function) {
			if f == nil || f == parse || nonParse[f] || !p.InPkg(f) {
				return
			}
			nonParse[f] = true
			for _, cal := range a.Edges(f) {
				walk(cal)
			}
		}
		for _, fn := range p.Funcs {
			if fn == parse || fn.Name() == "init" {
				continue
			}
			root := fn == p.EvalClosure || userCallable(fn) || regions.IsAccessorClosure(a, fn)
			if !root && fn.Parent() != nil && userCallable(fn.Parent()) && fn.Parent() != parse {
				root = true // closure created by a user-callable function
				blind[fn] = true
			}
			if userCallable(fn) {
				blind[fn] = true
			}
			if root {
				walk(fn)
			}
		}
		// an entry point that is also called from inside the package is not parameter-blind
		return res{nonParse, blind}
	}).(res)
	return v.a, v.b
}

// engineFunc: a function of the generated parsing engine. The generated Execute method is not one:
// its body is the grammar's action code (hand-written Go pasted into a switch), so what it
// allocates are nodes of the tree being built, exactly like allocations in the hand-written
// helpers the actions call; the engine's own persistent memory (token arrays, rule tables, memo
// tables) is allocated by the other generated functions.
func engineFunc(p *load.Program, fn *ssa.Function) bool {
	if !p.FuncIsGenerated(fn) {
		return false
	}
	for f := fn; f != nil; f = f.Parent() {
		if f.Name() == "Execute" && f.Signature.Recv() != nil && f.Parent() == nil {
			return false
		}
	}
	return true
}
