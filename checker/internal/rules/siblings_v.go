package rules

import (
	"fmt"
	"go/token"
	"go/types"
	"sort"
	"strings"

	"golang.org/x/tools/go/ssa"

	"verif/checker/internal/engine"
	"verif/checker/internal/load"
	"verif/checker/internal/report"
)

func init() {
	engine.Register("V-ACCEPT", ruleVAccept)
	engine.Register("V-VALIDATED", ruleVValidated)
	engine.Register("V-LITERAL", ruleVLiteral)
	engine.Register("V-OPS", ruleVOps)
	engine.Register("V-SINGLE-RIGHT", ruleVSingleRight)
}

func methodOf(p *load.Program, T *types.Named, name string) *ssa.Function {
	return p.Prog.LookupMethod(types.NewPointer(T), p.Types, name)
}

func tname(t types.Type) string {
	if t == nil {
		return "nil"
	}
	return types.TypeString(t, func(*types.Package) string { return "" })
}

func isJSONNumber(t types.Type) bool {
	nt, ok := t.(*types.Named)
	return ok && nt.Obj().Pkg() != nil && nt.Obj().Pkg().Path() == "encoding/json" && nt.Obj().Name() == "Number"
}

func isBasicKind(t types.Type, k types.BasicKind) bool {
	b, ok := t.(*types.Basic)
	return ok && b.Kind() == k
}

// validatorInfo is the accept map of one validator.
type validatorInfo struct {
	T      *types.Named
	kept   string // "float64", "bool", "string", "nil", "any"
	keptT  types.Type
	ok     bool
	detail []string
}

func validatorInfos(c *engine.Context) map[*types.Named]*validatorInfo {
	return c.Memo("validatorInfos", func() interface{} {
		p := c.P
		out := map[*types.Named]*validatorInfo{}
		markerT := p.Roles.MarkerType()
		var vts []*types.Named
		vts = append(vts, p.Roles.ValidatorTypes...)
		// comparators that implement the validation method themselves (shadowing the embedded validator)
		for _, C := range p.Roles.ComparatorTypes {
			if ownValidate(p, C) != nil {
				vts = append(vts, C)
			}
		}
		for _, T := range vts {
			vi := &validatorInfo{T: T}
			out[T] = vi
			fn := methodOf(p, T, p.Roles.ValidateMethod)
			if fn == nil || fn.Blocks == nil {
				vi.detail = append(vi.detail, "validate method not found")
				continue
			}
			ll := analyseListLoop(p, fn, firstListParam(fn))
			if ll.reason != "" {
				vi.detail = append(vi.detail, "shape not recognised: "+ll.reason)
				continue
			}
			totalStores := 0
			for _, ep := range ll.paths {
				totalStores += len(ep.stores)
			}
			if totalStores == 0 {
				// permissive validator: found iff some element is not the marker
				vi.kept = "any"
				vi.ok = true
				for _, ep := range ll.paths {
					_ = ep
				}
				// every return true must be under "element != marker"
				for _, b := range fn.Blocks {
					if ret, ok := b.Instrs[len(b.Instrs)-1].(*ssa.Return); ok && len(ret.Results) == 1 {
						if cst, ok := ret.Results[0].(*ssa.Const); ok && cst.Value != nil && cst.Value.String() == "true" {
							known := false
							for _, dc := range dominatingConds(b) {
								if bo, ok := dc.cond.(*ssa.BinOp); ok && (bo.Op == token.NEQ || bo.Op == token.EQL) {
									holdsNeq := (bo.Op == token.NEQ) == dc.taken
									if holdsNeq && (isMarkerValue(p, bo.X) || isMarkerValue(p, bo.Y)) {
										known = true
									}
								}
							}
							if !known {
								vi.ok = false
								vi.detail = append(vi.detail, "reports 'found' without testing the element against the absence marker")
							}
						}
					}
				}
				continue
			}
			if ll.earlyExit {
				vi.detail = append(vi.detail, "loop over the operand list can exit early: later elements are not validated")
			}
			finals := map[string]types.Type{}
			good := !ll.earlyExit
			for _, ep := range ll.paths {
				ft, isNil := ep.typeFact(markerT)
				var final string
				var finalT types.Type
				if len(ep.stores) == 0 {
					switch {
					case isNil:
						final = "nil"
					case ft != nil:
						final, finalT = tname(ft), ft
					default:
						final = "<unvalidated value>"
						good = false
						vi.detail = append(vi.detail, "a path keeps an element of unknown type (no case matched and nothing stored)")
					}
				} else {
					st := ep.stores[len(ep.stores)-1]
					switch st.kind {
					case storeMarker:
						final, finalT = tname(markerT), markerT
					case storeConverted:
						final, finalT = tname(st.typ), st.typ
						if ft == nil || !isJSONNumber(ft) {
							good = false
							vi.detail = append(vi.detail, "conversion applied to an element that is not a json.Number")
						}
					default:
						final = "<other store>"
						good = false
						vi.detail = append(vi.detail, "element overwritten with something other than the absence marker or the normalised number")
					}
					// a kept type must not be overwritten with the marker: handled by kept-set below
				}
				if final != tname(markerT) {
					finals[final] = finalT
				}
				if ep.flagSet && final == tname(markerT) {
					good = false
					vi.detail = append(vi.detail, "reports 'found' for an element it blanks")
				}
			}
			var ks []string
			for k := range finals {
				ks = append(ks, k)
			}
			sort.Strings(ks)
			if len(ks) != 1 {
				good = false
				vi.detail = append(vi.detail, fmt.Sprintf("keeps %d different types after validation: {%s} (must be exactly one JSON type)", len(ks), strings.Join(ks, ", ")))
			} else {
				vi.kept, vi.keptT = ks[0], finals[ks[0]]
				switch vi.kept {
				case "float64", "bool", "string", "nil":
				default:
					good = false
					vi.detail = append(vi.detail, "kept type "+vi.kept+" is not a JSON scalar type")
				}
			}
			// found flag only for kept elements, and for every kept element
			for _, ep := range ll.paths {
				ft, isNil := ep.typeFact(markerT)
				keptPath := len(ep.stores) == 0 && ((isNil && vi.kept == "nil") || (ft != nil && tname(ft) == vi.kept))
				conv := len(ep.stores) > 0 && ep.stores[len(ep.stores)-1].kind == storeConverted
				if (keptPath || conv) != ep.flagSet {
					good = false
					vi.detail = append(vi.detail, "the 'found' result does not correspond to elements of the kept type")
				}
			}
			vi.ok = good
		}
		return out
	}).(map[*types.Named]*validatorInfo)
}

func isMarkerValue(p *load.Program, v ssa.Value) bool {
	mi, ok := v.(*ssa.MakeInterface)
	if !ok {
		return false
	}
	ld, ok := mi.X.(*ssa.UnOp)
	return ok && ld.Op == token.MUL && ld.X == ssa.Value(p.Roles.Marker)
}

// ruleVAccept: V-ACCEPT.
func ruleVAccept(c *engine.Context) *report.Rule {
	r := report.NewRule("V-ACCEPT", "each validator keeps exactly one JSON type (numbers normalised), blanks everything else, and visits every element", 4)
	p := c.P
	infos := validatorInfos(c)
	kinds := map[string]int{}
	for _, T := range p.Roles.ValidatorTypes {
		vi := infos[T]
		r.Instances++
		r.Oblige(vi.ok)
		r.Nontrivial++
		kinds[vi.kept]++
		r.Sample("%s keeps {%s}", T.Obj().Name(), vi.kept)
		if !vi.ok {
			fn := methodOf(p, T, p.Roles.ValidateMethod)
			pos := "-"
			if fn != nil {
				pos = p.RelPos(fn.Pos())
			}
			r.Violation("validator "+T.Obj().Name(), pos, "%s", strings.Join(uniqSorted(vi.detail), "; "))
		}
	}
	for _, k := range []string{"float64", "bool", "string", "nil", "any"} {
		if kinds[k] != 1 {
			r.Oblige(false)
			r.Violation("validator family: kept type "+k, "-", "expected exactly one validator keeping %s, found %d", k, kinds[k])
		}
	}
	return r
}

// embeddedValidator returns the embedded validator of a comparator struct: concrete named type, or nil+true if it embeds the validator interface.
func embeddedValidator(p *load.Program, C *types.Named) (*types.Named, bool) {
	st, ok := C.Underlying().(*types.Struct)
	if !ok {
		return nil, false
	}
	for i := 0; i < st.NumFields(); i++ {
		f := st.Field(i)
		if !f.Embedded() {
			continue
		}
		t := f.Type()
		if types.Identical(t, p.Roles.ValidatorIface) {
			return nil, true
		}
		if pt, ok := t.(*types.Pointer); ok {
			t = pt.Elem()
		}
		if nt, ok := t.(*types.Named); ok {
			for _, V := range p.Roles.ValidatorTypes {
				if V == nt {
					return nt, false
				}
			}
		}
	}
	return nil, false
}

// comparatorInfo summarises one comparator's compare loop.
type comparatorInfo struct {
	C        *types.Named
	op       token.Token // normalised: element OP right
	kind     string      // "ordered", "raweq", "deepeq", "regex"
	asserted types.Type
	ok       bool
	detail   []string
}

func mirrorOp(op token.Token) token.Token {
	switch op {
	case token.LSS:
		return token.GTR
	case token.GTR:
		return token.LSS
	case token.LEQ:
		return token.GEQ
	case token.GEQ:
		return token.LEQ
	}
	return op
}

func comparatorInfos(c *engine.Context) map[*types.Named]*comparatorInfo {
	return c.Memo("comparatorInfos", func() interface{} {
		p := c.P
		out := map[*types.Named]*comparatorInfo{}
		for _, C := range p.Roles.ComparatorTypes {
			ci := &comparatorInfo{C: C, ok: true}
			out[C] = ci
			fn := methodOf(p, C, p.Roles.CompareMethod)
			if fn == nil || fn.Blocks == nil {
				ci.ok = false
				ci.detail = append(ci.detail, "compare method not found")
				continue
			}
			ll := analyseListLoop(p, fn, firstListParam(fn))
			if ll.reason != "" {
				ci.ok = false
				ci.detail = append(ci.detail, "shape not recognised: "+ll.reason)
				continue
			}
			if ll.earlyExit {
				ci.ok = false
				ci.detail = append(ci.detail, "the loop over the left list can exit early")
			}
			for _, ep := range ll.paths {
				// the deciding condition of this path
				for _, cd := range ep.conds {
					switch cd.kind {
					case condCmp:
						op := cd.op
						if !cd.elemOnLeft {
							op = mirrorOp(op)
						}
						if ci.kind != "" && (ci.kind != "ordered" || ci.op != op) {
							ci.ok = false
							ci.detail = append(ci.detail, "more than one deciding comparison")
						}
						ci.kind, ci.op, ci.asserted = "ordered", op, cd.typ
						// true => keep + flag, false => blank
						keep := cd.taken
						if keep && (len(ep.stores) != 0 || !ep.flagSet) {
							ci.ok = false
							ci.detail = append(ci.detail, "a matching element is overwritten or not counted")
						}
						if !keep && (len(ep.stores) != 1 || ep.stores[0].kind != storeMarker || ep.flagSet) {
							ci.ok = false
							ci.detail = append(ci.detail, "a non-matching element is not blanked with the absence marker")
						}
					case condRawEq:
						if p2, isParam := cd.other.(*ssa.Parameter); !isParam || p2.Parent() != fn {
							ci.ok = false
							ci.detail = append(ci.detail, "raw equality against something other than the right operand")
						}
						ci.kind = "raweq"
						holds := cd.taken != cd.neg
						if holds && (len(ep.stores) != 0 || !ep.flagSet) {
							ci.ok = false
							ci.detail = append(ci.detail, "an equal element is overwritten or not counted")
						}
						if !holds && (len(ep.stores) != 1 || ep.stores[0].kind != storeMarker || ep.flagSet) {
							ci.ok = false
							ci.detail = append(ci.detail, "an unequal element is not blanked")
						}
					case condCall:
						switch cd.callee {
						case "reflect.DeepEqual":
							ci.kind = "deepeq"
						case "(*regexp.Regexp).MatchString":
							ci.kind = "regex"
						default:
							ci.ok = false
							ci.detail = append(ci.detail, "deciding call "+cd.callee+" is not tabled")
						}
						holds := cd.taken != cd.neg
						if holds && (len(ep.stores) != 0 || !ep.flagSet) {
							ci.ok = false
							ci.detail = append(ci.detail, "a matching element is overwritten or not counted")
						}
						if !holds && (len(ep.stores) != 1 || ep.stores[0].kind != storeMarker || ep.flagSet) {
							ci.ok = false
							ci.detail = append(ci.detail, "a non-matching element is not blanked")
						}
					}
				}
				// unchecked assertions on the element need the marker skipped first
				for _, as := range ep.asserts {
					if as.onElem {
						if !ep.knows(condIsMarker, false) {
							ci.ok = false
							ci.detail = append(ci.detail, "the element is type-asserted before the absence marker is skipped")
						}
						if ci.asserted == nil {
							ci.asserted = as.typ
						}
					}
				}
				// marker elements are skipped untouched
				if ep.knows(condIsMarker, true) && (len(ep.stores) != 0 || ep.flagSet) {
					ci.ok = false
					ci.detail = append(ci.detail, "a marker element is modified or counted")
				}
			}
			if ci.kind == "" {
				ci.ok = false
				ci.detail = append(ci.detail, "no deciding comparison recognised")
			}
		}
		return out
	}).(map[*types.Named]*comparatorInfo)
}

// ruleVValidated: V-VALIDATED.
func ruleVValidated(c *engine.Context) *report.Rule {
	r := report.NewRule("V-VALIDATED", "comparators run only on validated operand lists and assert exactly the type their validator keeps", 7)
	p := c.P
	vinfos := validatorInfos(c)
	cinfos := comparatorInfos(c)
	// (1) the compare call in the compare-query evaluation is dominated by successful validation of both lists
	found := 0
	for _, Q := range p.Roles.QueryTypes {
		fn := methodOf(p, Q, p.Roles.QueryMethod)
		if fn == nil || fn.Blocks == nil {
			continue
		}
		for _, b := range fn.Blocks {
			for _, ins := range b.Instrs {
				call, ok := ins.(*ssa.Call)
				if !ok || !call.Call.IsInvoke() || call.Call.Method.Name() != p.Roles.CompareMethod {
					continue
				}
				if !types.Identical(call.Call.Value.Type(), p.Roles.ComparatorIface) {
					continue
				}
				found++
				r.Instances++
				leftList := call.Call.Args[0]
				rightVal := call.Call.Args[1]
				// right value must be element 0 of a list
				var rightList ssa.Value
				if ld, ok := rightVal.(*ssa.UnOp); ok {
					if ia, ok := ld.X.(*ssa.IndexAddr); ok {
						if cv, okc := cfgutilConst(ia.Index); okc && cv == 0 {
							rightList = ia.X
						}
					}
				}
				conds := dominatingConds(b)
				validated := map[ssa.Value]bool{}
				validatedBy := map[ssa.Value]*ssa.Call{}
				// truth values of boolean SSA values known here: from the conditions themselves, and
				// through (in)equalities between two booleans (`leftFound != rightFound` being false
				// and `leftFound` being true make `rightFound` true)
				truth := map[ssa.Value]bool{}
				type rel struct {
					a, b ssa.Value
					same bool
				}
				var rels []rel
				for _, dc := range conds {
					inner, neg := unwrapNot(dc.cond)
					truth[inner] = dc.taken != neg
					if bo, isBo := inner.(*ssa.BinOp); isBo && (bo.Op == token.EQL || bo.Op == token.NEQ) {
						if bt, isB := bo.X.Type().Underlying().(*types.Basic); isB && bt.Info()&types.IsBoolean != 0 {
							holds := dc.taken != neg
							rels = append(rels, rel{bo.X, bo.Y, (bo.Op == token.EQL) == holds})
						}
					}
				}
				for changed := true; changed; {
					changed = false
					for _, rl := range rels {
						if va, ok := truth[rl.a]; ok {
							if _, has := truth[rl.b]; !has {
								truth[rl.b] = va == rl.same
								changed = true
							}
						}
						if vb, ok := truth[rl.b]; ok {
							if _, has := truth[rl.a]; !has {
								truth[rl.a] = vb == rl.same
								changed = true
							}
						}
					}
				}
				for v, isTrue := range truth {
					if !isTrue {
						continue
					}
					if vc, ok := v.(*ssa.Call); ok && vc.Call.IsInvoke() && vc.Call.Method.Name() == p.Roles.ValidateMethod && sameFieldLoad(vc.Call.Value, call.Call.Value) && instrDominates(vc, call) {
						validated[vc.Call.Args[0]] = true
						validatedBy[vc.Call.Args[0]] = vc
					}
				}
				ok1 := validated[leftList]
				ok2 := rightList != nil && validated[rightList]
				// validation normalises the list in place (json.Number -> float64, blanking): the
				// element handed to the comparator must be read after it
				if ok2 {
					ld := rightVal.(*ssa.UnOp)
					if vc := validatedBy[rightList]; vc != nil && !instrBefore(vc, ld) {
						r.Oblige(false)
						r.Violation("right operand in "+load.FuncName(fn)+" read before validation", p.RelPos(ld.Pos()),
							"the right operand is read out of its list before the comparator's validator has run on that list; validation converts and blanks elements in place, so the comparator receives an unvalidated value (json.Number instead of float64, or a value of the wrong type) and its unchecked type assertion can panic")
					} else {
						r.Oblige(true)
					}
				}
				r.Oblige(ok1 && ok2)
				r.Sample("%s: compare(left, right[0]) dominated by validate(left)=%v and validate(right)=%v", load.FuncName(fn), ok1, ok2)
				if !(ok1 && ok2) {
					r.Violation("comparator call in "+load.FuncName(fn)+" not guarded by validation", p.RelPos(call.Pos()),
						"the comparator is invoked on operand lists that were not both validated by the same comparator (left validated: %v, right[0] of a validated list: %v): its unchecked type assertions can panic on caller data", ok1, ok2)
				}
			}
		}
	}
	if found == 0 {
		r.InfraFail("anchor unresolved: comparator invocation in the query evaluation")
	}
	// (2) per comparator: loop discipline and asserted type = kept type of its own validator
	for _, C := range p.Roles.ComparatorTypes {
		ci := cinfos[C]
		r.Instances++
		ok := ci.ok
		var details []string
		details = append(details, ci.detail...)
		V, isIface := embeddedValidator(p, C)
		if ownValidate(p, C) != nil {
			// the comparator's own validation method is what runs, not the embedded validator's
			V, isIface = C, false
			if vi := vinfos[C]; vi != nil && !vi.ok {
				ok = false
				details = append(details, "its own validation method (shadowing the embedded validator): "+strings.Join(uniqSorted(vi.detail), "; "))
			}
		}
		switch {
		case isIface:
			if ci.kind != "raweq" {
				// interface-embedded validator is for literal equality
			}
		case V == nil:
			ok = false
			details = append(details, "no embedded validator found")
		default:
			vi := vinfos[V]
			switch ci.kind {
			case "ordered", "regex":
				if ci.asserted == nil || vi.keptT == nil || !types.Identical(ci.asserted, vi.keptT) {
					ok = false
					details = append(details, fmt.Sprintf("asserts %s but its validator %s keeps %s", tname(ci.asserted), V.Obj().Name(), vi.kept))
				}
			case "deepeq":
				if vi.kept != "any" {
					ok = false
					details = append(details, "deep equality must use the permissive validator")
				}
			case "raweq":
				if vi.kept == "any" {
					ok = false
					details = append(details, "raw interface equality on unvalidated values can panic for uncomparable types")
				}
			}
		}
		want := map[string]types.BasicKind{"ordered": types.Float64, "regex": types.String}
		if k, has := want[ci.kind]; has && ci.asserted != nil && !isBasicKind(ci.asserted, k) {
			ok = false
			details = append(details, fmt.Sprintf("%s comparison on %s", ci.kind, tname(ci.asserted)))
		}
		r.Oblige(ok)
		r.Nontrivial++
		vname := "interface (chosen per literal)"
		if V != nil {
			vname = V.Obj().Name()
		}
		r.Sample("%s: kind=%s op=%s asserts=%s validator=%s", C.Obj().Name(), ci.kind, ci.op, tname(ci.asserted), vname)
		if !ok {
			fn := methodOf(p, C, p.Roles.CompareMethod)
			pos := "-"
			if fn != nil {
				pos = p.RelPos(fn.Pos())
			}
			r.Violation("comparator "+C.Obj().Name(), pos, "%s", strings.Join(uniqSorted(details), "; "))
		}
	}
	return r
}

func cfgutilConst(v ssa.Value) (int64, bool) {
	c, ok := v.(*ssa.Const)
	if !ok || c.Value == nil {
		return 0, false
	}
	if i, ok := constInt64(c); ok {
		return i, true
	}
	return 0, false
}

func constInt64(c *ssa.Const) (int64, bool) {
	if c.Value == nil {
		return 0, false
	}
	s := c.Value.ExactString()
	var i int64
	_, err := fmt.Sscanf(s, "%d", &i)
	return i, err == nil
}

// sameFieldLoad: both values are loads of the same field of the same base value.
func sameFieldLoad(a, b ssa.Value) bool {
	if a == b {
		return true
	}
	la, ok1 := a.(*ssa.UnOp)
	lb, ok2 := b.(*ssa.UnOp)
	if !ok1 || !ok2 {
		return false
	}
	fa, ok1 := la.X.(*ssa.FieldAddr)
	fb, ok2 := lb.X.(*ssa.FieldAddr)
	return ok1 && ok2 && fa.X == fb.X && fa.Field == fb.Field
}

// builderCall: one construction of a compare query inside a builder.
type builderSite struct {
	fn                *ssa.Function
	call              ssa.Instruction       // the constructor call, or the allocation of the query when the builder fills it itself
	cmpType           *types.Named          // comparator type constructed
	valType           *types.Named          // validator stored into an interface-embedded comparator (DirectEQ), if any
	valStored         ssa.Value             // the value stored as that validator (a conversion to the interface, or a phi of such)
	left              ssa.Value             // value assigned to the LEFT role
	right             ssa.Value             // value assigned to the RIGHT role
	viaPred, viaBlock *ssa.BasicBlock       // the comparator is this phi operand: only on paths through this edge
	prune             func(fp *fnPath) bool // paths that cannot be taken (set by builderSites)
}

// onPath: the site is constructed on this path.
func (bs *builderSite) onPath(fp *fnPath) bool {
	if !fp.contains(bs.call) {
		return false
	}
	if bs.prune != nil && bs.prune(fp) {
		return false
	}
	if bs.viaPred == nil {
		return true
	}
	for k := 1; k < len(fp.blocks); k++ {
		if fp.blocks[k] == bs.viaBlock && fp.blocks[k-1] == bs.viaPred {
			return true
		}
	}
	return false
}

// queryRoles finds, in the compare-query type, which field is LEFT (its list goes to the comparator) and RIGHT.
type compareQueryShape struct {
	Q          *types.Named
	leftField  int
	rightField int
	cmpField   int
	ctor       *ssa.Function // constructor function storing params into the fields
	ctorLeft   int           // parameter index assigned to LEFT
	ctorRight  int
	ctorCmp    int
}

func findCompareQueryShape(c *engine.Context) *compareQueryShape {
	v := c.Memo("compareQueryShape", func() interface{} {
		p := c.P
		for _, Q := range p.Roles.QueryTypes {
			fn := methodOf(p, Q, p.Roles.QueryMethod)
			if fn == nil || fn.Blocks == nil {
				continue
			}
			for _, b := range fn.Blocks {
				for _, ins := range b.Instrs {
					call, ok := ins.(*ssa.Call)
					if !ok || !call.Call.IsInvoke() || call.Call.Method.Name() != p.Roles.CompareMethod || !types.Identical(call.Call.Value.Type(), p.Roles.ComparatorIface) {
						continue
					}
					sh := &compareQueryShape{Q: Q, leftField: -1, rightField: -1, cmpField: -1, ctorLeft: -1, ctorRight: -1, ctorCmp: -1}
					if ld, ok := call.Call.Value.(*ssa.UnOp); ok {
						if fa, ok := ld.X.(*ssa.FieldAddr); ok {
							sh.cmpField = fa.Field
						}
					}
					fieldOfList := func(list ssa.Value) int {
						// list = result of compute on (a field of ...) a field f of the receiver: f
						if ph, isPhi := list.(*ssa.Phi); isPhi {
							for _, e := range ph.Edges {
								if _, isCall := e.(*ssa.Call); isCall {
									list = e
								}
							}
						}
						lc, ok := list.(*ssa.Call)
						if !ok {
							return -1
						}
						var recv ssa.Value
						if lc.Call.IsInvoke() {
							recv = lc.Call.Value
						} else if len(lc.Call.Args) > 0 {
							recv = lc.Call.Args[0]
						}
						field := -1
						for i := 0; i < 6 && recv != nil; i++ {
							ld, ok := recv.(*ssa.UnOp)
							if !ok {
								break
							}
							fa, ok := ld.X.(*ssa.FieldAddr)
							if !ok {
								break
							}
							field = fa.Field
							if len(fn.Params) > 0 && fa.X == ssa.Value(fn.Params[0]) {
								return field
							}
							recv = fa.X
						}
						return -1
					}
					sh.leftField = fieldOfList(call.Call.Args[0])
					if ld, ok := call.Call.Args[1].(*ssa.UnOp); ok {
						if ia, ok := ld.X.(*ssa.IndexAddr); ok {
							sh.rightField = fieldOfList(ia.X)
						}
					}
					if sh.leftField < 0 || sh.rightField < 0 || sh.cmpField < 0 {
						continue
					}
					// constructor: a PARSE function that allocates Q and stores parameters into these fields
					for _, f := range p.Funcs {
						if f.Blocks == nil || !p.ParsePhase[f] {
							continue
						}
						for _, bb := range f.Blocks {
							for _, x := range bb.Instrs {
								st, ok := x.(*ssa.Store)
								if !ok {
									continue
								}
								fa, ok := st.Addr.(*ssa.FieldAddr)
								if !ok {
									continue
								}
								al, ok := fa.X.(*ssa.Alloc)
								if !ok || !types.Identical(al.Type().(*types.Pointer).Elem(), Q) {
									continue
								}
								prm, ok := st.Val.(*ssa.Parameter)
								if !ok {
									continue
								}
								idx := -1
								for i, pp := range f.Params {
									if pp == prm {
										idx = i
									}
								}
								sh.ctor = f
								switch fa.Field {
								case sh.leftField:
									sh.ctorLeft = idx
								case sh.rightField:
									sh.ctorRight = idx
								case sh.cmpField:
									sh.ctorCmp = idx
								}
							}
						}
					}
					if sh.ctor != nil && sh.ctorLeft >= 0 && sh.ctorRight >= 0 && sh.ctorCmp >= 0 {
						return sh
					}
					// no constructor function: the builders fill the query's fields themselves
					sh.ctor = nil
					return sh
				}
			}
		}
		return (*compareQueryShape)(nil)
	})
	return v.(*compareQueryShape)
}

// builderSites lists every construction of a compare query (call of the constructor) in PARSE functions.
func builderSites(c *engine.Context) []*builderSite {
	p := c.P
	sh := findCompareQueryShape(c)
	if sh == nil {
		return nil
	}
	var out []*builderSite
	type rawSite struct {
		at               ssa.Instruction
		left, right, cmp ssa.Value
	}
	for _, fn := range p.Funcs {
		if fn.Blocks == nil || fn == sh.ctor {
			continue
		}
		var raws []rawSite
		for _, b := range fn.Blocks {
			for _, ins := range b.Instrs {
				if call, ok := ins.(*ssa.Call); ok && sh.ctor != nil && call.Call.StaticCallee() == sh.ctor {
					raws = append(raws, rawSite{call, call.Call.Args[sh.ctorLeft], call.Call.Args[sh.ctorRight], call.Call.Args[sh.ctorCmp]})
				}
				if al, ok := ins.(*ssa.Alloc); ok && p.ParsePhase[fn] && types.Identical(al.Type().(*types.Pointer).Elem(), sh.Q) {
					rs := rawSite{at: al}
					for _, ref := range *al.Referrers() {
						fa, ok := ref.(*ssa.FieldAddr)
						if !ok {
							continue
						}
						for _, r2 := range *fa.Referrers() {
							if st, ok := r2.(*ssa.Store); ok && st.Addr == ssa.Value(fa) {
								switch fa.Field {
								case sh.leftField:
									rs.left = st.Val
								case sh.rightField:
									rs.right = st.Val
								case sh.cmpField:
									rs.cmp = st.Val
								}
							}
						}
					}
					// the query may be a copy of a struct value that was filled step by step
					// (`q := T{left, right}; q.cmp = …; push(&copyOf(q))`): the fields are what was
					// last stored into the source before the copy
					for _, ref := range *al.Referrers() {
						st, ok := ref.(*ssa.Store)
						if !ok || st.Addr != ssa.Value(al) {
							continue
						}
						ld, ok := st.Val.(*ssa.UnOp)
						if !ok {
							continue
						}
						src, ok := ld.X.(*ssa.Alloc)
						if !ok {
							continue
						}
						if v := reachingFieldStore(src, sh.leftField, ld); v != nil {
							rs.left = v
						}
						if v := reachingFieldStore(src, sh.rightField, ld); v != nil {
							rs.right = v
						}
						if v := reachingFieldStore(src, sh.cmpField, ld); v != nil {
							rs.cmp = v
						}
					}
					// an allocation that is only the source of such copies is not itself a site
					copiedOnly := false
					for _, ref := range *al.Referrers() {
						if ld, ok := ref.(*ssa.UnOp); ok && ld.X == ssa.Value(al) {
							copiedOnly = true
						}
					}
					escapes := false
					for _, ref := range *al.Referrers() {
						switch ref.(type) {
						case *ssa.FieldAddr, *ssa.Store, *ssa.UnOp, *ssa.DebugRef:
						default:
							escapes = true
						}
					}
					if copiedOnly && !escapes {
						continue
					}
					if rs.left != nil && rs.right != nil && rs.cmp != nil {
						raws = append(raws, rs)
					}
				}
			}
		}
		for _, rs := range raws {
			call := rs.at
			{
				// the comparator may be chosen on the way (a phi of constructed comparators): one site per choice
				type choice struct {
					v         ssa.Value
					pred, blk *ssa.BasicBlock
				}
				choices := []choice{{v: rs.cmp}}
				if ph, isPhi := rs.cmp.(*ssa.Phi); isPhi {
					choices = nil
					for i, e := range ph.Edges {
						choices = append(choices, choice{v: e, pred: ph.Block().Preds[i], blk: ph.Block()})
					}
				}
				for _, ch := range choices {
					bs := &builderSite{fn: fn, call: call, left: rs.left, right: rs.right, viaPred: ch.pred, viaBlock: ch.blk, prune: literalLenPrune(c)}
					cmp := ch.v
					if mi, ok := cmp.(*ssa.MakeInterface); ok {
						if pt, ok := mi.X.Type().(*types.Pointer); ok {
							if nt, ok := pt.Elem().(*types.Named); ok {
								bs.cmpType = nt
							}
						}
						// validator stored into an embedded interface field of the comparator
						if al, ok := mi.X.(*ssa.Alloc); ok {
							for _, ref := range *al.Referrers() {
								if fa, ok := ref.(*ssa.FieldAddr); ok {
									for _, r2 := range *fa.Referrers() {
										if st, ok := r2.(*ssa.Store); ok && st.Addr == ssa.Value(fa) {
											bs.valStored = st.Val
											if vmi, ok := st.Val.(*ssa.MakeInterface); ok {
												if vpt, ok := vmi.X.Type().(*types.Pointer); ok {
													if vnt, ok := vpt.Elem().(*types.Named); ok {
														bs.valType = vnt
													}
												}
											}
										}
									}
								}
							}
						}
					}
					out = append(out, bs)
				}
			}
		}
	}
	return out
}

// ruleVLiteral: V-LITERAL.
func ruleVLiteral(c *engine.Context) *report.Rule {
	r := report.NewRule("V-LITERAL", "each literal kind selects the equality comparator whose validator keeps exactly that kind; non-literals use deep equality", 4)
	p := c.P
	vinfos := validatorInfos(c)
	cinfos := comparatorInfos(c)
	sites := builderSites(c)
	if len(sites) == 0 {
		r.InfraFail("anchor unresolved: compare-query constructor sites")
		return r
	}
	kinds := map[string]bool{}
	for _, bs := range sites {
		if bs.cmpType == nil {
			continue
		}
		ci := cinfos[bs.cmpType]
		if ci == nil || (ci.kind != "raweq" && ci.kind != "deepeq") {
			continue
		}
		r.Instances++
		conds := dominatingConds(bs.call.Block())
		switch ci.kind {
		case "raweq":
			// on every path to this construction: the literal kind established by the type tests of
			// the path, and the validator that the path stores into the comparator
			paths, complete := enumPaths(bs.fn, 256)
			if !complete {
				r.Oblige(false)
				r.Undischarged("equality builder "+load.FuncName(bs.fn)+": paths", p.RelPos(bs.call.Pos()), "too many paths through the builder")
				break
			}
			seenPath := false
			for _, fp := range paths {
				if !bs.onPath(fp) {
					continue
				}
				var kind string
				for _, ec := range fp.conds {
					if !ec.taken {
						continue
					}
					switch x := ec.cond.(type) {
					case *ssa.Extract:
						if ta, ok := x.Tuple.(*ssa.TypeAssert); ok && x.Index == 1 {
							if _, isPtr := ta.AssertedType.(*types.Pointer); !isPtr {
								kind = tname(ta.AssertedType)
							}
						}
					case *ssa.BinOp:
						if x.Op == token.EQL {
							if cst, ok := x.Y.(*ssa.Const); ok && cst.IsNil() {
								kind = "nil"
							}
						}
					}
				}
				kept := "?"
				var vt *types.Named
				if bs.valStored != nil {
					if vmi, ok := fp.resolve(bs.valStored).(*ssa.MakeInterface); ok {
						if vpt, ok := vmi.X.Type().(*types.Pointer); ok {
							vt, _ = vpt.Elem().(*types.Named)
						}
					}
				}
				if vt == nil {
					vt = bs.valType
				}
				if vt != nil && vinfos[vt] != nil {
					kept = vinfos[vt].kept
				}
				if kind == "" {
					continue // a path on which no literal kind is established cannot reach a typed comparator construction (checked below by the kinds seen)
				}
				seenPath = true
				ok := kind == kept
				kinds[kind] = true
				r.Instances++
				r.Oblige(ok)
				r.Sample("%s: literal kind %s → %s with validator keeping %s", load.FuncName(bs.fn), kind, bs.cmpType.Obj().Name(), kept)
				if !ok {
					r.Violation(fmt.Sprintf("equality builder %s: literal kind %s", load.FuncName(bs.fn), kind), p.RelPos(bs.call.Pos()),
						"a %s literal is compared through a validator that keeps %s: comparison would coerce or never match", kind, kept)
				}
			}
			if !seenPath {
				r.Oblige(false)
				r.Violation(fmt.Sprintf("equality builder %s: typed comparison without a literal kind", load.FuncName(bs.fn)), p.RelPos(bs.call.Pos()),
					"the direct-equality comparator is constructed on paths that establish no literal kind")
			}
		case "deepeq":
			// must be on the path where the right operand is NOT a literal parameter
			nonLiteral := false
			failedLiteralTest := func(cs []edgeCond) bool {
				for _, dc := range cs {
					if ex, ok := dc.cond.(*ssa.Extract); ok && !dc.taken {
						if ta, ok := ex.Tuple.(*ssa.TypeAssert); ok {
							if _, isPtr := ta.AssertedType.(*types.Pointer); isPtr {
								return true
							}
						}
					}
				}
				return false
			}
			nonLiteral = failedLiteralTest(conds)
			if !nonLiteral {
				// on every path that can be taken to this construction
				if dpaths, complete := enumPaths(bs.fn, 256); complete {
					all, n := true, 0
					for _, fp := range dpaths {
						if !bs.onPath(fp) {
							continue
						}
						n++
						if !failedLiteralTest(fp.conds) {
							all = false
						}
					}
					nonLiteral = all && n > 0
				}
			}
			r.Oblige(nonLiteral)
			r.Sample("%s: deep equality built on the non-literal branch: %v", load.FuncName(bs.fn), nonLiteral)
			if !nonLiteral {
				r.Violation("equality builder "+load.FuncName(bs.fn)+": deep equality branch", p.RelPos(bs.call.Pos()), "deep equality is constructed on a path where the right operand may be a literal")
			}
			// neither operand may be a literal on any path to this construction: deep equality does
			// not normalise numbers, so `literal == path` must have gone to the direct comparison
			paths, complete := enumPaths(bs.fn, 256)
			litT := literalQueryType(p)
			if litT == nil || !complete {
				r.Oblige(false)
				r.Undischarged("equality builder "+load.FuncName(bs.fn)+": operand kinds", p.RelPos(bs.call.Pos()), "the literal operand type or the builder's paths could not be determined")
				break
			}
			for _, fp := range paths {
				if !bs.onPath(fp) {
					continue
				}
				r.Instances++
				notLit := map[ssa.Value]bool{}
				isLit := map[ssa.Value]bool{}
				for _, ec := range fp.conds {
					cond, neg := unwrapNot(ec.cond)
					b0, at, blk, ok := fieldTypeTest(cond)
					if !ok {
						continue
					}
					pt, ok := at.(*types.Pointer)
					if !ok || !types.Identical(pt.Elem(), litT) {
						continue
					}
					base := fp.resolveAt(b0, blk)
					if ec.taken == neg {
						notLit[base] = true
					} else {
						isLit[base] = true
					}
				}
				infeasible := false
				for b := range notLit {
					if isLit[b] {
						infeasible = true // the same operand tested literal and non-literal
					}
				}
				if infeasible {
					r.Oblige(true)
					continue
				}
				l, rr := fp.resolve(bs.left), fp.resolve(bs.right)
				okL, okR := notLit[l], notLit[rr]
				r.Oblige(okL && okR)
				if !(okL && okR) {
					which := "left"
					if okL {
						which = "right"
					}
					r.Violation("equality builder "+load.FuncName(bs.fn)+": deep equality with a possibly literal "+which+" operand", p.RelPos(bs.call.Pos()),
						"on a path through %s the deep-equality comparator is built although the %s operand was not shown to be a non-literal: `path == literal` and `literal == path` then take different comparators, and deep equality does not convert json.Number, so the two spellings select differently on a document decoded with UseNumber", load.FuncName(bs.fn), which)
				}
			}
		}
	}
	for _, k := range []string{"float64", "bool", "string", "nil"} {
		if !kinds[k] {
			r.Oblige(false)
			r.Violation("equality builder: literal kind "+k+" not handled", "-", "no direct-equality comparator is built for %s literals (the literal grammar pushes float64, bool, string and nil)", k)
		}
	}
	return r
}

// ruleVOps (code half): builder → comparator → operator agreement, mirror on the swapped path, != = NOT(==).
func ruleVOps(c *engine.Context) *report.Rule {
	r := report.NewRule("V-OPS", "comparison builders construct the comparator of their own operator, the mirror comparator when operands are exchanged, and != as NOT(==)", 8)
	p := c.P
	cinfos := comparatorInfos(c)
	sites := builderSites(c)
	// group sites by builder function
	byFn := map[*ssa.Function][]*builderSite{}
	for _, bs := range sites {
		byFn[bs.fn] = append(byFn[bs.fn], bs)
	}
	var fns []*ssa.Function
	for f := range byFn {
		fns = append(fns, f)
	}
	sort.Slice(fns, func(i, j int) bool { return load.FuncName(fns[i]) < load.FuncName(fns[j]) })
	meanings := map[*ssa.Function]token.Token{}
	for _, fn := range fns {
		// only two-operand builders: two parameters of the compare-parameter pointer type
		var prms []*ssa.Parameter
		for _, prm := range fn.Params {
			if pt, ok := prm.Type().(*types.Pointer); ok {
				if _, isSt := pt.Elem().Underlying().(*types.Struct); isSt && prm != fn.Params[0] {
					prms = append(prms, prm)
				}
			}
		}
		if len(prms) != 2 {
			continue
		}
		paths, _ := enumPaths(fn, 64)
		var meaning token.Token
		okAll := true
		ordered := false
		for _, bs := range byFn[fn] {
			ci := cinfos[bs.cmpType]
			if ci == nil || ci.kind != "ordered" {
				continue
			}
			ordered = true
			r.Instances++
			for _, fp := range paths {
				if !bs.onPath(fp) {
					continue
				}
				l, rr := fp.resolve(bs.left), fp.resolve(bs.right)
				var m token.Token
				switch {
				case l == ssa.Value(prms[0]) && rr == ssa.Value(prms[1]):
					m = ci.op
				case l == ssa.Value(prms[1]) && rr == ssa.Value(prms[0]):
					m = mirrorOp(ci.op)
				default:
					okAll = false
					r.Violation("builder "+load.FuncName(fn)+": operands", p.RelPos(bs.call.Pos()), "the comparison is built from something other than the builder's two operands (left/right not both passed on)")
					continue
				}
				if meaning == token.ILLEGAL {
					meaning = m
				} else if meaning != m {
					okAll = false
					r.Violation("builder "+load.FuncName(fn)+": inconsistent operator", p.RelPos(bs.call.Pos()),
						"on one path the builder realises `left %s right`, on another `left %s right`: exchanging the operands must construct the mirror comparator", meaning, m)
				}
			}
			r.Oblige(okAll)
		}
		if ordered {
			meanings[fn] = meaning
			r.Nontrivial++
			r.Sample("%s realises `left %s right` on every path", load.FuncName(fn), meaning)
		}
	}
	// the four ordering operators are each realised by exactly one builder
	seen := map[token.Token]int{}
	for _, m := range meanings {
		seen[m]++
	}
	for _, op := range []token.Token{token.LSS, token.LEQ, token.GTR, token.GEQ} {
		r.Instances++
		r.Oblige(seen[op] == 1)
		if seen[op] != 1 {
			r.Violation("ordering operator "+op.String()+" builders", "-", "expected exactly one builder realising `left %s right`, found %d", op, seen[op])
		}
	}
	c.Memo("builderMeanings", func() interface{} { return meanings })
	// != is NOT(==): a function that calls the equality builder with its operands in order and wraps the popped query in the NOT node
	var eqBuilder *ssa.Function
	for _, bs := range sites {
		if ci := cinfos[bs.cmpType]; ci != nil && (ci.kind == "raweq" || ci.kind == "deepeq") {
			eqBuilder = bs.fn
		}
	}
	neFound := false
	if eqBuilder != nil {
		for _, fn := range p.Funcs {
			if fn.Blocks == nil || fn == eqBuilder || !p.ParsePhase[fn] || p.FuncIsGenerated(fn) {
				continue
			}
			for _, b := range fn.Blocks {
				for _, ins := range b.Instrs {
					call, ok := ins.(*ssa.Call)
					if !ok || call.Call.StaticCallee() != eqBuilder || len(fn.Params) != len(eqBuilder.Params) {
						continue
					}
					neFound = true
					r.Instances++
					inOrder := true
					for i := range fn.Params {
						if call.Call.Args[i] != ssa.Value(fn.Params[i]) {
							inOrder = false
						}
					}
					// wraps in NOT: allocates a query type with a single query field and pushes it
					wraps := false
					for _, bb := range fn.Blocks {
						for _, x := range bb.Instrs {
							if al, ok := x.(*ssa.Alloc); ok {
								if nt, ok := al.Type().(*types.Pointer).Elem().(*types.Named); ok && isNotNode(p, nt) && instrDominates(call, al) {
									wraps = true
								}
							}
							// or hands the popped query to the builder of the NOT node
							if c2, ok := x.(*ssa.Call); ok && c2 != call && instrDominates(call, c2) {
								if sc := c2.Call.StaticCallee(); sc != nil && sc.Blocks != nil && len(sc.Blocks) == 1 {
									for _, y := range sc.Blocks[0].Instrs {
										if al, ok := y.(*ssa.Alloc); ok {
											if nt, ok := al.Type().(*types.Pointer).Elem().(*types.Named); ok && isNotNode(p, nt) {
												// its single field is assigned the helper's parameter
												for _, ref := range *al.Referrers() {
													if fa, ok := ref.(*ssa.FieldAddr); ok {
														for _, r2 := range *fa.Referrers() {
															if st, ok := r2.(*ssa.Store); ok {
																if _, isPrm := st.Val.(*ssa.Parameter); isPrm {
																	wraps = true
																}
															}
														}
													}
												}
											}
										}
									}
								}
							}
						}
					}
					r.Oblige(inOrder && wraps)
					r.Sample("%s = NOT(%s(left,right)): operands in order=%v wraps in NOT=%v", load.FuncName(fn), load.FuncName(eqBuilder), inOrder, wraps)
					if !(inOrder && wraps) {
						r.Violation("inequality builder "+load.FuncName(fn), p.RelPos(call.Pos()), "`!=` must be built as NOT(==) over the same operands in the same order (operands in order: %v, NOT wrapper: %v)", inOrder, wraps)
					}
				}
			}
		}
	}
	if !neFound {
		r.Oblige(false)
		r.Undischarged("inequality builder", "-", "no builder that derives != from the equality builder was found")
	}
	return r
}

// isNotNode: query type with exactly one field, of the query interface type.
func isNotNode(p *load.Program, nt *types.Named) bool {
	st, ok := nt.Underlying().(*types.Struct)
	if !ok || st.NumFields() != 1 {
		return false
	}
	if !types.Identical(st.Field(0).Type(), p.Roles.QueryIface) {
		return false
	}
	for _, q := range p.Roles.QueryTypes {
		if q == nt {
			return true
		}
	}
	return false
}

// ruleVSingleRight: V-SINGLE-RIGHT — the RIGHT operand of every constructed comparison is constant w.r.t. the member.
func ruleVSingleRight(c *engine.Context) *report.Rule {
	r := report.NewRule("V-SINGLE-RIGHT", "a comparison is never built with a per-member operand on the right of a member-independent one (evaluation reads only right[0])", 6)
	p := c.P
	sites := builderSites(c)
	for _, bs := range sites {
		// two-operand builders only
		var prms []*ssa.Parameter
		for _, prm := range bs.fn.Params {
			if pt, ok := prm.Type().(*types.Pointer); ok && prm != bs.fn.Params[0] {
				if st, isSt := pt.Elem().Underlying().(*types.Struct); isSt && hasBoolField(st) {
					prms = append(prms, prm)
				}
			}
		}
		if len(prms) != 2 {
			continue
		}
		paths, _ := enumPaths(bs.fn, 64)
		for _, fp := range paths {
			if !bs.onPath(fp) {
				continue
			}
			r.Instances++
			l, rr := fp.resolve(bs.left), fp.resolve(bs.right)
			// facts about the member-independence flags on this path
			flag := map[ssa.Value]*bool{}
			for _, ec := range fp.conds {
				inner, neg := unwrapNot(ec.cond)
				base, _, ok := boolFieldLoad(inner)
				if !ok {
					continue
				}
				base = fp.resolve(base)
				v := ec.taken != neg
				flag[base] = &v
			}
			// an operand whose query was tested to be of a type that does not use the member list
			// (a literal, a `$`-rooted operand) is member-independent whatever its flag says
			indep := memberIndependentTypes(p)
			for _, ec := range fp.conds {
				cond, neg := unwrapNot(ec.cond)
				b0, at, blk, ok := fieldTypeTest(cond)
				if !ok || ec.taken == neg {
					continue
				}
				pt, ok := at.(*types.Pointer)
				if !ok {
					continue
				}
				nt, ok := pt.Elem().(*types.Named)
				if !ok || !indep[nt] {
					continue
				}
				t := true
				flag[fp.resolveAt(b0, blk)] = &t
			}
			// violation iff we cannot exclude (l.flag == true && r.flag == false)
			lf, rf := flag[l], flag[rr]
			safe := (lf != nil && !*lf) || (rf != nil && *rf)
			r.Oblige(safe)
			if len(r.Samples) < 10 {
				r.Sample("%s → %s: path facts left.const=%s right.const=%s ⇒ right operand cannot be the only per-member one: %v", load.FuncName(bs.fn), bs.cmpType.Obj().Name(), fmtBoolPtr(lf), fmtBoolPtr(rf), safe)
			}
			if !safe {
				r.Violation(fmt.Sprintf("builder %s constructing %s: right operand may be per-member", load.FuncName(bs.fn), bs.cmpType.Obj().Name()), p.RelPos(bs.call.Pos()),
					"on a path through %s the comparison is built without establishing that the left operand is per-member or the right operand is member-independent (left.const=%s, right.const=%s); evaluation compares only against right[0], so `const OP @path` would test the first member only",
					load.FuncName(bs.fn), fmtBoolPtr(lf), fmtBoolPtr(rf))
			}
		}
	}
	return r
}

func hasBoolField(st *types.Struct) bool {
	for i := 0; i < st.NumFields(); i++ {
		if b, ok := st.Field(i).Type().Underlying().(*types.Basic); ok && b.Kind() == types.Bool {
			return true
		}
	}
	return false
}

func fmtBoolPtr(b *bool) string {
	if b == nil {
		return "unknown"
	}
	if *b {
		return "true"
	}
	return "false"
}

// instrBefore: a executes before b on every path reaching b (a's block strictly dominates b's, or same block and earlier).
func instrBefore(a, b ssa.Instruction) bool {
	if a.Block() == b.Block() {
		for _, ins := range a.Block().Instrs {
			if ins == a {
				return true
			}
			if ins == b {
				return false
			}
		}
		return false
	}
	return a.Block().Dominates(b.Block())
}

// ownValidate: the validation method declared on comparator type C itself (not promoted from an embedded validator), or nil.
func ownValidate(p *load.Program, C *types.Named) *ssa.Function {
	fn := methodOf(p, C, p.Roles.ValidateMethod)
	if fn == nil || fn.Blocks == nil || fn.Synthetic != "" {
		return nil
	}
	pt, ok := fn.Signature.Recv().Type().(*types.Pointer)
	if !ok || !types.Identical(pt.Elem(), C) {
		return nil
	}
	return fn
}

// literalQueryType: the query type holding a constant list (its evaluation ignores root and member list).
func literalQueryType(p *load.Program) *types.Named {
	var out *types.Named
	for fn := range queryComputeFuncs(p) {
		rt := fn.Signature.Recv().Type()
		if pt, ok := rt.(*types.Pointer); ok {
			rt = pt.Elem()
		}
		nt, ok := rt.(*types.Named)
		if !ok {
			continue
		}
		st, ok := nt.Underlying().(*types.Struct)
		if !ok || st.NumFields() != 1 || !isIfaceSliceT(st.Field(0).Type()) {
			continue
		}
		out = nt
	}
	return out
}

// memberIndependentTypes: query types whose evaluation never reads the member list it is given.
func memberIndependentTypes(p *load.Program) map[*types.Named]bool {
	out := map[*types.Named]bool{}
	for fn, list := range queryComputeFuncs(p) {
		rt := fn.Signature.Recv().Type()
		if pt, ok := rt.(*types.Pointer); ok {
			rt = pt.Elem()
		}
		if nt, ok := rt.(*types.Named); ok && (list.Referrers() == nil || len(*list.Referrers()) == 0) {
			out[nt] = true
		}
	}
	return out
}

// reachingFieldStore: the value of field f of the local struct src when instruction at runs: the
// unique store into that field that dominates at and is dominated by every other such store
// that dominates at; nil when stores that do not dominate at exist (the value depends on the path).
func reachingFieldStore(src *ssa.Alloc, f int, at ssa.Instruction) ssa.Value {
	var doms []*ssa.Store
	for _, ref := range *src.Referrers() {
		fa, ok := ref.(*ssa.FieldAddr)
		if !ok || fa.Field != f {
			continue
		}
		for _, r2 := range *fa.Referrers() {
			st, ok := r2.(*ssa.Store)
			if !ok || st.Addr != ssa.Value(fa) {
				continue
			}
			if instrDominates(st, at) {
				doms = append(doms, st)
			} else if reaches(st, at) {
				return nil
			}
		}
	}
	var last *ssa.Store
	for _, st := range doms {
		isLast := true
		for _, o := range doms {
			if o != st && !instrDominates(o, st) {
				isLast = false
			}
		}
		if isLast {
			last = st
		}
	}
	if last == nil {
		return nil
	}
	return last.Val
}

// reaches: control can flow from instruction a to instruction b.
func reaches(a, b ssa.Instruction) bool {
	if a.Block() == b.Block() {
		if instrBefore(a, b) {
			return true
		}
	}
	seen := map[*ssa.BasicBlock]bool{}
	var walk func(x *ssa.BasicBlock) bool
	walk = func(x *ssa.BasicBlock) bool {
		for _, s := range x.Succs {
			if s == b.Block() {
				return true
			}
			if !seen[s] {
				seen[s] = true
				if walk(s) {
					return true
				}
			}
		}
		return false
	}
	return walk(a.Block())
}

// literalLenPrune: a path that takes the "no element" edge of a test of the length of a literal
// operand's value list cannot be taken: every store into that field, anywhere, stores a list of
// exactly one element (the classification L-CLASS uses), so `len(x.literal) > 0` is always true.
func literalLenPrune(c *engine.Context) func(fp *fnPath) bool {
	p := c.P
	lit := literalQueryType(p)
	if lit == nil {
		return nil
	}
	oneElem := literalFieldIsOne(c)
	if !oneElem {
		return nil
	}
	edge := literalLenEdgeInfeasible(c)
	return func(fp *fnPath) bool {
		for _, ec := range fp.conds {
			if edge(ec.cond, ec.taken) {
				return true
			}
		}
		return false
	}
}

// literalLenEdgeInfeasible: the edge test behind literalLenPrune (nil-safe: answers false when the
// one-element classification does not hold).
func literalLenEdgeInfeasible(c *engine.Context) func(cond ssa.Value, taken bool) bool {
	p := c.P
	lit := literalQueryType(p)
	never := func(ssa.Value, bool) bool { return false }
	if lit == nil || !literalFieldIsOne(c) {
		return never
	}
	return func(cond ssa.Value, taken bool) bool {
		inner, neg := unwrapNot(cond)
		bo, isBo := inner.(*ssa.BinOp)
		if !isBo {
			return false
		}
		op, x, y := bo.Op, bo.X, bo.Y
		if _, isLen := lenArg(x); !isLen {
			if _, isLen2 := lenArg(y); !isLen2 {
				return false
			}
			x, y = y, x
			op = mirrorOp(op)
		}
		lx, _ := lenArg(x)
		ld, isLd := lx.(*ssa.UnOp)
		if !isLd {
			return false
		}
		fa, isFA := ld.X.(*ssa.FieldAddr)
		if !isFA || fa.Field != 0 {
			return false
		}
		pt, isP := fa.X.Type().Underlying().(*types.Pointer)
		if !isP || !types.Identical(pt.Elem(), lit) {
			return false
		}
		cv, isC := cfgutilConst(y)
		if !isC {
			return false
		}
		// truth of the comparison for len == 1
		var holds bool
		switch op {
		case token.GTR:
			holds = 1 > cv
		case token.GEQ:
			holds = 1 >= cv
		case token.LSS:
			holds = 1 < cv
		case token.LEQ:
			holds = 1 <= cv
		case token.EQL:
			holds = 1 == cv
		case token.NEQ:
			holds = 1 != cv
		default:
			return false
		}
		return (taken != neg) != holds
	}
}

// literalFieldIsOne: every store into the value-list field of the literal operand, anywhere,
// stores a list of exactly one element.
func literalFieldIsOne(c *engine.Context) bool {
	p := c.P
	lit := literalQueryType(p)
	if lit == nil {
		return false
	}
	return c.Memo("literalFieldIsOne", func() interface{} {
		lc := &lclassCtx{p: p, comp: map[*ssa.Function]*ssa.Parameter{}}
		ok, n := true, 0
		for _, f2 := range p.Funcs {
			for _, b := range f2.Blocks {
				for _, ins := range b.Instrs {
					st, isSt := ins.(*ssa.Store)
					if !isSt {
						continue
					}
					fa, isFA := st.Addr.(*ssa.FieldAddr)
					if !isFA || fa.Field != 0 {
						continue
					}
					pt, isP := fa.X.Type().Underlying().(*types.Pointer)
					if !isP || !types.Identical(pt.Elem(), lit) {
						continue
					}
					n++
					if lc.classify(f2, nil, st.Val, map[ssa.Value]bool{}) != lcOne {
						ok = false
					}
				}
			}
		}
		return ok && n > 0
	}).(bool)
}
