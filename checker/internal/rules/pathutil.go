package rules

import (
	"go/token"
	"go/types"

	"golang.org/x/tools/go/ssa"
)

// fnPath is one acyclic entry-to-exit path of a small function.
type fnPath struct {
	blocks []*ssa.BasicBlock
	conds  []edgeCond      // condition of every If passed, with the edge taken
	exit   ssa.Instruction // Return or Panic
}

type edgeCond struct {
	cond  ssa.Value
	taken bool
	at    *ssa.If
}

// enumPaths enumerates acyclic paths of fn from entry to Return/Panic (loops: back edges are not followed).
func enumPaths(fn *ssa.Function, limit int) ([]*fnPath, bool) {
	var out []*fnPath
	complete := true
	if len(fn.Blocks) == 0 {
		return nil, true
	}
	var walk func(b *ssa.BasicBlock, cur fnPath, on map[*ssa.BasicBlock]bool)
	walk = func(b *ssa.BasicBlock, cur fnPath, on map[*ssa.BasicBlock]bool) {
		if len(out) >= limit {
			complete = false
			return
		}
		cur.blocks = append(append([]*ssa.BasicBlock(nil), cur.blocks...), b)
		last := b.Instrs[len(b.Instrs)-1]
		switch x := last.(type) {
		case *ssa.Return, *ssa.Panic:
			cur.exit = x
			c := cur
			if c.feasible() {
				c.addResolvedConds()
				out = append(out, &c)
			}
			return
		case *ssa.If:
			for i, s := range b.Succs {
				if on[s] {
					continue
				}
				n := cur
				n.conds = append(append([]edgeCond(nil), cur.conds...), edgeCond{cond: x.Cond, taken: i == 0, at: x})
				on[s] = true
				walk(s, n, on)
				delete(on, s)
			}
			return
		}
		for _, s := range b.Succs {
			if on[s] {
				continue
			}
			on[s] = true
			walk(s, cur, on)
			delete(on, s)
		}
	}
	walk(fn.Blocks[0], fnPath{}, map[*ssa.BasicBlock]bool{fn.Blocks[0]: true})
	return out, complete
}

// addResolvedConds: a condition that is a phi (a boolean computed into a variable first:
// `need := a && !b; if need {`) is, on this path, the value of the edge the path came through;
// that value's truth is recorded as a condition of its own.
func (fp *fnPath) addResolvedConds() {
	n := len(fp.conds)
	for i := 0; i < n; i++ {
		ec := fp.conds[i]
		v, neg := ec.cond, false
		changed := false
		for k := 0; k < 8; k++ {
			if u, ok := v.(*ssa.UnOp); ok && u.Op == token.NOT {
				neg = !neg
				v = u.X
				continue
			}
			if _, ok := v.(*ssa.Phi); ok {
				rv := fp.resolveAt(v, ec.at.Block())
				if rv == v {
					break
				}
				v, changed = rv, true
				continue
			}
			break
		}
		if !changed {
			continue
		}
		if _, isC := v.(*ssa.Const); isC {
			continue
		}
		fp.conds = append(fp.conds[:len(fp.conds):len(fp.conds)], edgeCond{cond: v, taken: ec.taken != neg, at: ec.at})
	}
}

// feasible: no condition on the path is, along this very path, a boolean constant that
// contradicts the edge taken (a flag set to true/false on the branch the path came through).
func (fp *fnPath) feasible() bool {
	// one value, one truth: the path does not repeat a block, so a condition value tested twice
	// goes the same way both times
	seen := map[ssa.Value]bool{}
	for _, ec := range fp.conds {
		if t, ok := seen[ec.cond]; ok && t != ec.taken {
			return false
		}
		seen[ec.cond] = ec.taken
	}
	for _, ec := range fp.conds {
		v := fp.resolveAt(ec.cond, ec.at.Block())
		neg := false
		for {
			if u, ok := v.(*ssa.UnOp); ok && u.Op == token.NOT {
				neg = !neg
				v = fp.resolveAt(u.X, ec.at.Block())
				continue
			}
			break
		}
		if c, ok := v.(*ssa.Const); ok && c.Value != nil {
			if b, isB := c.Type().Underlying().(*types.Basic); isB && b.Info()&types.IsBoolean != 0 {
				val := c.Value.ExactString() == "true"
				if (val != neg) != ec.taken {
					return false
				}
			}
		}
	}
	return true
}

// resolve follows phis along the path: returns the value v denotes when control is in block at.
func (fp *fnPath) resolve(v ssa.Value) ssa.Value {
	for i := 0; i < 8; i++ {
		ph, ok := v.(*ssa.Phi)
		if !ok {
			return v
		}
		// find the position of ph's block on the path and the predecessor taken
		found := false
		for k := 1; k < len(fp.blocks); k++ {
			if fp.blocks[k] == ph.Block() {
				pred := fp.blocks[k-1]
				for ei, pb := range ph.Block().Preds {
					if pb == pred {
						v = ph.Edges[ei]
						found = true
					}
				}
			}
		}
		if !found {
			return v
		}
	}
	return v
}

// resolveAt follows phis like resolve, but only through phi blocks the path has entered before
// (or at) block at: the value v denotes when control is in block at.
func (fp *fnPath) resolveAt(v ssa.Value, at *ssa.BasicBlock) ssa.Value {
	pos := -1
	for k, b := range fp.blocks {
		if b == at {
			pos = k
		}
	}
	if pos < 0 {
		return fp.resolve(v)
	}
	sub := &fnPath{blocks: fp.blocks[:pos+1]}
	return sub.resolve(v)
}

// contains reports whether instruction ins lies on the path.
func (fp *fnPath) contains(ins ssa.Instruction) bool {
	for _, b := range fp.blocks {
		if b == ins.Block() {
			return true
		}
	}
	return false
}

// dominatingConds returns the If conditions that hold whenever block b executes.
func dominatingConds(b *ssa.BasicBlock) []edgeCond {
	raw := dominatingCondsRaw(b)
	// a short-circuit `a && b` (resp. `a || b`) used as a condition is a bool phi: being true
	// (resp. false) means that every operand was true (resp. false)
	var out []edgeCond
	for _, dc := range raw {
		out = append(out, dc)
		out = append(out, shortCircuitOperands(dc, 0)...)
	}
	return out
}

// shortCircuitOperands expands a condition that is a short-circuit phi into what it implies.
func shortCircuitOperands(dc edgeCond, depth int) []edgeCond {
	ph, ok := dc.cond.(*ssa.Phi)
	if !ok || depth > 3 {
		return nil
	}
	if b, isB := ph.Type().Underlying().(*types.Basic); !isB || b.Kind() != types.Bool {
		return nil
	}
	// `&&`: constant edges are false; taken == true selects the non-constant edges. `||`: constant edges are true; taken == false selects them.
	var nonConst []int
	constVal, uniform := false, true
	first := true
	for i, e := range ph.Edges {
		c, isC := e.(*ssa.Const)
		if !isC || c.Value == nil {
			nonConst = append(nonConst, i)
			continue
		}
		v := c.Value.String() == "true"
		if first {
			constVal, first = v, false
		} else if v != constVal {
			uniform = false
		}
	}
	if first || !uniform || len(nonConst) != 1 || dc.taken == constVal {
		return nil // not a short-circuit shape, or the phi's value does not pin down which edge was taken
	}
	var out []edgeCond
	idx := nonConst[0]
	inner := edgeCond{cond: ph.Edges[idx], taken: dc.taken, at: dc.at}
	out = append(out, inner)
	out = append(out, shortCircuitOperands(inner, depth+1)...)
	// the operands tested on the way to that edge
	pred := ph.Block().Preds[idx]
	for _, pc := range dominatingCondsRaw(pred) {
		if pc.at.Block() == dc.at.Block() || dominatesBlock(dc.at.Block(), pc.at.Block()) {
			continue // already known before the phi's condition: reported separately
		}
		out = append(out, pc)
		out = append(out, shortCircuitOperands(pc, depth+1)...)
	}
	return out
}

func dominatesBlock(a, b *ssa.BasicBlock) bool { return a == b || a.Dominates(b) }

func dominatingCondsRaw(b *ssa.BasicBlock) []edgeCond {
	var out []edgeCond
	for d := b.Idom(); d != nil; d = d.Idom() {
		ifi, ok := d.Instrs[len(d.Instrs)-1].(*ssa.If)
		if !ok {
			continue
		}
		t, f := d.Succs[0], d.Succs[1]
		domT := t.Dominates(b) && len(t.Preds) == 1
		domF := f.Dominates(b) && len(f.Preds) == 1
		if domT && !domF {
			out = append(out, edgeCond{cond: ifi.Cond, taken: true, at: ifi})
		} else if domF && !domT {
			out = append(out, edgeCond{cond: ifi.Cond, taken: false, at: ifi})
		}
	}
	return out
}

// boolFieldLoad: v is a load of a bool field of a struct pointed to by base; returns base and field index.
func boolFieldLoad(v ssa.Value) (base ssa.Value, field int, ok bool) {
	ld, isLd := v.(*ssa.UnOp)
	if !isLd || ld.Op != token.MUL {
		return nil, 0, false
	}
	fa, isFA := ld.X.(*ssa.FieldAddr)
	if !isFA {
		return nil, 0, false
	}
	if b, isB := ld.Type().Underlying().(*types.Basic); !isB || b.Kind() != types.Bool {
		return nil, 0, false
	}
	return fa.X, fa.Field, true
}

// unwrapNot strips boolean negations, returning the inner value and whether it was negated.
func unwrapNot(v ssa.Value) (ssa.Value, bool) {
	neg := false
	for {
		u, ok := v.(*ssa.UnOp)
		if !ok || u.Op != token.NOT {
			return v, neg
		}
		v = u.X
		neg = !neg
	}
}

// fieldTypeTest recognises a condition that tests the dynamic type of a field of an operand:
// directly `_, ok := base.f.(*T)`, or through a one-block predicate helper of the package whose
// result is such a test on one of its parameters. It returns the operand (base), the asserted
// type and the block in which the test is evaluated.
func fieldTypeTest(cond ssa.Value) (base ssa.Value, asserted types.Type, blk *ssa.BasicBlock, ok bool) {
	direct := func(v ssa.Value) (ssa.Value, types.Type, *ssa.BasicBlock, bool) {
		ex, isE := v.(*ssa.Extract)
		if !isE || ex.Index != 1 {
			return nil, nil, nil, false
		}
		ta, isTA := ex.Tuple.(*ssa.TypeAssert)
		if !isTA || !ta.CommaOk {
			return nil, nil, nil, false
		}
		ld, isLd := ta.X.(*ssa.UnOp)
		if !isLd || ld.Op != token.MUL {
			return nil, nil, nil, false
		}
		fa, isFA := ld.X.(*ssa.FieldAddr)
		if !isFA {
			return nil, nil, nil, false
		}
		return fa.X, ta.AssertedType, ta.Block(), true
	}
	if b, t, bl, isD := direct(cond); isD {
		return b, t, bl, true
	}
	call, isCall := cond.(*ssa.Call)
	if !isCall {
		return nil, nil, nil, false
	}
	sc := call.Call.StaticCallee()
	if sc == nil || len(sc.Blocks) != 1 {
		return nil, nil, nil, false
	}
	ret, isRet := sc.Blocks[0].Instrs[len(sc.Blocks[0].Instrs)-1].(*ssa.Return)
	if !isRet || len(ret.Results) != 1 {
		return nil, nil, nil, false
	}
	b, t, _, isD := direct(ret.Results[0])
	if !isD {
		return nil, nil, nil, false
	}
	prm, isPrm := b.(*ssa.Parameter)
	if !isPrm {
		return nil, nil, nil, false
	}
	for i, pp := range sc.Params {
		if pp == prm && i < len(call.Call.Args) {
			return call.Call.Args[i], t, call.Block(), true
		}
	}
	return nil, nil, nil, false
}

// typeSetPredicate recognises a helper `func(…, x interface{}) bool` whose body only tests the
// dynamic type of x and returns true exactly for a fixed set of types.
func typeSetPredicate(fn *ssa.Function) (param *ssa.Parameter, set []types.Type, ok bool) {
	if fn == nil || fn.Blocks == nil || fn.Signature.Results().Len() != 1 {
		return nil, nil, false
	}
	if b, isB := fn.Signature.Results().At(0).Type().Underlying().(*types.Basic); !isB || b.Kind() != types.Bool {
		return nil, nil, false
	}
	for _, b := range fn.Blocks {
		for _, ins := range b.Instrs {
			switch ins.(type) {
			case *ssa.TypeAssert, *ssa.Extract, *ssa.If, *ssa.Return, *ssa.Jump, *ssa.Phi, *ssa.DebugRef:
			default:
				return nil, nil, false
			}
		}
	}
	paths, complete := enumPaths(fn, 64)
	if !complete || len(paths) == 0 {
		return nil, nil, false
	}
	for _, fp := range paths {
		ret, isRet := fp.exit.(*ssa.Return)
		if !isRet {
			return nil, nil, false
		}
		rv := fp.resolve(ret.Results[0])
		cst, isC := rv.(*ssa.Const)
		if !isC || cst.Value == nil {
			return nil, nil, false
		}
		val := cst.Value.String() == "true"
		var taken types.Type
		for _, ec := range fp.conds {
			ex, isE := ec.cond.(*ssa.Extract)
			if !isE || ex.Index != 1 {
				return nil, nil, false
			}
			ta, isTA := ex.Tuple.(*ssa.TypeAssert)
			if !isTA {
				return nil, nil, false
			}
			prm, isP := ta.X.(*ssa.Parameter)
			if !isP || (param != nil && prm != param) {
				return nil, nil, false
			}
			param = prm
			if ec.taken {
				taken = ta.AssertedType
			}
		}
		if val != (taken != nil) {
			return nil, nil, false // true must mean "one of the tested types", false "none"
		}
		if taken != nil {
			dup := false
			for _, t := range set {
				if types.Identical(t, taken) {
					dup = true
				}
			}
			if !dup {
				set = append(set, taken)
			}
		}
	}
	return param, set, param != nil && len(set) > 0
}

// typeTestsOf lists what a condition says about the dynamic type of a value: for
// `_, ok := x.(T)` one entry; for a call of a type-set predicate one entry per type of the set.
// holds reports whether the condition being true means "x has (one of) the type(s)".
func typeTestsOf(cond ssa.Value) (x ssa.Value, ts []types.Type, ok bool) {
	if ex, isE := cond.(*ssa.Extract); isE && ex.Index == 1 {
		if ta, isTA := ex.Tuple.(*ssa.TypeAssert); isTA && ta.CommaOk {
			return ta.X, []types.Type{ta.AssertedType}, true
		}
	}
	if call, isC := cond.(*ssa.Call); isC {
		if sc := call.Call.StaticCallee(); sc != nil {
			if prm, set, isP := typeSetPredicate(sc); isP {
				for i, pp := range sc.Params {
					if pp == prm && i < len(call.Call.Args) {
						return call.Call.Args[i], set, true
					}
				}
			}
		}
	}
	return nil, nil, false
}
