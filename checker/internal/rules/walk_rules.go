package rules

import (
	"fmt"
	"go/token"
	"go/types"
	"sort"
	"strings"

	"golang.org/x/tools/go/ssa"

	"verif/checker/internal/cfgutil"
	"verif/checker/internal/engine"
	"verif/checker/internal/load"
	"verif/checker/internal/regions"
	"verif/checker/internal/report"
)

func init() {
	engine.Register("N-WALK", ruleNWalk)
	engine.Register("N-CTOR", ruleNCtor)
	engine.Register("N-GETSET", ruleNGetSet)
	engine.Register("N-HEAD", ruleNHead)
	engine.Register("U-DECODE", ruleUDecode)
	engine.Register("R-ITER-STABLE", ruleIterStable)
	engine.Register("N-VGSUM", ruleNVgSum)
}

// nodeSetters: the per-node setters of the basic node that store their argument into a field
// (text, connected text, accessor flag, next link): name -> field written.
func nodeSetters(p *load.Program) map[string]int {
	out := map[string]int{}
	for _, fn := range p.Funcs {
		if fn.Signature.Recv() == nil || fn.Blocks == nil || len(fn.Params) != 2 || fn.Signature.Results().Len() != 0 {
			continue
		}
		pt, ok := fn.Signature.Recv().Type().(*types.Pointer)
		if !ok || !types.Identical(pt.Elem(), p.Roles.BasicNode) {
			continue
		}
		for _, b := range fn.Blocks {
			for _, ins := range b.Instrs {
				if st, ok := ins.(*ssa.Store); ok {
					if fa, ok := st.Addr.(*ssa.FieldAddr); ok && fa.X == ssa.Value(fn.Params[0]) && st.Val == ssa.Value(fn.Params[1]) {
						out[fn.Name()] = fa.Field
					}
				}
			}
		}
	}
	return out
}

// compositeEdges: node types that hand their caller's sink to nodes stored in their own fields
// (other than the embedded basic node's next link): T -> fields.
func compositeEdges(c *engine.Context) map[*types.Named][]int {
	p := c.P
	out := map[*types.Named][]int{}
	for _, e := range findRetrieveEdges(c) {
		if !e.sameSink || types.Identical(e.T, p.Roles.BasicNode) {
			continue
		}
		if st, ok := e.T.Underlying().(*types.Struct); ok {
			ft := st.Field(e.field).Type()
			if pt, isPtr := ft.(*types.Pointer); isPtr && types.Identical(pt.Elem(), p.Roles.BasicNode) {
				continue
			}
		}
		out[e.T] = append(out[e.T], e.field)
	}
	return out
}

// setterCallOn: ins calls setter m; returns the receiver value.
func setterCall(p *load.Program, ins ssa.Instruction, setters map[string]int) (m string, recv ssa.Value, static bool, ok bool) {
	call, isCall := ins.(*ssa.Call)
	if !isCall {
		return
	}
	if call.Call.IsInvoke() {
		if _, is := setters[call.Call.Method.Name()]; is && types.Identical(call.Call.Value.Type(), p.Roles.NodeIface) {
			return call.Call.Method.Name(), call.Call.Value, false, true
		}
		return
	}
	if sc := call.Call.StaticCallee(); sc != nil && sc.Signature.Recv() != nil && len(call.Call.Args) == 2 {
		if _, is := setters[sc.Name()]; is {
			return sc.Name(), call.Call.Args[0], true, true
		}
	}
	return
}

// edgesPropagated: which fields of base (a value of type *T) receive setter m inside fn, with
// only harmless guards (type-test ok, bool fields of base, loop conditions).
func edgesPropagated(p *load.Program, fn *ssa.Function, base ssa.Value, m string, setters map[string]int, evalGuards map[int]map[string]bool, mainArg ssa.Value, mainRecv ssa.Value) map[int]bool {
	got := map[int]bool{}
	getters := nodeGetters(p)
	// guards are examined from the point where base is established (its type test) onwards
	var region *ssa.BasicBlock
	if ex, ok := base.(*ssa.Extract); ok {
		region = ex.Block()
	}
	for _, b := range fn.Blocks {
		for _, ins := range b.Instrs {
			mm, recv, _, ok := setterCall(p, ins, setters)
			if !ok || mm != m {
				continue
			}
			f, bs, ok2 := fieldOfBase(recv, base, 0)
			if !ok2 || bs != base {
				continue
			}
			// the member receives what the composite receives: the same argument, or the
			// composite's own value of that setting read back through its getter
			if mainArg != nil {
				arg := setterArg(ins)
				same := arg == mainArg || sameConst(arg, mainArg)
				if gc, isCall := arg.(*ssa.Call); isCall && !same {
					gname := ""
					var grecv ssa.Value
					if gc.Call.IsInvoke() {
						gname, grecv = gc.Call.Method.Name(), gc.Call.Value
					} else if sc := gc.Call.StaticCallee(); sc != nil && len(gc.Call.Args) == 1 {
						gname, grecv = sc.Name(), gc.Call.Args[0]
					}
					if gf, isG := getters[gname]; isG && gf == setters[m] {
						if grecv == mainRecv || grecv == base {
							same = true
						} else if _, bs2, ok3 := fieldOfBase(grecv, base, 0); ok3 && bs2 == base {
							same = true // promoted getter on the composite's own basic node
						}
					}
				}
				if !same {
					continue
				}
			}
			guardsOK := true
			for _, dc := range dominatingConds(b) {
				if region != nil && !(dc.at.Block() == region || region.Dominates(dc.at.Block())) {
					continue
				}
				if ex, isE := dc.cond.(*ssa.Extract); isE {
					if _, isTA := ex.Tuple.(*ssa.TypeAssert); isTA {
						continue
					}
				}
				inner, neg := unwrapNot(dc.cond)
				if _, gf, isBool := boolFieldLoad(inner); isBool {
					// a flag of the composite may guard the update only if evaluation uses the edge under the same flag
					key := fmt.Sprintf("%d:%v", gf, dc.taken != neg)
					if evalGuards[f][key] {
						continue
					}
					guardsOK = false
					continue
				}
				if bo, isBo := dc.cond.(*ssa.BinOp); isBo && (bo.Op == token.LSS || bo.Op == token.NEQ || bo.Op == token.EQL) {
					// loop bound / nil test of the chain
					continue
				}
				guardsOK = false
			}
			if guardsOK {
				got[f] = true
			}
		}
	}
	// the special case may live in a helper that is handed the composite: follow it one level
	for _, b := range fn.Blocks {
		for _, ins := range b.Instrs {
			call, ok := ins.(*ssa.Call)
			if !ok {
				continue
			}
			sc := call.Call.StaticCallee()
			if sc == nil || sc == fn || sc.Blocks == nil || !p.InPkg(sc) {
				continue
			}
			if _, isSetter := setters[sc.Name()]; isSetter {
				continue
			}
			bi, ai := -1, -1
			for i, a := range call.Call.Args {
				if a == base {
					bi = i
				}
				if mainArg != nil && a == mainArg {
					ai = i
				}
			}
			if bi < 0 || bi >= len(sc.Params) || fn.Parent() == sc {
				continue
			}
			guardsOK := true
			for _, dc := range dominatingConds(b) {
				if region != nil && !(dc.at.Block() == region || region.Dominates(dc.at.Block())) {
					continue
				}
				if ex, isE := dc.cond.(*ssa.Extract); isE {
					if _, isTA := ex.Tuple.(*ssa.TypeAssert); isTA {
						continue
					}
				}
				if bo, isBo := dc.cond.(*ssa.BinOp); isBo && (bo.Op == token.LSS || bo.Op == token.NEQ || bo.Op == token.EQL) {
					continue
				}
				guardsOK = false
			}
			if !guardsOK {
				continue
			}
			var subArg ssa.Value
			if ai >= 0 && ai < len(sc.Params) {
				subArg = sc.Params[ai]
			} else if mainArg != nil {
				continue // the helper does not receive the value being set
			}
			for f := range edgesPropagatedIn(p, sc, sc.Params[bi], m, setters, evalGuards, subArg, sc.Params[bi]) {
				got[f] = true
			}
		}
	}
	return got
}

// edgesPropagatedIn is edgesPropagated for a helper (no further helper following).
func edgesPropagatedIn(p *load.Program, fn *ssa.Function, base ssa.Value, m string, setters map[string]int, evalGuards map[int]map[string]bool, mainArg ssa.Value, mainRecv ssa.Value) map[int]bool {
	if helperDepth > 0 {
		return map[int]bool{}
	}
	helperDepth++
	defer func() { helperDepth-- }()
	return edgesPropagated(p, fn, base, m, setters, evalGuards, mainArg, mainRecv)
}

var helperDepth int

// fieldOfBase: v derives (loads, element addresses, embedded fields) from field f of base.
func fieldOfBase(v ssa.Value, base ssa.Value, depth int) (int, ssa.Value, bool) {
	if depth > 10 {
		return 0, nil, false
	}
	switch x := v.(type) {
	case *ssa.UnOp:
		return fieldOfBase(x.X, base, depth+1)
	case *ssa.MakeInterface:
		// the member handed on as a value of the node interface
		return fieldOfBase(x.X, base, depth+1)
	case *ssa.ChangeInterface:
		return fieldOfBase(x.X, base, depth+1)
	case *ssa.IndexAddr:
		return fieldOfBase(x.X, base, depth+1)
	case *ssa.Index:
		return fieldOfBase(x.X, base, depth+1)
	case *ssa.Field:
		return fieldOfBase(x.X, base, depth+1)
	case *ssa.FieldAddr:
		if x.X == base {
			return x.Field, base, true
		}
		return fieldOfBase(x.X, base, depth+1)
	}
	return 0, nil, false
}

// ruleNWalk: N-WALK — every per-node setter applied to a node that may be a composite node also
// reaches the nodes the composite evaluates on its own behalf.
func ruleNWalk(c *engine.Context) *report.Rule {
	r := report.NewRule("N-WALK", "per-node settings (next link, texts, accessor flag) applied to a composite node also reach the member nodes it evaluates into the same result list", 4)
	p := c.P
	a := regionsOf(c)
	setters := nodeSetters(p)
	comp := compositeEdges(c)
	if len(setters) < 3 {
		r.InfraFail("anchor unresolved: per-node setters of the basic node (found %d)", len(setters))
		return r
	}
	if len(comp) == 0 {
		r.InfraFail("anchor unresolved: no composite node type found")
		return r
	}
	var Ts []*types.Named
	for T := range comp {
		Ts = append(Ts, T)
		sort.Ints(comp[T])
	}
	sort.Slice(Ts, func(i, j int) bool { return Ts[i].Obj().Name() < Ts[j].Obj().Name() })
	edgeNames := func(T *types.Named, fs []int) string {
		var s []string
		for _, f := range fs {
			s = append(s, fieldName(T, f))
		}
		return strings.Join(s, ", ")
	}
	// overrides: T's own implementation of a setter
	override := func(T *types.Named, m string) *ssa.Function {
		fn := methodOf(p, T, m)
		if fn == nil || fn.Blocks == nil || fn.Synthetic != "" {
			return nil
		}
		pt, ok := fn.Signature.Recv().Type().(*types.Pointer)
		if !ok || !types.Identical(pt.Elem(), T) {
			return nil
		}
		return fn
	}
	overrideOK := map[string]bool{}
	for _, T := range Ts {
		for m := range setters {
			if fn := override(T, m); fn != nil {
				got := edgesPropagated(p, fn, fn.Params[0], m, setters, evalEdgeGuards(c, T), fn.Params[1], fn.Params[0])
				ok := true
				var missing []int
				for _, f := range comp[T] {
					if !got[f] {
						ok = false
						missing = append(missing, f)
					}
				}
				// own basic node
				own := false
				for _, b := range fn.Blocks {
					for _, ins := range b.Instrs {
						if mm, recv, static, isS := setterCall(p, ins, setters); isS && static && mm == m {
							if f, bs, ok2 := fieldOfBase(recv, fn.Params[0], 0); ok2 && bs == ssa.Value(fn.Params[0]) {
								if st, isSt := T.Underlying().(*types.Struct); isSt {
									if pt, isPtr := st.Field(f).Type().(*types.Pointer); isPtr && types.Identical(pt.Elem(), p.Roles.BasicNode) {
										own = true
									}
								}
							}
						}
					}
				}
				// where the basic node's setter forwards a request along the next links, a composite
				// that hands the request to each member multiplies it (all members share one
				// successor): members may only be addressed where the composite itself is still
				// unlinked, i.e. where nothing is forwarded any further
				if basicForwards(p, m, setters) {
					guarded := true
					var at ssa.Instruction
					for _, b := range fn.Blocks {
						for _, ins := range b.Instrs {
							mm, recv, _, isS := setterCall(p, ins, setters)
							if !isS || mm != m {
								continue
							}
							if _, _, okE := fieldOfBase(recv, fn.Params[0], 0); !okE {
								continue
							}
							if derivesFromMemberEdge(recv, T, comp[T], 0) && !ownNextNilDominates(p, b, fn.Params[0], setters[m]) {
								guarded, at = false, ins
							}
						}
					}
					r.Instances++
					r.Oblige(guarded)
					r.Sample("%s.%s hands the request to its members only while it is unlinked itself: %v", T.Obj().Name(), m, guarded)
					if !guarded {
						f := r.Violation(fmt.Sprintf("%s.%s multiplies forwarded requests", T.Obj().Name(), m), p.RelPos(at.Pos()),
							"%s is forwarded along the next links by the basic node; %s hands a forwarded request to every member although all members share one successor, so a request travelling down a chain of k such nodes is multiplied at each of them: Parse takes time exponential in k (with the parser lock held)", m, T.Obj().Name())
						engine.Restrict(f, "C02")
					}
				}
				r.Instances++
				r.Oblige(ok && own)
				r.Sample("%s overrides %s: reaches {%s}: %v, own node: %v", T.Obj().Name(), m, edgeNames(T, comp[T]), ok, own)
				overrideOK[T.Obj().Name()+"."+m] = ok && own
				if !(ok && own) {
					what := "its own basic node"
					if !ok {
						what = edgeNames(T, missing)
					}
					f := r.Violation(fmt.Sprintf("%s.%s does not reach every member edge", T.Obj().Name(), m), p.RelPos(fn.Pos()),
						"%s implements %s itself but does not apply it (on every path, or under a flag evaluation does not use for that edge) to %s", T.Obj().Name(), m, what)
					engine.Restrict(f, walkProps(p, m, setters)...)
				}
			}
		}
	}
	// call sites
	mayBe := func(v ssa.Value, T *types.Named, at *ssa.BasicBlock) bool {
		// narrowed: every path to the call passes a successful type test of v to another type
		if narrowedAway(v, T, at, map[*ssa.BasicBlock]bool{}) {
			return false
		}
		n := a.ValueNode(v)
		if n == nil {
			return true
		}
		for _, o := range n.Pts() {
			if o.Kind == regions.KBox || o.Kind == regions.KAlloc {
				t := o.Typ
				if pt, isPtr := t.(*types.Pointer); isPtr {
					t = pt.Elem()
				}
				if t != nil && types.Identical(t, T) {
					return true
				}
			}
			if o.Kind == regions.KExt {
				return true
			}
		}
		return false
	}
	for _, fn := range p.Funcs {
		if fn.Blocks == nil || p.FuncIsGenerated(fn) || !(p.ParsePhase[fn] || p.Eval[fn]) {
			continue
		}
		nth := map[string]int{}
		for _, b := range fn.Blocks {
			for _, ins := range b.Instrs {
				m, recv, static, ok := setterCall(p, ins, setters)
				if !ok {
					continue
				}
				nth[m]++
				for _, T := range Ts {
					// is the receiver possibly / certainly a T?
					var tv ssa.Value // value of type *T whose members must be reached, when special-cased at the call site
					is := false
					if static {
						// promoted call on a *T value: recv = load(FieldAddr(x, embedded))
						if ld, isLd := recv.(*ssa.UnOp); isLd {
							if fa, isFA := ld.X.(*ssa.FieldAddr); isFA {
								if pt, isPtr := fa.X.Type().(*types.Pointer); isPtr && types.Identical(pt.Elem(), T) {
									is, tv = true, fa.X
								}
							}
						}
						if is {
							// inside T's own override of m this is the call on its own node
							if ov := override(T, m); ov == fn {
								continue
							}
						}
					} else {
						is = mayBe(recv, T, b)
						if is && derivesFromMemberEdge(recv, T, comp[T], 0) {
							is = false // member nodes of a composite are leaves (single names, wildcards): not composites themselves
						}
					}
					if !is {
						continue
					}
					r.Instances++
					if !static {
						if ov := override(T, m); ov != nil {
							okOv := overrideOK[T.Obj().Name()+"."+m]
							r.Oblige(okOv)
							r.Sample("%s: %s#%d on a node that may be %s: dispatches to %s's own %s", load.FuncName(fn), m, nth[m], T.Obj().Name(), T.Obj().Name(), m)
							continue
						}
					}
					// special-cased at the call site: type test of recv to *T in this function
					if tv == nil {
						for _, bb := range fn.Blocks {
							for _, x := range bb.Instrs {
								if ta, isTA := x.(*ssa.TypeAssert); isTA && ta.CommaOk && ta.X == recv {
									if pt, isPtr := ta.AssertedType.(*types.Pointer); isPtr && types.Identical(pt.Elem(), T) {
										for _, ref := range *ta.Referrers() {
											if ex, isE := ref.(*ssa.Extract); isE && ex.Index == 0 {
												tv = ex
											}
										}
									}
								}
							}
						}
					}
					var missing []int
					if tv == nil {
						missing = comp[T]
					} else {
						got := edgesPropagated(p, fn, tv, m, setters, evalEdgeGuards(c, T), setterArg(ins), recv)
						for _, f := range comp[T] {
							if !got[f] {
								missing = append(missing, f)
							}
						}
					}
					r.Oblige(len(missing) == 0)
					r.Sample("%s: %s#%d on a node that may be %s: member edges reached at the call site: %v", load.FuncName(fn), m, nth[m], T.Obj().Name(), len(missing) == 0)
					if len(missing) > 0 {
						f := r.Violation(fmt.Sprintf("%s: %s#%d does not reach %s", load.FuncName(fn), m, nth[m], edgeNames(T, missing)), p.RelPos(ins.Pos()),
							"%s applies %s to a node that may be a %s, but not to the nodes in %s, which that node evaluates into the same result list (%s has no %s of its own): those member nodes keep a stale %s",
							load.FuncName(fn), m, T.Obj().Name(), edgeNames(T, missing), T.Obj().Name(), m, map[string]string{}[m]+settingName(p, m, setters))
						engine.Restrict(f, walkProps(p, m, setters)...)
					}
				}
			}
		}
	}
	return r
}

// settingName: a readable name of what setter m sets (the field name).
func settingName(p *load.Program, m string, setters map[string]int) string {
	if st, ok := p.Roles.BasicNode.Underlying().(*types.Struct); ok {
		if f, has := setters[m]; has && f < st.NumFields() {
			return st.Field(f).Name()
		}
	}
	return m
}

// walkProps: which properties a stale setting on member nodes concerns, by the type of the field.
func walkProps(p *load.Program, m string, setters map[string]int) []string {
	st, ok := p.Roles.BasicNode.Underlying().(*types.Struct)
	if !ok {
		return nil
	}
	f := setters[m]
	ft := st.Field(f).Type()
	switch {
	case types.Identical(ft, p.Roles.NodeIface):
		return []string{"C08", "C14"} // the continuation is lost for members
	case isBasicKind(ft, types.Bool):
		return []string{"C12", "C13"} // accessor flag
	default:
		return []string{"C15"} // texts used in error reports and in the deepest-error ranking
	}
}

// ruleNCtor: N-CTOR — every node constructed by the parser takes the parser's accessor-mode flag.
func ruleNCtor(c *engine.Context) *report.Rule {
	r := report.NewRule("N-CTOR", "every node the parser constructs takes the parser's accessor-mode flag at construction", 8)
	p := c.P
	bst, ok := p.Roles.BasicNode.Underlying().(*types.Struct)
	if !ok {
		r.InfraFail("anchor unresolved: basic node struct")
		return r
	}
	// the accessor flag field: the bool field written by a setter taking a bool
	flagField := -1
	for m, f := range nodeSetters(p) {
		_ = m
		if isBasicKind(bst.Field(f).Type(), types.Bool) {
			flagField = f
		}
	}
	if flagField < 0 {
		r.InfraFail("anchor unresolved: accessor flag field")
		return r
	}
	type site struct {
		al  *ssa.Alloc
		fn  *ssa.Function
		src string // description of the stored value's origin
		ok  bool
	}
	var sites []*site
	origins := map[string]int{}
	for _, fn := range p.Funcs {
		if fn.Blocks == nil || !p.ParsePhase[fn] {
			continue
		}
		for _, b := range fn.Blocks {
			for _, ins := range b.Instrs {
				al, ok := ins.(*ssa.Alloc)
				if !ok || !al.Heap {
					continue
				}
				if !types.Identical(al.Type().(*types.Pointer).Elem(), p.Roles.BasicNode) {
					continue
				}
				s := &site{al: al, fn: fn, src: "(not set)"}
				for _, ref := range *al.Referrers() {
					fa, ok := ref.(*ssa.FieldAddr)
					if !ok || fa.Field != flagField {
						continue
					}
					for _, r2 := range *fa.Referrers() {
						if st, ok := r2.(*ssa.Store); ok && st.Addr == ssa.Value(fa) {
							s.src = "(other value)"
							if ld, ok := st.Val.(*ssa.UnOp); ok {
								if fa2, ok := ld.X.(*ssa.FieldAddr); ok {
									if pt, ok := fa2.X.Type().(*types.Pointer); ok {
										if nt, ok := pt.Elem().(*types.Named); ok {
											s.src = fmt.Sprintf("%s.%s", nt.Obj().Name(), nt.Underlying().(*types.Struct).Field(fa2.Field).Name())
										}
									}
								}
							}
						}
					}
				}
				origins[s.src]++
				sites = append(sites, s)
			}
		}
	}
	if len(sites) == 0 {
		r.InfraFail("anchor unresolved: no construction of the basic node in parse code")
		return r
	}
	// the parser flag: the origin used by the majority of the sites (a field of the parser struct)
	best, bestN := "", 0
	for o, n := range origins {
		if n > bestN && !strings.HasPrefix(o, "(") {
			best, bestN = o, n
		}
	}
	for _, s := range sites {
		r.Instances++
		okS := s.src == best
		r.Oblige(okS)
		r.Sample("node constructed in %s: accessor flag from %s", load.FuncName(s.fn), s.src)
		if !okS {
			r.Violation("node constructed in "+load.FuncName(s.fn)+" without the parser's accessor flag", p.RelPos(s.al.Pos()),
				"%s constructs a node whose accessor-mode flag is %s; the other %d construction sites take it from %s: in accessor mode this node emits plain values, so its results cannot be written through", load.FuncName(s.fn), s.src, bestN, best)
		}
	}
	return r
}

// narrowedAway: every path from the entry to block b passes the true edge of a type test of v
// against a type other than T.
func narrowedAway(v ssa.Value, T *types.Named, b *ssa.BasicBlock, seen map[*ssa.BasicBlock]bool) bool {
	if seen[b] {
		return true
	}
	seen[b] = true
	if len(b.Preds) == 0 {
		return false
	}
	for _, pb := range b.Preds {
		okEdge := false
		if ifi, isIf := pb.Instrs[len(pb.Instrs)-1].(*ssa.If); isIf && pb.Succs[0] == b && pb.Succs[1] != b {
			if ex, isE := ifi.Cond.(*ssa.Extract); isE && ex.Index == 1 {
				if ta, isTA := ex.Tuple.(*ssa.TypeAssert); isTA && ta.X == v {
					t := ta.AssertedType
					if pt, isPtr := t.(*types.Pointer); isPtr {
						t = pt.Elem()
					}
					if !types.Identical(t, T) {
						okEdge = true
					}
				}
			}
		}
		if !okEdge && !narrowedAway(v, T, pb, seen) {
			return false
		}
	}
	return true
}

// derivesFromMemberEdge: v is (an element of) a member-edge field of a value of type *T.
func derivesFromMemberEdge(v ssa.Value, T *types.Named, fields []int, depth int) bool {
	if depth > 10 {
		return false
	}
	switch x := v.(type) {
	case *ssa.UnOp:
		return derivesFromMemberEdge(x.X, T, fields, depth+1)
	case *ssa.IndexAddr:
		return derivesFromMemberEdge(x.X, T, fields, depth+1)
	case *ssa.Index:
		return derivesFromMemberEdge(x.X, T, fields, depth+1)
	case *ssa.Extract:
		// range over a slice held in a local: not needed today
		return false
	case *ssa.FieldAddr:
		if pt, ok := x.X.Type().(*types.Pointer); ok && types.Identical(pt.Elem(), T) {
			for _, f := range fields {
				if f == x.Field {
					return true
				}
			}
		}
		return derivesFromMemberEdge(x.X, T, fields, depth+1)
	}
	return false
}

// evalEdgeGuards: for each member edge of T, the receiver-flag conditions ("field:polarity") that
// dominate every evaluation-time use of the edge (within the using method).
func evalEdgeGuards(c *engine.Context, T *types.Named) map[int]map[string]bool {
	p := c.P
	out := map[int]map[string]bool{}
	first := map[int]bool{}
	for _, fn := range evalFuncs(c) {
		if fn.Signature.Recv() == nil {
			continue
		}
		rt := fn.Signature.Recv().Type()
		if pt, ok := rt.(*types.Pointer); ok {
			rt = pt.Elem()
		}
		if !types.Identical(rt, T) {
			continue
		}
		for _, b := range fn.Blocks {
			for _, ins := range b.Instrs {
				call, ok := ins.(*ssa.Call)
				if !ok {
					continue
				}
				var recv ssa.Value
				if call.Call.IsInvoke() && call.Call.Method.Name() == p.Roles.RetrieveName {
					recv = call.Call.Value
				} else if sc := call.Call.StaticCallee(); sc != nil && sc.Name() == p.Roles.RetrieveName && len(call.Call.Args) > 0 {
					recv = call.Call.Args[0]
				} else {
					continue
				}
				f, ok := fieldOrigin(recv, fn, 0)
				if !ok {
					continue
				}
				here := map[string]bool{}
				for _, dc := range dominatingConds(b) {
					inner, neg := unwrapNot(dc.cond)
					if base, gf, isBool := boolFieldLoad(inner); isBool && base == ssa.Value(fn.Params[0]) {
						here[fmt.Sprintf("%d:%v", gf, dc.taken != neg)] = true
					}
				}
				if !first[f] {
					first[f] = true
					out[f] = here
				} else {
					for k := range out[f] {
						if !here[k] {
							delete(out[f], k)
						}
					}
				}
			}
		}
	}
	return out
}

// setterArg: the argument of a setter call.
func setterArg(ins ssa.Instruction) ssa.Value {
	call, ok := ins.(*ssa.Call)
	if !ok {
		return nil
	}
	if call.Call.IsInvoke() {
		if len(call.Call.Args) == 1 {
			return call.Call.Args[0]
		}
		return nil
	}
	if len(call.Call.Args) == 2 {
		return call.Call.Args[1]
	}
	return nil
}

// nodeGetters: getters of the basic node: name -> field returned.
func nodeGetters(p *load.Program) map[string]int {
	out := map[string]int{}
	for _, fn := range p.Funcs {
		if fn.Signature.Recv() == nil || fn.Blocks == nil || len(fn.Blocks) != 1 || len(fn.Params) != 1 || fn.Signature.Results().Len() != 1 {
			continue
		}
		pt, ok := fn.Signature.Recv().Type().(*types.Pointer)
		if !ok || !types.Identical(pt.Elem(), p.Roles.BasicNode) {
			continue
		}
		if ret, ok := fn.Blocks[0].Instrs[len(fn.Blocks[0].Instrs)-1].(*ssa.Return); ok && len(ret.Results) == 1 {
			if ld, ok := ret.Results[0].(*ssa.UnOp); ok {
				if fa, ok := ld.X.(*ssa.FieldAddr); ok && fa.X == ssa.Value(fn.Params[0]) {
					out[fn.Name()] = fa.Field
				}
			}
		}
	}
	return out
}

// ruleNGetSet: N-GETSET — a node type that implements one of the basic node's getters itself
// must still report what the matching setter stored (the parser moves flags between nodes with
// the setters, e.g. when it strips the leading `$`/`@` of a filter operand).
func ruleNGetSet(c *engine.Context) *report.Rule {
	r := report.NewRule("N-GETSET", "every node type's getters report what the basic node's setters store", 5)
	p := c.P
	getters := nodeGetters(p)
	if len(getters) < 3 {
		r.InfraFail("anchor unresolved: getters of the basic node (found %d)", len(getters))
		return r
	}
	bst, _ := p.Roles.BasicNode.Underlying().(*types.Struct)
	// fields written after construction: by a setter method of the basic node (any store to the field in a method of the basic node)
	written := map[int]bool{}
	for _, fn := range p.Funcs {
		if fn.Signature.Recv() == nil || fn.Blocks == nil {
			continue
		}
		pt, ok := fn.Signature.Recv().Type().(*types.Pointer)
		if !ok || !types.Identical(pt.Elem(), p.Roles.BasicNode) {
			continue
		}
		for _, b := range fn.Blocks {
			for _, ins := range b.Instrs {
				if st, ok := ins.(*ssa.Store); ok {
					if fa, ok := st.Addr.(*ssa.FieldAddr); ok && fa.X == ssa.Value(fn.Params[0]) {
						written[fa.Field] = true
					}
				}
			}
		}
	}
	var gnames []string
	for g := range getters {
		gnames = append(gnames, g)
	}
	sort.Strings(gnames)
	for _, g := range gnames {
		f := getters[g]
		if !written[f] {
			continue
		}
		for _, T := range p.Roles.NodeTypes {
			if types.Identical(T, p.Roles.BasicNode) {
				continue
			}
			r.Instances++
			fn := methodOf(p, T, g)
			own := fn != nil && fn.Blocks != nil && fn.Synthetic == ""
			if own {
				pt, ok := fn.Signature.Recv().Type().(*types.Pointer)
				own = ok && types.Identical(pt.Elem(), T)
			}
			if !own {
				r.Oblige(true)
				continue
			}
			reads := false
			for _, b := range fn.Blocks {
				for _, ins := range b.Instrs {
					switch x := ins.(type) {
					case *ssa.FieldAddr:
						if pt, ok := x.X.Type().(*types.Pointer); ok && types.Identical(pt.Elem(), p.Roles.BasicNode) && x.Field == f {
							reads = true
						}
					case *ssa.Call:
						if sc := x.Call.StaticCallee(); sc != nil && sc.Name() == g && sc.Signature.Recv() != nil {
							if pt, ok := sc.Signature.Recv().Type().(*types.Pointer); ok && types.Identical(pt.Elem(), p.Roles.BasicNode) {
								reads = true
							}
						}
					}
				}
			}
			r.Oblige(reads)
			r.Sample("%s implements %s itself: reads the stored %s: %v", T.Obj().Name(), g, bst.Field(f).Name(), reads)
			if !reads {
				fd := r.Violation(fmt.Sprintf("%s.%s ignores the stored %s", T.Obj().Name(), g, bst.Field(f).Name()), p.RelPos(fn.Pos()),
					"%s answers %s without reading the basic node's %s, which the parser sets through the node interface after construction (e.g. when it moves a flag from a stripped `$`/`@` to the first remaining step): what was set is lost for nodes of this type", T.Obj().Name(), g, bst.Field(f).Name())
				switch {
				case types.Identical(bst.Field(f).Type(), p.Roles.NodeIface):
					engine.Restrict(fd, "C08", "C14")
				case isBasicKind(bst.Field(f).Type(), types.Bool):
					engine.Restrict(fd, "C17", "C09", "C12")
				default:
					engine.Restrict(fd, "C15")
				}
			}
		}
	}
	return r
}

// ruleNHead: N-HEAD — whether a filter operand is `$`-rooted or `@`-rooted is decided by a type
// test of the chain's head against the root-identifier types. A chain that ends in functions is
// wrapped: the value at hand is then the outermost function node and the head is below its
// parameter links. Every such type test must therefore be applied to a value that is known not to
// be a wrapper node (all wrappers unwrapped), or the wrapper case must be handled for that value.
func ruleNHead(c *engine.Context) *report.Rule {
	r := report.NewRule("N-HEAD", "root / current-root classification of a node is applied below all function wrappers", 2)
	p := c.P
	// wrapper types: node types evaluating a node field into a private sink
	wrappers := map[*types.Named]bool{}
	for _, e := range findRetrieveEdges(c) {
		if e.sameSink {
			continue
		}
		if st, ok := e.T.Underlying().(*types.Struct); ok && types.Identical(st.Field(e.field).Type(), p.Roles.NodeIface) {
			for _, nt := range p.Roles.NodeTypes {
				if nt == e.T {
					wrappers[e.T] = true
				}
			}
		}
	}
	// forwarders: node types consisting of the basic node only whose evaluation inspects nothing
	forwarders := map[*types.Named]bool{}
	for _, T := range p.Roles.NodeTypes {
		st, ok := T.Underlying().(*types.Struct)
		if !ok || st.NumFields() != 1 || types.Identical(T, p.Roles.BasicNode) {
			continue
		}
		fn := methodOf(p, T, p.Roles.RetrieveName)
		if fn == nil || fn.Blocks == nil {
			continue
		}
		// "inspects": looks into one of the values it was given (type test, lookup, indexing, range)
		given := map[ssa.Value]bool{}
		for _, prm := range fn.Params[1:] {
			if it, isI := prm.Type().Underlying().(*types.Interface); isI && it.NumMethods() == 0 {
				for v := range cfgutil.Derived(prm) {
					given[v] = true
				}
			}
		}
		inspects := false
		for _, b := range fn.Blocks {
			for _, ins := range b.Instrs {
				switch x := ins.(type) {
				case *ssa.TypeAssert:
					inspects = inspects || given[x.X]
				case *ssa.Lookup:
					inspects = inspects || given[x.X]
				case *ssa.IndexAddr:
					inspects = inspects || given[x.X]
				case *ssa.Range:
					inspects = inspects || given[x.X]
				}
			}
		}
		if !inspects {
			forwarders[T] = true
		}
	}
	if len(wrappers) == 0 || len(forwarders) < 2 {
		r.InfraFail("anchor unresolved: wrapper node types (%d) / root identifier types (%d)", len(wrappers), len(forwarders))
		return r
	}
	namedOf := func(t types.Type) *types.Named {
		if pt, ok := t.(*types.Pointer); ok {
			t = pt.Elem()
		}
		nt, _ := t.(*types.Named)
		return nt
	}
	for _, fn := range p.Funcs {
		if fn.Blocks == nil || !p.ParsePhase[fn] {
			continue
		}
		n := 0
		for _, b := range fn.Blocks {
			for _, ins := range b.Instrs {
				ta, ok := ins.(*ssa.TypeAssert)
				if !ok || !ta.CommaOk || !types.Identical(ta.X.Type(), p.Roles.NodeIface) {
					continue
				}
				nt := namedOf(ta.AssertedType)
				if nt == nil || !forwarders[nt] {
					continue
				}
				n++
				r.Instances++
				// (a) known not to be a wrapper here
				known := false
				for _, dc := range dominatingConds(b) {
					if dc.taken {
						continue
					}
					if ex, isE := dc.cond.(*ssa.Extract); isE && ex.Index == 1 {
						if ta2, isTA := ex.Tuple.(*ssa.TypeAssert); isTA && ta2.X == ta.X {
							if w := namedOf(ta2.AssertedType); w != nil && wrappers[w] {
								known = true
							}
						}
					}
				}
				// (a') the unwrapping loop carries the node and the verdict of its wrapper test as two
				// phis of one block: the verdict being false means the carried node failed the test
				if pv, isPhi := ta.X.(*ssa.Phi); isPhi && !known {
					for _, dc := range dominatingConds(b) {
						pc, isPhiC := dc.cond.(*ssa.Phi)
						if dc.taken || !isPhiC || pc.Block() != pv.Block() || len(pc.Edges) != len(pv.Edges) {
							continue
						}
						all := true
						for i := range pc.Edges {
							okEdge := false
							if ex, isE := pc.Edges[i].(*ssa.Extract); isE && ex.Index == 1 {
								if ta2, isTA := ex.Tuple.(*ssa.TypeAssert); isTA && ta2.CommaOk && ta2.X == pv.Edges[i] {
									if w := namedOf(ta2.AssertedType); w != nil && wrappers[w] {
										okEdge = true
									}
								}
							}
							if !okEdge {
								all = false
							}
						}
						if all {
							known = true
						}
					}
				}
				// (b) the wrapper case of the same value is handled in this function
				same := map[ssa.Value]bool{ta.X: true}
				handled := false
				for _, bb := range fn.Blocks {
					for _, x := range bb.Instrs {
						if ta2, isTA := x.(*ssa.TypeAssert); isTA && ta2.CommaOk && same[ta2.X] {
							if w := namedOf(ta2.AssertedType); w != nil && wrappers[w] {
								handled = true
							}
						}
					}
				}
				ok2 := known || handled
				r.Oblige(ok2)
				r.Sample("%s: test #%d for %s: value known unwrapped: %v, wrapper case handled: %v", load.FuncName(fn), n, nt.Obj().Name(), known, handled)
				if !ok2 {
					r.Violation(fmt.Sprintf("%s: %s test on a possibly wrapped node", load.FuncName(fn), nt.Obj().Name()), p.RelPos(ta.Pos()),
						"%s tests a node for %s although the node may still be a function wrapper (its head is below the wrapper's parameter link, possibly several levels down): an operand such as `$.a.f().g()` is then classified by the wrong node and evaluated against the wrong root", load.FuncName(fn), nt.Obj().Name())
				}
			}
		}
	}
	return r
}

// ruleUDecode: U-DECODE — the two quoted spellings of a member name (`['k']`, `["k"]`) denote
// the same name because both are turned into one JSON string literal and decoded by the same
// decoder. Every helper that decodes quoted text returns, on every path, only what the decoder
// returned (no path returns the raw text or a hand-decoded value).
func ruleUDecode(c *engine.Context) *report.Rule {
	r := report.NewRule("U-DECODE", "quoted member names are decoded by the one JSON string decoder on every path of both quote helpers", 2)
	p := c.P
	isStr := func(t types.Type) bool { return isBasicKind(t, types.String) }
	// the decoder: calls encoding/json.Unmarshal and returns (string, error)
	decoders := map[*ssa.Function]bool{}
	for _, fn := range p.Funcs {
		if fn.Blocks == nil || !p.ParsePhase[fn] || p.FuncIsGenerated(fn) {
			continue
		}
		res := fn.Signature.Results()
		if res.Len() != 2 || !isStr(res.At(0).Type()) {
			continue
		}
		for _, b := range fn.Blocks {
			for _, ins := range b.Instrs {
				if call, ok := ins.(*ssa.Call); ok {
					if sc := call.Call.StaticCallee(); sc != nil && sc.Pkg != nil && sc.Pkg.Pkg.Path() == "encoding/json" && sc.Name() == "Unmarshal" {
						decoders[fn] = true
					}
				}
			}
		}
	}
	// the decoder with an out-parameter: `func(input []byte, out *string) error` that hands out
	// straight to encoding/json and returns its verdict
	outDecoders := map[*ssa.Function]int{} // -> index of the out-parameter among Params
	for _, fn := range p.Funcs {
		if fn.Blocks == nil || !p.ParsePhase[fn] || p.FuncIsGenerated(fn) || decoders[fn] {
			continue
		}
		res := fn.Signature.Results()
		if res.Len() != 1 || !isErrorType(res.At(0).Type()) {
			continue
		}
		var ucall *ssa.Call
		outIdx, ncalls := -1, 0
		for _, b := range fn.Blocks {
			for _, ins := range b.Instrs {
				if call, ok := ins.(*ssa.Call); ok {
					if sc := call.Call.StaticCallee(); sc != nil && sc.Pkg != nil && sc.Pkg.Pkg.Path() == "encoding/json" && sc.Name() == "Unmarshal" && len(call.Call.Args) == 2 {
						ncalls++
						if mi, ok := call.Call.Args[1].(*ssa.MakeInterface); ok {
							for i, prm := range fn.Params {
								if mi.X == ssa.Value(prm) {
									if pt, ok := prm.Type().(*types.Pointer); ok && isStr(pt.Elem()) {
										outIdx, ucall = i, call
									}
								}
							}
						}
					}
				}
			}
		}
		if outIdx < 0 || ncalls != 1 {
			continue
		}
		r.Instances++
		ok := true
		var badAt ssa.Instruction
		for _, b := range fn.Blocks {
			for _, ins := range b.Instrs {
				// nothing else writes the out-parameter
				if st, isSt := ins.(*ssa.Store); isSt && st.Addr == ssa.Value(fn.Params[outIdx]) {
					ok, badAt = false, st
				}
			}
			if ret, isRet := b.Instrs[len(b.Instrs)-1].(*ssa.Return); isRet && len(ret.Results) == 1 {
				ev := ret.Results[0]
				okErr := ev == ssa.Value(ucall)
				if cst, isC := ev.(*ssa.Const); isC && cst.IsNil() {
					for _, dc := range dominatingConds(b) {
						if bo, isBo := dc.cond.(*ssa.BinOp); isBo && (bo.X == ssa.Value(ucall) || bo.Y == ssa.Value(ucall)) && (isNilConstV(bo.X) || isNilConstV(bo.Y)) {
							if (bo.Op == token.EQL) == dc.taken {
								okErr = true
							}
						}
					}
				}
				if !okErr {
					ok, badAt = false, ret
				}
			}
		}
		r.Oblige(ok)
		r.Sample("decoder %s fills its out-parameter through encoding/json and returns its verdict: %v", load.FuncName(fn), ok)
		if !ok {
			r.Violation("decoder "+load.FuncName(fn)+" overrides the verdict of encoding/json", p.RelPos(badAt.Pos()),
				"%s writes its out-parameter itself or reports an error that is not encoding/json's own result for the text: member names decoded through it can differ from what the JSON decoder (and therefore the document's own keys) would give", load.FuncName(fn))
			continue
		}
		outDecoders[fn] = outIdx
	}
	// without a decoder helper the quote helpers must call encoding/json themselves (checked below:
	// fewer than two helpers that return decoder output is an open obligation)
	for fn := range decoders {
		// the decoder itself returns, on every path, the variable the library decoder filled
		r.Instances++
		var target *ssa.Alloc
		var ucall *ssa.Call
		errVerdict := false
		for _, b := range fn.Blocks {
			for _, ins := range b.Instrs {
				if call, ok := ins.(*ssa.Call); ok {
					if sc := call.Call.StaticCallee(); sc != nil && sc.Pkg != nil && sc.Pkg.Pkg.Path() == "encoding/json" && sc.Name() == "Unmarshal" && len(call.Call.Args) == 2 {
						if mi, ok := call.Call.Args[1].(*ssa.MakeInterface); ok {
							if al, ok := mi.X.(*ssa.Alloc); ok {
								target, ucall = al, call
							}
						}
					}
				}
			}
		}
		ok := target != nil
		var badAt ssa.Instruction
		if ok {
			for _, b := range fn.Blocks {
				if ret, isRet := b.Instrs[len(b.Instrs)-1].(*ssa.Return); isRet && len(ret.Results) == 2 {
					ld, isLd := ret.Results[0].(*ssa.UnOp)
					if !isLd || ld.X != ssa.Value(target) || !instrBefore(ucall, ld) {
						ok, badAt = false, ret
					}
					// the error reported is encoding/json's verdict, nothing else: the call's own
					// result, or nil where that result was tested to be nil
					ev := ret.Results[1]
					okErr := ev == ssa.Value(ucall)
					if cst, isC := ev.(*ssa.Const); isC && cst.IsNil() {
						for _, dc := range dominatingConds(b) {
							if bo, isBo := dc.cond.(*ssa.BinOp); isBo && (bo.X == ssa.Value(ucall) || bo.Y == ssa.Value(ucall)) && (isNilConstV(bo.X) || isNilConstV(bo.Y)) {
								if (bo.Op == token.EQL) == dc.taken {
									okErr = true
								}
							}
						}
					}
					if !okErr {
						ok, badAt = false, ret
						errVerdict = true
					}
				}
			}
		}
		r.Oblige(ok)
		r.Sample("decoder %s returns the variable filled by encoding/json on every path: %v", load.FuncName(fn), ok)
		if !ok {
			pos := p.RelPos(fn.Pos())
			if badAt != nil {
				pos = p.RelPos(badAt.Pos())
			}
			if errVerdict {
				r.Violation("decoder "+load.FuncName(fn)+" overrides the verdict of encoding/json", pos,
					"%s reports an error that is not encoding/json's own result for the text (or hides that result): a member name that is valid JSON text is rejected in the quoted spellings while the same member is addressable in another spelling", load.FuncName(fn))
			} else {
				r.Violation("decoder "+load.FuncName(fn)+" has a path around encoding/json", pos,
					"%s returns, on some path, a string that was not produced by encoding/json.Unmarshal: member names decoded on that path can differ from what the JSON decoder (and therefore the document's own keys) would give", load.FuncName(fn))
			}
		}
	}
	// functions with a single string result that return only decoder output (directly, or from each other)
	decodedOnly := map[*ssa.Function]bool{}
	for changed := true; changed; {
		changed = false
		for _, fn := range p.Funcs {
			if fn.Blocks == nil || !p.ParsePhase[fn] || p.FuncIsGenerated(fn) || decoders[fn] || decodedOnly[fn] {
				continue
			}
			res := fn.Signature.Results()
			if res.Len() != 1 || !isStr(res.At(0).Type()) {
				continue
			}
			all, n := true, 0
			for _, b := range fn.Blocks {
				ret, isRet := b.Instrs[len(b.Instrs)-1].(*ssa.Return)
				if !isRet {
					continue
				}
				n++
				okRet := false
				switch x := ret.Results[0].(type) {
				case *ssa.Extract:
					if call, ok := x.Tuple.(*ssa.Call); ok && x.Index == 0 {
						if sc := call.Call.StaticCallee(); sc != nil && decoders[sc] {
							okRet = true
						}
					}
				case *ssa.Call:
					if sc := x.Call.StaticCallee(); sc != nil && decodedOnly[sc] {
						okRet = true
					}
				}
				if !okRet {
					all = false
				}
			}
			if all && n > 0 {
				decodedOnly[fn] = true
				changed = true
			}
		}
	}
	helpers := 0
	for _, fn := range p.Funcs {
		if fn.Blocks == nil || !p.ParsePhase[fn] || p.FuncIsGenerated(fn) || decoders[fn] {
			continue
		}
		res := fn.Signature.Results()
		if res.Len() != 1 || !isStr(res.At(0).Type()) {
			continue
		}
		var dcalls []*ssa.Call
		for _, b := range fn.Blocks {
			for _, ins := range b.Instrs {
				if call, ok := ins.(*ssa.Call); ok {
					if sc := call.Call.StaticCallee(); sc != nil && (decoders[sc] || decodedOnly[sc]) {
						dcalls = append(dcalls, call)
					}
				}
			}
		}
		// or the library decoder is called right here: what it filled is the decoded text
		directTarget := map[*ssa.Alloc]*ssa.Call{}
		for _, b := range fn.Blocks {
			for _, ins := range b.Instrs {
				if call, ok := ins.(*ssa.Call); ok {
					if sc := call.Call.StaticCallee(); sc != nil && sc.Pkg != nil && sc.Pkg.Pkg.Path() == "encoding/json" && sc.Name() == "Unmarshal" && len(call.Call.Args) == 2 {
						if mi, ok := call.Call.Args[1].(*ssa.MakeInterface); ok {
							if al, ok := mi.X.(*ssa.Alloc); ok && isStr(al.Type().(*types.Pointer).Elem()) {
								directTarget[al] = call
							}
						}
					}
				}
			}
		}
		for _, b := range fn.Blocks {
			for _, ins := range b.Instrs {
				if call, ok := ins.(*ssa.Call); ok {
					if sc := call.Call.StaticCallee(); sc != nil {
						if oi, isOut := outDecoders[sc]; isOut && oi < len(call.Call.Args) {
							if al, ok := call.Call.Args[oi].(*ssa.Alloc); ok && isStr(al.Type().(*types.Pointer).Elem()) {
								directTarget[al] = call
							}
						}
					}
				}
			}
		}
		if len(dcalls) == 0 && len(directTarget) == 0 {
			continue
		}
		helpers++
		r.Instances++
		isDecoded := func(v ssa.Value) bool {
			var chk func(v ssa.Value, seen map[ssa.Value]bool) bool
			chk = func(v ssa.Value, seen map[ssa.Value]bool) bool {
				if seen[v] {
					return true
				}
				seen[v] = true
				switch x := v.(type) {
				case *ssa.Extract:
					if call, ok := x.Tuple.(*ssa.Call); ok && x.Index == 0 {
						if sc := call.Call.StaticCallee(); sc != nil && decoders[sc] {
							return true
						}
					}
				case *ssa.Call:
					// the shared tail of the quote helpers: a function that itself returns only decoder output
					if sc := x.Call.StaticCallee(); sc != nil && decodedOnly[sc] {
						return true
					}
				case *ssa.UnOp:
					// the variable encoding/json filled, read after the call, nothing else stored into it
					if al, isAl := x.X.(*ssa.Alloc); isAl && x.Op == token.MUL {
						if uc := directTarget[al]; uc != nil && instrDominates(uc, x) && storesTo(al) == 0 {
							return true
						}
					}
				case *ssa.Phi:
					for _, e := range x.Edges {
						if !chk(e, seen) {
							return false
						}
					}
					return true
				}
				return false
			}
			return chk(v, map[ssa.Value]bool{})
		}
		ok := true
		rewrite := false
		var badAt ssa.Instruction
		for _, b := range fn.Blocks {
			if ret, isRet := b.Instrs[len(b.Instrs)-1].(*ssa.Return); isRet && len(ret.Results) == 1 {
				if !isDecoded(ret.Results[0]) {
					ok, badAt = false, ret
				}
			}
		}
		// a quote helper without a conversion loop hands the captured text to the decoder as it is
		// (only wrapped in quotes): no string transformation in between
		if len(cfgutil.Loops(fn)) == 0 {
			for _, b := range fn.Blocks {
				for _, ins := range b.Instrs {
					call, isCall := ins.(*ssa.Call)
					if !isCall {
						continue
					}
					sc := call.Call.StaticCallee()
					if sc == nil || p.InPkg(sc) {
						continue
					}
					if sc.Pkg != nil && (sc.Pkg.Pkg.Path() == "strings" || sc.Pkg.Pkg.Path() == "bytes" || sc.Pkg.Pkg.Path() == "regexp" || sc.Pkg.Pkg.Path() == "unicode/utf8" || sc.Pkg.Pkg.Path() == "strconv") {
						ok, badAt = false, call
						rewrite = true
					}
				}
			}
		}
		r.Oblige(ok)
		r.Sample("%s returns only decoder output: %v", load.FuncName(fn), ok)
		if !ok && rewrite {
			r.Violation(load.FuncName(fn)+" rewrites the quoted text before decoding", p.RelPos(badAt.Pos()),
				"%s transforms the captured text with a library string function before it reaches the JSON decoder: a textual rewrite cannot respect escape parity (an escaped backslash followed by a quote), so some member names become unaddressable in this quote style only", load.FuncName(fn))
		} else if !ok {
			r.Violation(load.FuncName(fn)+" returns undecoded text on some path", p.RelPos(badAt.Pos()),
				"%s has a path that returns something other than the JSON string decoder's result: on that path the text is not validated or unescaped the way the other quote style is, so `['k']` and `[\"k\"]` can denote different names or differ in which inputs they reject", load.FuncName(fn))
		}
	}
	if helpers < 2 {
		r.Oblige(false)
		r.Undischarged("quoted-name helpers", "-", "expected a helper per quote style that goes through the decoder, found %d", helpers)
	}
	return r
}

// ruleIterStable: R-ITER-STABLE — a fan-out loop walks a list (indexes, keys, members) while it
// hands control to the following steps. The list being walked must not be memory that the steps
// called inside the loop can reach through their arguments and overwrite: a nested step of the
// same kind would otherwise change the list under the outer loop (re-entrancy on one goroutine).
func ruleIterStable(c *engine.Context) *report.Rule {
	r := report.NewRule("R-ITER-STABLE", "no evaluation loop walks a list that the steps it calls can reach through their arguments and overwrite", 6)
	a := regionsOf(c)
	p := c.P
	// transitive callees per function (engine call graph)
	memo := map[*ssa.Function]map[*ssa.Function]bool{}
	var reach func(fn *ssa.Function) map[*ssa.Function]bool
	reach = func(fn *ssa.Function) map[*ssa.Function]bool {
		if m, ok := memo[fn]; ok {
			return m
		}
		m := map[*ssa.Function]bool{}
		memo[fn] = m
		var walk func(f *ssa.Function)
		walk = func(f *ssa.Function) {
			if m[f] {
				return
			}
			m[f] = true
			for _, cal := range a.Edges(f) {
				walk(cal)
			}
		}
		walk(fn)
		return m
	}
	// effects by function
	effBy := map[*ssa.Function][]*regions.Effect{}
	for _, e := range a.Effects {
		effBy[e.Fn] = append(effBy[e.Fn], e)
	}
	calleesAt := map[ssa.Instruction][]*ssa.Function{}
	for _, ce := range a.Calls {
		if ce.Callee != nil {
			calleesAt[ce.Site] = append(calleesAt[ce.Site], ce.Callee)
		}
	}
	for _, fn := range evalFuncs(c) {
		loops := cfgutil.Loops(fn)
		for li, l := range loops {
			// lists indexed with a loop-carried index inside the loop
			walked := map[ssa.Value]bool{}
			for b := range l.Blocks {
				for _, ins := range b.Instrs {
					if ia, ok := ins.(*ssa.IndexAddr); ok {
						if _, isSlice := ia.X.Type().Underlying().(*types.Slice); isSlice && !l.Blocks[blockOf(ia.X)] {
							walked[ia.X] = true
						}
					}
				}
			}
			if len(walked) == 0 {
				continue
			}
			// calls inside the loop
			var calls []*ssa.Call
			for b := range l.Blocks {
				for _, ins := range b.Instrs {
					if call, ok := ins.(*ssa.Call); ok {
						if _, isB := call.Call.Value.(*ssa.Builtin); !isB {
							calls = append(calls, call)
						}
					}
				}
			}
			var xs []ssa.Value
			for x := range walked {
				xs = append(xs, x)
			}
			sort.Slice(xs, func(i, j int) bool { return xs[i].Name() < xs[j].Name() })
			for _, x := range xs {
				n := a.ValueNode(x)
				if n == nil {
					continue
				}
				arrays := map[*regions.Object]bool{}
				for _, o := range n.Pts() {
					if o.Kind != regions.KExt {
						arrays[o.Root()] = true
					}
				}
				if len(arrays) == 0 {
					continue
				}
				r.Instances++
				bad := ""
				var badAt ssa.Instruction
				for _, call := range calls {
					// memory reachable from the call's arguments
					reachable := map[*regions.Object]bool{}
					args := append([]ssa.Value(nil), call.Call.Args...)
					if call.Call.IsInvoke() {
						args = append(args, call.Call.Value)
					}
					for _, arg := range args {
						an := a.ValueNode(arg)
						if an == nil {
							continue
						}
						for _, o := range an.Pts() {
							if o.Kind == regions.KExt || o.Kind == regions.KFunc {
								continue
							}
							reachable[o.Root()] = true
							for _, q := range regions.ReachableObjects(a, o) {
								reachable[q.Root()] = true
							}
						}
					}
					shared := false
					for o := range arrays {
						if reachable[o] {
							shared = true
						}
					}
					if !shared {
						continue
					}
					// does anything the call can run write the walked array?
					for _, callee := range calleesAt[call] {
						for f := range reach(callee) {
							for _, e := range effBy[f] {
								for _, t := range e.Targets {
									if arrays[t.Root()] && bad == "" {
										bad = fmt.Sprintf("%s (reached from %s) can execute %s in %s", load.FuncName(callee), describeCall(call), describeStore(p, e.Instr), load.FuncName(e.Fn))
										badAt = call
									}
								}
							}
						}
					}
				}
				r.Oblige(bad == "")
				r.Sample("%s loop #%d walks %s: stable during the calls of the loop body: %v", load.FuncName(fn), li+1, valueLabel(x), bad == "")
				if bad != "" {
					f := r.Violation(fmt.Sprintf("%s loop #%d walks a list its callees can overwrite", load.FuncName(fn), li+1), p.RelPos(badAt.Pos()),
						"the loop walks %s, which is reachable from the arguments of a call inside the loop, and %s: a nested step overwrites the list the outer step is still walking, so the outer step continues with indexes / keys it never computed", valueLabel(x), bad)
					engine.Restrict(f, "C08", "C11", "C07", "C03")
				}
			}
		}
	}
	return r
}

func blockOf(v ssa.Value) *ssa.BasicBlock {
	if ins, ok := v.(ssa.Instruction); ok {
		return ins.Block()
	}
	return nil
}

func describeCall(call *ssa.Call) string {
	if call.Call.IsInvoke() {
		return "the call of " + call.Call.Method.Name()
	}
	if sc := call.Call.StaticCallee(); sc != nil {
		return "the call of " + sc.Name()
	}
	return "a call"
}

func valueLabel(v ssa.Value) string {
	switch x := v.(type) {
	case *ssa.UnOp:
		if fa, ok := x.X.(*ssa.FieldAddr); ok {
			if pt, ok := fa.X.Type().Underlying().(*types.Pointer); ok {
				if st, ok := pt.Elem().Underlying().(*types.Struct); ok {
					return "the list in field " + st.Field(fa.Field).Name()
				}
			}
		}
		return "the list *" + x.X.Name()
	case *ssa.Call:
		return "the list returned by " + describeCall(x)[len("the call of "):]
	case *ssa.Parameter:
		return "the list parameter " + x.Name()
	}
	return "the list " + v.Name()
}

// ruleNVgSum: N-VGSUM — the "value group" flag of a chain's head is what evaluation consults to
// decide whether a single array result is the argument list of an aggregate function (and what
// the parser consults to reject value groups in comparisons). It is only meaningful after it
// has been summarised over the chain. Every chain head that is stored into a field whose flag
// is consulted later must have been summarised when it is stored.
func ruleNVgSum(c *engine.Context) *report.Rule {
	r := report.NewRule("N-VGSUM", "a chain head whose value-group flag is consulted later is summarised over its chain before it is attached", 1)
	p := c.P
	bst, ok := p.Roles.BasicNode.Underlying().(*types.Struct)
	if !ok {
		r.InfraFail("anchor unresolved: basic node struct")
		return r
	}
	// zero-argument flag setter of the basic node: stores a constant into a bool field
	setName, flagField := "", -1
	for _, fn := range p.Funcs {
		if fn.Signature.Recv() == nil || fn.Blocks == nil || len(fn.Params) != 1 || fn.Signature.Results().Len() != 0 {
			continue
		}
		pt, ok := fn.Signature.Recv().Type().(*types.Pointer)
		if !ok || !types.Identical(pt.Elem(), p.Roles.BasicNode) {
			continue
		}
		for _, b := range fn.Blocks {
			for _, ins := range b.Instrs {
				if st, ok := ins.(*ssa.Store); ok {
					if fa, ok := st.Addr.(*ssa.FieldAddr); ok && fa.X == ssa.Value(fn.Params[0]) && isBasicKind(bst.Field(fa.Field).Type(), types.Bool) {
						if _, isC := st.Val.(*ssa.Const); isC {
							setName, flagField = fn.Name(), fa.Field
						}
					}
				}
			}
		}
	}
	getName := ""
	for g, f := range nodeGetters(p) {
		if f == flagField {
			getName = g
		}
	}
	nextGetter := ""
	for g, f := range nodeGetters(p) {
		if types.Identical(bst.Field(f).Type(), p.Roles.NodeIface) {
			nextGetter = g
		}
	}
	if setName == "" || getName == "" || nextGetter == "" {
		r.InfraFail("anchor unresolved: value-group flag setter/getter or next getter (%q, %q, %q)", setName, getName, nextGetter)
		return r
	}
	// the summarising pass: walks a chain through the next getter and calls the flag setter
	sfam := map[*ssa.Function]bool{}
	for _, fn := range p.Funcs {
		if fn.Blocks == nil || !p.ParsePhase[fn] || p.FuncIsGenerated(fn) {
			continue
		}
		walks, sets, reads := false, false, false
		for _, l := range cfgutil.Loops(fn) {
			for _, ins := range l.Header.Instrs {
				ph, ok := ins.(*ssa.Phi)
				if !ok || !types.Identical(ph.Type(), p.Roles.NodeIface) {
					continue
				}
				for i, e := range ph.Edges {
					if l.Blocks[l.Header.Preds[i]] {
						if call, ok := e.(*ssa.Call); ok && call.Call.IsInvoke() && call.Call.Method.Name() == nextGetter && call.Call.Value == ssa.Value(ph) {
							walks = true
						}
					}
				}
				for _, ref := range *ph.Referrers() {
					if call, ok := ref.(*ssa.Call); ok && call.Call.IsInvoke() && call.Call.Method.Name() == getName && call.Call.Value == ssa.Value(ph) {
						reads = true
					}
				}
			}
		}
		for _, b := range fn.Blocks {
			for _, ins := range b.Instrs {
				if call, ok := ins.(*ssa.Call); ok && call.Call.IsInvoke() && call.Call.Method.Name() == setName {
					sets = true
				}
			}
		}
		if walks && sets && reads {
			sfam[fn] = true
		}
	}
	if len(sfam) == 0 {
		r.Oblige(false)
		r.Violation("summarising pass", "-", "no function walks a chain and raises the head's %s flag when some step has it", bst.Field(flagField).Name())
		return r
	}
	// wrappers: functions that call a member of the family with one of their own values
	for changed := true; changed; {
		changed = false
		for _, fn := range p.Funcs {
			if fn.Blocks == nil || sfam[fn] || !p.ParsePhase[fn] || p.FuncIsGenerated(fn) || len(fn.Blocks) != 1 {
				continue
			}
			for _, ins := range fn.Blocks[0].Instrs {
				if call, ok := ins.(*ssa.Call); ok && call.Call.StaticCallee() != nil && sfam[call.Call.StaticCallee()] {
					sfam[fn] = true
					changed = true
				}
			}
		}
	}
	// consulted head fields: receiver of the flag getter is a load of field F of *T
	type hf struct {
		T *types.Named
		f int
	}
	consulted := map[hf]string{}
	for _, fn := range p.Funcs {
		if fn.Blocks == nil || sfam[fn] {
			continue
		}
		for _, b := range fn.Blocks {
			for _, ins := range b.Instrs {
				call, ok := ins.(*ssa.Call)
				if !ok || !call.Call.IsInvoke() || call.Call.Method.Name() != getName {
					continue
				}
				if ld, ok := call.Call.Value.(*ssa.UnOp); ok {
					if fa, ok := ld.X.(*ssa.FieldAddr); ok {
						if pt, ok := fa.X.Type().(*types.Pointer); ok {
							if nt, ok := pt.Elem().(*types.Named); ok && !types.Identical(nt, p.Roles.BasicNode) {
								consulted[hf{nt, fa.Field}] = load.FuncName(fn)
							}
						}
					}
				}
			}
		}
	}
	if len(consulted) == 0 {
		r.InfraFail("anchor unresolved: no place consults the flag of a stored chain head")
		return r
	}
	// stores into consulted fields
	for _, fn := range p.Funcs {
		if fn.Blocks == nil || !p.ParsePhase[fn] {
			continue
		}
		n := 0
		for _, b := range fn.Blocks {
			for _, ins := range b.Instrs {
				st, ok := ins.(*ssa.Store)
				if !ok {
					continue
				}
				fa, ok := st.Addr.(*ssa.FieldAddr)
				if !ok {
					continue
				}
				pt, ok := fa.X.Type().(*types.Pointer)
				if !ok {
					continue
				}
				nt, ok := pt.Elem().(*types.Named)
				if !ok {
					continue
				}
				where, isC := consulted[hf{nt, fa.Field}]
				if !isC {
					continue
				}
				n++
				r.Instances++
				v := st.Val
				how := ""
				switch x := v.(type) {
				case *ssa.Parameter:
					how = "the builder's argument (a completed chain handed in by the caller)"
				case *ssa.Call:
					how = "the result of " + describeCall(x)
					// a helper that returns a different node than it was given must carry the summary over
					if sc := x.Call.StaticCallee(); sc != nil && p.InPkg(sc) && sc.Blocks != nil {
						if why := summaryLostIn(p, sc, setName, getName, nextGetter); why != "" {
							how = ""
							r.Oblige(false)
							r.Violation(fmt.Sprintf("%s drops the value-group summary of the chain it shortens", load.FuncName(sc)), p.RelPos(sc.Pos()),
								"%s returns the successor of the node it was given as the new head of the chain, %s; %s later asks that head whether the chain is a value group", load.FuncName(sc), why, where)
							continue
						}
					}
				default:
					// a chain head assembled in this function: the pass must have run on it before —
					// as a call of the pass, or written out here (a loop that walks the chain from this
					// head, reads each step's flag and raises the head's)
					for _, l := range cfgutil.Loops(fn) {
						if l.Blocks[st.Block()] || !(l.Header == st.Block() || l.Header.Dominates(st.Block())) {
							continue
						}
						for _, hi := range l.Header.Instrs {
							ph, isPhi := hi.(*ssa.Phi)
							if !isPhi || !types.Identical(ph.Type(), p.Roles.NodeIface) {
								continue
							}
							starts, walks, reads, sets := false, false, false, false
							for i, e := range ph.Edges {
								if !l.Blocks[l.Header.Preds[i]] {
									if e == v {
										starts = true
									}
								} else if call, ok := e.(*ssa.Call); ok && call.Call.IsInvoke() && call.Call.Method.Name() == nextGetter && call.Call.Value == ssa.Value(ph) {
									walks = true
								}
							}
							// the loop's blocks and the blocks entered straight from them (a branch that
							// raises the flag and leaves the loop is not part of the natural loop)
							near := map[*ssa.BasicBlock]bool{}
							for bb := range l.Blocks {
								near[bb] = true
								for _, sx := range bb.Succs {
									near[sx] = true
								}
							}
							for bb := range near {
								for _, y := range bb.Instrs {
									call, ok := y.(*ssa.Call)
									if !ok || !call.Call.IsInvoke() {
										continue
									}
									if call.Call.Method.Name() == getName && call.Call.Value == ssa.Value(ph) {
										reads = true
									}
									if call.Call.Method.Name() == setName && call.Call.Value == v {
										sets = true
									}
								}
							}
							if starts && walks && reads && sets {
								how = "summarised by a walk over the chain written out just before"
							}
						}
					}
					for _, bb := range fn.Blocks {
						for _, y := range bb.Instrs {
							call, ok := y.(*ssa.Call)
							if !ok || call.Call.StaticCallee() == nil || !sfam[call.Call.StaticCallee()] {
								continue
							}
							for _, a := range call.Call.Args {
								if a == v && instrBefore(call, st) {
									how = "summarised by " + call.Call.StaticCallee().Name() + " just before"
								}
							}
						}
					}
				}
				r.Oblige(how != "")
				r.Sample("%s stores a chain head into %s: %s", load.FuncName(fn), fieldName(nt, fa.Field), map[bool]string{true: how, false: "NOT summarised"}[how != ""])
				if how == "" {
					r.Violation(fmt.Sprintf("%s attaches an unsummarised chain head to %s", load.FuncName(fn), fieldName(nt, fa.Field)), p.RelPos(st.Pos()),
						"%s stores the head of a chain it has just linked into %s without summarising the %s flag over that chain; %s later asks the head whether the chain is a value group: a chain such as `$.a.*` is then taken for single-valued and only its first array is handed to the function", load.FuncName(fn), fieldName(nt, fa.Field), bst.Field(flagField).Name(), where)
				}
			}
		}
	}
	// every completed chain on the value stack is summarised: the chain builder's calls are followed by the pass
	var builders []*ssa.Function
	for _, fn := range p.Funcs {
		if fn.Blocks == nil || !p.ParsePhase[fn] || p.FuncIsGenerated(fn) {
			continue
		}
		for _, b := range fn.Blocks {
			for _, ins := range b.Instrs {
				if st, ok := ins.(*ssa.Store); ok {
					if fa, ok := st.Addr.(*ssa.FieldAddr); ok {
						if pt, ok := fa.X.Type().(*types.Pointer); ok {
							if nt, ok := pt.Elem().(*types.Named); ok {
								if _, isC := consulted[hf{nt, fa.Field}]; isC {
									if _, isPrm := st.Val.(*ssa.Parameter); !isPrm {
										if _, isCall := st.Val.(*ssa.Call); !isCall {
											builders = append(builders, fn)
										}
									}
								}
							}
						}
					}
				}
			}
		}
	}
	for _, fn := range p.Funcs {
		if fn.Blocks == nil || !p.ParsePhase[fn] {
			continue
		}
		for _, b := range fn.Blocks {
			for i, ins := range b.Instrs {
				call, ok := ins.(*ssa.Call)
				if !ok || call.Call.StaticCallee() == nil {
					continue
				}
				isB := false
				for _, bf := range builders {
					if call.Call.StaticCallee() == bf {
						isB = true
					}
				}
				if !isB {
					continue
				}
				r.Instances++
				followed := false
				for _, y := range b.Instrs[i+1:] {
					if c2, ok := y.(*ssa.Call); ok && c2.Call.StaticCallee() != nil && sfam[c2.Call.StaticCallee()] {
						followed = true
					}
				}
				r.Oblige(followed)
				r.Sample("%s: chain builder call followed by the summarising pass: %v", load.FuncName(fn), followed)
				if !followed {
					r.Violation("chain built in "+load.FuncName(fn)+" is not summarised", p.RelPos(call.Pos()),
						"%s builds a chain with %s but does not run the pass that summarises the %s flag onto its head afterwards", load.FuncName(fn), call.Call.StaticCallee().Name(), bst.Field(flagField).Name())
				}
			}
		}
	}
	return r
}

// basicForwards: the basic node's implementation of setter m calls m on the node stored in the
// field it sets (a request is handed down the chain until it reaches the end).
func basicForwards(p *load.Program, m string, setters map[string]int) bool {
	for _, fn := range p.Funcs {
		if fn.Name() != m || fn.Signature.Recv() == nil || fn.Blocks == nil {
			continue
		}
		pt, ok := fn.Signature.Recv().Type().(*types.Pointer)
		if !ok || !types.Identical(pt.Elem(), p.Roles.BasicNode) {
			continue
		}
		for _, b := range fn.Blocks {
			for _, ins := range b.Instrs {
				call, ok := ins.(*ssa.Call)
				if !ok || !call.Call.IsInvoke() || call.Call.Method.Name() != m {
					continue
				}
				if ld, ok := call.Call.Value.(*ssa.UnOp); ok {
					if fa, ok := ld.X.(*ssa.FieldAddr); ok && fa.Field == setters[m] && fa.X == ssa.Value(fn.Params[0]) {
						return true
					}
				}
			}
		}
	}
	return false
}

// ownNextNilDominates: block b is only reached where field f of recv's basic node was tested to be nil.
func ownNextNilDominates(p *load.Program, b *ssa.BasicBlock, recv ssa.Value, f int) bool {
	for _, dc := range dominatingConds(b) {
		cond, neg := unwrapNot(dc.cond)
		bo, ok := cond.(*ssa.BinOp)
		if !ok || (bo.Op != token.EQL && bo.Op != token.NEQ) {
			continue
		}
		var other ssa.Value
		if cst, isC := bo.Y.(*ssa.Const); isC && cst.IsNil() {
			other = bo.X
		} else if cst, isC := bo.X.(*ssa.Const); isC && cst.IsNil() {
			other = bo.Y
		} else {
			continue
		}
		ld, ok := other.(*ssa.UnOp)
		if !ok {
			continue
		}
		fa, ok := ld.X.(*ssa.FieldAddr)
		if !ok || fa.Field != f {
			continue
		}
		pt, ok := fa.X.Type().(*types.Pointer)
		if !ok || !types.Identical(pt.Elem(), p.Roles.BasicNode) {
			continue
		}
		if _, _, okB := fieldOfBase(fa.X, recv, 0); !okB {
			continue
		}
		isNil := (bo.Op == token.EQL) == (dc.taken != neg)
		if isNil {
			return true
		}
	}
	return false
}

// summaryLostIn: helper h(node) returns, on some path, a node obtained from its parameter through
// the next getter without having set the flag on it under the parameter's own flag. "" = fine.
func summaryLostIn(p *load.Program, h *ssa.Function, setName, getName, nextGetter string) string {
	var prm *ssa.Parameter
	for _, pp := range h.Params {
		if types.Identical(pp.Type(), p.Roles.NodeIface) {
			prm = pp
		}
	}
	if prm == nil {
		return ""
	}
	isNextOfParam := func(v ssa.Value) bool {
		call, ok := v.(*ssa.Call)
		return ok && call.Call.IsInvoke() && call.Call.Method.Name() == nextGetter && call.Call.Value == ssa.Value(prm)
	}
	returnsSuccessor := false
	var visit func(v ssa.Value, d int)
	visit = func(v ssa.Value, d int) {
		if d > 4 {
			return
		}
		if isNextOfParam(v) {
			returnsSuccessor = true
		}
		if ph, ok := v.(*ssa.Phi); ok {
			for _, e := range ph.Edges {
				visit(e, d+1)
			}
		}
	}
	for _, b := range h.Blocks {
		if ret, ok := b.Instrs[len(b.Instrs)-1].(*ssa.Return); ok && len(ret.Results) == 1 {
			visit(ret.Results[0], 0)
		}
	}
	if !returnsSuccessor {
		return ""
	}
	// the transfer: setter on next-of-param, under getter(param)
	for _, b := range h.Blocks {
		for _, ins := range b.Instrs {
			call, ok := ins.(*ssa.Call)
			if !ok || !call.Call.IsInvoke() || call.Call.Method.Name() != setName || !isNextOfParam(call.Call.Value) {
				continue
			}
			for _, dc := range dominatingConds(b) {
				if g, ok := dc.cond.(*ssa.Call); ok && dc.taken && g.Call.IsInvoke() && g.Call.Method.Name() == getName && g.Call.Value == ssa.Value(prm) {
					return ""
				}
			}
		}
	}
	return "but does not set the flag on that successor when the node it drops carried the summary"
}

// sameConst: two constants of identical type and value (every literal is its own SSA value).
func sameConst(a, b ssa.Value) bool {
	ca, ok1 := a.(*ssa.Const)
	cb, ok2 := b.(*ssa.Const)
	if !ok1 || !ok2 || !types.Identical(ca.Type(), cb.Type()) {
		return false
	}
	if ca.Value == nil || cb.Value == nil {
		return ca.Value == nil && cb.Value == nil
	}
	return ca.Value.ExactString() == cb.Value.ExactString()
}
