package rules

import (
	"fmt"
	"go/token"
	"go/types"
	"sort"
	"strings"

	"golang.org/x/tools/go/ssa"

	"verif/checker/internal/engine"
	"verif/checker/internal/load"
	"verif/checker/internal/regions"
	"verif/checker/internal/report"
)

func init() {
	engine.Register("N-WALK", ruleNWalk)
	engine.Register("N-CTOR", ruleNCtor)
}

// nodeSetters: the per-node setters of the basic node that store their argument into a field
// (text, connected text, accessor flag, next link): name -> field written.
func nodeSetters(p *load.Program) map[string]int {
	out := map[string]int{}
	for _, fn := range p.Funcs {
		if fn.Signature.Recv() == nil || fn.Blocks == nil || len(fn.Params) != 2 || fn.Signature.Results().Len() != 0 {
			continue
		}
		pt, ok := fn.Signature.Recv().Type().(*types.Pointer)
		if !ok || !types.Identical(pt.Elem(), p.Roles.BasicNode) {
			continue
		}
		for _, b := range fn.Blocks {
			for _, ins := range b.Instrs {
				if st, ok := ins.(*ssa.Store); ok {
					if fa, ok := st.Addr.(*ssa.FieldAddr); ok && fa.X == ssa.Value(fn.Params[0]) && st.Val == ssa.Value(fn.Params[1]) {
						out[fn.Name()] = fa.Field
					}
				}
			}
		}
	}
	return out
}

// compositeEdges: node types that hand their caller's sink to nodes stored in their own fields
// (other than the embedded basic node's next link): T -> fields.
func compositeEdges(c *engine.Context) map[*types.Named][]int {
	p := c.P
	out := map[*types.Named][]int{}
	for _, e := range findRetrieveEdges(c) {
		if !e.sameSink || types.Identical(e.T, p.Roles.BasicNode) {
			continue
		}
		if st, ok := e.T.Underlying().(*types.Struct); ok {
			ft := st.Field(e.field).Type()
			if pt, isPtr := ft.(*types.Pointer); isPtr && types.Identical(pt.Elem(), p.Roles.BasicNode) {
				continue
			}
		}
		out[e.T] = append(out[e.T], e.field)
	}
	return out
}

// setterCallOn: ins calls setter m; returns the receiver value.
func setterCall(p *load.Program, ins ssa.Instruction, setters map[string]int) (m string, recv ssa.Value, static bool, ok bool) {
	call, isCall := ins.(*ssa.Call)
	if !isCall {
		return
	}
	if call.Call.IsInvoke() {
		if _, is := setters[call.Call.Method.Name()]; is && types.Identical(call.Call.Value.Type(), p.Roles.NodeIface) {
			return call.Call.Method.Name(), call.Call.Value, false, true
		}
		return
	}
	if sc := call.Call.StaticCallee(); sc != nil && sc.Signature.Recv() != nil && len(call.Call.Args) == 2 {
		if _, is := setters[sc.Name()]; is {
			return sc.Name(), call.Call.Args[0], true, true
		}
	}
	return
}

// edgesPropagated: which fields of base (a value of type *T) receive setter m inside fn, with
// only harmless guards (type-test ok, bool fields of base, loop conditions).
func edgesPropagated(p *load.Program, fn *ssa.Function, base ssa.Value, m string, setters map[string]int) map[int]bool {
	got := map[int]bool{}
	// guards are examined from the point where base is established (its type test) onwards
	var region *ssa.BasicBlock
	if ex, ok := base.(*ssa.Extract); ok {
		region = ex.Block()
	}
	for _, b := range fn.Blocks {
		for _, ins := range b.Instrs {
			mm, recv, _, ok := setterCall(p, ins, setters)
			if !ok || mm != m {
				continue
			}
			f, bs, ok2 := fieldOfBase(recv, base, 0)
			if !ok2 || bs != base {
				continue
			}
			guardsOK := true
			for _, dc := range dominatingConds(b) {
				if region != nil && !(dc.at.Block() == region || region.Dominates(dc.at.Block())) {
					continue
				}
				if ex, isE := dc.cond.(*ssa.Extract); isE {
					if _, isTA := ex.Tuple.(*ssa.TypeAssert); isTA {
						continue
					}
				}
				inner, _ := unwrapNot(dc.cond)
				if _, _, isBool := boolFieldLoad(inner); isBool {
					continue
				}
				if bo, isBo := dc.cond.(*ssa.BinOp); isBo && (bo.Op == token.LSS || bo.Op == token.NEQ || bo.Op == token.EQL) {
					// loop bound / nil test of the chain
					continue
				}
				guardsOK = false
			}
			if guardsOK {
				got[f] = true
			}
		}
	}
	return got
}

// fieldOfBase: v derives (loads, element addresses, embedded fields) from field f of base.
func fieldOfBase(v ssa.Value, base ssa.Value, depth int) (int, ssa.Value, bool) {
	if depth > 10 {
		return 0, nil, false
	}
	switch x := v.(type) {
	case *ssa.UnOp:
		return fieldOfBase(x.X, base, depth+1)
	case *ssa.IndexAddr:
		return fieldOfBase(x.X, base, depth+1)
	case *ssa.Index:
		return fieldOfBase(x.X, base, depth+1)
	case *ssa.Field:
		return fieldOfBase(x.X, base, depth+1)
	case *ssa.FieldAddr:
		if x.X == base {
			return x.Field, base, true
		}
		return fieldOfBase(x.X, base, depth+1)
	}
	return 0, nil, false
}

// ruleNWalk: N-WALK — every per-node setter applied to a node that may be a composite node also
// reaches the nodes the composite evaluates on its own behalf.
func ruleNWalk(c *engine.Context) *report.Rule {
	r := report.NewRule("N-WALK", "per-node settings (next link, texts, accessor flag) applied to a composite node also reach the member nodes it evaluates into the same result list", 4)
	p := c.P
	a := regionsOf(c)
	setters := nodeSetters(p)
	comp := compositeEdges(c)
	if len(setters) < 3 {
		r.InfraFail("anchor unresolved: per-node setters of the basic node (found %d)", len(setters))
		return r
	}
	if len(comp) == 0 {
		r.InfraFail("anchor unresolved: no composite node type found")
		return r
	}
	var Ts []*types.Named
	for T := range comp {
		Ts = append(Ts, T)
		sort.Ints(comp[T])
	}
	sort.Slice(Ts, func(i, j int) bool { return Ts[i].Obj().Name() < Ts[j].Obj().Name() })
	edgeNames := func(T *types.Named, fs []int) string {
		var s []string
		for _, f := range fs {
			s = append(s, fieldName(T, f))
		}
		return strings.Join(s, ", ")
	}
	// overrides: T's own implementation of a setter
	override := func(T *types.Named, m string) *ssa.Function {
		fn := methodOf(p, T, m)
		if fn == nil || fn.Blocks == nil || fn.Synthetic != "" {
			return nil
		}
		pt, ok := fn.Signature.Recv().Type().(*types.Pointer)
		if !ok || !types.Identical(pt.Elem(), T) {
			return nil
		}
		return fn
	}
	overrideOK := map[string]bool{}
	for _, T := range Ts {
		for m := range setters {
			if fn := override(T, m); fn != nil {
				got := edgesPropagated(p, fn, fn.Params[0], m, setters)
				ok := true
				var missing []int
				for _, f := range comp[T] {
					if !got[f] {
						ok = false
						missing = append(missing, f)
					}
				}
				// own basic node
				own := false
				for _, b := range fn.Blocks {
					for _, ins := range b.Instrs {
						if mm, recv, static, isS := setterCall(p, ins, setters); isS && static && mm == m {
							if f, bs, ok2 := fieldOfBase(recv, fn.Params[0], 0); ok2 && bs == ssa.Value(fn.Params[0]) {
								if st, isSt := T.Underlying().(*types.Struct); isSt {
									if pt, isPtr := st.Field(f).Type().(*types.Pointer); isPtr && types.Identical(pt.Elem(), p.Roles.BasicNode) {
										own = true
									}
								}
							}
						}
					}
				}
				r.Instances++
				r.Oblige(ok && own)
				r.Sample("%s overrides %s: reaches {%s}: %v, own node: %v", T.Obj().Name(), m, edgeNames(T, comp[T]), ok, own)
				overrideOK[T.Obj().Name()+"."+m] = ok && own
				if !(ok && own) {
					what := "its own basic node"
					if !ok {
						what = edgeNames(T, missing)
					}
					r.Violation(fmt.Sprintf("%s.%s does not reach every member edge", T.Obj().Name(), m), p.RelPos(fn.Pos()),
						"%s implements %s itself but does not apply it to %s", T.Obj().Name(), m, what)
				}
			}
		}
	}
	// call sites
	mayBe := func(v ssa.Value, T *types.Named, at *ssa.BasicBlock) bool {
		// narrowed: every path to the call passes a successful type test of v to another type
		if narrowedAway(v, T, at, map[*ssa.BasicBlock]bool{}) {
			return false
		}
		n := a.ValueNode(v)
		if n == nil {
			return true
		}
		for _, o := range n.Pts() {
			if o.Kind == regions.KBox || o.Kind == regions.KAlloc {
				t := o.Typ
				if pt, isPtr := t.(*types.Pointer); isPtr {
					t = pt.Elem()
				}
				if t != nil && types.Identical(t, T) {
					return true
				}
			}
			if o.Kind == regions.KExt {
				return true
			}
		}
		return false
	}
	for _, fn := range p.Funcs {
		if fn.Blocks == nil || p.FuncIsGenerated(fn) || !(p.ParsePhase[fn] || p.Eval[fn]) {
			continue
		}
		nth := map[string]int{}
		for _, b := range fn.Blocks {
			for _, ins := range b.Instrs {
				m, recv, static, ok := setterCall(p, ins, setters)
				if !ok {
					continue
				}
				nth[m]++
				for _, T := range Ts {
					// is the receiver possibly / certainly a T?
					var tv ssa.Value // value of type *T whose members must be reached, when special-cased at the call site
					is := false
					if static {
						// promoted call on a *T value: recv = load(FieldAddr(x, embedded))
						if ld, isLd := recv.(*ssa.UnOp); isLd {
							if fa, isFA := ld.X.(*ssa.FieldAddr); isFA {
								if pt, isPtr := fa.X.Type().(*types.Pointer); isPtr && types.Identical(pt.Elem(), T) {
									is, tv = true, fa.X
								}
							}
						}
						if is {
							// inside T's own override of m this is the call on its own node
							if ov := override(T, m); ov == fn {
								continue
							}
						}
					} else {
						is = mayBe(recv, T, b)
						if is && derivesFromMemberEdge(recv, T, comp[T], 0) {
							is = false // member nodes of a composite are leaves (single names, wildcards): not composites themselves
						}
					}
					if !is {
						continue
					}
					r.Instances++
					if !static {
						if ov := override(T, m); ov != nil {
							okOv := overrideOK[T.Obj().Name()+"."+m]
							r.Oblige(okOv)
							r.Sample("%s: %s#%d on a node that may be %s: dispatches to %s's own %s", load.FuncName(fn), m, nth[m], T.Obj().Name(), T.Obj().Name(), m)
							continue
						}
					}
					// special-cased at the call site: type test of recv to *T in this function
					if tv == nil {
						for _, bb := range fn.Blocks {
							for _, x := range bb.Instrs {
								if ta, isTA := x.(*ssa.TypeAssert); isTA && ta.CommaOk && ta.X == recv {
									if pt, isPtr := ta.AssertedType.(*types.Pointer); isPtr && types.Identical(pt.Elem(), T) {
										for _, ref := range *ta.Referrers() {
											if ex, isE := ref.(*ssa.Extract); isE && ex.Index == 0 {
												tv = ex
											}
										}
									}
								}
							}
						}
					}
					var missing []int
					if tv == nil {
						missing = comp[T]
					} else {
						got := edgesPropagated(p, fn, tv, m, setters)
						for _, f := range comp[T] {
							if !got[f] {
								missing = append(missing, f)
							}
						}
					}
					r.Oblige(len(missing) == 0)
					r.Sample("%s: %s#%d on a node that may be %s: member edges reached at the call site: %v", load.FuncName(fn), m, nth[m], T.Obj().Name(), len(missing) == 0)
					if len(missing) > 0 {
						f := r.Violation(fmt.Sprintf("%s: %s#%d does not reach %s", load.FuncName(fn), m, nth[m], edgeNames(T, missing)), p.RelPos(ins.Pos()),
							"%s applies %s to a node that may be a %s, but not to the nodes in %s, which that node evaluates into the same result list (%s has no %s of its own): those member nodes keep a stale %s",
							load.FuncName(fn), m, T.Obj().Name(), edgeNames(T, missing), T.Obj().Name(), m, map[string]string{}[m]+settingName(p, m, setters))
						engine.Restrict(f, walkProps(p, m, setters)...)
					}
				}
			}
		}
	}
	return r
}

// settingName: a readable name of what setter m sets (the field name).
func settingName(p *load.Program, m string, setters map[string]int) string {
	if st, ok := p.Roles.BasicNode.Underlying().(*types.Struct); ok {
		if f, has := setters[m]; has && f < st.NumFields() {
			return st.Field(f).Name()
		}
	}
	return m
}

// walkProps: which properties a stale setting on member nodes concerns, by the type of the field.
func walkProps(p *load.Program, m string, setters map[string]int) []string {
	st, ok := p.Roles.BasicNode.Underlying().(*types.Struct)
	if !ok {
		return nil
	}
	f := setters[m]
	ft := st.Field(f).Type()
	switch {
	case types.Identical(ft, p.Roles.NodeIface):
		return []string{"C08", "C14"} // the continuation is lost for members
	case isBasicKind(ft, types.Bool):
		return []string{"C12", "C13"} // accessor flag
	default:
		return []string{"C15"} // texts used in error reports and in the deepest-error ranking
	}
}

// ruleNCtor: N-CTOR — every node constructed by the parser takes the parser's accessor-mode flag.
func ruleNCtor(c *engine.Context) *report.Rule {
	r := report.NewRule("N-CTOR", "every node the parser constructs takes the parser's accessor-mode flag at construction", 8)
	p := c.P
	bst, ok := p.Roles.BasicNode.Underlying().(*types.Struct)
	if !ok {
		r.InfraFail("anchor unresolved: basic node struct")
		return r
	}
	// the accessor flag field: the bool field written by a setter taking a bool
	flagField := -1
	for m, f := range nodeSetters(p) {
		_ = m
		if isBasicKind(bst.Field(f).Type(), types.Bool) {
			flagField = f
		}
	}
	if flagField < 0 {
		r.InfraFail("anchor unresolved: accessor flag field")
		return r
	}
	type site struct {
		al  *ssa.Alloc
		fn  *ssa.Function
		src string // description of the stored value's origin
		ok  bool
	}
	var sites []*site
	origins := map[string]int{}
	for _, fn := range p.Funcs {
		if fn.Blocks == nil || !p.ParsePhase[fn] {
			continue
		}
		for _, b := range fn.Blocks {
			for _, ins := range b.Instrs {
				al, ok := ins.(*ssa.Alloc)
				if !ok || !al.Heap {
					continue
				}
				if !types.Identical(al.Type().(*types.Pointer).Elem(), p.Roles.BasicNode) {
					continue
				}
				s := &site{al: al, fn: fn, src: "(not set)"}
				for _, ref := range *al.Referrers() {
					fa, ok := ref.(*ssa.FieldAddr)
					if !ok || fa.Field != flagField {
						continue
					}
					for _, r2 := range *fa.Referrers() {
						if st, ok := r2.(*ssa.Store); ok && st.Addr == ssa.Value(fa) {
							s.src = "(other value)"
							if ld, ok := st.Val.(*ssa.UnOp); ok {
								if fa2, ok := ld.X.(*ssa.FieldAddr); ok {
									if pt, ok := fa2.X.Type().(*types.Pointer); ok {
										if nt, ok := pt.Elem().(*types.Named); ok {
											s.src = fmt.Sprintf("%s.%s", nt.Obj().Name(), nt.Underlying().(*types.Struct).Field(fa2.Field).Name())
										}
									}
								}
							}
						}
					}
				}
				origins[s.src]++
				sites = append(sites, s)
			}
		}
	}
	if len(sites) == 0 {
		r.InfraFail("anchor unresolved: no construction of the basic node in parse code")
		return r
	}
	// the parser flag: the origin used by the majority of the sites (a field of the parser struct)
	best, bestN := "", 0
	for o, n := range origins {
		if n > bestN && !strings.HasPrefix(o, "(") {
			best, bestN = o, n
		}
	}
	for _, s := range sites {
		r.Instances++
		okS := s.src == best
		r.Oblige(okS)
		r.Sample("node constructed in %s: accessor flag from %s", load.FuncName(s.fn), s.src)
		if !okS {
			r.Violation("node constructed in "+load.FuncName(s.fn)+" without the parser's accessor flag", p.RelPos(s.al.Pos()),
				"%s constructs a node whose accessor-mode flag is %s; the other %d construction sites take it from %s: in accessor mode this node emits plain values, so its results cannot be written through", load.FuncName(s.fn), s.src, bestN, best)
		}
	}
	return r
}

// narrowedAway: every path from the entry to block b passes the true edge of a type test of v
// against a type other than T.
func narrowedAway(v ssa.Value, T *types.Named, b *ssa.BasicBlock, seen map[*ssa.BasicBlock]bool) bool {
	if seen[b] {
		return true
	}
	seen[b] = true
	if len(b.Preds) == 0 {
		return false
	}
	for _, pb := range b.Preds {
		okEdge := false
		if ifi, isIf := pb.Instrs[len(pb.Instrs)-1].(*ssa.If); isIf && pb.Succs[0] == b && pb.Succs[1] != b {
			if ex, isE := ifi.Cond.(*ssa.Extract); isE && ex.Index == 1 {
				if ta, isTA := ex.Tuple.(*ssa.TypeAssert); isTA && ta.X == v {
					t := ta.AssertedType
					if pt, isPtr := t.(*types.Pointer); isPtr {
						t = pt.Elem()
					}
					if !types.Identical(t, T) {
						okEdge = true
					}
				}
			}
		}
		if !okEdge && !narrowedAway(v, T, pb, seen) {
			return false
		}
	}
	return true
}

// derivesFromMemberEdge: v is (an element of) a member-edge field of a value of type *T.
func derivesFromMemberEdge(v ssa.Value, T *types.Named, fields []int, depth int) bool {
	if depth > 10 {
		return false
	}
	switch x := v.(type) {
	case *ssa.UnOp:
		return derivesFromMemberEdge(x.X, T, fields, depth+1)
	case *ssa.IndexAddr:
		return derivesFromMemberEdge(x.X, T, fields, depth+1)
	case *ssa.Index:
		return derivesFromMemberEdge(x.X, T, fields, depth+1)
	case *ssa.Extract:
		// range over a slice held in a local: not needed today
		return false
	case *ssa.FieldAddr:
		if pt, ok := x.X.Type().(*types.Pointer); ok && types.Identical(pt.Elem(), T) {
			for _, f := range fields {
				if f == x.Field {
					return true
				}
			}
		}
		return derivesFromMemberEdge(x.X, T, fields, depth+1)
	}
	return false
}
