package stackty

import (
	"go/constant"
	"go/token"
	"go/types"

	"golang.org/x/tools/go/ssa"

	"verif/checker/internal/cfgutil"
	"verif/checker/internal/load"
)

const maxPaths = 400

// blockPaths enumerates acyclic block paths from start until a Return/Panic or until stop is reached.
func blockPaths(start, stop *ssa.BasicBlock, limit int) ([][]*ssa.BasicBlock, bool) {
	var out [][]*ssa.BasicBlock
	complete := true
	var walk func(b *ssa.BasicBlock, cur []*ssa.BasicBlock, on map[*ssa.BasicBlock]bool)
	walk = func(b *ssa.BasicBlock, cur []*ssa.BasicBlock, on map[*ssa.BasicBlock]bool) {
		if len(out) >= limit {
			complete = false
			return
		}
		cur = append(append([]*ssa.BasicBlock(nil), cur...), b)
		last := b.Instrs[len(b.Instrs)-1]
		switch last.(type) {
		case *ssa.Return, *ssa.Panic:
			out = append(out, cur)
			return
		}
		progressed := false
		for _, s := range b.Succs {
			if s == stop {
				out = append(out, cur)
				progressed = true
				continue
			}
			if on[s] {
				continue
			}
			on[s] = true
			walk(s, cur, on)
			delete(on, s)
			progressed = true
		}
		// a block whose only successors are back edges ends no path: further iterations of a
		// loop have the same stack effect as the enumerated ones (loops contain no stack operations: checked)
		_ = progressed
	}
	walk(start, nil, map[*ssa.BasicBlock]bool{start: true})
	return out, complete
}

// Summarise returns the stack-effect paths of a function (memoised, recursion-safe).
func (m *Model) Summarise(fn *ssa.Function) []Path {
	if ps, ok := m.summaries[fn]; ok {
		return ps
	}
	if m.inProgress[fn] {
		// recursive helper: summarised by its non-recursive paths (termination is P-SCT's business)
		return nil
	}
	m.inProgress[fn] = true
	defer delete(m.inProgress, fn)
	var out []Path
	if fn.Blocks == nil {
		m.summaries[fn] = []Path{{}}
		return m.summaries[fn]
	}
	bps, complete := blockPaths(fn.Blocks[0], nil, maxPaths)
	if !complete {
		m.problem("too many paths in %s", load.FuncName(fn))
	}
	loops := cfgutil.Loops(fn)
	for _, bp := range bps {
		out = append(out, m.walk(fn, bp, loops)...)
		if len(out) > maxPaths {
			m.problem("too many stack-effect paths in %s", load.FuncName(fn))
			break
		}
	}
	out = dedupPaths(out)
	m.summaries[fn] = out
	m.Helpers++
	return out
}

func opKey(o Op) string {
	s := string(rune('A' + int(o.Kind)))
	for _, t := range o.TypeStr {
		s += ":" + t
	}
	if o.Kind == OpPush && o.SlotRef >= 0 {
		s += ":slot" + string(rune('0'+o.SlotRef))
	}
	if !o.Guarded && (o.Kind == OpSave || o.Kind == OpLoad || o.Kind == OpCollapse) {
		s += ":unguarded"
	}
	return s
}

func pathKey(p Path) string {
	s := ""
	for _, o := range p.Ops {
		s += opKey(o) + ";"
	}
	if p.Panics {
		s += "PANIC"
	}
	return s
}

func dedupPaths(ps []Path) []Path {
	seen := map[string]bool{}
	var out []Path
	for _, p := range ps {
		k := pathKey(p)
		if !seen[k] {
			seen[k] = true
			out = append(out, p)
		}
	}
	return out
}

func typeStrs(ts []types.Type) []string {
	var out []string
	for _, t := range ts {
		out = append(out, types.TypeString(t, func(*types.Package) string { return "" }))
	}
	return out
}

// walk turns one block path into stack-effect paths (several, when helpers branch).
func (m *Model) walk(fn *ssa.Function, bp []*ssa.BasicBlock, loops []*cfgutil.Loop) []Path {
	cur := []Path{{}}
	if m.infeasible(bp) {
		return nil
	}
	popCalls := map[*ssa.Call]int{} // pop call -> ordinal among pops of this (outer) path; only for pops at this level
	inLoop := func(b *ssa.BasicBlock) bool { return cfgutil.InnermostLoop(loops, b) != nil }
	onPath := map[*ssa.BasicBlock]bool{}
	for _, b := range bp {
		onPath[b] = true
	}
	appendOp := func(o Op) {
		for i := range cur {
			if !cur[i].Panics {
				cur[i].Ops = append(append([]Op(nil), cur[i].Ops...), o)
			}
		}
	}
	countPops := func(p Path) int {
		n := 0
		for _, o := range p.Ops {
			if o.Kind == OpPop {
				n++
			}
		}
		return n
	}
	for _, b := range bp {
		for _, ins := range b.Instrs {
			switch x := ins.(type) {
			case *ssa.Panic:
				for i := range cur {
					cur[i].Panics = true
				}
			case *ssa.Store, *ssa.IndexAddr, *ssa.Slice:
				// raw stack access outside a primitive
				if _, isPrim := m.prims[fn]; !isPrim {
					switch y := x.(type) {
					case *ssa.Store:
						if m.stackField(y.Addr) >= 0 {
							m.problem("%s writes the value stack directly", load.FuncName(fn))
						}
					case *ssa.IndexAddr:
						if c, isC := y.Index.(*ssa.Const); isC && c.Value != nil && c.Int64() == 0 && m.loadOfField(y.X, m.frameField) && !inLoop(b) {
							// a read of the bottom of the current frame written out in place (the peek
							// primitive expanded into its caller): the same obligation as the primitive
							isRead := true
							for _, ref := range *y.Referrers() {
								if st, ok := ref.(*ssa.Store); ok && st.Addr == ssa.Value(y) {
									isRead = false
								}
							}
							if isRead {
								ts := assertsOn(y)
								appendOp(Op{Kind: OpPeekBottom, SlotRef: -1, Pos: y.Pos(), Types: ts, TypeStr: typeStrs(ts)})
								continue
							}
						}
						if m.loadOfField(y.X, m.frameField) || m.loadOfField(y.X, m.savedField) {
							m.problem("%s indexes the value stack directly", load.FuncName(fn))
						}
					}
				}
			case *ssa.Call:
				sc := x.Call.StaticCallee()
				if sc == nil {
					continue
				}
				kind, isPrim := m.prims[sc]
				if isPrim {
					if inLoop(b) && kind != OpPeekTop && kind != OpPeekBottom {
						m.problem("%s performs a stack operation inside a loop", load.FuncName(fn))
					}
					o := Op{Kind: kind, SlotRef: -1, Pos: x.Pos(), Guarded: m.primGuard[sc]}
					switch kind {
					case OpPush:
						arg := x.Call.Args[len(x.Call.Args)-1]
						ts, ok := m.dynTypes(arg, 0)
						if ok {
							o.Types, o.TypeStr = ts, typeStrs(ts)
						} else if pc := m.popOrigin(arg, 0); pc != nil {
							if idx, seen := popCalls[pc]; seen {
								o.SlotRef = idx
							} else {
								m.problem("%s pushes a popped value of unknown origin", load.FuncName(fn))
							}
						} else {
							// statically typed interface value: the declared type is all we know
							o.Types, o.TypeStr = []types.Type{arg.Type()}, typeStrs([]types.Type{arg.Type()})
						}
					case OpPop:
						// obligations: unchecked assertions applied directly to the popped value on this path
						for _, ref := range *x.Referrers() {
							if ta, ok := ref.(*ssa.TypeAssert); ok && !ta.CommaOk && onPath[ta.Block()] {
								o.Types = append(o.Types, ta.AssertedType)
							}
						}
						o.TypeStr = typeStrs(o.Types)
						// ordinal: number of pops already on the (first) current path
						popCalls[x] = countPops(cur[0])
					case OpPeekTop, OpPeekBottom:
						o.Types = m.peekAssert[sc]
						o.TypeStr = typeStrs(o.Types)
					}
					appendOp(o)
					continue
				}
				if !(m.isStateMethod(sc) || m.isParserMethod(sc)) {
					continue
				}
				sub := m.Summarise(sc)
				if len(sub) == 0 {
					continue
				}
				if inLoop(b) {
					for _, sp := range sub {
						if len(sp.Ops) > 0 {
							m.problem("%s calls %s (which touches the value stack) inside a loop", load.FuncName(fn), load.FuncName(sc))
							break
						}
					}
				}
				var next []Path
				for _, c := range cur {
					if c.Panics {
						next = append(next, c)
						continue
					}
					base := countPops(c)
					for _, sp := range sub {
						np := Path{Ops: append([]Op(nil), c.Ops...), Panics: sp.Panics}
						for _, o := range sp.Ops {
							if o.Kind == OpPush && o.SlotRef >= 0 {
								o.SlotRef += base
							}
							np.Ops = append(np.Ops, o)
						}
						next = append(next, np)
					}
				}
				cur = dedupPaths(next)
				if len(cur) > maxPaths {
					m.problem("too many stack-effect paths through %s", load.FuncName(fn))
					cur = cur[:maxPaths]
				}
			}
		}
	}
	return cur
}

func (m *Model) isParserMethod(fn *ssa.Function) bool {
	if fn.Signature.Recv() == nil {
		return false
	}
	pt, ok := fn.Signature.Recv().Type().(*types.Pointer)
	return ok && types.Identical(pt.Elem(), m.P.Roles.ParserType) && !m.P.FuncIsGenerated(fn)
}

// SummariseActions extracts the per-action paths from the generated Execute method.
// ruleValue maps "ActionK" names to their pegRule constant values.
func (m *Model) SummariseActions(execute *ssa.Function, actionValue map[int]int64) {
	if execute == nil || execute.Blocks == nil {
		m.problem("Execute has no body")
		return
	}
	loops := cfgutil.Loops(execute)
	var outer *cfgutil.Loop
	for _, l := range loops {
		if outer == nil || len(l.Blocks) > len(outer.Blocks) {
			outer = l
		}
	}
	if outer == nil {
		m.problem("Execute has no token loop")
		return
	}
	// inner loops only (for the in-loop test)
	var inner []*cfgutil.Loop
	for _, l := range loops {
		if l != outer {
			inner = append(inner, l)
		}
	}
	entry := map[int64]*ssa.BasicBlock{}
	for _, b := range execute.Blocks {
		ifi, ok := b.Instrs[len(b.Instrs)-1].(*ssa.If)
		if !ok {
			continue
		}
		bo, ok := ifi.Cond.(*ssa.BinOp)
		if !ok || bo.Op != token.EQL {
			continue
		}
		cst, ok := bo.Y.(*ssa.Const)
		if !ok || cst.Value == nil || cst.Value.Kind() != constant.Int {
			continue
		}
		if v, ok := constant.Int64Val(cst.Value); ok {
			entry[v] = b.Succs[0]
		}
	}
	for k, v := range actionValue {
		eb := entry[v]
		if eb == nil {
			m.problem("action %d has no case in Execute", k)
			continue
		}
		for _, ins := range eb.Instrs {
			if ins.Pos().IsValid() {
				m.ActionPos[k] = ins.Pos()
				break
			}
		}
		bps, complete := blockPaths(eb, outer.Header, maxPaths)
		if !complete {
			m.problem("too many paths in action %d", k)
		}
		var out []Path
		for _, bp := range bps {
			out = append(out, m.walk(execute, bp, inner)...)
		}
		m.Actions[k] = dedupPaths(out)
	}
}

// infeasible: the block path takes the failing edge of a type switch for every dynamic type
// the switched value can have (the implicit default of an exhaustive type switch).
func (m *Model) infeasible(bp []*ssa.BasicBlock) bool {
	if m.EdgeInfeasible != nil {
		for i := 0; i+1 < len(bp); i++ {
			b := bp[i]
			if ifi, ok := b.Instrs[len(b.Instrs)-1].(*ssa.If); ok && len(b.Succs) == 2 && b.Succs[0] != b.Succs[1] {
				if m.EdgeInfeasible(ifi.Cond, b.Succs[0] == bp[i+1]) {
					return true
				}
			}
		}
	}
	if m.DynTypesOf == nil {
		return false
	}
	excluded := map[ssa.Value][]types.Type{}
	nilExcluded := map[ssa.Value]bool{}
	for i := 0; i+1 < len(bp); i++ {
		b := bp[i]
		ifi, ok := b.Instrs[len(b.Instrs)-1].(*ssa.If)
		if !ok || len(b.Succs) != 2 {
			continue
		}
		takenTrue := b.Succs[0] == bp[i+1]
		switch c := ifi.Cond.(type) {
		case *ssa.Extract:
			if ta, ok := c.Tuple.(*ssa.TypeAssert); ok && c.Index == 1 && ta.CommaOk && !takenTrue {
				excluded[ta.X] = append(excluded[ta.X], ta.AssertedType)
			}
		case *ssa.BinOp:
			if cst, ok := c.Y.(*ssa.Const); ok && cst.IsNil() {
				if (c.Op == token.EQL && !takenTrue) || (c.Op == token.NEQ && takenTrue) {
					nilExcluded[c.X] = true
				}
			}
		}
	}
	for v, ex := range excluded {
		if len(ex) < 2 || !nilExcluded[v] {
			continue
		}
		dyn, ok := m.DynTypesOf(v)
		if !ok || len(dyn) == 0 {
			continue
		}
		all := true
		for _, d := range dyn {
			found := false
			for _, e := range ex {
				if types.Identical(d, e) {
					found = true
				}
			}
			if !found {
				all = false
			}
		}
		if all {
			return true
		}
	}
	return false
}

// ElementSources traces the subject of a type switch of the form obj.field[0] back to the
// values stored into that field anywhere in the package: constants and values popped from the stack.
// It returns the pop calls and constant types that can end up there.
func (m *Model) ElementSources(v ssa.Value) (pops []*ssa.Call, consts []types.Type, ok bool) {
	ld, isLd := v.(*ssa.UnOp)
	if !isLd {
		return nil, nil, false
	}
	ia, isIA := ld.X.(*ssa.IndexAddr)
	if !isIA {
		return nil, nil, false
	}
	sl, isSl := ia.X.(*ssa.UnOp)
	if !isSl {
		return nil, nil, false
	}
	fa, isFA := sl.X.(*ssa.FieldAddr)
	if !isFA {
		return nil, nil, false
	}
	pt, isP := fa.X.Type().Underlying().(*types.Pointer)
	if !isP {
		return nil, nil, false
	}
	T := pt.Elem()
	ok = true
	var fromValue func(y ssa.Value, depth int)
	fromValue = func(y ssa.Value, depth int) {
		if depth > 4 {
			ok = false
			return
		}
		switch z := y.(type) {
		case *ssa.Const:
			consts = append(consts, z.Type())
		case *ssa.MakeInterface:
			if c, isC := z.X.(*ssa.Const); isC {
				consts = append(consts, c.Type())
			} else {
				ok = false
			}
		case *ssa.Parameter:
			// all call sites of the enclosing function
			f := z.Parent()
			idx := -1
			for i, prm := range f.Params {
				if prm == z {
					idx = i
				}
			}
			found := false
			for _, g := range m.P.Funcs {
				for _, b := range g.Blocks {
					for _, ins := range b.Instrs {
						call, isCall := ins.(*ssa.Call)
						if !isCall || call.Call.StaticCallee() != f {
							continue
						}
						found = true
						arg := call.Call.Args[idx]
						if pc := m.popOrigin(arg, 0); pc != nil {
							pops = append(pops, pc)
						} else {
							fromValue(arg, depth+1)
						}
					}
				}
			}
			if !found {
				ok = false
			}
		default:
			if pc := m.popOrigin(y, 0); pc != nil {
				pops = append(pops, pc)
			} else {
				ok = false
			}
		}
	}
	stores := 0
	for _, g := range m.P.Funcs {
		for _, b := range g.Blocks {
			for _, ins := range b.Instrs {
				st, isSt := ins.(*ssa.Store)
				if !isSt {
					continue
				}
				fa2, isFA2 := st.Addr.(*ssa.FieldAddr)
				if !isFA2 || fa2.Field != fa.Field {
					continue
				}
				pt2, isP2 := fa2.X.Type().Underlying().(*types.Pointer)
				if !isP2 || !types.Identical(pt2.Elem(), T) {
					continue
				}
				stores++
				// value: slice of a one-element array literal
				sv, isSlice := st.Val.(*ssa.Slice)
				if !isSlice {
					ok = false
					continue
				}
				al, isAl := sv.X.(*ssa.Alloc)
				if !isAl {
					ok = false
					continue
				}
				for _, ref := range *al.Referrers() {
					if ia2, isIA2 := ref.(*ssa.IndexAddr); isIA2 {
						for _, r2 := range *ia2.Referrers() {
							if s2, isS2 := r2.(*ssa.Store); isS2 && s2.Addr == ssa.Value(ia2) {
								fromValue(s2.Val, 0)
							}
						}
					}
				}
			}
		}
	}
	if stores == 0 {
		ok = false
	}
	return
}

// ActionBlocks returns, per action index, the blocks of Execute that belong to the action's case body.
func ActionBlocks(execute *ssa.Function, actionValue map[int]int64) map[int][]*ssa.BasicBlock {
	out := map[int][]*ssa.BasicBlock{}
	if execute == nil || execute.Blocks == nil {
		return out
	}
	loops := cfgutil.Loops(execute)
	var outer *cfgutil.Loop
	for _, l := range loops {
		if outer == nil || len(l.Blocks) > len(outer.Blocks) {
			outer = l
		}
	}
	if outer == nil {
		return out
	}
	entry := map[int64]*ssa.BasicBlock{}
	isCase := map[*ssa.BasicBlock]bool{}
	for _, b := range execute.Blocks {
		ifi, ok := b.Instrs[len(b.Instrs)-1].(*ssa.If)
		if !ok {
			continue
		}
		bo, ok := ifi.Cond.(*ssa.BinOp)
		if !ok || bo.Op != token.EQL {
			continue
		}
		cst, ok := bo.Y.(*ssa.Const)
		if !ok || cst.Value == nil || cst.Value.Kind() != constant.Int {
			continue
		}
		if v, ok := constant.Int64Val(cst.Value); ok {
			if _, isNamed := cst.Type().(*types.Named); isNamed {
				entry[v] = b.Succs[0]
				isCase[b] = true
			}
		}
	}
	for k, v := range actionValue {
		eb := entry[v]
		if eb == nil {
			continue
		}
		seen := map[*ssa.BasicBlock]bool{}
		var walk func(b *ssa.BasicBlock)
		walk = func(b *ssa.BasicBlock) {
			if seen[b] || b == outer.Header || isCase[b] {
				return
			}
			seen[b] = true
			out[k] = append(out[k], b)
			for _, s := range b.Succs {
				// the common "switch done" block has many predecessors from different cases: stop there
				if len(s.Preds) > 4 {
					continue
				}
				walk(s)
			}
		}
		walk(eb)
	}
	return out
}
