// Package stackty types the parser's untyped action value stack: it summarises
// the stack effect of every action (from the SSA of the generated Execute and
// the hand-written helpers) and interprets the grammar over an abstract stack
// (DESIGN.md §3.D).
package stackty

import (
	"fmt"
	"go/token"
	"go/types"
	"sort"
	"strings"

	"golang.org/x/tools/go/ssa"

	"verif/checker/internal/cfgutil"
	"verif/checker/internal/load"
)

// OpKind is a primitive effect on the value stack.
type OpKind int

const (
	OpPush OpKind = iota
	OpPop
	OpSave
	OpLoad
	OpCollapse
	OpPeekTop
	OpPeekBottom
	OpPanic
)

// Op is one stack operation on a path.
type Op struct {
	Kind    OpKind
	Types   []types.Type // Push: dynamic types pushed; Pop/Peek: asserted types (obligations)
	TypeStr []string
	SlotRef int  // Push: >=0 means "the value popped by the SlotRef-th pop of this path" is pushed back
	Guarded bool // Save/Load/Collapse: the emptiness guard is present
	Pos     token.Pos
	Note    string
}

// Path is one execution path of an action or helper.
type Path struct {
	Ops    []Op
	Panics bool
}

// Model holds the primitives and summaries.
type Model struct {
	P          *load.Program
	frameField int
	savedField int
	prims      map[*ssa.Function]OpKind
	primGuard  map[*ssa.Function]bool
	peekAssert map[*ssa.Function][]types.Type
	summaries  map[*ssa.Function][]Path
	inProgress map[*ssa.Function]bool
	Problems   []string // shapes the model could not recognise (reported as undischarged)
	Actions    map[int][]Path
	ActionPos  map[int]token.Pos
	Helpers    int
	// DynTypesOf returns the dynamic types an interface value can hold (from the points-to engine).
	DynTypesOf func(v ssa.Value) ([]types.Type, bool)
	// EdgeInfeasible: the branch on cond can never go the given way (a package-wide invariant
	// established by the caller, e.g. the fixed length of a field's list).
	EdgeInfeasible func(cond ssa.Value, taken bool) bool
}

func (m *Model) problem(f string, a ...interface{}) {
	m.Problems = append(m.Problems, fmt.Sprintf(f, a...))
}

func isIfaceSlice(t types.Type) bool {
	s, ok := t.Underlying().(*types.Slice)
	if !ok {
		return false
	}
	i, ok := s.Elem().Underlying().(*types.Interface)
	return ok && i.NumMethods() == 0
}

// NewModel identifies the stack fields and primitive functions.
func NewModel(p *load.Program) *Model {
	m := &Model{P: p, frameField: -1, savedField: -1, prims: map[*ssa.Function]OpKind{}, primGuard: map[*ssa.Function]bool{},
		peekAssert: map[*ssa.Function][]types.Type{}, summaries: map[*ssa.Function][]Path{}, inProgress: map[*ssa.Function]bool{},
		Actions: map[int][]Path{}, ActionPos: map[int]token.Pos{}}
	st := p.Roles.ActionState.Underlying().(*types.Struct)
	for i := 0; i < st.NumFields(); i++ {
		t := st.Field(i).Type()
		if isIfaceSlice(t) {
			m.frameField = i
		}
		if s, ok := t.Underlying().(*types.Slice); ok && isIfaceSlice(s.Elem()) {
			m.savedField = i
		}
	}
	if m.frameField < 0 || m.savedField < 0 {
		m.problem("anchor unresolved: value-stack fields of the action state")
		return m
	}
	for _, fn := range p.Funcs {
		if fn.Blocks == nil || !m.isStateMethod(fn) {
			continue
		}
		m.classify(fn)
	}
	return m
}

func (m *Model) isStateMethod(fn *ssa.Function) bool {
	if fn.Signature.Recv() == nil || len(fn.Params) == 0 {
		return false
	}
	pt, ok := fn.Signature.Recv().Type().(*types.Pointer)
	return ok && types.Identical(pt.Elem(), m.P.Roles.ActionState)
}

// fieldOfRecv: v is &recv.field (possibly through the embedded struct of the parser type).
func (m *Model) stackField(v ssa.Value) int {
	fa, ok := v.(*ssa.FieldAddr)
	if !ok {
		return -1
	}
	pt, ok := fa.X.Type().Underlying().(*types.Pointer)
	if !ok || !types.Identical(pt.Elem(), m.P.Roles.ActionState) {
		return -1
	}
	if fa.Field == m.frameField || fa.Field == m.savedField {
		return fa.Field
	}
	return -1
}

func (m *Model) loadOfField(v ssa.Value, field int) bool {
	ld, ok := v.(*ssa.UnOp)
	return ok && ld.Op == token.MUL && m.stackField(ld.X) == field
}

func isLenMinus1Of(v ssa.Value, isBase func(ssa.Value) bool) bool {
	bo, ok := v.(*ssa.BinOp)
	if !ok || bo.Op != token.SUB {
		return false
	}
	if c, okc := cfgutil.ConstInt(bo.Y); !okc || c != 1 {
		return false
	}
	call, ok := bo.X.(*ssa.Call)
	if !ok {
		return false
	}
	bi, ok := call.Call.Value.(*ssa.Builtin)
	return ok && bi.Name() == "len" && isBase(call.Call.Args[0])
}

// rawAccesses lists the direct accesses of fn to the stack fields.
type rawAccess struct {
	kind string // push, shrink, clear, loadframe, replace1, saveappend, savedshrink, peektop, peekbottom, peekother, readall
	ins  ssa.Instruction
	val  ssa.Value
}

func (m *Model) rawAccesses(fn *ssa.Function) []rawAccess {
	var out []rawAccess
	isFrame := func(v ssa.Value) bool { return m.loadOfField(v, m.frameField) }
	isSaved := func(v ssa.Value) bool { return m.loadOfField(v, m.savedField) }
	for _, b := range fn.Blocks {
		for _, ins := range b.Instrs {
			switch x := ins.(type) {
			case *ssa.Store:
				f := m.stackField(x.Addr)
				if f < 0 {
					continue
				}
				kind := "unknown-write"
				switch v := x.Val.(type) {
				case *ssa.Call:
					if bi, ok := v.Call.Value.(*ssa.Builtin); ok && bi.Name() == "append" {
						a0, a1 := v.Call.Args[0], v.Call.Args[1]
						switch {
						case f == m.frameField && isFrame(a0):
							kind = "push"
						case f == m.savedField && isSaved(a0):
							kind = "saveappend"
						case f == m.frameField && isFrame(a1):
							// append(saved[len-1], frame...)
							if ld, ok := a0.(*ssa.UnOp); ok {
								if ia, ok := ld.X.(*ssa.IndexAddr); ok && isSaved(ia.X) && isLenMinus1Of(ia.Index, isSaved) {
									kind = "loadframe"
								}
							}
						}
					}
				case *ssa.Slice:
					switch {
					case f == m.frameField && isFrame(v.X) && v.Low == nil && v.High != nil && isLenMinus1Of(v.High, isFrame):
						kind = "shrink"
					case f == m.savedField && isSaved(v.X) && v.Low == nil && v.High != nil && isLenMinus1Of(v.High, isSaved):
						kind = "savedshrink"
					default:
						if al, ok := v.X.(*ssa.Alloc); ok && f == m.frameField {
							if at, ok := al.Type().(*types.Pointer).Elem().(*types.Array); ok && at.Len() == 1 {
								kind = "replace1"
							}
						}
					}
				case *ssa.Const:
					if v.IsNil() && f == m.frameField {
						kind = "clear"
					}
				}
				out = append(out, rawAccess{kind, ins, x.Val})
			case *ssa.IndexAddr:
				if isFrame(x.X) {
					kind := "peekother"
					if c, ok := cfgutil.ConstInt(x.Index); ok && c == 0 {
						kind = "peekbottom"
					} else if isLenMinus1Of(x.Index, isFrame) {
						kind = "peektop"
					}
					out = append(out, rawAccess{kind, ins, x})
				}
			case *ssa.Slice:
				if isFrame(x.X) && x.Low != nil {
					out = append(out, rawAccess{"readall", ins, x})
				}
			}
		}
	}
	return out
}

func kindsOf(ra []rawAccess) string {
	var ks []string
	for _, a := range ra {
		ks = append(ks, a.kind)
	}
	sort.Strings(ks)
	return strings.Join(ks, ",")
}

// guardLen: block b is dominated by the true edge of len(load field) > k.
func (m *Model) guardLen(b *ssa.BasicBlock, field int, k int64) bool {
	for d := b; d != nil; d = d.Idom() {
		idom := d.Idom()
		if idom == nil {
			break
		}
		ifi, ok := idom.Instrs[len(idom.Instrs)-1].(*ssa.If)
		if !ok || idom.Succs[0] != d || len(d.Preds) != 1 {
			continue
		}
		bo, ok := ifi.Cond.(*ssa.BinOp)
		if !ok || bo.Op != token.GTR {
			continue
		}
		c, okc := cfgutil.ConstInt(bo.Y)
		if !okc || c < k {
			continue
		}
		call, ok := bo.X.(*ssa.Call)
		if !ok {
			continue
		}
		if bi, ok := call.Call.Value.(*ssa.Builtin); ok && bi.Name() == "len" && m.loadOfField(call.Call.Args[0], field) {
			return true
		}
	}
	return false
}

// assertsOn returns the unchecked assertion types applied to (a load of) address/value v.
func assertsOn(v ssa.Value) []types.Type {
	var out []types.Type
	var visit func(x ssa.Value, depth int)
	visit = func(x ssa.Value, depth int) {
		if depth > 3 || x.Referrers() == nil {
			return
		}
		for _, ref := range *x.Referrers() {
			switch y := ref.(type) {
			case *ssa.UnOp:
				if y.Op == token.MUL {
					visit(y, depth+1)
				}
			case *ssa.TypeAssert:
				if !y.CommaOk {
					out = append(out, y.AssertedType)
				}
			}
		}
	}
	visit(v, 0)
	return out
}

// classify recognises primitive functions by their raw accesses.
func (m *Model) classify(fn *ssa.Function) {
	ra := m.rawAccesses(fn)
	if len(ra) == 0 {
		return
	}
	ks := kindsOf(ra)
	blockOf := func(kind string) *ssa.BasicBlock {
		for _, a := range ra {
			if a.kind == kind {
				return a.ins.Block()
			}
		}
		return nil
	}
	// a collapse that walks the frame with a counted loop instead of a range over frame[1:]:
	// reads of frame[i] with i < len(frame) established by the loop condition
	if strings.HasPrefix(ks, "peekbottom,peekother") && strings.HasSuffix(ks, "replace1") {
		all := true
		for _, a := range ra {
			if a.kind != "peekother" {
				continue
			}
			ia := a.ins.(*ssa.IndexAddr)
			bounded := false
			for d := a.ins.Block(); d != nil; d = d.Idom() {
				idom := d.Idom()
				if idom == nil {
					break
				}
				ifi, ok := idom.Instrs[len(idom.Instrs)-1].(*ssa.If)
				if !ok || idom.Succs[0] != d {
					continue
				}
				bo, ok := ifi.Cond.(*ssa.BinOp)
				if !ok || bo.Op != token.LSS || bo.X != ia.Index {
					continue
				}
				if call, ok := bo.Y.(*ssa.Call); ok {
					if bi, ok := call.Call.Value.(*ssa.Builtin); ok && bi.Name() == "len" && m.loadOfField(call.Call.Args[0], m.frameField) {
						bounded = true
					}
				}
			}
			if !bounded {
				all = false
			}
		}
		only := true
		for _, a := range ra {
			if a.kind != "peekbottom" && a.kind != "peekother" && a.kind != "replace1" {
				only = false
			}
		}
		if all && only {
			ks = "peekbottom,readall,replace1"
		}
	}
	switch ks {
	case "push":
		m.prims[fn] = OpPush
	case "peektop,shrink":
		m.prims[fn] = OpPop
	case "clear,saveappend":
		m.prims[fn] = OpSave
		m.primGuard[fn] = m.guardLen(blockOf("saveappend"), m.frameField, 0) && m.guardLen(blockOf("clear"), m.frameField, 0)
	case "loadframe,savedshrink":
		m.prims[fn] = OpLoad
		m.primGuard[fn] = m.guardLen(blockOf("loadframe"), m.savedField, 0) && m.guardLen(blockOf("savedshrink"), m.savedField, 0)
	case "peekbottom,readall,replace1":
		m.prims[fn] = OpCollapse
		m.primGuard[fn] = m.guardLen(blockOf("replace1"), m.frameField, 1) && m.guardLen(blockOf("peekbottom"), m.frameField, 1)
	case "peekbottom":
		m.prims[fn] = OpPeekBottom
		m.peekAssert[fn] = assertsOn(ra[0].val)
	case "peektop":
		m.prims[fn] = OpPeekTop
		m.peekAssert[fn] = assertsOn(ra[0].val)
	default:
		// not a primitive: if an action reaches it, the walk reports its raw stack accesses
	}
}

// dynTypes returns the dynamic types of an interface-typed value being pushed.
func (m *Model) dynTypes(v ssa.Value, depth int) ([]types.Type, bool) {
	if depth > 5 {
		return nil, false
	}
	switch x := v.(type) {
	case *ssa.MakeInterface:
		if _, isIface := x.X.Type().Underlying().(*types.Interface); isIface {
			return m.dynTypes(x.X, depth+1)
		}
		return []types.Type{x.X.Type()}, true
	case *ssa.ChangeInterface:
		return m.dynTypes(x.X, depth+1)
	case *ssa.Const:
		if x.IsNil() {
			return []types.Type{types.Typ[types.UntypedNil]}, true
		}
	case *ssa.Call:
		if sc := x.Call.StaticCallee(); sc != nil && sc.Blocks != nil {
			var out []types.Type
			ok := true
			for _, b := range sc.Blocks {
				if ret, isRet := b.Instrs[len(b.Instrs)-1].(*ssa.Return); isRet && len(ret.Results) >= 1 {
					ts, k := m.dynTypes(ret.Results[0], depth+1)
					out = append(out, ts...)
					ok = ok && k
				}
			}
			return out, ok && len(out) > 0
		}
	case *ssa.Phi:
		var out []types.Type
		ok := true
		for _, e := range x.Edges {
			ts, k := m.dynTypes(e, depth+1)
			out = append(out, ts...)
			ok = ok && k
		}
		return out, ok
	case *ssa.TypeAssert:
		if !x.CommaOk {
			if _, isIface := x.AssertedType.Underlying().(*types.Interface); !isIface {
				return []types.Type{x.AssertedType}, true
			}
			// asserted to an interface: the dynamic type is whatever was popped; caller handles slot refs
		}
	case *ssa.Extract:
		if ta, ok := x.Tuple.(*ssa.TypeAssert); ok && x.Index == 0 {
			if _, isIface := ta.AssertedType.Underlying().(*types.Interface); !isIface {
				return []types.Type{ta.AssertedType}, true
			}
		}
	}
	if _, isIface := v.Type().Underlying().(*types.Interface); !isIface {
		return []types.Type{v.Type()}, true
	}
	return nil, false
}

// popOrigin: v is (an assertion / conversion of) the result of a pop call; returns that call.
func (m *Model) popOrigin(v ssa.Value, depth int) *ssa.Call {
	if depth > 5 {
		return nil
	}
	switch x := v.(type) {
	case *ssa.Call:
		if sc := x.Call.StaticCallee(); sc != nil && m.prims[sc] == OpPop {
			if _, isPrim := m.prims[sc]; isPrim {
				return x
			}
		}
	case *ssa.TypeAssert:
		return m.popOrigin(x.X, depth+1)
	case *ssa.ChangeInterface:
		return m.popOrigin(x.X, depth+1)
	case *ssa.MakeInterface:
		return m.popOrigin(x.X, depth+1)
	case *ssa.Extract:
		return m.popOrigin(x.Tuple, depth+1)
	}
	return nil
}

// IsPop reports whether fn is the recognised pop primitive.
func (m *Model) IsPop(fn *ssa.Function) bool {
	k, ok := m.prims[fn]
	return ok && k == OpPop
}
