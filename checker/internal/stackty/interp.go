package stackty

import (
	"fmt"
	"go/token"
	"go/types"
	"sort"
	"strings"

	"verif/checker/internal/peg"
)

// Slot is one stack cell: the set of dynamic types its producers can push.
type Slot map[string]types.Type

func (s Slot) key() string {
	var ks []string
	for k := range s {
		ks = append(ks, k)
	}
	sort.Strings(ks)
	return strings.Join(ks, "|")
}

func (s Slot) union(t Slot) Slot {
	out := Slot{}
	for k, v := range s {
		out[k] = v
	}
	for k, v := range t {
		out[k] = v
	}
	return out
}

// Item is a slot, or zero-or-more slots of the same producer set (from a repetition).
type Item struct {
	Many bool
	S    Slot
}

type sframe struct {
	phantom  bool
	hasBelow bool
	belowNE  int
	items    []Item
}

// State is the abstract value stack.
type State struct {
	hasBelow bool
	belowNE  int // 0 empty, 1 non-empty, 2 unknown (meaningful with hasBelow)
	items    []Item
	saved    []sframe
	depth0   bool // no frame is saved below this evaluation context
	touched  bool
}

func itemsKey(items []Item) string {
	var ss []string
	for _, it := range items {
		k := it.S.key()
		if it.Many {
			k = "(" + k + ")*"
		}
		ss = append(ss, k)
	}
	return "[" + strings.Join(ss, ", ") + "]"
}

func (s State) shapeKey() string {
	k := fmt.Sprintf("B%v/%d d0=%v n=%d", s.hasBelow, s.belowNE, s.depth0, len(s.items))
	for _, it := range s.items {
		if it.Many {
			k += "*"
		} else {
			k += "."
		}
	}
	for _, sf := range s.saved {
		k += fmt.Sprintf(" S(ph=%v,B%v,%d)", sf.phantom, sf.hasBelow, len(sf.items))
	}
	return k
}

func (s State) fullKey() string {
	k := s.shapeKey() + " " + itemsKey(s.items)
	for _, sf := range s.saved {
		k += " S" + itemsKey(sf.items)
	}
	return k
}

func (s State) clone() State {
	n := s
	n.items = append([]Item(nil), s.items...)
	n.saved = append([]sframe(nil), s.saved...)
	return n
}

// Finding of the interpreter.
type Finding struct {
	Rule      string // ST-TYPES, ST-BALANCE, ST-FRAMES, ST-UNIFORM
	Construct string
	Msg       string
	Pos       token.Pos
}

// Interp interprets the grammar over abstract stacks.
type Interp struct {
	M        *Model
	G        *peg.Grammar
	NodeT    types.Type
	findings map[string]Finding
	// summaries: rule|belowNE|depth0 -> result
	sums        map[string]*ruleSum
	inProgress  map[string]bool
	changed     bool
	iter        int
	sumIter     map[string]int
	inline      []string
	Obligations int // asserting pops/peeks checked
	RuleEffects map[string]string
	PopSlots    map[token.Pos]Slot // types seen by each pop (by position of the pop call)
	curRule     string
	Debug       bool
}

type ruleSum struct {
	results   []State // frames relative to BELOW
	dependent bool    // touches BELOW: must be inlined
}

func NewInterp(m *Model, g *peg.Grammar, nodeT types.Type) *Interp {
	return &Interp{M: m, G: g, NodeT: nodeT, findings: map[string]Finding{}, sums: map[string]*ruleSum{}, inProgress: map[string]bool{}, RuleEffects: map[string]string{}, sumIter: map[string]int{}, PopSlots: map[token.Pos]Slot{}}
}

func (in *Interp) find(rule, construct, msg string, pos token.Pos) {
	k := rule + "::" + construct
	if _, ok := in.findings[k]; !ok {
		in.findings[k] = Finding{rule, construct, msg, pos}
	}
}

func (in *Interp) Findings() []Finding {
	var out []Finding
	for _, f := range in.findings {
		out = append(out, f)
	}
	sort.Slice(out, func(i, j int) bool { return out[i].Rule+out[i].Construct < out[j].Rule+out[j].Construct })
	return out
}

func assignable(t, want types.Type) bool {
	if b, ok := t.(*types.Basic); ok && b.Kind() == types.UntypedNil {
		return false // a type assertion on a nil interface always fails
	}
	if types.Identical(t, want) {
		return true
	}
	if wi, ok := want.Underlying().(*types.Interface); ok {
		if _, tIsIface := t.Underlying().(*types.Interface); tIsIface {
			// interface-typed producer: its dynamic type is unknown unless it is the same interface or a sub-interface
			return types.Implements(t, wi)
		}
		return types.Implements(t, wi)
	}
	return false
}

func mkSlot(ts []types.Type, strs []string) Slot {
	s := Slot{}
	for i, t := range ts {
		s[strs[i]] = t
	}
	return s
}

func joinStates(ss []State) []State {
	by := map[string]int{}
	var out []State
	for _, s := range ss {
		k := s.shapeKey()
		if i, ok := by[k]; ok {
			o := out[i].clone()
			for j := range o.items {
				o.items[j].S = o.items[j].S.union(s.items[j].S)
			}
			for a := range o.saved {
				its := append([]Item(nil), o.saved[a].items...)
				for j := range its {
					its[j].S = its[j].S.union(s.saved[a].items[j].S)
				}
				o.saved[a].items = its
			}
			o.touched = o.touched || s.touched
			out[i] = o
		} else {
			by[k] = len(out)
			out = append(out, s)
		}
	}
	return out
}

func (in *Interp) checkAssert(slot Slot, asserts []types.Type, what string, pos token.Pos) {
	for _, a := range asserts {
		in.Obligations++
		for name, t := range slot {
			if !assignable(t, a) {
				in.find("ST-TYPES", fmt.Sprintf("%s asserts %s on a value that can be %s", what, types.TypeString(a, func(*types.Package) string { return "" }), name),
					fmt.Sprintf("%s (grammar rule %s) asserts the popped value to be %s, but a derivation exists in which that stack slot holds a %s: the unchecked assertion panics with a runtime.TypeAssertionError",
						what, in.curRule, types.TypeString(a, func(*types.Package) string { return "" }), name), pos)
			}
		}
	}
}

// applyPath applies one action path to a state; ok=false if the path panics or the state is invalid.
func (in *Interp) applyPath(st State, p Path, what string) (State, bool) {
	if p.Panics {
		return st, false
	}
	s := st.clone()
	var popped []Slot
	for _, o := range p.Ops {
		switch o.Kind {
		case OpPush:
			if o.SlotRef >= 0 {
				if o.SlotRef < len(popped) {
					s.items = append(s.items, Item{S: popped[o.SlotRef]})
				} else {
					in.find("ST-TYPES", what+" pushes back an unknown slot", what+" pushes a popped value that the model could not track", o.Pos)
					s.items = append(s.items, Item{S: Slot{"?": types.Typ[types.Invalid]}})
				}
			} else {
				s.items = append(s.items, Item{S: mkSlot(o.Types, o.TypeStr)})
			}
		case OpPop:
			if len(s.items) == 0 {
				if s.hasBelow && s.belowNE != 0 {
					in.debugf("touch: %s pops BELOW in rule %s", what, in.curRule)
					s.touched = true
					return s, true
				}
				in.find("ST-BALANCE", what+" pops an empty stack", fmt.Sprintf("%s (grammar rule %s) pops a value, but a derivation exists in which the value stack is empty at that point: index out of range panic", what, in.curRule), o.Pos)
				return s, false
			}
			top := s.items[len(s.items)-1]
			if top.Many {
				in.find("ST-BALANCE", what+" pops across a repetition", fmt.Sprintf("%s pops a value pushed by a repeated sub-expression; the number of values there is not fixed", what), o.Pos)
				popped = append(popped, top.S)
				continue
			}
			s.items = s.items[:len(s.items)-1]
			in.checkAssert(top.S, o.Types, what, o.Pos)
			popped = append(popped, top.S)
			if o.Pos.IsValid() {
				in.PopSlots[o.Pos] = in.PopSlots[o.Pos].union(top.S)
			}
		case OpSave:
			nonEmpty := len(s.items) > 0 || (s.hasBelow && s.belowNE == 1)
			empty := len(s.items) == 0 && (!s.hasBelow || s.belowNE == 0)
			realSaved := !s.depth0
			for _, sf := range s.saved {
				if !sf.phantom {
					realSaved = true
				}
			}
			switch {
			case nonEmpty || !o.Guarded:
				s.saved = append(s.saved, sframe{hasBelow: s.hasBelow, belowNE: s.belowNE, items: s.items})
				s.hasBelow, s.items = false, nil
			case empty:
				if realSaved {
					in.find("ST-FRAMES", what+" skips saving an empty frame inside a saved context", fmt.Sprintf("%s (grammar rule %s): the current frame can be empty while an outer frame is saved; the guarded save is skipped and the matching load would take the outer frame", what, in.curRule), o.Pos)
				}
				s.saved = append(s.saved, sframe{phantom: true})
			default:
				// unknown emptiness: context-dependent
				in.debugf("touch: %s saves a frame of unknown emptiness in rule %s", what, in.curRule)
				s.touched = true
				return s, true
			}
		case OpLoad:
			if len(s.saved) == 0 {
				in.find("ST-FRAMES", what+" loads a frame it did not save", fmt.Sprintf("%s (grammar rule %s) restores a saved frame without a matching save in the same derivation", what, in.curRule), o.Pos)
				return s, false
			}
			top := s.saved[len(s.saved)-1]
			s.saved = s.saved[:len(s.saved)-1]
			if top.phantom {
				if !o.Guarded {
					in.find("ST-FRAMES", what+" loads from an empty list of saved frames", fmt.Sprintf("%s (grammar rule %s): a derivation exists (path starting with a filter, no frame saved) in which the list of saved frames is empty and the load is not guarded: index out of range panic", what, in.curRule), o.Pos)
					return s, false
				}
				continue
			}
			s.items = append(append([]Item(nil), top.items...), s.items...)
			s.hasBelow, s.belowNE = top.hasBelow, top.belowNE
		case OpCollapse:
			if s.hasBelow && s.belowNE != 0 {
				in.debugf("touch: %s collapses BELOW in rule %s", what, in.curRule)
				s.touched = true
				return s, true
			}
			if len(s.items) == 0 {
				continue
			}
			res := Slot{}
			many := false
			for _, it := range s.items {
				if it.Many {
					many = true
				}
				in.Obligations++
				for name, t := range it.S {
					if !assignable(t, in.NodeT) {
						in.find("ST-TYPES", what+" links a value that can be "+name, fmt.Sprintf("%s (grammar rule %s) asserts every value of the current frame to be a node, but a derivation leaves a %s there", what, in.curRule, name), o.Pos)
					}
				}
			}
			definite := 0
			for _, it := range s.items {
				if !it.Many {
					definite++
				}
			}
			if definite <= 1 {
				// the frame may hold a single value: the guard keeps it
				for _, it := range s.items {
					if !it.Many {
						res = res.union(it.S)
					}
				}
			}
			if definite > 1 || many {
				res[types.TypeString(in.NodeT, func(*types.Package) string { return "" })] = in.NodeT
			}
			s.items = []Item{{S: res}}
		case OpPeekTop, OpPeekBottom:
			if s.hasBelow && s.belowNE != 0 && (o.Kind == OpPeekBottom || len(s.items) == 0) {
				in.debugf("touch: %s peeks BELOW in rule %s", what, in.curRule)
				s.touched = true
				return s, true
			}
			if len(s.items) == 0 {
				in.find("ST-BALANCE", what+" reads an empty stack", fmt.Sprintf("%s (grammar rule %s) reads a stack element but the frame can be empty", what, in.curRule), o.Pos)
				return s, false
			}
			var sl Slot
			if o.Kind == OpPeekTop {
				sl = s.items[len(s.items)-1].S
				// a repetition on top may be empty: include what lies below it
				for j := len(s.items) - 1; j >= 0 && s.items[j].Many; j-- {
					if j-1 >= 0 {
						sl = sl.union(s.items[j-1].S)
					}
				}
			} else {
				sl = s.items[0].S
				for j := 0; j < len(s.items) && s.items[j].Many; j++ {
					if j+1 < len(s.items) {
						sl = sl.union(s.items[j+1].S)
					}
				}
			}
			in.checkAssert(sl, o.Types, what, o.Pos)
		}
	}
	return s, true
}

func (in *Interp) evalAction(k int, st State) []State {
	paths := in.M.Actions[k]
	what := fmt.Sprintf("action %d", k)
	var out []State
	for _, p := range paths {
		if s, ok := in.applyPath(st, p, what); ok {
			out = append(out, s)
		}
	}
	return joinStates(out)
}

func (in *Interp) evalAll(e peg.Expr, sts []State) []State {
	var out []State
	for _, s := range sts {
		if s.touched {
			out = append(out, s)
			continue
		}
		out = append(out, in.eval(e, s)...)
	}
	return joinStates(out)
}

func extends(base, r State) (int, bool) {
	// r = base + k extra items on top, everything else equal in shape
	if r.hasBelow != base.hasBelow || len(r.saved) != len(base.saved) || len(r.items) <= len(base.items) {
		return 0, false
	}
	for i := range base.items {
		if base.items[i].Many != r.items[i].Many {
			return 0, false
		}
	}
	return len(r.items) - len(base.items), true
}

func (in *Interp) eval(e peg.Expr, st State) []State {
	switch x := e.(type) {
	case *peg.Seq:
		cur := []State{st}
		for _, it := range x.Items {
			cur = in.evalAll(it, cur)
			if len(cur) == 0 {
				return nil
			}
		}
		return cur
	case *peg.Choice:
		var out []State
		for _, a := range x.Alts {
			out = append(out, in.eval(a, st)...)
		}
		return joinStates(out)
	case *peg.Opt:
		return joinStates(append([]State{st}, in.eval(x.E, st)...))
	case *peg.Plus:
		return in.evalAll(&peg.Star{E: x.E}, in.eval(x.E, st))
	case *peg.Star:
		acc := []State{st}
		for iter := 0; iter < 12; iter++ {
			before := ""
			for _, s := range acc {
				before += s.fullKey() + ";"
			}
			var next []State
			next = append(next, acc...)
			for _, s := range acc {
				if s.touched {
					continue
				}
				for _, r := range in.eval(x.E, s) {
					if r.touched {
						next = append(next, r)
						continue
					}
					if r.shapeKey() == s.shapeKey() {
						next = append(next, r)
						continue
					}
					if k, ok := extends(s, r); ok {
						// the repetition leaves k extra values per iteration: zero-or-more of their union
						u := Slot{}
						for _, it := range r.items[len(s.items):] {
							u = u.union(it.S)
						}
						ns := s.clone()
						for j := range ns.items {
							ns.items[j].S = ns.items[j].S.union(r.items[j].S)
						}
						if n := len(ns.items); n > 0 && ns.items[n-1].Many {
							ns.items[n-1].S = ns.items[n-1].S.union(u)
						} else {
							ns.items = append(ns.items, Item{Many: true, S: u})
						}
						_ = k
						next = append(next, ns)
						continue
					}
					in.find("ST-BALANCE", "repetition in rule "+in.curRule+" changes the stack irregularly", fmt.Sprintf("a repeated sub-expression of rule %s neither preserves the stack shape nor adds a fixed number of values per iteration", in.curRule), token.NoPos)
				}
			}
			acc = joinStates(next)
			// drop the base state if a Many-extended version subsumes it? keep both: zero iterations is possible
			after := ""
			for _, s := range acc {
				after += s.fullKey() + ";"
			}
			if after == before {
				break
			}
		}
		// a state extended with Many subsumes the unextended one (Many may be empty)
		var pruned []State
		for _, s := range acc {
			sub := false
			for _, t := range acc {
				if len(t.items) == len(s.items)+1 && t.items[len(t.items)-1].Many && !(len(s.items) > 0 && s.items[len(s.items)-1].Many) {
					if _, ok := extends(s, t); ok {
						sub = true
					}
				}
			}
			if !sub {
				pruned = append(pruned, s)
			}
		}
		return pruned
	case *peg.Not, *peg.And, *peg.CharSet, *peg.Dot:
		return []State{st}
	case *peg.Capture:
		return in.eval(x.E, st)
	case *peg.Action:
		return in.evalAction(x.Index, st)
	case *peg.Ref:
		return in.evalRef(x.Name, st)
	}
	return []State{st}
}

func (in *Interp) evalRef(name string, st State) []State {
	r := in.G.ByName[name]
	if r == nil {
		return []State{st}
	}
	// callee context
	ne := 0
	switch {
	case len(st.items) > 0:
		ne = 1
	case st.hasBelow:
		ne = st.belowNE
	}
	d0 := st.depth0
	for _, sf := range st.saved {
		if !sf.phantom {
			d0 = false
		}
	}
	sum := in.summary(name, ne, d0)
	if sum != nil && !sum.dependent {
		var out []State
		for _, res := range sum.results {
			ns := st.clone()
			ns.items = append(ns.items, res.items...)
			out = append(out, ns)
		}
		return joinStates(out)
	}
	// context-dependent: evaluate the body in the caller's context
	for _, n := range in.inline {
		if n == name {
			in.find("ST-BALANCE", "rule "+name+" depends on its caller's stack recursively", "rule "+name+" inspects values pushed by its callers and is recursive: not analysable", token.NoPos)
			return nil
		}
	}
	in.inline = append(in.inline, name)
	saveRule := in.curRule
	in.curRule = name
	out := in.eval(r.E, st)
	in.curRule = saveRule
	in.inline = in.inline[:len(in.inline)-1]
	return out
}

func (in *Interp) summary(name string, belowNE int, depth0 bool) *ruleSum {
	key := fmt.Sprintf("%s|%d|%v", name, belowNE, depth0)
	if in.inProgress[key] {
		if s, ok := in.sums[key]; ok {
			return s
		}
		return &ruleSum{}
	}
	if s, ok := in.sums[key]; ok && in.sumIter[key] == in.iter {
		return s
	}
	in.inProgress[key] = true
	saveRule, saveInline := in.curRule, in.inline
	in.curRule, in.inline = name, nil
	start := State{hasBelow: true, belowNE: belowNE, depth0: depth0}
	res := in.eval(in.G.ByName[name].E, start)
	in.curRule, in.inline = saveRule, saveInline
	delete(in.inProgress, key)
	sum := &ruleSum{}
	for _, r := range res {
		if r.touched {
			sum.dependent = true
			continue
		}
		if len(r.saved) != 0 {
			in.find("ST-FRAMES", "rule "+name+" leaves a saved frame behind", fmt.Sprintf("a derivation of rule %s saves a frame without restoring it", name), token.NoPos)
			continue
		}
		if !r.hasBelow {
			in.find("ST-FRAMES", "rule "+name+" ends in a different frame", fmt.Sprintf("a derivation of rule %s ends in another frame than it started in", name), token.NoPos)
			continue
		}
		sum.results = append(sum.results, r)
	}
	if !sum.dependent {
		// one net height on all derivations
		hs := map[int]bool{}
		for _, r := range sum.results {
			hs[len(r.items)] = true
		}
		if len(hs) > 1 {
			in.find("ST-BALANCE", "rule "+name+" has several net stack effects", fmt.Sprintf("derivations of rule %s leave different numbers of values on the stack", name), token.NoPos)
		}
		var eff []string
		for _, r := range sum.results {
			eff = append(eff, "+"+itemsKey(r.items))
		}
		sort.Strings(eff)
		in.RuleEffects[name] = strings.Join(eff, " or ")
	} else {
		in.RuleEffects[name] = "(depends on the caller's frame: evaluated in context)"
	}
	old := in.sums[key]
	if old == nil || sumKey(old) != sumKey(sum) {
		in.changed = true
	}
	in.sums[key] = sum
	in.sumIter[key] = in.iter
	return sum
}

func sumKey(s *ruleSum) string {
	var ks []string
	for _, r := range s.results {
		ks = append(ks, r.fullKey())
	}
	sort.Strings(ks)
	return fmt.Sprintf("%v:%s", s.dependent, strings.Join(ks, ";"))
}

// Run interprets the start rule on the empty stack until the rule summaries are stable.
func (in *Interp) Run() {
	start := in.G.Rules[0]
	for iter := 0; iter < 8; iter++ {
		in.changed = false
		in.iter = iter + 1
		in.findings = map[string]Finding{}
		in.Obligations = 0
		in.curRule = start.Name
		res := in.eval(start.E, State{depth0: true})
		for _, r := range res {
			if r.touched {
				continue
			}
			if len(r.items) != 0 || len(r.saved) != 0 {
				in.find("ST-BALANCE", "start rule leaves values on the stack", fmt.Sprintf("after a successful parse the value stack holds %s (saved frames: %d): must be empty", itemsKey(r.items), len(r.saved)), token.NoPos)
			}
		}
		if !in.changed {
			return
		}
	}
	in.find("ST-BALANCE", "rule summaries did not stabilise", "the abstract interpretation of the grammar did not reach a fixpoint", token.NoPos)
}

func (in *Interp) debugf(f string, a ...interface{}) {
	if in.Debug {
		fmt.Printf("stackty: "+f+"\n", a...)
	}
}
