// Package engine is the registry that ties rules to properties.
package engine

import (
	"sort"
	"sync"

	"verif/checker/internal/load"
	"verif/checker/internal/report"
)

// Context is what a rule sees: one loaded program plus a cache shared by
// the rules of the same load (e.g. the points-to fixpoint).
type Context struct {
	P     *load.Program
	Tier  string
	mu    sync.Mutex
	cache map[string]interface{}
}

func NewContext(p *load.Program, tier string) *Context {
	return &Context{P: p, Tier: tier, cache: map[string]interface{}{}}
}

// Memo computes a shared analysis once per context.
func (c *Context) Memo(key string, f func() interface{}) interface{} {
	c.mu.Lock()
	if v, ok := c.cache[key]; ok {
		c.mu.Unlock()
		return v
	}
	c.mu.Unlock()
	v := f() // may itself call Memo
	c.mu.Lock()
	c.cache[key] = v
	c.mu.Unlock()
	return v
}

// RuleFunc evaluates one rule. A rule may restrict a finding to some of the
// properties it serves through PropsOf.
type RuleFunc func(c *Context) *report.Rule

type entry struct {
	id string
	f  RuleFunc
}

var registry = map[string]RuleFunc{}

// findingProps optionally restricts a finding (by key) to properties.
var (
	fpMu         sync.Mutex
	findingProps = map[string][]string{}
)

func Register(id string, f RuleFunc) { registry[id] = f }

func Lookup(id string) RuleFunc { return registry[id] }

func RuleIDs() []string {
	var ids []string
	for id := range registry {
		ids = append(ids, id)
	}
	sort.Strings(ids)
	return ids
}

// Restrict records that finding f only concerns the given properties.
func Restrict(f *report.Finding, props ...string) {
	fpMu.Lock()
	defer fpMu.Unlock()
	findingProps[f.Key()] = props
}

// Inherits: a property that is decided only through necessary conditions shared with other
// properties is concerned by every finding that concerns one of those. C01 (retrieval returns
// exactly the selected nodes, in order) is broken by anything that breaks order (C07),
// composition (C08), filter logic (C09, C10), subscripts (C11), function application (C14) or
// member addressing (C16).
var Inherits = map[string][]string{
	"C01": {"C07", "C08", "C09", "C10", "C11", "C14", "C16"},
}

// ConcernsList reports whether a restriction list concerns property prop.
func ConcernsList(ps []string, prop string) bool {
	for _, p := range ps {
		if p == prop {
			return true
		}
		for _, q := range Inherits[prop] {
			if p == q {
				return true
			}
		}
	}
	return false
}

// Concerns reports whether finding f concerns property prop.
func Concerns(f report.Finding, prop string) bool {
	fpMu.Lock()
	defer fpMu.Unlock()
	ps, ok := findingProps[f.Key()]
	if !ok {
		return true
	}
	return ConcernsList(ps, prop)
}

// PropsOf returns the property restriction of a finding (nil = all properties of its rule).
func PropsOf(f report.Finding) []string {
	fpMu.Lock()
	defer fpMu.Unlock()
	return findingProps[f.Key()]
}
