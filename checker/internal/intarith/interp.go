package intarith

import (
	"fmt"
	"go/constant"
	"go/token"
	"go/types"
	"math"
	"math/big"
	"sort"
	"strings"

	"golang.org/x/tools/go/ssa"

	"verif/checker/internal/cfgutil"
	"verif/checker/internal/load"
)

const maxVars = 96

// term is variable + offset; variable 0 is the constant zero.
type term struct {
	v   int
	off int64
	ok  bool
}

// Obligation is one checked fact.
type Obligation struct {
	Rule      string // I-OVERFLOW, I-RANGE, I-BUF, I-PROGRESS, I-MAKE
	Construct string
	Pos       token.Pos
	OK        bool
	Assumed   bool
	Msg       string
}

// Analysis of one entry function.
type Analysis struct {
	P         *load.Program
	Entry     *ssa.Function
	minInt    int64
	maxInt    int64
	maxLen    int64
	vars      map[interface{}]int // ssa.Value or string (field path / length symbol) -> variable
	nvars     int
	lenVar    int // the srcLength parameter
	obl       map[string]*Obligation
	check     bool
	Problems  []string
	Paths     int
	depth     int
	Debug     bool
	lemmaUsed []string
	bodyHooks map[*ssa.If][]func(*state)
	hooked    map[*ssa.Phi]bool
	// OnLoopEntry is called with the state in which a loop is entered (header phis assigned from outside).
	OnLoopEntry func(fn *ssa.Function, l *cfgutil.Loop, entry *state)
	ptrAlias    map[*ssa.Parameter]string // pointer parameter of an inlined callee -> path of the argument
	outs        []outcome
}

type state struct {
	d       *dbm
	terms   map[ssa.Value]term // int-valued SSA values
	slen    map[ssa.Value]term // length of slice values
	conds   map[ssa.Value]cmp  // bool-valued comparisons
	lin     map[int]LinForm    // variable -> exact linear form over the input symbols (when known)
	flags   map[string]bool    // bool fields of the receiver tested on the way here
	ghost   int                // number of preserved ("ghost") variables on this path
	emitted []LinForm          // exactness mode: forms of the indexes stored outside loops, in order
	bconst  map[ssa.Value]bool // bool values known to be constant on this path (short-circuit phis, results of inlined predicates)
}

// LinForm is an exact linear form over input symbols: "L" (the length) and "field:<path>".
type LinForm struct {
	Coef  map[string]int64
	Const int64
}

func (f LinForm) clone() LinForm {
	n := LinForm{Coef: map[string]int64{}, Const: f.Const}
	for k, v := range f.Coef {
		n.Coef[k] = v
	}
	return n
}

func (f LinForm) add(g LinForm, sign int64) LinForm {
	n := f.clone()
	for k, v := range g.Coef {
		n.Coef[k] += sign * v
		if n.Coef[k] == 0 {
			delete(n.Coef, k)
		}
	}
	n.Const += sign * g.Const
	return n
}

// Sub returns f - g.
func (f LinForm) Sub(g LinForm) LinForm { return f.add(g, -1) }

// SameVars reports whether f and g have the same coefficients (constants may differ).
func (f LinForm) SameVars(g LinForm) bool {
	if len(f.Coef) != len(g.Coef) {
		return false
	}
	for k, v := range f.Coef {
		if g.Coef[k] != v {
			return false
		}
	}
	return true
}

func (f LinForm) String() string {
	var ks []string
	for k := range f.Coef {
		ks = append(ks, k)
	}
	sort.Strings(ks)
	out := ""
	for _, k := range ks {
		c := f.Coef[k]
		switch {
		case c == 1:
			out += "+" + k
		case c == -1:
			out += "-" + k
		default:
			out += fmt.Sprintf("%+d*%s", c, k)
		}
	}
	if f.Const != 0 || out == "" {
		out += fmt.Sprintf("%+d", f.Const)
	}
	return strings.TrimPrefix(out, "+")
}

// linOf returns the linear form of a term in state s.
func (a *Analysis) linOf(s *state, t term) (LinForm, bool) {
	if !t.ok {
		return LinForm{}, false
	}
	if t.v == 0 {
		return LinForm{Coef: map[string]int64{}, Const: t.off}, true
	}
	l, ok := s.lin[t.v]
	if !ok {
		return LinForm{}, false
	}
	n := l.clone()
	n.Const += t.off
	return n, true
}

type cmp struct {
	op   token.Token
	x, y term
}

// sliceNil reports whether the slice value v is, on this path, known to be nil (the nil
// constant) or known not to be (the result of make); bconst doubles as the store, keyed by the
// slice value (true = nil).
func sliceNil(s *state, v ssa.Value) (isNil, known bool) {
	if c, isC := v.(*ssa.Const); isC {
		return c.IsNil(), c.IsNil()
	}
	if _, isSlice := v.Type().Underlying().(*types.Slice); !isSlice {
		return false, false
	}
	b, ok := s.bconst[v]
	return b, ok
}

func (s *state) clone() *state {
	n := &state{d: s.d.clone(), terms: map[ssa.Value]term{}, slen: map[ssa.Value]term{}, conds: map[ssa.Value]cmp{}, lin: map[int]LinForm{}, flags: map[string]bool{}, ghost: s.ghost, emitted: append([]LinForm(nil), s.emitted...), bconst: map[ssa.Value]bool{}}
	for k, v := range s.bconst {
		n.bconst[k] = v
	}
	for k, v := range s.lin {
		n.lin[k] = v
	}
	for k, v := range s.flags {
		n.flags[k] = v
	}
	for k, v := range s.terms {
		n.terms[k] = v
	}
	for k, v := range s.slen {
		n.slen[k] = v
	}
	for k, v := range s.conds {
		n.conds[k] = v
	}
	return n
}

type outcome struct {
	st  *state
	ret ssa.Value // returned value (first result)
}

// New prepares the analysis of entry (a method getIndexes(length int) []int).
func New(p *load.Program, entry *ssa.Function) *Analysis {
	a := &Analysis{P: p, Entry: entry, vars: map[interface{}]int{}, nvars: 1, obl: map[string]*Obligation{}}
	intSize := p.Sizes.Sizeof(types.Typ[types.Int])
	if intSize == 4 {
		a.minInt, a.maxInt = math.MinInt32, math.MaxInt32
	} else {
		a.minInt, a.maxInt = math.MinInt64, math.MaxInt64
	}
	a.maxLen = a.maxInt / 16
	return a
}

func (a *Analysis) problem(f string, x ...interface{}) {
	a.Problems = append(a.Problems, fmt.Sprintf(f, x...))
}

func (a *Analysis) varFor(key interface{}) int {
	if v, ok := a.vars[key]; ok {
		return v
	}
	if a.nvars >= maxVars {
		a.problem("too many integer variables")
		return 0
	}
	v := a.nvars
	a.nvars++
	a.vars[key] = v
	return v
}

func (a *Analysis) oblige(rule, construct string, pos token.Pos, ok bool, msg string) {
	if !a.check {
		return
	}
	k := rule + "::" + construct
	o := a.obl[k]
	if o == nil {
		o = &Obligation{Rule: rule, Construct: construct, Pos: pos, OK: true}
		a.obl[k] = o
	}
	if !ok {
		o.OK = false
		if o.Msg == "" {
			o.Msg = msg
		}
	}
}

func (a *Analysis) assume(rule, construct string, pos token.Pos, msg string) {
	if !a.check {
		return
	}
	k := rule + "::" + construct
	if a.obl[k] == nil {
		a.obl[k] = &Obligation{Rule: rule, Construct: construct, Pos: pos, OK: true, Assumed: true, Msg: msg}
	}
}

// Obligations returns the recorded obligations.
func (a *Analysis) Obligations() []*Obligation {
	var out []*Obligation
	for _, o := range a.obl {
		out = append(out, o)
	}
	return out
}

func constInt(v ssa.Value) (int64, bool) {
	c, ok := v.(*ssa.Const)
	if !ok || c.Value == nil || c.Value.Kind() != constant.Int {
		return 0, false
	}
	return constant.Int64Val(c.Value)
}

func isInt(t types.Type) bool {
	b, ok := t.Underlying().(*types.Basic)
	return ok && b.Info()&types.IsInteger != 0
}

// termOf returns the term of an int SSA value in state s.
func (a *Analysis) termOf(s *state, v ssa.Value) term {
	if c, ok := constInt(v); ok {
		return term{0, c, true}
	}
	if t, ok := s.terms[v]; ok {
		return t
	}
	return term{}
}

// iv is an exact integer interval; every machine integer lies within [minInt, maxInt].
type iv struct{ lo, hi *big.Int }

func bi(v int64) *big.Int { return big.NewInt(v) }

func (a *Analysis) full() iv { return iv{bi(a.minInt), bi(a.maxInt)} }

func (a *Analysis) interval(s *state, t term) iv {
	r := a.full()
	if !t.ok {
		return r
	}
	if t.v == 0 {
		return iv{bi(t.off), bi(t.off)}
	}
	if b := s.d.m[t.v][0]; b != inf {
		h := new(big.Int).Add(bi(b), bi(t.off))
		// the variable itself is a machine integer
		vmax := bi(a.maxInt)
		if bi(b).Cmp(vmax) > 0 {
			h = new(big.Int).Add(vmax, bi(t.off))
		}
		r.hi = h
	} else {
		r.hi = new(big.Int).Add(bi(a.maxInt), bi(t.off))
	}
	if b := s.d.m[0][t.v]; b != inf {
		l := new(big.Int).Add(new(big.Int).Neg(bi(b)), bi(t.off))
		vmin := bi(a.minInt)
		if new(big.Int).Neg(bi(b)).Cmp(vmin) < 0 {
			l = new(big.Int).Add(vmin, bi(t.off))
		}
		r.lo = l
	} else {
		r.lo = new(big.Int).Add(bi(a.minInt), bi(t.off))
	}
	return r
}

// fits reports whether the interval lies within the machine int range.
func (a *Analysis) fits(x iv) bool {
	return x.lo.Cmp(bi(a.minInt)) >= 0 && x.hi.Cmp(bi(a.maxInt)) <= 0
}

func (x iv) String() string { return "[" + x.lo.String() + ", " + x.hi.String() + "]" }

func (x iv) add(y iv) iv { return iv{new(big.Int).Add(x.lo, y.lo), new(big.Int).Add(x.hi, y.hi)} }
func (x iv) neg() iv     { return iv{new(big.Int).Neg(x.hi), new(big.Int).Neg(x.lo)} }
func (x iv) sub(y iv) iv { return x.add(y.neg()) }
func (x iv) mul(y iv) iv {
	c := []*big.Int{new(big.Int).Mul(x.lo, y.lo), new(big.Int).Mul(x.lo, y.hi), new(big.Int).Mul(x.hi, y.lo), new(big.Int).Mul(x.hi, y.hi)}
	lo, hi := c[0], c[0]
	for _, v := range c[1:] {
		if v.Cmp(lo) < 0 {
			lo = v
		}
		if v.Cmp(hi) > 0 {
			hi = v
		}
	}
	return iv{lo, hi}
}

// i64 converts a bound to int64 for the matrix (saturating: weaker).
func i64hi(v *big.Int) int64 {
	if v.IsInt64() {
		return v.Int64()
	}
	if v.Sign() > 0 {
		return inf
	}
	return math.MinInt64 + 1
}

// bind gives SSA value v a fresh variable equal to term t (or an interval if t unknown).
func (a *Analysis) bind(s *state, v ssa.Value, t term) {
	if t.ok {
		s.terms[v] = t
		return
	}
	id := a.varFor(v)
	a.preserve(s, id)
	s.d.forget(id)
	delete(s.lin, id)
	s.terms[v] = term{id, 0, true}
}

// preserve keeps what is known about variable id under a fresh "ghost" variable before id is
// re-used for another value (the SSA values of an inlined helper are re-used by its next
// invocation). Only done for sum forms in exactness mode, where the bounds of e.g. value+len
// established by the first invocation are needed after the second one.
func (a *Analysis) preserve(s *state, id int) {
	if a.OnLoopEntry == nil {
		return
	}
	l, ok := s.lin[id]
	if !ok || len(l.Coef) < 2 {
		return
	}
	for j, lj := range s.lin {
		if j != id && lj.SameVars(l) {
			return
		}
	}
	g := a.varFor(fmt.Sprintf("ghost:%d", s.ghost))
	s.ghost++
	if g == 0 || g == id {
		return
	}
	s.d.forget(g)
	for k := 0; k < s.d.n; k++ {
		if k == g || k == id {
			continue
		}
		if b := s.d.m[id][k]; b != inf {
			s.d.m[g][k] = b
		}
		if b := s.d.m[k][id]; b != inf {
			s.d.m[k][g] = b
		}
	}
	s.lin[g] = l
}

// copyInto gives SSA value v its own variable equal to term t (all relations of t are kept).
func (a *Analysis) copyInto(s *state, v ssa.Value, t term) {
	if !t.ok {
		a.bind(s, v, term{})
		return
	}
	if t.v == 0 {
		s.terms[v] = t
		return
	}
	id := a.varFor(v)
	if id == t.v {
		s.terms[v] = t
		return
	}
	a.preserve(s, id)
	s.d.forget(id)
	for k := 0; k < s.d.n; k++ {
		if k == id {
			continue
		}
		if b := s.d.m[t.v][k]; b != inf {
			s.d.m[id][k] = addSat(b, t.off)
		}
		if b := s.d.m[k][t.v]; b != inf {
			s.d.m[k][id] = addSat(b, -t.off)
		}
	}
	s.d.m[id][t.v] = t.off
	s.d.m[t.v][id] = -t.off
	s.d.close()
	if l, ok := a.linOf(s, t); ok {
		s.lin[id] = l
	} else {
		delete(s.lin, id)
	}
	s.terms[v] = term{id, 0, true}
}

// fresh assigns v a new variable with the given interval and optional relational bounds.
func (a *Analysis) fresh(s *state, v ssa.Value, x iv) term {
	id := a.varFor(v)
	a.preserve(s, id)
	s.d.forget(id)
	delete(s.lin, id)
	if h := i64hi(x.hi); h != inf {
		s.d.constrain(id, 0, h)
	}
	nl := new(big.Int).Neg(x.lo)
	if h := i64hi(nl); h != inf {
		s.d.constrain(0, id, h)
	}
	t := term{id, 0, true}
	s.terms[v] = t
	return t
}

// relateIv adds  y.lo <= x - z <= y.hi  (x - z = y).
func (a *Analysis) relateIv(s *state, x, z term, y iv) {
	lo, hi := int64(math.MinInt64), int64(inf)
	if y.hi.IsInt64() {
		hi = y.hi.Int64()
	}
	if y.lo.IsInt64() && y.lo.Int64() != math.MinInt64 {
		lo = y.lo.Int64()
	}
	a.relate(s, x, z, lo, hi)
}

// relate adds  lo <= x - y <= hi  for terms.
func (a *Analysis) relate(s *state, x, y term, lo, hi int64) bool {
	if !x.ok || !y.ok {
		return true
	}
	// (xv + xo) - (yv + yo) <= hi  =>  xv - yv <= hi - xo + yo
	ok := true
	if hi != inf {
		c := addSat(addSat(hi, -x.off), y.off)
		if c != inf {
			ok = s.d.constrain(x.v, y.v, c) && ok
		}
	}
	if lo != math.MinInt64 {
		c := addSat(addSat(-lo, x.off), -y.off)
		if c != inf {
			ok = s.d.constrain(y.v, x.v, c) && ok
		}
	}
	return ok
}

// refine applies comparison c (or its negation) to the state; false if infeasible.
func (a *Analysis) refine(s *state, c cmp, truth bool) bool {
	op := c.op
	if !truth {
		switch op {
		case token.LSS:
			op = token.GEQ
		case token.LEQ:
			op = token.GTR
		case token.GTR:
			op = token.LEQ
		case token.GEQ:
			op = token.LSS
		case token.EQL:
			op = token.NEQ
		case token.NEQ:
			op = token.EQL
		}
	}
	switch op {
	case token.LSS:
		return a.relate(s, c.x, c.y, math.MinInt64, -1)
	case token.LEQ:
		return a.relate(s, c.x, c.y, math.MinInt64, 0)
	case token.GTR:
		return a.relate(s, c.y, c.x, math.MinInt64, -1)
	case token.GEQ:
		return a.relate(s, c.y, c.x, math.MinInt64, 0)
	case token.EQL:
		return a.relate(s, c.x, c.y, 0, 0)
	}
	return true
}

// fieldPath renders a load address as receiver-relative path, e.g. "recv.f3.f1".
func (a *Analysis) fieldPathOf(v ssa.Value, depth int) (string, bool) {
	if depth > 6 {
		return "", false
	}
	switch x := v.(type) {
	case *ssa.Parameter:
		if al, ok := a.ptrAlias[x]; ok {
			return al, true
		}
		if x == a.Entry.Params[0] {
			return "recv", true
		}
		return "recv:" + x.Name(), true
	case *ssa.FieldAddr:
		base, ok := a.fieldPathOf(x.X, depth+1)
		return fmt.Sprintf("%s.f%d", base, x.Field), ok
	case *ssa.UnOp:
		if x.Op == token.MUL {
			return a.fieldPathOf(x.X, depth+1)
		}
	}
	return "", false
}

// boolFieldCond: cond is a load of a bool field of the receiver (possibly negated); returns its path.
func (a *Analysis) boolFieldCond(cond ssa.Value) (string, bool) {
	neg := false
	for {
		u, ok := cond.(*ssa.UnOp)
		if !ok {
			return "", false
		}
		if u.Op == token.NOT {
			neg = !neg
			cond = u.X
			continue
		}
		if u.Op != token.MUL {
			return "", false
		}
		if b, isB := u.Type().Underlying().(*types.Basic); !isB || b.Kind() != types.Bool {
			return "", false
		}
		if _, isFA := u.X.(*ssa.FieldAddr); !isFA {
			return "", false
		}
		path, ok := a.fieldPathOf(u.X, 0)
		if !ok {
			return "", false
		}
		return path, neg
	}
}

// Run analyses the entry function for all inputs.
func (a *Analysis) Run() {
	fn := a.Entry
	if fn.Blocks == nil || len(fn.Params) != 2 {
		a.problem("entry %s is not a method with one int parameter", load.FuncName(fn))
		return
	}
	st := &state{d: newDBM(maxVars), terms: map[ssa.Value]term{}, slen: map[ssa.Value]term{}, conds: map[ssa.Value]cmp{}, lin: map[int]LinForm{}, flags: map[string]bool{}, bconst: map[ssa.Value]bool{}}
	a.lenVar = a.varFor(fn.Params[1])
	st.lin[a.lenVar] = LinForm{Coef: map[string]int64{"L": 1}}
	st.d.constrain(a.lenVar, 0, a.maxLen)
	st.d.constrain(0, a.lenVar, 0)
	st.terms[fn.Params[1]] = term{a.lenVar, 0, true}
	a.check = true
	outs := a.execFunc(fn, st)
	a.Paths = len(outs)
	a.outs = outs
}

func (a *Analysis) execFunc(fn *ssa.Function, st *state) []outcome {
	a.depth++
	defer func() { a.depth-- }()
	if a.depth > 6 {
		a.problem("call depth exceeded in %s", load.FuncName(fn))
		return nil
	}
	loops := cfgutil.Loops(fn)
	return a.execFrom(fn, loops, fn.Blocks[0], 0, nil, st, nil)
}

// applyPhis assigns the phis of block b for the edge pred -> b (parallel assignment).
func (a *Analysis) applyPhis(s *state, b, pred *ssa.BasicBlock) {
	idx := -1
	for i, p := range b.Preds {
		if p == pred {
			idx = i
		}
	}
	if idx < 0 {
		return
	}
	type asg struct {
		phi  *ssa.Phi
		t    term
		sl   term
		isSl bool
	}
	var as []asg
	for _, ins := range b.Instrs {
		ph, ok := ins.(*ssa.Phi)
		if !ok {
			break
		}
		e := ph.Edges[idx]
		if bt, isB := ph.Type().Underlying().(*types.Basic); isB && bt.Kind() == types.Bool {
			delete(s.bconst, ph)
			delete(s.conds, ph)
			if c, isC := e.(*ssa.Const); isC && c.Value != nil {
				s.bconst[ph] = c.Value.String() == "true"
			} else if v, known := s.bconst[e]; known {
				s.bconst[ph] = v
			} else if cm, known := s.conds[e]; known {
				s.conds[ph] = cm
			}
			continue
		}
		if isInt(ph.Type()) {
			as = append(as, asg{phi: ph, t: a.termOf(s, e)})
		} else if _, isSlice := ph.Type().Underlying().(*types.Slice); isSlice {
			if l, ok := s.slen[e]; ok {
				as = append(as, asg{phi: ph, sl: l, isSl: true})
			}
			if s.bconst != nil {
				isNil, known := sliceNil(s, e)
				delete(s.bconst, ph)
				if known {
					s.bconst[ph] = isNil
				}
			}
		}
	}
	// materialise: each phi gets its own variable equal to the incoming term (evaluated before any update)
	type pending struct {
		phi *ssa.Phi
		id  int
		r   iv
		src term
	}
	var ps []pending
	for _, x := range as {
		if x.isSl {
			s.slen[x.phi] = x.sl
			continue
		}
		p := pending{phi: x.phi, id: a.varFor(x.phi), src: x.t}
		p.r = a.interval(s, x.t)
		ps = append(ps, p)
	}
	// capture relations of sources to all variables before forgetting
	old := s.d.clone()
	for _, p := range ps {
		s.d.forget(p.id)
	}
	for _, p := range ps {
		if p.src.ok && p.src.v != 0 {
			// new phi var = old(src.v) + off : copy row/col from the old matrix
			for k := 0; k < old.n; k++ {
				if k == p.id {
					continue
				}
				// skip relations to variables that are themselves being reassigned (handled pairwise below)
				reassigned := false
				for _, q := range ps {
					if q.id == k {
						reassigned = true
					}
				}
				if reassigned {
					continue
				}
				if old.m[p.src.v][k] != inf {
					c := addSat(old.m[p.src.v][k], p.src.off)
					if c < s.d.m[p.id][k] {
						s.d.m[p.id][k] = c
					}
				}
				if old.m[k][p.src.v] != inf {
					c := addSat(old.m[k][p.src.v], -p.src.off)
					if c < s.d.m[k][p.id] {
						s.d.m[k][p.id] = c
					}
				}
			}
		} else {
			if h := i64hi(p.r.hi); h != inf {
				s.d.m[p.id][0] = h
			}
			if h := i64hi(new(big.Int).Neg(p.r.lo)); h != inf {
				s.d.m[0][p.id] = h
			}
		}
	}
	// pairwise relations between simultaneously assigned phis
	for i, p := range ps {
		for j, q := range ps {
			if i == j || !p.src.ok || !q.src.ok {
				continue
			}
			var c int64 = inf
			if p.src.v == q.src.v {
				c = p.src.off - q.src.off
			} else if old.m[p.src.v][q.src.v] != inf {
				c = addSat(addSat(old.m[p.src.v][q.src.v], p.src.off), -q.src.off)
			}
			if c < s.d.m[p.id][q.id] {
				s.d.m[p.id][q.id] = c
			}
		}
	}
	s.d.close()
	newLin := map[int]LinForm{}
	for _, p := range ps {
		if l, ok := a.linOf(s, p.src); ok {
			newLin[p.id] = l
		}
	}
	for _, p := range ps {
		if l, ok := newLin[p.id]; ok {
			s.lin[p.id] = l
		} else {
			delete(s.lin, p.id)
		}
		s.terms[p.phi] = term{p.id, 0, true}
	}
}

func loopOf(loops []*cfgutil.Loop, b *ssa.BasicBlock) *cfgutil.Loop {
	for _, l := range loops {
		if l.Header == b {
			return l
		}
	}
	return nil
}

// execFrom executes from instruction idx of block b (entered from pred) to the function's returns.
// inLoop != nil restricts execution to that loop: reaching its header again or leaving it ends the path
// (collected by the caller through the collect callback).
func (a *Analysis) execFrom(fn *ssa.Function, loops []*cfgutil.Loop, b *ssa.BasicBlock, idx int, pred *ssa.BasicBlock, st *state, lc *loopCtx) []outcome {
	if idx < 0 {
		idx = 0
	} else if idx == 0 {
		// entering a loop header from outside: solve the loop first
		if l := loopOf(loops, b); l != nil && (lc == nil || lc.loop != l) && (pred == nil || !l.Blocks[pred]) {
			return a.solveLoop(fn, loops, l, pred, st, lc)
		}
		if pred != nil {
			a.applyPhis(st, b, pred)
		}
	}
	for i := idx; i < len(b.Instrs); i++ {
		ins := b.Instrs[i]
		switch x := ins.(type) {
		case *ssa.Phi:
			continue
		case *ssa.Call:
			if sc := x.Call.StaticCallee(); sc != nil && a.P.InPkg(sc) && sc.Blocks != nil && !x.Call.IsInvoke() {
				// inline
				cst := st.clone()
				for k, prm := range sc.Params {
					if k < len(x.Call.Args) {
						if _, isPtr := prm.Type().Underlying().(*types.Pointer); isPtr {
							if path, ok := a.fieldPathOf(x.Call.Args[k], 0); ok {
								if a.ptrAlias == nil {
									a.ptrAlias = map[*ssa.Parameter]string{}
								}
								a.ptrAlias[prm] = path
							}
						}
					}
					if k < len(x.Call.Args) && isInt(prm.Type()) {
						t := a.termOf(cst, x.Call.Args[k])
						if !t.ok {
							a.bind(cst, prm, term{})
						} else {
							cst.terms[prm] = t
						}
					}
				}
				var outs []outcome
				for _, o := range a.execFunc(sc, cst) {
					ns := o.st
					if o.ret != nil && isInt(x.Type()) {
						// the callee's SSA values are reused by its next invocation: give the
						// call's result its own variable
						a.copyInto(ns, x, a.termOf(ns, o.ret))
					}
					if o.ret != nil {
						if _, isSlice := x.Type().Underlying().(*types.Slice); isSlice && ns.bconst != nil {
							isNil, known := sliceNil(ns, o.ret)
							delete(ns.bconst, x)
							if known {
								ns.bconst[x] = isNil
							}
						}
						if bt, isB := x.Type().Underlying().(*types.Basic); isB && bt.Kind() == types.Bool {
							delete(ns.bconst, x)
							delete(ns.conds, x)
							if c, isC := o.ret.(*ssa.Const); isC && c.Value != nil {
								ns.bconst[x] = c.Value.String() == "true"
							} else if v, known := ns.bconst[o.ret]; known {
								ns.bconst[x] = v
							} else if cm, known := ns.conds[o.ret]; known {
								ns.conds[x] = cm
							}
						}
					}
					outs = append(outs, a.execFrom(fn, loops, b, i+1, pred, ns, lc)...)
				}
				return outs
			}
			a.transferCall(st, x)
		case *ssa.If:
			var outs []outcome
			c, known := st.conds[x.Cond]
			flagPath, flagNeg := a.boolFieldCond(x.Cond)
			bv, bknown := st.bconst[x.Cond]
			for k, succ := range b.Succs {
				if bknown && bv != (k == 0) {
					continue // the condition is a known constant on this path
				}
				ns := st.clone()
				if flagPath != "" {
					val := (k == 0) != flagNeg
					if old, has := ns.flags[flagPath]; has && old != val {
						continue // the same flag was tested the other way before
					}
					ns.flags[flagPath] = val
				}
				if known && !a.refine(ns, c, k == 0) {
					if a.Debug {
						fmt.Printf("intarith: infeasible edge %s block %d -> %d (cond %s)\n", fn.Name(), b.Index, succ.Index, x.Cond)
					}
					continue // infeasible
				}
				if k == 0 {
					for _, hook := range a.bodyHooks[x] {
						hook(ns)
					}
				}
				outs = append(outs, a.follow(fn, loops, b, succ, ns, lc)...)
			}
			return outs
		case *ssa.Jump:
			return a.follow(fn, loops, b, b.Succs[0], st, lc)
		case *ssa.Return:
			var ret ssa.Value
			if len(x.Results) > 0 {
				ret = x.Results[0]
			}
			return []outcome{{st, ret}}
		case *ssa.Panic:
			return nil
		default:
			a.transfer(fn, st, ins)
		}
	}
	return nil
}

type loopCtx struct {
	loop  *cfgutil.Loop
	back  []*state // states arriving at the header through back edges (after phi assignment)
	exits []exitState
}

type exitState struct {
	from, to *ssa.BasicBlock
	st       *state
}

func (a *Analysis) follow(fn *ssa.Function, loops []*cfgutil.Loop, from, to *ssa.BasicBlock, st *state, lc *loopCtx) []outcome {
	if lc != nil {
		if to == lc.loop.Header {
			a.applyPhis(st, to, from)
			lc.back = append(lc.back, st)
			return nil
		}
		if !lc.loop.Blocks[to] {
			lc.exits = append(lc.exits, exitState{from, to, st})
			return nil
		}
	}
	return a.execFrom(fn, loops, to, 0, from, st, lc)
}

// solveLoop computes an invariant at the header of l and continues from its exits.
func (a *Analysis) solveLoop(fn *ssa.Function, loops []*cfgutil.Loop, l *cfgutil.Loop, pred *ssa.BasicBlock, st *state, outer *loopCtx) []outcome {
	entry := st.clone()
	if pred != nil {
		a.applyPhis(entry, l.Header, pred)
	}
	if a.OnLoopEntry != nil && a.check {
		a.OnLoopEntry(fn, l, entry)
	}
	// header phis vary from iteration to iteration: their entry forms do not hold in the invariant
	for _, ins := range l.Header.Instrs {
		if ph, ok := ins.(*ssa.Phi); ok {
			if t, has := entry.terms[ph]; has {
				delete(entry.lin, t.v)
			}
		}
	}
	inv := entry
	saveCheck := a.check
	a.check = false
	stable := false
	a.applyCountLemma(fn, l, pred, inv)
	for iter := 0; iter < 12; iter++ {
		lc := &loopCtx{loop: l}
		a.execFrom(fn, loops, l.Header, -1, nil, inv.clone(), lc)
		next := inv
		for _, b := range lc.back {
			next = &state{d: joinDBM(next.d, b.d), terms: next.terms, slen: next.slen, conds: next.conds, lin: next.lin, flags: next.flags}
		}
		if iter >= 2 {
			next = &state{d: widenDBM(inv.d, next.d), terms: next.terms, slen: next.slen, conds: next.conds, lin: next.lin, flags: next.flags}
		}
		next.d.close()
		// the iteration-count lemma does not depend on the fixpoint: it holds at the header in any case
		a.applyCountLemma(fn, l, pred, next)
		if leqDBM(next.d, inv.d) && leqDBM(inv.d, next.d) {
			stable = true
			break
		}
		inv = next
	}
	a.check = saveCheck
	if !stable {
		a.problem("loop invariant in %s did not stabilise", load.FuncName(fn))
	}
	// final pass with obligations on, collecting exits
	lc := &loopCtx{loop: l}
	a.execFrom(fn, loops, l.Header, -1, nil, inv.clone(), lc)
	// progress: every back-edge state must have moved the induction variable towards the bound
	a.checkProgress(fn, l, inv, lc)
	var outs []outcome
	for _, e := range lc.exits {
		outs = append(outs, a.follow(fn, loops, e.from, e.to, e.st, outer)...)
	}
	return outs
}

// checkProgress: I-PROGRESS for counted loops: the header condition compares an induction phi with a bound,
// and along every back edge the phi changes by an amount whose interval excludes 0, in the direction of the bound.
func (a *Analysis) checkProgress(fn *ssa.Function, l *cfgutil.Loop, inv *state, lc *loopCtx) {
	h := l.Header
	ifi, ok := h.Instrs[len(h.Instrs)-1].(*ssa.If)
	construct := fmt.Sprintf("%s loop", load.FuncName(fn))
	if !ok {
		a.oblige("I-PROGRESS", construct, h.Instrs[0].Pos(), false, "loop without a header condition")
		return
	}
	bo, ok := ifi.Cond.(*ssa.BinOp)
	if !ok {
		a.oblige("I-PROGRESS", construct, ifi.Pos(), false, "loop condition is not a comparison")
		return
	}
	var ph *ssa.Phi
	up := false
	switch bo.Op {
	case token.LSS, token.LEQ:
		ph = phiOf(bo.X)
		up = true
		if ph == nil {
			ph = phiOf(bo.Y)
			up = false
		}
	case token.GTR, token.GEQ:
		ph = phiOf(bo.X)
		up = false
		if ph == nil {
			ph = phiOf(bo.Y)
			up = true
		}
	}
	if ph == nil || ph.Block() != h {
		a.oblige("I-PROGRESS", construct, ifi.Pos(), false, "loop condition does not test an induction variable of the loop")
		return
	}
	// for each back edge: new value - old value
	old := inv.terms[ph]
	ok2 := true
	for _, b := range lc.back {
		// in b, the phi variable holds the new value; compare with the incoming edge expression evaluated before: use bounds of (edge value - old phi)
		// applyPhis already overwrote the phi var; recover the step from the edge value's definition
		_ = b
	}
	for i, e := range ph.Edges {
		if !l.Blocks[h.Preds[i]] {
			continue
		}
		step, okS := a.stepOf(e, ph)
		if !okS {
			ok2 = false
			continue
		}
		// evaluate the step's interval in the invariant refined by the loop condition (inside the body)
		body := inv.clone()
		tx, ty := a.termOf(body, bo.X), a.termOf(body, bo.Y)
		if tx.ok && ty.ok {
			a.refine(body, cmp{bo.Op, tx, ty}, true)
		}
		// other in-loop facts: none needed; the step operand is loop-invariant or defined before
		r := a.interval(body, a.stepTerm(body, step))
		if up {
			if r.lo.Sign() <= 0 {
				ok2 = false
			}
		} else {
			if r.hi.Sign() >= 0 {
				ok2 = false
			}
		}
	}
	_ = old
	a.oblige("I-PROGRESS", construct, ifi.Pos(), ok2, "the loop variable does not provably move towards the bound by a non-zero amount on every iteration (the loop may not terminate)")
}

// stepOf: e == ph + step  → step value.
func (a *Analysis) stepOf(e ssa.Value, ph *ssa.Phi) (ssa.Value, bool) {
	bo, ok := e.(*ssa.BinOp)
	if !ok {
		return nil, false
	}
	switch bo.Op {
	case token.ADD:
		if bo.X == ssa.Value(ph) {
			return bo.Y, true
		}
		if bo.Y == ssa.Value(ph) {
			return bo.X, true
		}
	}
	return nil, false
}

func (a *Analysis) transferCall(st *state, x *ssa.Call) {
	if bin, ok := x.Call.Value.(*ssa.Builtin); ok {
		switch bin.Name() {
		case "len":
			if l, ok := st.slen[x.Call.Args[0]]; ok {
				st.terms[x] = l
				return
			}
			a.fresh(st, x, iv{bi(0), bi(a.maxLen)})
			return
		case "append":
			return
		}
	}
	if isInt(x.Type()) {
		a.bind(st, x, term{})
	}
}

func (a *Analysis) ovf(st *state, ins ssa.Instruction, fn *ssa.Function, r iv, what string) {
	ok := a.fits(r)
	a.oblige("I-OVERFLOW", fmt.Sprintf("%s: %s", load.FuncName(fn), what), ins.Pos(), ok,
		fmt.Sprintf("the result of %s can lie outside the machine integer range (abstract value %s)", what, r))
}

func (a *Analysis) transfer(fn *ssa.Function, st *state, ins ssa.Instruction) {
	switch x := ins.(type) {
	case *ssa.UnOp:
		switch x.Op {
		case token.MUL:
			if isInt(x.Type()) {
				if path, ok := a.fieldPathOf(x.X, 0); ok {
					id := a.varFor("field:" + path)
					if _, has := st.lin[id]; !has {
						st.lin[id] = LinForm{Coef: map[string]int64{"field:" + path: 1}}
					}
					st.terms[x] = term{id, 0, true}
					return
				}
				a.bind(st, x, term{})
			}
		case token.SUB:
			if isInt(x.Type()) {
				t := a.termOf(st, x.X)
				r := a.interval(st, t).neg()
				a.ovf(st, x, fn, r, opName(x))
				wrapped := !a.fits(r)
				if wrapped {
					r = a.full()
				}
				lt, okl := a.linOf(st, t)
				res := a.fresh(st, x, r)
				if okl && !wrapped {
					st.lin[res.v] = LinForm{Coef: map[string]int64{}}.add(lt, -1)
				}
			}
		}
	case *ssa.BinOp:
		if !isInt(x.X.Type()) {
			// slice == nil / slice != nil where the slice is, on this path, the nil constant or
			// the result of make (a buffer helper that returns nil for an empty range)
			if x.Op == token.EQL || x.Op == token.NEQ {
				for _, pr := range [][2]ssa.Value{{x.X, x.Y}, {x.Y, x.X}} {
					if c, isC := pr[1].(*ssa.Const); isC && c.IsNil() {
						if isNil, known := sliceNil(st, pr[0]); known && st.bconst != nil {
							st.bconst[x] = isNil == (x.Op == token.EQL)
						}
					}
				}
			}
			return
		}
		tx, ty := a.termOf(st, x.X), a.termOf(st, x.Y)
		switch x.Op {
		case token.LSS, token.LEQ, token.GTR, token.GEQ, token.EQL, token.NEQ:
			if tx.ok && ty.ok {
				st.conds[x] = cmp{x.Op, tx, ty}
			}
			return
		case token.ADD, token.SUB:
			ix, iy := a.interval(st, tx), a.interval(st, ty)
			var r iv
			if x.Op == token.ADD {
				r = ix.add(iy)
			} else {
				r = ix.sub(iy)
			}
			a.ovf(st, x, fn, r, opName(x))
			if !a.fits(r) {
				a.bind(st, x, term{}) // wrapped: anything
				return
			}
			// exact forms
			if tx.ok && ty.ok && ty.v == 0 {
				off := ty.off
				if x.Op == token.SUB {
					off = -off
				}
				st.terms[x] = term{tx.v, tx.off + off, true}
				return
			}
			if tx.ok && ty.ok && tx.v == 0 && x.Op == token.ADD {
				st.terms[x] = term{ty.v, ty.off + tx.off, true}
				return
			}
			lx, okx := a.linOf(st, tx)
			ly, oky := a.linOf(st, ty)
			res := a.fresh(st, x, r)
			if okx && oky {
				sign := int64(1)
				if x.Op == token.SUB {
					sign = -1
				}
				st.lin[res.v] = lx.add(ly, sign)
			}
			if x.Op == token.ADD {
				a.relateIv(st, res, tx, iy) // r - x = y
				a.relateIv(st, res, ty, ix)
			} else {
				a.relateIv(st, res, tx, iy.neg()) // r - x = -y
			}
		case token.MUL, token.QUO, token.REM, token.SHL, token.SHR, token.AND, token.OR, token.XOR:
			ix, iy := a.interval(st, tx), a.interval(st, ty)
			if x.Op == token.MUL {
				r := ix.mul(iy)
				a.ovf(st, x, fn, r, opName(x))
				if a.fits(r) {
					a.fresh(st, x, r)
					return
				}
			}
			if x.Op == token.QUO || x.Op == token.REM {
				zero := iy.lo.Sign() <= 0 && iy.hi.Sign() >= 0
				a.oblige("I-OVERFLOW", fmt.Sprintf("%s: %s (zero divisor)", load.FuncName(fn), opName(x)), x.Pos(), !zero, "the divisor can be zero (integer divide by zero panic)")
				if !zero && iy.lo.Sign() > 0 && ix.lo.Sign() >= 0 {
					a.fresh(st, x, iv{bi(0), ix.hi})
					return
				}
			}
			a.bind(st, x, term{})
		}
	case *ssa.MakeSlice:
		tl := a.termOf(st, x.Len)
		r := a.interval(st, tl)
		okMake := r.lo.Sign() >= 0 && r.hi.Cmp(bi(a.maxInt/2)) <= 0
		a.oblige("I-MAKE", fmt.Sprintf("%s: %s", load.FuncName(fn), "make length"), x.Pos(), okMake,
			fmt.Sprintf("the length passed to make can be negative or huge (abstract value %s): makeslice panics", r))
		if tl.ok {
			st.slen[x] = tl
		}
		if st.bconst != nil {
			st.bconst[x] = false // make never returns nil
		}
	case *ssa.Slice:
		// result[:k] / arr[:]
		if x.High != nil {
			if t := a.termOf(st, x.High); t.ok {
				st.slen[x] = t
			}
			// bound check of the slice expression: 0 <= high <= cap
			if base, ok := st.slen[x.X]; ok {
				th := a.termOf(st, x.High)
				okS := th.ok && a.leq(st, term{0, 0, true}, th) && a.leq(st, th, base)
				if a.Debug && !okS {
					fmt.Printf("intarith: slice bound fail %s th=%+v base=%+v iv(th)=%s m[th][base]=%d m[0][th]=%d\n", fn.Name(), th, base, a.interval(st, th), st.d.m[th.v][base.v], st.d.m[0][th.v])
				}
				a.oblige("I-BUF", fmt.Sprintf("%s: reslice of the index buffer", load.FuncName(fn)), x.Pos(), okS, "the slice bound can exceed the buffer length (slice bounds out of range)")
			}
		} else if al, ok := x.X.(*ssa.Alloc); ok {
			if at, ok := al.Type().(*types.Pointer).Elem().(*types.Array); ok {
				st.slen[x] = term{0, at.Len(), true}
			}
		} else if l, ok := st.slen[x.X]; ok {
			st.slen[x] = l
		}
	case *ssa.IndexAddr:
		// handled at the store
	case *ssa.Store:
		ia, ok := x.Addr.(*ssa.IndexAddr)
		if !ok || !isInt(x.Val.Type()) {
			return
		}
		// buffer bound
		ti := a.termOf(st, ia.Index)
		switch bt := ia.X.Type().Underlying().(type) {
		case *types.Slice:
			if l, ok := st.slen[ia.X]; ok {
				okB := ti.ok && a.leq(st, term{0, 0, true}, ti) && a.lt(st, ti, l)
				desc := a.loopIsDescending(fn, x)
				construct := fmt.Sprintf("%s: store into the index buffer", load.FuncName(fn))
				if !okB && desc {
					a.assume("I-BUF", construct, x.Pos(), "descending loop: the bound count + i <= start is a sum invariant outside the zone domain (assumed)")
				} else {
					a.oblige("I-BUF", construct, x.Pos(), okB, "the index written can lie outside the pre-sized buffer (index out of range)")
				}
			}
		case *types.Pointer:
			_ = bt
		}
		// every int stored into an []int of these functions is a produced index: 0 <= v <= len-1
		tv := a.termOf(st, x.Val)
		if a.OnLoopEntry != nil && fn == a.Entry && !st.flags["#loop"] {
			if f, okf := a.linOf(st, tv); okf {
				st.emitted = append(st.emitted, f)
			} else {
				st.emitted = append(st.emitted, LinForm{Coef: map[string]int64{"?": 1}})
			}
		}
		lenT := term{a.lenVar, 0, true}
		okR := tv.ok && a.leq(st, term{0, 0, true}, tv) && a.lt(st, tv, lenT)
		a.oblige("I-RANGE", fmt.Sprintf("%s: produced index", load.FuncName(fn)), x.Pos(), okR,
			fmt.Sprintf("an index outside [0, length-1] can be produced (abstract value %s); callers index the array with it unchecked", a.interval(st, tv)))
	}
}

func (a *Analysis) loopIsDescending(fn *ssa.Function, ins ssa.Instruction) bool {
	for _, l := range cfgutil.Loops(fn) {
		if !l.Blocks[ins.Block()] {
			continue
		}
		if ifi, ok := l.Header.Instrs[len(l.Header.Instrs)-1].(*ssa.If); ok {
			if bo, ok := ifi.Cond.(*ssa.BinOp); ok && (bo.Op == token.GTR || bo.Op == token.GEQ) {
				if _, isPhi := bo.X.(*ssa.Phi); isPhi {
					return true
				}
			}
		}
	}
	return false
}

// leq: x <= y provable in st.
func (a *Analysis) leq(st *state, x, y term) bool {
	if !x.ok || !y.ok {
		return false
	}
	if x.v == y.v {
		return x.off <= y.off
	}
	b := st.d.m[x.v][y.v]
	if b == inf {
		return false
	}
	// xv - yv <= b  ⇒  (xv+xo) - (yv+yo) <= b + xo - yo
	return addSat(addSat(b, x.off), -y.off) <= 0
}

func (a *Analysis) lt(st *state, x, y term) bool {
	return a.leq(st, term{x.v, x.off + 1, x.ok}, y)
}

// applyCountLemma strengthens the header invariant of a counted loop with the iteration-count lemma:
// if i starts at i0, changes by s <= -1 (resp. s >= 1) on every back edge, the loop runs only while
// i > e (resp. i < e) with e loop-invariant, and c starts at 0 and is incremented by exactly 1 on every
// back edge, then at the header c <= max(0, i0 - e) (resp. max(0, e - i0)) — each iteration consumes at
// least one of the i0-e integers strictly between e and i0. Hence for every variable z:
// c - z <= max(0 - z, (i0 - z) + (0 - e)).
func (a *Analysis) applyCountLemma(fn *ssa.Function, l *cfgutil.Loop, pred *ssa.BasicBlock, inv *state) {
	h := l.Header
	ifi, ok := h.Instrs[len(h.Instrs)-1].(*ssa.If)
	if !ok || pred == nil {
		return
	}
	bo, ok := ifi.Cond.(*ssa.BinOp)
	if !ok || !l.Blocks[h.Succs[0]] {
		return
	}
	iph, ok := bo.X.(*ssa.Phi)
	if !ok || iph.Block() != h {
		return
	}
	desc := bo.Op == token.GTR || bo.Op == token.GEQ
	asc := bo.Op == token.LSS || bo.Op == token.LEQ
	if !desc && !asc {
		return
	}
	slack := int64(0)
	if bo.Op == token.GEQ || bo.Op == token.LEQ {
		slack = 1
	}
	// the bound must be loop-invariant
	if ins, isIns := bo.Y.(ssa.Instruction); isIns && l.Blocks[ins.Block()] {
		return
	}
	predIdx := -1
	for i, p := range h.Preds {
		if p == pred {
			predIdx = i
		}
	}
	if predIdx < 0 {
		return
	}
	// i: every back edge adds a step of the right sign
	body := inv.clone()
	tx, ty := a.termOf(body, bo.X), a.termOf(body, bo.Y)
	if !tx.ok || !ty.ok {
		return
	}
	a.refine(body, cmp{bo.Op, tx, ty}, true)
	for i, e := range iph.Edges {
		if !l.Blocks[h.Preds[i]] {
			continue
		}
		step, okS := a.stepOf(e, iph)
		if !okS {
			return
		}
		r := a.interval(body, a.stepTerm(body, step))
		if a.Debug {
			fmt.Printf("intarith: lemma %s step interval %s desc=%v\n", fn.Name(), r, desc)
		}
		if desc && r.hi.Sign() >= 0 {
			return
		}
		if asc && r.lo.Sign() <= 0 {
			return
		}
	}
	i0 := a.termOf(inv, iph.Edges[predIdx])
	e := ty
	if !i0.ok {
		return
	}
	// counters: phis starting at 0 and incremented by exactly 1 on every back edge
	for _, ins := range h.Instrs {
		cph, isPhi := ins.(*ssa.Phi)
		if !isPhi {
			break
		}
		if cph == iph || !isInt(cph.Type()) {
			continue
		}
		if c0, okc := constInt(cph.Edges[predIdx]); !okc || c0 != 0 {
			continue
		}
		counter := true
		for i, ed := range cph.Edges {
			if !l.Blocks[h.Preds[i]] {
				continue
			}
			st, okS := a.stepOf(ed, cph)
			if !okS {
				counter = false
				break
			}
			if cv, okc := constInt(st); !okc || cv != 1 {
				counter = false
			}
		}
		if !counter {
			continue
		}
		tc := inv.terms[cph]
		if a.Debug {
			fmt.Printf("intarith: lemma %s counter %s term %+v i0=%+v e=%+v m[i0][len]=%d m[0][e]=%d\n", fn.Name(), cph.Comment, tc, i0, e, inv.d.m[i0.v][a.lenVar], inv.d.m[0][e.v])
		}
		if !tc.ok || tc.v == 0 {
			continue
		}
		// c - z <= max(m[0][z], m[a][z] + m[0][b] + offsets) where (a,b) = (i0,e) descending, (e,i0) ascending
		hiT, loT := i0, e
		if asc {
			hiT, loT = e, i0
		}
		for z := 0; z < inv.d.n; z++ {
			if z == tc.v {
				continue
			}
			b1 := inv.d.m[0][z]
			var b2 int64 = inf
			if hz, lz := inv.d.m[hiT.v][z], inv.d.m[0][loT.v]; (hz != inf || hiT.v == z) && (lz != inf || loT.v == 0) {
				if hiT.v == z {
					hz = 0
				}
				if loT.v == 0 {
					lz = 0
				}
				b2 = addSat(addSat(addSat(hz, hiT.off), addSat(lz, -loT.off)), slack)
			}
			bound := b1
			if b2 > bound {
				bound = b2
			}
			if bound != inf {
				c := addSat(bound, -tc.off)
				if c < inv.d.m[tc.v][z] {
					inv.d.m[tc.v][z] = c
				}
			}
		}
		inv.d.close()
		// inside the body (before the increment) one more of the integers between e and i0 is still unused;
		// the hook re-reads the terms from the state it is applied to (they differ between partitions)
		if a.bodyHooks == nil {
			a.bodyHooks = map[*ssa.If][]func(*state){}
			a.hooked = map[*ssa.Phi]bool{}
		}
		if !a.hooked[cph] {
			a.hooked[cph] = true
			cphC, i0V, eV, ascC, slackC := cph, iph.Edges[predIdx], bo.Y, asc, slack
			a.bodyHooks[ifi] = append(a.bodyHooks[ifi], func(st *state) {
				tcC, ok1 := st.terms[cphC]
				ti0, te := a.termOf(st, i0V), a.termOf(st, eV)
				if !ok1 || !tcC.ok || tcC.v == 0 || !ti0.ok || !te.ok {
					return
				}
				hiC, loC := ti0, te
				if ascC {
					hiC, loC = te, ti0
				}
				for z := 0; z < st.d.n; z++ {
					if z == tcC.v {
						continue
					}
					hz, lz := st.d.m[hiC.v][z], st.d.m[0][loC.v]
					if hiC.v == z {
						hz = 0
					}
					if loC.v == 0 {
						lz = 0
					}
					if hz == inf || lz == inf {
						continue
					}
					b := addSat(addSat(addSat(addSat(hz, hiC.off), addSat(lz, -loC.off)), slackC), -1)
					c := addSat(b, -tcC.off)
					if c < st.d.m[tcC.v][z] {
						st.d.m[tcC.v][z] = c
					}
				}
				st.d.close()
			})
		}
		a.lemmaUsed = append(a.lemmaUsed, fmt.Sprintf("%s: counter %s bounded by the iteration-count lemma", load.FuncName(fn), cph.Comment))
	}
}

// stepTerm resolves a step operand: an SSA int value, or a load of a receiver field inside the loop.
func (a *Analysis) stepTerm(s *state, v ssa.Value) term {
	if t := a.termOf(s, v); t.ok {
		return t
	}
	if ld, ok := v.(*ssa.UnOp); ok && ld.Op == token.MUL {
		if path, ok := a.fieldPathOf(ld.X, 0); ok {
			if id, seen := a.vars["field:"+path]; seen {
				return term{id, 0, true}
			}
		}
	}
	return term{}
}

// LemmaUsed lists the applications of the iteration-count lemma.
func (a *Analysis) LemmaUsed() []string { return a.lemmaUsed }

// opName names an arithmetic instruction by operator and ordinal within its function (stable under
// renumbering of SSA registers elsewhere in the function only as far as the order of operations is).
func opName(ins ssa.Instruction) string {
	kind := func(i ssa.Instruction) string {
		switch y := i.(type) {
		case *ssa.BinOp:
			switch y.Op {
			case token.ADD:
				return "addition"
			case token.SUB:
				return "subtraction"
			case token.MUL:
				return "multiplication"
			case token.QUO:
				return "division"
			case token.REM:
				return "remainder"
			}
			return ""
		case *ssa.UnOp:
			if y.Op == token.SUB {
				return "negation"
			}
		}
		return ""
	}
	k := kind(ins)
	n := 0
	for _, b := range ins.Parent().Blocks {
		for _, i := range b.Instrs {
			if kind(i) == k && k != "" {
				n++
				if i == ins {
					return fmt.Sprintf("%s #%d (%s)", k, n, strings.TrimSpace(ins.String()))
				}
			}
		}
	}
	return strings.TrimSpace(ins.String())
}

// phiOf: v is a phi, or phi + constant (the pre-incremented index of go/ssa's range loops).
func phiOf(v ssa.Value) *ssa.Phi {
	if p, ok := v.(*ssa.Phi); ok {
		return p
	}
	if bo, ok := v.(*ssa.BinOp); ok && bo.Op == token.ADD {
		if p, ok := bo.X.(*ssa.Phi); ok {
			if _, isC := constInt(bo.Y); isC {
				return p
			}
		}
	}
	return nil
}
