package intarith

import (
	"go/token"
	"math/big"

	"golang.org/x/tools/go/ssa"

	"verif/checker/internal/cfgutil"
	"verif/checker/internal/load"
)

// LoopEntry describes, for one execution partition, the enumeration loop of an index generator at
// the moment it is entered: the linear forms of its first value, its bound and its step over the
// input symbols, the receiver flags tested on the way, and the abstract state for bound queries.
type LoopEntry struct {
	Fn      *ssa.Function
	Header  *ssa.BasicBlock
	Op      token.Token // comparison under which the loop continues: induction OP bound
	Start   LinForm
	End     LinForm
	Step    LinForm
	StartOK bool
	EndOK   bool
	StepOK  bool
	Flags   map[string]bool
	// structure of the body
	StoresInduction bool // the induction value itself is stored at buffer[counter]
	CounterOK       bool // counter starts at 0 and is incremented by one per iteration
	Region
}

// Region is the abstract state of one partition, for bound queries.
type Region struct {
	a  *Analysis
	st *state
}

// Emitted returns the forms of the indexes the partition stored outside loops, in order.
func (le Region) Emitted() []LinForm { return le.st.emitted }

// Exactness runs the analysis of entry and returns one LoopEntry per partition and loop.
func Exactness(p *load.Program, entry *ssa.Function) ([]*LoopEntry, []Region, []string, int) {
	a := New(p, entry)
	var out []*LoopEntry
	a.OnLoopEntry = func(fn *ssa.Function, l *cfgutil.Loop, st *state) {
		if fn != entry {
			return
		}
		h := l.Header
		ifi, ok := h.Instrs[len(h.Instrs)-1].(*ssa.If)
		if !ok {
			return
		}
		bo, ok := ifi.Cond.(*ssa.BinOp)
		if !ok {
			return
		}
		ph, ok := bo.X.(*ssa.Phi)
		if !ok || ph.Block() != h {
			return
		}
		le := &LoopEntry{Fn: fn, Header: h, Op: bo.Op, Flags: map[string]bool{}, Region: Region{a: a, st: st.clone()}}
		st.flags["#loop"] = true
		if !l.Blocks[h.Succs[0]] {
			return // continues on the false edge: not the canonical form
		}
		for k, v := range st.flags {
			le.Flags[k] = v
		}
		le.Start, le.StartOK = a.linOf(st, a.termOf(st, ph))
		le.End, le.EndOK = a.linOf(st, a.termOf(st, bo.Y))
		// step: the in-loop edges of the induction phi are phi + stepV
		for i, e := range ph.Edges {
			if !l.Blocks[h.Preds[i]] {
				continue
			}
			add, ok := e.(*ssa.BinOp)
			if !ok || add.Op != token.ADD || add.X != ssa.Value(ph) {
				le.StepOK = false
				break
			}
			f, ok := a.linOf(st, a.termOf(st, add.Y))
			if !ok {
				// a field of the receiver re-read on every iteration
				if ld, isLd := add.Y.(*ssa.UnOp); isLd && ld.Op == token.MUL && isInt(ld.Type()) {
					if path, okp := a.fieldPathOf(ld.X, 0); okp {
						f, ok = LinForm{Coef: map[string]int64{"field:" + path: 1}}, true
					}
				}
			}
			if !ok {
				le.StepOK = false
				break
			}
			le.Step, le.StepOK = f, true
		}
		// body: buffer[counter] = induction ; counter = counter + 1 ; counter starts at 0
		for b := range l.Blocks {
			for _, ins := range b.Instrs {
				st2, ok := ins.(*ssa.Store)
				if !ok {
					continue
				}
				ia, ok := st2.Addr.(*ssa.IndexAddr)
				if !ok {
					continue
				}
				cnt, ok := ia.Index.(*ssa.Phi)
				if !ok || cnt.Block() != h {
					continue
				}
				if st2.Val == ssa.Value(ph) {
					le.StoresInduction = true
				}
				okc := true
				for i, e := range cnt.Edges {
					if !l.Blocks[h.Preds[i]] {
						if c, isC := constInt(e); !isC || c != 0 {
							okc = false
						}
						continue
					}
					add, isAdd := e.(*ssa.BinOp)
					if !isAdd || add.Op != token.ADD || add.X != ssa.Value(cnt) {
						okc = false
						continue
					}
					if c, isC := constInt(add.Y); !isC || c != 1 {
						okc = false
					}
				}
				le.CounterOK = okc
			}
		}
		out = append(out, le)
	}
	a.Run()
	// partitions that return without entering the enumeration loop
	var skipped []Region
	for _, o := range a.outs {
		if !o.st.flags["#loop"] {
			skipped = append(skipped, Region{a: a, st: o.st})
		}
	}
	return out, skipped, a.Problems, a.Paths
}

// Bounds returns the interval the abstract state gives for the value of form f (through any
// variable that holds a form with the same coefficients); ok=false when no variable holds it.
func (le Region) Bounds(f LinForm) (lo, hi *big.Int, ok bool) {
	if len(f.Coef) == 0 {
		return big.NewInt(f.Const), big.NewInt(f.Const), true
	}
	for id, l := range le.st.lin {
		if !l.SameVars(f) {
			continue
		}
		x := le.a.interval(le.st, term{id, f.Const - l.Const, true})
		if !ok {
			lo, hi, ok = x.lo, x.hi, true
			continue
		}
		if x.lo.Cmp(lo) > 0 {
			lo = x.lo
		}
		if x.hi.Cmp(hi) < 0 {
			hi = x.hi
		}
	}
	return
}

// DiffUpper returns an upper bound of X - Y for two input symbols ("L" or "field:<path>").
func (le Region) DiffUpper(x, y string) (int64, bool) {
	vx, okx := le.symVar(x)
	vy, oky := le.symVar(y)
	if !okx || !oky {
		return 0, false
	}
	b := le.st.d.m[vx][vy]
	if b == inf {
		return 0, false
	}
	return b, true
}

func (le Region) symVar(sym string) (int, bool) {
	if sym == "L" {
		return le.a.lenVar, true
	}
	v, ok := le.a.vars[sym]
	return v, ok
}

// Infeasible reports whether the partition's constraints are contradictory.
func (le Region) Infeasible() bool {
	for i := 0; i < le.st.d.n; i++ {
		if le.st.d.m[i][i] < 0 {
			return true
		}
	}
	return false
}

// EqualInRegion reports whether forms f and g denote the same value for every input of the partition.
func (le Region) EqualInRegion(f, g LinForm) bool {
	d := f.add(g, -1)
	if len(d.Coef) == 0 {
		return d.Const == 0
	}
	lo, hi, ok := le.Bounds(d)
	return ok && lo.Sign() == 0 && hi.Sign() == 0
}

// FormOf returns the exact linear form the partition holds for SSA value v, if any.
func (le Region) FormOf(v ssa.Value) (LinForm, bool) {
	st := le.st.clone()
	t := le.a.termOf(st, v)
	if !t.ok {
		return LinForm{}, false
	}
	return le.a.linOf(st, t)
}

// ValueLeq reports whether x <= y holds for the two SSA values on every input of the partition.
func (le Region) ValueLeq(x, y ssa.Value) bool {
	st := le.st.clone()
	tx, ty := le.a.termOf(st, x), le.a.termOf(st, y)
	return tx.ok && ty.ok && le.a.leq(st, tx, ty)
}

// Flags returns the receiver flags tested on the way to the partition's end.
func (le Region) Flags() map[string]bool { return le.st.flags }
