// Package intarith is a zone (difference-bound matrix) abstract interpreter
// with trace partitioning over the subscript arithmetic (DESIGN.md §3.G).
package intarith

import "math"

const inf = math.MaxInt64

// addSat adds two bounds; saturation always weakens the bound (sound).
func addSat(a, b int64) int64 {
	if a == inf || b == inf {
		return inf
	}
	s := a + b
	if a > 0 && b > 0 && s < 0 {
		return inf
	}
	if a < 0 && b < 0 && s >= 0 {
		return math.MinInt64 + 1
	}
	return s
}

// dbm: m[i][j] is an upper bound of v_i - v_j; variable 0 is the constant zero.
type dbm struct {
	n int
	m [][]int64
}

func newDBM(n int) *dbm {
	d := &dbm{n: n, m: make([][]int64, n)}
	for i := range d.m {
		d.m[i] = make([]int64, n)
		for j := range d.m[i] {
			if i != j {
				d.m[i][j] = inf
			}
		}
	}
	return d
}

func (d *dbm) clone() *dbm {
	c := &dbm{n: d.n, m: make([][]int64, d.n)}
	for i := range d.m {
		c.m[i] = append([]int64(nil), d.m[i]...)
	}
	return c
}

// close computes the shortest-path closure; returns false if inconsistent.
func (d *dbm) close() bool {
	n := d.n
	for k := 0; k < n; k++ {
		mk := d.m[k]
		for i := 0; i < n; i++ {
			ik := d.m[i][k]
			if ik == inf {
				continue
			}
			mi := d.m[i]
			for j := 0; j < n; j++ {
				if mk[j] == inf {
					continue
				}
				s := addSat(ik, mk[j])
				if s < mi[j] {
					mi[j] = s
				}
			}
		}
	}
	for i := 0; i < n; i++ {
		if d.m[i][i] < 0 {
			return false
		}
	}
	return true
}

// constrain adds v_i - v_j <= c; returns false if the state becomes inconsistent.
func (d *dbm) constrain(i, j int, c int64) bool {
	if i == j {
		return c >= 0
	}
	if c < d.m[i][j] {
		d.m[i][j] = c
		return d.close()
	}
	return true
}

// forget removes all constraints on variable v.
func (d *dbm) forget(v int) {
	for k := 0; k < d.n; k++ {
		if k != v {
			d.m[v][k] = inf
			d.m[k][v] = inf
		}
	}
	d.m[v][v] = 0
}

// bounds returns the interval of variable v (lo, hi); lo = -inf is math.MinInt64.
func (d *dbm) bounds(v int) (int64, int64) {
	hi := d.m[v][0]
	lo := int64(math.MinInt64)
	if d.m[0][v] != inf {
		if d.m[0][v] == math.MinInt64 {
			lo = math.MaxInt64
		} else {
			lo = -d.m[0][v]
		}
	}
	return lo, hi
}

func joinDBM(a, b *dbm) *dbm {
	c := a.clone()
	for i := range c.m {
		for j := range c.m[i] {
			if b.m[i][j] > c.m[i][j] {
				c.m[i][j] = b.m[i][j]
			}
		}
	}
	return c
}

// widen keeps the constraints of old that new still satisfies.
func widenDBM(old, nw *dbm) *dbm {
	c := old.clone()
	for i := range c.m {
		for j := range c.m[i] {
			if nw.m[i][j] > old.m[i][j] {
				c.m[i][j] = inf
			}
		}
	}
	for i := range c.m {
		c.m[i][i] = 0
	}
	return c
}

func leqDBM(a, b *dbm) bool { // a ⊑ b : every constraint of b holds in a
	for i := range a.m {
		for j := range a.m[i] {
			if a.m[i][j] > b.m[i][j] {
				return false
			}
		}
	}
	return true
}
